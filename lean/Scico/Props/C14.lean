/-
  Property C14 — linear-system and scalar solver primitives meet their contracts.
  ONLY property theorems (and their non-vacuity examples) here; lemmas are in
  `Scico/Proofs/LinSolve{CG,Mat,Scalar}.lean`, the executable model in `Scico/Model/LinSolve.lean`.

  Conventions: `𝕜` is ℝ or ℂ (`RCLike`), `V` any inner-product space over `𝕜` (so ℝⁿ, ℂⁿ, arrays of any
  shape, block arrays); `K` any field (matrix identities) resp. any linearly ordered field (bisect, golden).
-/
import Scico.Proofs.LinSolveCG
import Scico.Proofs.LinSolveMat
import Scico.Proofs.LinSolveScalar
import Scico.Proofs.LinSolveCGConj
import Scico.Proofs.LinSolveCGOpt
import Scico.Proofs.LinSolveCGRate
import Scico.Proofs.LinSolveJax
import Scico.Proofs.LinSolveScalar2
import Mathlib.Analysis.InnerProductSpace.Basic
import Mathlib.Tactic.NormNum
import Mathlib.Topology.Order.IntermediateValue
import Mathlib.Topology.Algebra.Order.Field
import Mathlib.Topology.MetricSpace.Pseudo.Defs

namespace Scico.Props.C14
open Scico Scico.LinSolve RCLike

section CG
variable {𝕜 V : Type} [RCLike 𝕜] [NormedAddCommGroup V] [InnerProductSpace 𝕜 V]

/-- **CG loop invariant, every iteration count.**  For any linear `A`, any map `M`, any `b, x0`, any
    tolerance and any `maxiter`: every state the `while` loop of `scico.solver.cg` visits (hence also the
    returned one) satisfies `r = b − A x`, `z = M r`, `num = ⟪r, z⟫`. -/
theorem C14_cg_invariant (A : V →ₗ[𝕜] V) (M : V → V) (b x0 : V) (tolsq : ℝ) (maxiter : Nat) :
    ∀ s ∈ cgRun (rcOps 𝕜 V) A M maxiter tolsq maxiter (cgInit (rcOps 𝕜 V) A M b x0),
      s.r = b - A s.x ∧ s.z = M s.r ∧ s.num = inner 𝕜 s.r s.z := by
  intro s hs
  have := cgRun_inv A M b maxiter tolsq maxiter _ (cgInit_inv (𝕜 := 𝕜) A M b x0) s hs
  exact ⟨this.res, this.pre, this.num⟩

/-- **What `cg` returns.**  With `r = b − A x` the residual of the *returned* `x` and `num = ⟪r, M r⟫`:
    `info.rel_res = sqrt(num).real / ‖b‖`, `num_iter ≤ maxiter`, and the loop was left because
    `num_iter = maxiter` or because `num > max(tol‖b‖, atol)²` is false (jax's lexicographic `>`). -/
theorem C14_cg_exit (A : V →ₗ[𝕜] V) (M : V → V) (b x0 : V) (tol atol : ℝ) (maxiter : Nat) :
    let out := cg (rcOps 𝕜 V) A M b x0 tol atol maxiter
    let r := b - A out.1
    let num : 𝕜 := inner 𝕜 r (M r)
    out.2.relRes = (rcOps 𝕜 V).sqrtRe num / ‖b‖ ∧ out.2.numIter ≤ maxiter ∧
      (out.2.numIter = maxiter ∨
        ¬ (cgTolSq tol atol ‖b‖ < re num ∨ (cgTolSq tol atol ‖b‖ = re num ∧ 0 < im num))) :=
  cg_spec A M b x0 tol atol maxiter

/-- for a Hermitian positive semi-definite preconditioner `num` is real and non-negative, so the reported
    value is `√⟪r, M r⟫ / ‖b‖` (the `M`-weighted residual) and the exit test is `⟪r, M r⟫ ≤ max(tol‖b‖, atol)²` -/
theorem C14_cg_exit_precond (A : V →ₗ[𝕜] V) (M : V → V) (hMs : ∀ x y, inner 𝕜 (M x) y = inner 𝕜 x (M y))
    (hMp : ∀ x, 0 ≤ re (inner 𝕜 x (M x))) (b x0 : V) (tol atol : ℝ) (maxiter : Nat) :
    let out := cg (rcOps 𝕜 V) A M b x0 tol atol maxiter
    let r := b - A out.1
    out.2.relRes = Real.sqrt (re (inner 𝕜 r (M r))) / ‖b‖ ∧
      (out.2.numIter = maxiter ∨ re (inner 𝕜 r (M r)) ≤ (max (tol * ‖b‖) atol) ^ 2) := by
  intro out r
  obtain ⟨h1, _, h3⟩ := cg_spec A M b x0 tol atol maxiter
  have him := im_inner_symm M hMs r
  refine ⟨by rw [h1, sqrtRe_of_real_nonneg _ him (hMp r)], ?_⟩
  rcases h3 with h | h
  · exact Or.inl h
  · right
    push Not at h
    have := h.1
    simpa [cgTolSq, sq] using this

/-- **`M = None`: the reported `rel_res` is the true relative residual of the returned `x`** (`b ≠ 0`
    is only needed for the quotient to make sense), and the solver stopped because the budget was used up
    or because `‖b − A x‖ ≤ max(tol ‖b‖, atol)`. -/
theorem C14_cg_rel_res_true (A : V →ₗ[𝕜] V) (b x0 : V) (tol atol : ℝ) (maxiter : Nat) (hb : b ≠ 0)
    (htol : 0 ≤ max (tol * ‖b‖) atol) :
    let out := cg (rcOps 𝕜 V) A (fun v => v) b x0 tol atol maxiter
    out.2.relRes * ‖b‖ = ‖b - A out.1‖ ∧
      (out.2.numIter = maxiter ∨ ‖b - A out.1‖ ≤ max (tol * ‖b‖) atol) := by
  intro out
  obtain ⟨h1, h2⟩ := cg_spec_noprecond A b x0 tol atol maxiter htol
  refine ⟨?_, h2⟩
  rw [h1, div_mul_cancel₀ _ (norm_ne_zero_iff.2 hb)]

/-- **zero right-hand side** (where the code's `rel_res` is `0/0` or `x/0`, i.e. NaN/inf, and no relative
    residual exists): the returned `x` still meets the absolute stopping rule `‖A x‖ ≤ atol`, unless
    `maxiter` iterations were used. -/
theorem C14_cg_zero_rhs (A : V →ₗ[𝕜] V) (x0 : V) (tol atol : ℝ) (maxiter : Nat) (hatol : 0 ≤ atol) :
    let out := cg (rcOps 𝕜 V) A (fun v => v) (0 : V) x0 tol atol maxiter
    out.2.numIter = maxiter ∨ ‖A out.1‖ ≤ atol := by
  intro out
  have h := (cg_spec_noprecond (𝕜 := 𝕜) A (0 : V) x0 tol atol maxiter (by simp [hatol])).2
  simpa [hatol] using h

/-- **Non-zero starting point that already solves the system** (`A x0 = b`, any `x0`, any preconditioner, any tolerances, any
    `maxiter`): the initial residual is `b − A x0 = 0`, the loop body is never entered, `cg` returns `x0` itself with `num_iter = 0`.
    (The stopping reference is `‖b‖`, not `‖r₀‖`: with the latter the test `0 > (tol·0)²` would also be false, but for `r₀ ≠ 0` the two
    rules differ — `C14_cg_exit` states the rule with `‖b‖` for every `x0`.) -/
theorem C14_cg_start_at_solution (A : V →ₗ[𝕜] V) (M : V → V) (b x0 : V) (h : A x0 = b) (tol atol : ℝ) (maxiter : Nat) :
    (cg (rcOps 𝕜 V) A M b x0 tol atol maxiter).1 = x0 ∧ (cg (rcOps 𝕜 V) A M b x0 tol atol maxiter).2.numIter = 0 := by
  have hnum : (cgInit (rcOps 𝕜 V) (⇑A) M b x0).num = 0 := by
    simp [cgInit, rcOps, h]
  have hcond : cgCond (rcOps 𝕜 V) maxiter (cgTolSq tol atol ‖b‖) (cgInit (rcOps 𝕜 V) (⇑A) M b x0) = false := by
    have ht := cgTolSq_nonneg tol atol ‖b‖
    have hg : (rcOps 𝕜 V).gtReal (0 : 𝕜) (cgTolSq tol atol ‖b‖) = false := by
      simp [rcOps, not_lt.2 ht]
    unfold cgCond
    rw [hnum, hg, Bool.and_false]
  have hloop : cgLoop (rcOps 𝕜 V) (⇑A) M maxiter (cgTolSq tol atol ‖b‖) maxiter (cgInit (rcOps 𝕜 V) (⇑A) M b x0)
      = cgInit (rcOps 𝕜 V) (⇑A) M b x0 := by
    cases maxiter with
    | zero => rfl
    | succ k => rw [cgLoop, hcond]; rfl
  constructor
  · show (cgLoop (rcOps 𝕜 V) (⇑A) M maxiter (cgTolSq tol atol ‖b‖) maxiter (cgInit (rcOps 𝕜 V) (⇑A) M b x0)).x = x0
    rw [hloop]; rfl
  · show (cgLoop (rcOps 𝕜 V) (⇑A) M maxiter (cgTolSq tol atol ‖b‖) maxiter (cgInit (rcOps 𝕜 V) (⇑A) M b x0)).ii = 0
    rw [hloop]; rfl

/-- **No division by zero.**  For Hermitian positive-definite `A` and Hermitian `M`, as long as the loop
    condition holds (with a non-negative threshold) both denominators of the next step — `⟪p, A p⟫` for
    `alpha` and `num` for `beta` — are non-zero. -/
theorem C14_cg_no_breakdown (A : V →ₗ[𝕜] V) (M : V → V) (b x0 : V)
    (hAs : ∀ x y, inner 𝕜 (A x) y = inner 𝕜 x (A y)) (hAp : ∀ x, x ≠ 0 → 0 < re (inner 𝕜 x (A x)))
    (hM : ∀ x y, inner 𝕜 (M x) y = inner 𝕜 x (M y)) (maxiter : Nat) (tolsq : ℝ) (htol : 0 ≤ tolsq) (j : Nat)
    (hj : ∀ i ≤ j, cgCond (rcOps 𝕜 V) maxiter tolsq ((cgStep (rcOps 𝕜 V) A M)^[i] (cgInit (rcOps 𝕜 V) A M b x0)) = true) :
    let s := (cgStep (rcOps 𝕜 V) A M)^[j] (cgInit (rcOps 𝕜 V) A M b x0)
    s.num ≠ 0 ∧ inner 𝕜 s.p (A s.p) ≠ 0 :=
  cg_no_breakdown A M b x0 hAs hAp hM maxiter tolsq htol j hj

/-- **Fixed-iteration variant (`flax.inverse.cg_solver`)**: after any number `k` of scan steps
    `r = b − A x` and `num = ⟪r, r⟫`. -/
theorem C14_cgscan_invariant (A : V →ₗ[𝕜] V) (b x0 : V) (k : Nat) :
    let s := scanIter (rcOps 𝕜 V) A k (scanInit (rcOps 𝕜 V) A b x0)
    s.r = b - A s.x ∧ s.num = inner 𝕜 s.r s.r := by
  intro s
  have := scanIter_inv A b k (scanInit (rcOps 𝕜 V) A b x0) ⟨rfl, rfl⟩
  exact ⟨this.res, this.num⟩

/-- `cg_solver` has no stopping test, but its two quotients are guarded (`jnp.where(den == 0, 0, num/den)`):
    started at an exact solution (`A x0 = b`, e.g. `b = 0`, `x0 = 0`) it returns `x0` for every `maxiter` — in
    particular no `0/0` is ever evaluated.  (Before repo commit 3eb0efe the unguarded quotients gave NaN there.) -/
theorem C14_cgscan_stays_at_solution (A : V →ₗ[𝕜] V) (b x0 : V) (h : A x0 = b) (maxiter : Nat) :
    cgScan (rcOps 𝕜 V) A b x0 maxiter = x0 := by
  unfold cgScan
  rw [scanIter_fixed A _ (by simp [scanInit, h]) (by simp [scanInit, h]) (by simp [scanInit, rcOps, h])]
  rfl

/-- **`lstsq`**: the system it hands to `cg` is `Aᴴ A x = Aᴴ b`, and `x` solves it iff `x` minimises
    `‖A x − b‖` — for real and complex `A` alike, `AH` being the adjoint (`Aop.H`). -/
theorem C14_lstsq {U : Type} [NormedAddCommGroup U] [InnerProductSpace 𝕜 U]
    (A : V →ₗ[𝕜] U) (AH : U →ₗ[𝕜] V) (hadj : ∀ x y, inner 𝕜 (A x) y = inner 𝕜 x (AH y)) (b : U) (x : V) :
    ((lstsqSys (⇑A) (⇑AH) b).1 x = AH (A x) ∧ (lstsqSys (⇑A) (⇑AH) b).2 = AH b) ∧
    ((lstsqSys (⇑A) (⇑AH) b).1 x = (lstsqSys (⇑A) (⇑AH) b).2 ↔ ∀ x', ‖A x - b‖ ≤ ‖A x' - b‖) :=
  ⟨⟨rfl, rfl⟩, lstsq_normal_iff_argmin A AH hadj b x⟩

-- non-vacuity: on V = ℝ the map x ↦ 2x is Hermitian positive definite, the identity is Hermitian
example : ∃ A : ℝ →ₗ[ℝ] ℝ, (∀ x y, inner ℝ (A x) y = inner ℝ x (A y)) ∧ (∀ x, x ≠ 0 → 0 < re (inner ℝ x (A x))) := by
  refine ⟨(2 : ℝ) • LinearMap.id, ?_, ?_⟩
  · intro x y; simp [inner]; ring
  · intro x hx
    have : 0 < x * x := mul_self_pos.2 hx
    simp [inner]; nlinarith

/-! ### classical CG theory for the loop of `scico.solver.cg` (round 2)

`cgSeq A M b x0 j` is the state after `j` loop bodies.  The hypothesis `num_j ≠ 0` is what the loop test guarantees for
every body it executes (`num > max(tol‖b‖, atol)² ≥ 0`, lemma `num_ne_zero_of_cond`). -/

/-- **Orthogonality and conjugacy, by induction over the iteration count.**  For Hermitian positive-definite `A` and
    Hermitian `M` (real and complex), as long as `num_j ≠ 0` for `j < k`: for all `j < i ≤ k` the residual `r_i` is
    orthogonal to the earlier search direction `p_j` and `M`-orthogonal to the earlier residual `r_j`
    (`M = None`: the residuals are mutually orthogonal), and the search directions are `A`-conjugate. -/
theorem C14_cg_conjugacy (A : V →ₗ[𝕜] V) (M : V → V) (b x0 : V)
    (hAs : ∀ x y, inner 𝕜 (A x) y = inner 𝕜 x (A y)) (hAp : ∀ x, x ≠ 0 → 0 < re (inner 𝕜 x (A x)))
    (hM : ∀ x y, inner 𝕜 (M x) y = inner 𝕜 x (M y)) (k : Nat)
    (hrun : ∀ j < k, (cgSeq (𝕜 := 𝕜) (⇑A) M b x0 j).num ≠ 0) (i j : Nat) (hji : j < i) (hik : i ≤ k) :
    inner 𝕜 (cgSeq (𝕜 := 𝕜) (⇑A) M b x0 i).r (cgSeq (𝕜 := 𝕜) (⇑A) M b x0 j).p = 0 ∧
    inner 𝕜 (cgSeq (𝕜 := 𝕜) (⇑A) M b x0 i).p (A (cgSeq (𝕜 := 𝕜) (⇑A) M b x0 j).p) = 0 ∧
    inner 𝕜 (cgSeq (𝕜 := 𝕜) (⇑A) M b x0 i).r (M (cgSeq (𝕜 := 𝕜) (⇑A) M b x0 j).r) = 0 := by
  have hC := cgConj (A := A) (M := M) (b := b) (x0 := x0) hAs hAp hM k hrun
  refine ⟨hC.rp i j hji hik, hC.pAp i j hji hik, ?_⟩
  rw [← (hC.inv j (by omega)).pre]
  exact inner_z_of_inner_p (A := A) (M := M) (b := b) (x0 := x0) _ j (hC.rp i j hji hik)
    (fun j' hj' => hC.rp i j' (by omega) hik)

/-- **Every executed body decreases the `A`-norm of the error**, by exactly `num² / ⟪p, A p⟫`: with `A x⋆ = b`,
    `‖x⋆ − x_{k+1}‖²_A = ‖x⋆ − x_k‖²_A − num_k² / ⟪p_k, A p_k⟫ < ‖x⋆ − x_k‖²_A`. -/
theorem C14_cg_error_decreases (A : V →ₗ[𝕜] V) (M : V → V) (b x0 xs : V) (hxs : A xs = b)
    (hAs : ∀ x y, inner 𝕜 (A x) y = inner 𝕜 x (A y)) (hAp : ∀ x, x ≠ 0 → 0 < re (inner 𝕜 x (A x)))
    (hM : ∀ x y, inner 𝕜 (M x) y = inner 𝕜 x (M y)) (k : Nat)
    (hrun : ∀ j ≤ k, (cgSeq (𝕜 := 𝕜) (⇑A) M b x0 j).num ≠ 0) :
    let errA := fun x : V => re (inner 𝕜 (xs - x) (A (xs - x)))
    let s := cgSeq (𝕜 := 𝕜) (⇑A) M b x0 k
    errA (cgSeq (𝕜 := 𝕜) (⇑A) M b x0 (k + 1)).x = errA s.x - (re s.num) ^ 2 / re (inner 𝕜 s.p (A s.p)) ∧
      errA (cgSeq (𝕜 := 𝕜) (⇑A) M b x0 (k + 1)).x < errA s.x := by
  intro errA s
  have hC := cgConj (A := A) (M := M) (b := b) (x0 := x0) hAs hAp hM k (fun j hj => hrun j (by omega))
  have hinv := hC.inv k le_rfl
  have hnum := hrun k le_rfl
  obtain ⟨hden, _⟩ := cgStep_inv2' A M b hAs hAp hM s hinv hnum
  have heq := cgStep_errA A M b xs hxs hAs s hinv hden
  rw [← cgSeq_succ] at heq
  refine ⟨heq, ?_⟩
  have hp : s.p ≠ 0 := by
    intro h0; apply hden; rw [h0]; simp
  have hdpos := hAp s.p hp
  have hre : re s.num ≠ 0 := by
    intro h0
    apply hnum
    rw [← re_add_im s.num, hinv.real, h0]; simp
  have : 0 < (re s.num) ^ 2 / re (inner 𝕜 s.p (A s.p)) := div_pos (by positivity) hdpos
  have heq' : errA (cgSeq (𝕜 := 𝕜) (⇑A) M b x0 (k + 1)).x = errA s.x - (re s.num) ^ 2 / re (inner 𝕜 s.p (A s.p)) := heq
  rw [heq']; linarith

/-- **CG is optimal over the search space.**  With `A x⋆ = b`: for every `v` in the span of the directions `p_0 … p_{k-1}` used
    so far, `‖x⋆ − (x_k + v)‖²_A = ‖x⋆ − x_k‖²_A + ‖v‖²_A ≥ ‖x⋆ − x_k‖²_A` — the `k`-th iterate minimises the `A`-norm of
    the error over `x_k + span{p_j}` (`= x_0 +` the Krylov space). -/
theorem C14_cg_optimal (A : V →ₗ[𝕜] V) (M : V → V) (b x0 xs : V) (hxs : A xs = b)
    (hAs : ∀ x y, inner 𝕜 (A x) y = inner 𝕜 x (A y)) (hAp : ∀ x, x ≠ 0 → 0 < re (inner 𝕜 x (A x)))
    (hM : ∀ x y, inner 𝕜 (M x) y = inner 𝕜 x (M y)) (k : Nat)
    (hrun : ∀ j < k, (cgSeq (𝕜 := 𝕜) (⇑A) M b x0 j).num ≠ 0) (v : V)
    (hv : v ∈ Submodule.span 𝕜 (Set.range fun j : Fin k => (cgSeq (𝕜 := 𝕜) (⇑A) M b x0 j.val).p)) :
    let xk := (cgSeq (𝕜 := 𝕜) (⇑A) M b x0 k).x
    re (inner 𝕜 (xs - (xk + v)) (A (xs - (xk + v)))) = re (inner 𝕜 (xs - xk) (A (xs - xk))) + re (inner 𝕜 v (A v)) ∧
      re (inner 𝕜 (xs - xk) (A (xs - xk))) ≤ re (inner 𝕜 (xs - (xk + v)) (A (xs - (xk + v)))) :=
  cg_optimal A M b x0 xs hxs hAs hAp hM k hrun v hv

/-- **Convergence rate** (no preconditioner).  If `m ‖v‖² ≤ ⟪v, A v⟫ ≤ L ‖v‖²` with `0 < m ≤ L` (so `κ = L/m`), then while the loop
    runs `‖x⋆ − x_k‖²_A ≤ (1 − m/L)^k ‖x⋆ − x_0‖²_A`, i.e. `‖e_k‖_A ≤ (1 − 1/κ)^{k/2} ‖e_0‖_A`: by optimality over the Krylov space
    CG is at least as good as exact-line-search steepest descent in every body.  (The sharper Chebyshev bound
    `2((√κ−1)/(√κ+1))^k` is not proved.) -/
theorem C14_cg_rate (A : V →ₗ[𝕜] V) (b x0 xs : V) (hxs : A xs = b)
    (hAs : ∀ x y, inner 𝕜 (A x) y = inner 𝕜 x (A y)) (m L : ℝ) (hm : 0 < m) (hmL : m ≤ L)
    (hlo : ∀ v, m * ‖v‖ ^ 2 ≤ re (inner 𝕜 v (A v))) (hhi : ∀ v, re (inner 𝕜 v (A v)) ≤ L * ‖v‖ ^ 2) (k : Nat)
    (hrun : ∀ j < k, (cgSeq (𝕜 := 𝕜) (⇑A) (fun v => v) b x0 j).num ≠ 0) :
    re (inner 𝕜 (xs - (cgSeq (𝕜 := 𝕜) (⇑A) (fun v => v) b x0 k).x) (A (xs - (cgSeq (𝕜 := 𝕜) (⇑A) (fun v => v) b x0 k).x)))
      ≤ (1 - m / L) ^ k * re (inner 𝕜 (xs - x0) (A (xs - x0))) :=
  cg_rate A b x0 xs hxs hAs m L hm hmL hlo hhi k hrun

-- non-vacuity of the spectral bounds: A = 2·id on ℝ has m = L = 2
example : ∀ v : ℝ, (2 : ℝ) * ‖v‖ ^ 2 ≤ re (inner ℝ v (((2 : ℝ) • LinearMap.id : ℝ →ₗ[ℝ] ℝ) v)) ∧
    re (inner ℝ v (((2 : ℝ) • LinearMap.id : ℝ →ₗ[ℝ] ℝ) v)) ≤ 2 * ‖v‖ ^ 2 := by
  intro v
  have : ‖v‖ ^ 2 = v * v := by rw [Real.norm_eq_abs, sq_abs]; ring
  simp [inner, this]
  constructor <;> nlinarith

/-- **At most `dim V` iterations** (exact arithmetic).  For Hermitian positive-definite `A`, Hermitian `M`, any data and
    tolerances: `num_iter ≤ dim V`; and with `maxiter ≥ dim V` the disjunct "`maxiter` used up" of `C14_cg_exit` never
    applies — the returned `x` always satisfies the stopping rule `⟪r, M r⟫ ≤ max(tol‖b‖, atol)²`. -/
theorem C14_cg_dim_steps [Module.Finite 𝕜 V] (A : V →ₗ[𝕜] V) (M : V → V) (b x0 : V)
    (hAs : ∀ x y, inner 𝕜 (A x) y = inner 𝕜 x (A y)) (hAp : ∀ x, x ≠ 0 → 0 < re (inner 𝕜 x (A x)))
    (hM : ∀ x y, inner 𝕜 (M x) y = inner 𝕜 x (M y)) (tol atol : ℝ) (maxiter : Nat) :
    let out := cg (rcOps 𝕜 V) A M b x0 tol atol maxiter
    let r := b - A out.1
    out.2.numIter ≤ Module.finrank 𝕜 V ∧
      (Module.finrank 𝕜 V ≤ maxiter → re (inner 𝕜 r (M r)) ≤ cgTolSq tol atol ‖b‖) :=
  cg_dim_steps A M b x0 hAs hAp hM tol atol maxiter

/-- in particular, with `tol = atol = 0`, a positive-definite `M` and `maxiter ≥ dim V`, `cg` returns the exact solution -/
theorem C14_cg_exact_in_dim_steps [Module.Finite 𝕜 V] (A : V →ₗ[𝕜] V) (M : V → V) (b x0 : V)
    (hAs : ∀ x y, inner 𝕜 (A x) y = inner 𝕜 x (A y)) (hAp : ∀ x, x ≠ 0 → 0 < re (inner 𝕜 x (A x)))
    (hM : ∀ x y, inner 𝕜 (M x) y = inner 𝕜 x (M y)) (hMp : ∀ x, x ≠ 0 → 0 < re (inner 𝕜 x (M x)))
    (maxiter : Nat) (hmax : Module.finrank 𝕜 V ≤ maxiter) :
    A (cg (rcOps 𝕜 V) A M b x0 0 0 maxiter).1 = b := by
  have h := (cg_dim_steps A M b x0 hAs hAp hM 0 0 maxiter).2 hmax
  have h0 : cgTolSq (0 : ℝ) 0 ‖b‖ = 0 := by simp [cgTolSq]
  rw [h0] at h
  by_contra hne
  have hr : b - A (cg (rcOps 𝕜 V) A M b x0 0 0 maxiter).1 ≠ 0 := fun h' => hne (sub_eq_zero.1 h').symm
  have := hMp _ hr
  linarith

/-- **`cg_solver` (fixed-length scan) is exact after `dim V` iterations**: Hermitian positive-definite `A`, any `b, x0`,
    `maxiter ≥ dim V` ⇒ `A x = b` for the returned `x`; the guarded quotients keep the iterate once the residual vanished. -/
theorem C14_cgscan_exact [Module.Finite 𝕜 V] (A : V →ₗ[𝕜] V) (b x0 : V)
    (hAs : ∀ x y, inner 𝕜 (A x) y = inner 𝕜 x (A y)) (hAp : ∀ x, x ≠ 0 → 0 < re (inner 𝕜 x (A x)))
    (maxiter : Nat) (hmax : Module.finrank 𝕜 V ≤ maxiter) :
    A (cgScan (rcOps 𝕜 V) A b x0 maxiter) = b :=
  cgScan_exact A b x0 hAs hAp maxiter hmax

/-! ### the jax variant (`jax.scipy.sparse.linalg.cg`, `LinearSubproblemSolver(cg_function="jax")`) — contract model `jaxCg` -/

/-- **What the jax solver returns**: for any linear `A`, any preconditioner or none, any `b, x0, tol, atol, maxiter`: the
    loop invariant `r = b − A x` holds at the returned state, at most `maxiter` bodies ran, and either all of them were
    used or the **true** residual satisfies `‖b − A x‖² ≤ max(tol² ‖b‖², atol²)` (with a preconditioner too — unlike
    `scico.solver.cg`, which then tests `⟪r, M r⟫`). -/
theorem C14_jaxcg_exit (A : V →ₗ[𝕜] V) (M : Option (V → V)) (b x0 : V) (tol atol : ℝ) (maxiter : Nat) :
    let s := jaxCgLoop (rcJaxOps 𝕜 V) A (precondOf M) M.isNone maxiter (jaxAtol2 tol atol (re (inner 𝕜 b b))) maxiter
      (jaxCgInit (rcJaxOps 𝕜 V) A (precondOf M) b x0)
    jaxCg (rcJaxOps 𝕜 V) A M b x0 tol atol maxiter = s.x ∧ s.r = b - A s.x ∧ s.k ≤ maxiter ∧
      (s.k = maxiter ∨ ‖b - A s.x‖ ^ 2 ≤ max (tol ^ 2 * ‖b‖ ^ 2) (atol ^ 2)) :=
  jaxCg_spec A M b x0 tol atol maxiter

/-- for non-negative tolerances the squared rule is the documented `‖b − A x‖ ≤ max(tol ‖b‖, atol)` -/
theorem C14_jaxcg_rule_norm (tol atol bn res : ℝ) (htol : 0 ≤ tol) (hatol : 0 ≤ atol) (hbn : 0 ≤ bn) (hres : 0 ≤ res)
    (hsq : res ^ 2 ≤ max (tol ^ 2 * bn ^ 2) (atol ^ 2)) : res ≤ max (tol * bn) atol :=
  sq_tol_bound tol atol bn res htol hatol hbn hres hsq

/-- **Same iterates as `scico.solver.cg`** for Hermitian `A` and `M`: after any number `j` of bodies the jax state
    `(x, r, gamma, p, k)` is the scico state `(x, r, num, p, ii)`; only the stopping tests differ.  (All the classical facts
    above therefore hold for the jax variant as well.) -/
theorem C14_jaxcg_same_iterates (A M : V → V) (hAs : ∀ x y, inner 𝕜 (A x) y = inner 𝕜 x (A y))
    (hM : ∀ x y, inner 𝕜 (M x) y = inner 𝕜 x (M y)) (b x0 : V) (j : Nat) :
    (jaxCgStep (rcJaxOps 𝕜 V) A M)^[j] (jaxCgInit (rcJaxOps 𝕜 V) A M b x0) = (cgSeq (𝕜 := 𝕜) A M b x0 j).toJax :=
  jax_iterates_eq A M hAs hM b x0 j

/-- **the jax variant with `maxiter ≥ dim V`** (Hermitian positive-definite `A`; `M` none or Hermitian positive definite)
    always returns `x` with `‖b − A x‖² ≤ max(tol² ‖b‖², atol²)` -/
theorem C14_jaxcg_dim_steps [Module.Finite 𝕜 V] (A : V →ₗ[𝕜] V) (M : Option (V → V)) (b x0 : V)
    (hAs : ∀ x y, inner 𝕜 (A x) y = inner 𝕜 x (A y)) (hAp : ∀ x, x ≠ 0 → 0 < re (inner 𝕜 x (A x)))
    (hM : ∀ m, M = some m → (∀ x y, inner 𝕜 (m x) y = inner 𝕜 x (m y)) ∧ ∀ x, x ≠ 0 → 0 < re (inner 𝕜 x (m x)))
    (tol atol : ℝ) (maxiter : Nat) (hmax : Module.finrank 𝕜 V ≤ maxiter) :
    let x := jaxCg (rcJaxOps 𝕜 V) A M b x0 tol atol maxiter
    ‖b - A x‖ ^ 2 ≤ max (tol ^ 2 * ‖b‖ ^ 2) (atol ^ 2) :=
  jaxCg_dim_steps A M b x0 hAs hAp hM tol atol maxiter hmax

-- non-vacuity of the finite-dimensional hypotheses: V = ℝ has dimension 1 (A = 2·id above is HPD on it)
example : Module.finrank ℝ ℝ = 1 := Module.finrank_self ℝ

end CG

section Matrix
variable {K : Type} [Field K] [HasConj K] [HasIsZero K]
open Matrix

/-- **`MatrixATADSolver.solve`, vector right-hand side, both paths.**  Whichever branch
    `rows < cols ∧ D 1-D ∧ all(W ≠ 0)` selects, the returned `x` solves the documented system `(Aᴴ W A + D) x = b`,
    given that the factorisation back end inverts the matrix that was factorised (contract of `lu/cho_solve`)
    and, on the Woodbury path, that the 1-D `D` has no zero entry (the path divides by it; `W ≠ 0` there is
    guaranteed by the branch rule since repo 58aa0a9).  `hz`: the scalar zero test is exact. -/
theorem C14_woodbury_matrix (hz : LawfulIsZero K) {m n : Nat} (s : ATAD K m n) (fsW : Vec K m → Vec K m) (fsD : Vec K n → Vec K n) (b : Vec K n)
    (hfsW : ∀ d, s.D = .diag d → ∀ c, LinSolve.mulVec (gWoodbury s.A d s.W) (fsW c) = c)
    (hfsD : ∀ c, LinSolve.mulVec (gDirect s.A s.D s.W) (fsD c) = c)
    (hnz : ∀ d, s.D = .diag d → s.useWoodbury = true → ∀ k, d k ≠ 0) :
    (Matrix.of (conjT s.A) * Matrix.diagonal s.W * Matrix.of s.A + Matrix.of s.D.entry) *ᵥ (s.solve fsW fsD b) = b :=
  atad_solve_spec hz s fsW fsD b hfsW hfsD hnz

/-- the same for a 2-D right-hand side `B` -/
theorem C14_woodbury_matrix_rhs2d (hz : LawfulIsZero K) {m n k : Nat} (s : ATAD K m n) (fsW : Mat K m k → Mat K m k) (fsD : Mat K n k → Mat K n k)
    (b : Mat K n k)
    (hfsW : ∀ d, s.D = .diag d → ∀ c, matMul (gWoodbury s.A d s.W) (fsW c) = c)
    (hfsD : ∀ c, matMul (gDirect s.A s.D s.W) (fsD c) = c)
    (hnz : ∀ d, s.D = .diag d → s.useWoodbury = true → ∀ k, d k ≠ 0) :
    ((Matrix.of (conjT s.A) * Matrix.diagonal s.W * Matrix.of s.A + Matrix.of s.D.entry) * Matrix.of (s.solveM fsW fsD b)
      : Matrix (Fin n) (Fin k) K) = Matrix.of b :=
  atad_solveM_spec hz s fsW fsD b hfsW hfsD hnz

/-- the branch taken is exactly `rows < cols ∧ D 1-D ∧ no zero weight`, and the matrix factorised is
    `W⁻¹ + A D⁻¹ Aᴴ` (size rows) on that branch and `Aᴴ W A + D` (size cols) otherwise -/
theorem C14_woodbury_branch (hz : LawfulIsZero K) {m n : Nat} (s : ATAD K m n) :
    (s.useWoodbury = true ↔ m < n ∧ (∃ d, s.D = .diag d) ∧ ∀ i, s.W i ≠ 0) ∧
    (∀ d, s.D = .diag d → s.useWoodbury = true → s.gOf = ⟨m, gWoodbury s.A d s.W⟩) ∧
    (s.useWoodbury = false → s.gOf = ⟨n, gDirect s.A s.D s.W⟩) := by
  obtain ⟨A, D, W⟩ := s
  cases D with
  | diag d =>
    refine ⟨by simp [ATAD.useWoodbury, DMat.isDiag, allNonzero_iff hz], ?_, ?_⟩
    · intro d' hd hwb
      cases hd
      simp [ATAD.gOf, hwb]
    · intro h
      simp [ATAD.gOf, h]
  | full D =>
    refine ⟨by simp [ATAD.useWoodbury, DMat.isDiag], ?_, ?_⟩
    · intro d' hd; cases hd
    · intro _; simp [ATAD.gOf]

/-- **constructor checks of `MatrixATADSolver`**: the arguments are accepted exactly when `D` is a `Diagonal` with a 1-D
    diagonal or a 1-D/2-D array and `W` is `None`, a `Diagonal` with a 1-D diagonal, or an array; a bad `D` is reported
    (`ValueError`) before `W` is looked at, a non-array `W` gives `TypeError`. -/
theorem C14_atad_validate (d : DArg) (w : WArg) :
    (atadValidate d w = .ok () ↔
      ((d = .diagonalOp 1 ∨ d = .array 1 ∨ d = .array 2) ∧ (w = .none ∨ w = .diagonalOp 1 ∨ w = .array))) ∧
    (¬ (d = .diagonalOp 1 ∨ d = .array 1 ∨ d = .array 2) → atadValidate d w = .error "value") ∧
    ((d = .diagonalOp 1 ∨ d = .array 1 ∨ d = .array 2) → w = .other → atadValidate d w = .error "type") := by
  refine ⟨?_, ?_, ?_⟩
  · cases d with
    | diagonalOp nd =>
      cases w with
      | none => by_cases h : nd = 1 <;> simp [atadValidate, h]
      | diagonalOp wn => by_cases h : nd = 1 <;> by_cases h2 : wn = 1 <;> simp [atadValidate, h, h2]
      | array => by_cases h : nd = 1 <;> simp [atadValidate, h]
      | other => by_cases h : nd = 1 <;> simp [atadValidate, h]
    | array nd =>
      cases w with
      | none => by_cases h : nd = 1 <;> by_cases h' : nd = 2 <;> simp [atadValidate, h, h']
      | diagonalOp wn => by_cases h : nd = 1 <;> by_cases h' : nd = 2 <;> by_cases h2 : wn = 1 <;> simp [atadValidate, h, h', h2]
      | array => by_cases h : nd = 1 <;> by_cases h' : nd = 2 <;> simp [atadValidate, h, h']
      | other => by_cases h : nd = 1 <;> by_cases h' : nd = 2 <;> simp [atadValidate, h, h']
  · intro h
    cases d with
    | diagonalOp nd =>
      have : nd ≠ 1 := fun e => h (Or.inl (by rw [e]))
      simp [atadValidate, this]
    | array nd =>
      have h1 : nd ≠ 1 := fun e => h (Or.inr (Or.inl (by rw [e])))
      have h2 : nd ≠ 2 := fun e => h (Or.inr (Or.inr (by rw [e])))
      simp [atadValidate, h1, h2]
  · rintro (rfl | rfl | rfl) rfl <;> simp [atadValidate]

/-- **the branch rule of the model is the branch condition of the source.**  `solverTables.woodbury` is the conjunction
    `N < M and D.ndim == 1 and snp.all(W != 0)` with `N, M = A.shape` as read from `MatrixATADSolver.__init__` by `ast` on every run
    (obligation `Scico.Generated.LinSolveTables.tables_ok`); evaluated on a solver object it is `ATAD.useWoodbury`. -/
theorem C14_woodbury_rule_of_source {m n : Nat} (s : ATAD K m n) :
    woodburyEval solverTables.woodbury m n (if s.D.isDiag then 1 else 2) (allNonzero s.W) = some s.useWoodbury ∧
      solverTables.woodburyBind = ("N, M", "A.shape") := by
  refine ⟨?_, rfl⟩
  cases hD : s.D.isDiag <;> simp [woodburyEval, solverTables, CondAtom.eval, ATAD.useWoodbury, hD]

/-- **`accuracy`**: the quantity compared with `b` is `(Aᴴ W A + D) x` (1-D and 2-D `D`, vector and matrix
    `x`), so `accuracy x b = rel_res((Aᴴ W A + D) x, b)`. -/
theorem C14_accuracy {m n : Nat} {R : Type} [Zero R] [Div R] [Max R] [LT R] [DecidableLT R]
    (s : ATAD K m n) (norm : Vec K n → R) (x b : Vec K n) :
    let lhs := (Matrix.of (conjT s.A) * Matrix.diagonal s.W * Matrix.of s.A + Matrix.of s.D.entry) *ᵥ x
    s.lhsApply x = lhs ∧ s.accuracy norm x b = relResOf (norm lhs) (norm b) (norm (fun i => b i - lhs i)) := by
  intro lhs
  have h : s.lhsApply x = lhs := lhsApply_eq_spec s x
  exact ⟨h, by simp only [ATAD.accuracy, h]⟩

/-- **`accuracy` for matrix arguments** (`rel_res` ravels, `norm` = Frobenius norm): `accuracy X B = rel_res((Aᴴ W A + D) X, B)` -/
theorem C14_accuracy_matrix {m n k : Nat} {R : Type} [Zero R] [Div R] [Max R] [LT R] [DecidableLT R]
    (s : ATAD K m n) (norm : Mat K n k → R) (x b : Mat K n k) :
    let lhs : Mat K n k := fun i l =>
      ((Matrix.of (conjT s.A) * Matrix.diagonal s.W * Matrix.of s.A + Matrix.of s.D.entry) * Matrix.of x : Matrix (Fin n) (Fin k) K) i l
    s.accuracyM norm x b = relResOf (norm lhs) (norm b) (norm (fun i l => b i l - lhs i l)) := by
  intro lhs
  have h : s.lhsApplyM x = lhs := by
    have := lhsApplyM_eq_spec s x
    funext i l
    exact congrFun (congrFun this i) l
  simp only [ATAD.accuracyM, h]

/-- **constructor checks of `ConvATADSolver`**: accepted exactly for `A = Sum ∘ CircularConvolve` summing over a single axis;
    anything that is not such a composition is a `TypeError`, a tuple of axes a `ValueError` -/
theorem C14_conv_validate (a : ConvArg) :
    (convValidate a = .ok () ↔ (a.composed = true ∧ a.outerIsSum = true ∧ a.innerIsConv = true ∧ a.axisIsInt = true)) ∧
    ((a.composed = false ∨ a.outerIsSum = false ∨ a.innerIsConv = false) → convValidate a = .error "type") ∧
    (a.composed = true → a.outerIsSum = true → a.innerIsConv = true → a.axisIsInt = false → convValidate a = .error "value") := by
  obtain ⟨c, o, i, x⟩ := a
  cases c <;> cases o <;> cases i <;> cases x <;> simp [convValidate]

theorem C14_accuracy_rhs2d {m n k : Nat} (s : ATAD K m n) (x : Mat K n k) :
    s.lhsApplyM x =
      ((Matrix.of (conjT s.A) * Matrix.diagonal s.W * Matrix.of s.A + Matrix.of s.D.entry) * Matrix.of x : Matrix (Fin n) (Fin k) K) :=
  lhsApplyM_eq_spec s x

/-- **`ConvATADSolver.solve`, per frequency (Sherman–Morrison).**  At every frequency `w` where `D̂` has no
    zero and `1 + Σ_k Â_k conj(Â_k)/D̂_k ≠ 0`, the computed `x̂` satisfies the DFT-domain form of
    `(Aᴴ A + D) x = b`:  `conj(Â_j) Σ_k Â_k x̂_k + D̂_j x̂_j = b̂_j` for every filter `j`. -/
theorem C14_woodbury_conv {Kf N : Nat} (Ahat Dhat bhat : Mat K Kf N) (w : Fin N) (hD : ∀ k, Dhat k w ≠ 0)
    (hE : 1 + ∑ k, Ahat k w * (conj (Ahat k w) / Dhat k w) ≠ 0) (j : Fin Kf) :
    conj (Ahat j w) * (∑ k, Ahat k w * convSolveHat Ahat Dhat bhat k w) + Dhat j w * convSolveHat Ahat Dhat bhat j w
      = bhat j w := by
  have := conv_solve_spec Ahat Dhat bhat w hD hE j
  simpa [convLhsHat, vsum_eq] using this

end Matrix

section NonVacuityMatrix
/- a 1×2 real system on the Woodbury path: A = [1 1], D = diag(1,1), W = [1]; G = 1 + 2 = 3 -/
local instance : HasConj ℚ := ⟨id⟩
local instance : HasIsZero ℚ := ⟨fun x => decide (x = 0)⟩

example : LawfulIsZero ℚ := fun x => by simp [isZ]

example : let s : ATAD ℚ 1 2 := ⟨fun _ _ => 1, .diag (fun _ => 1), fun _ => 1⟩
    s.useWoodbury = true ∧ (∀ c : Vec ℚ 1, mulVec (gWoodbury s.A (fun _ => 1) s.W) (fun i => c i / 3) = c) := by
  intro s
  refine ⟨by decide, ?_⟩
  intro c
  funext i
  have : i = 0 := Subsingleton.elim _ _
  subst this
  simp [mulVec, gWoodbury, Vec.sum, s, conj, List.ofFn_succ]
  ring
end NonVacuityMatrix

section Scalar
variable {K : Type} [Field K] [LinearOrder K] [IsStrictOrderedRing K] [Inhabited K] {n : Nat}

/-- `range_check=True` accepts exactly the brackets on which no element has `sign f(a) = sign f(b)`; an
    accepted bracket therefore has `f(a)·f(b) ≤ 0` in every element -/
theorem C14_bisect_range_check (f : Fin n → K → K) (a0 b0 : Vec K n) (xtol ftol : K) (maxiter : Nat)
    (x : Vec K n) (s : BisectSt K n) (h : bisect f a0 b0 xtol ftol maxiter true = .ok (x, s)) (i : Fin n) :
    f i (a0 i) * f i (b0 i) ≤ 0 := by
  unfold bisect at h
  simp only [Bool.true_and] at h
  split at h
  · cases h
  · rename_i hbad
    have hi : isZero (sgn (f i (a0 i)) - sgn (f i (b0 i))) = false := by
      by_contra hcon
      apply hbad
      simp only [bisectRangeBad, List.any_eq_true, List.mem_ofFn]
      exact ⟨true, ⟨i, by simpa [bisectInit] using hcon⟩, rfl⟩
    have hne : sgn (f i (a0 i)) ≠ sgn (f i (b0 i)) := by
      intro he
      rw [he, sub_self] at hi
      have := (isZero_iff (0 : K)).2 rfl
      rw [this] at hi; cases hi
    by_contra hpos
    have hpos : 0 < f i (a0 i) * f i (b0 i) := not_le.1 hpos
    rcases pos_and_pos_or_neg_and_neg_of_mul_pos hpos with ⟨h1, h2⟩ | ⟨h1, h2⟩
    · exact hne (by rw [sgn_pos h1, sgn_pos h2])
    · exact hne (by rw [sgn_neg h1, sgn_neg h2])

/-- **Bisection, all iteration counts.**  If element `i` starts with `a₀ ≤ b₀` and `f(a₀)·f(b₀) ≤ 0`, then for
    whatever `maxiter`, `xtol`, `ftol`: the final bracket satisfies `a₀ ≤ a ≤ b ≤ b₀` and still has
    `f(a)·f(b) ≤ 0`; the returned point is one of its end points (so it lies in the initial bracket); and if the
    loop was left before `maxiter` bodies it was left by the tolerance test, in which case `b − a ≤ xtol`:
    the returned point is within `xtol` of both ends of a bracket that contains a sign change. -/
theorem C14_bisect (f : Fin n → K → K) (a0 b0 : Vec K n) (xtol ftol : K) (maxiter : Nat) (rc : Bool)
    (x : Vec K n) (s : BisectSt K n) (h : bisect f a0 b0 xtol ftol maxiter rc = .ok (x, s)) (i : Fin n)
    (h0 : a0 i ≤ b0 i) (hs : f i (a0 i) * f i (b0 i) ≤ 0) :
    a0 i ≤ s.a i ∧ s.a i ≤ s.b i ∧ s.b i ≤ b0 i ∧ f i (s.a i) * f i (s.b i) ≤ 0 ∧
    (x i = s.a i ∨ x i = s.b i) ∧ a0 i ≤ x i ∧ x i ≤ b0 i ∧ s.steps ≤ maxiter ∧
    (s.steps < maxiter → s.xerr ≤ xtol ∧ s.ferr ≤ ftol ∧ s.b i - s.a i ≤ xtol ∧ |x i - s.a i| ≤ xtol ∧ |x i - s.b i| ≤ xtol) :=
  bisect_spec f a0 b0 xtol ftol maxiter rc x s h i h0 hs

/-- the same invariants for the bracket after *every* number `k` of loop bodies (not only the final one) -/
theorem C14_bisect_invariant (f : Fin n → K → K) (a0 b0 : Vec K n) (i : Fin n) (h0 : a0 i ≤ b0 i)
    (hs : f i (a0 i) * f i (b0 i) ≤ 0) (k : Nat) :
    let s := (bisectStep f)^[k] (bisectInit f a0 b0)
    a0 i ≤ s.a i ∧ s.a i ≤ s.b i ∧ s.b i ≤ b0 i ∧ f i (s.a i) * f i (s.b i) ≤ 0 ∧
      s.fa i = f i (s.a i) ∧ s.fb i = f i (s.b i) := by
  intro s
  have h := bisect_iterate_inv f a0 b0 i h0 hs k
  exact ⟨h.lo, h.mid, h.hi, h.sign, h.hfa, h.hfb⟩

/-- **the width halves**: with a strict sign change initially, after `k` bodies either the sign change is
    still strict and `b − a = (b₀ − a₀)/2^k`, or an exact zero was hit and the bracket is that single point -/
theorem C14_bisect_width (f : Fin n → K → K) (a0 b0 : Vec K n) (i : Fin n) (h0 : a0 i ≤ b0 i)
    (hs : f i (a0 i) * f i (b0 i) < 0) (k : Nat) :
    let s := (bisectStep f)^[k] (bisectInit f a0 b0)
    (f i (s.a i) * f i (s.b i) < 0 ∧ s.b i - s.a i = (b0 i - a0 i) / 2 ^ k) ∨ (s.a i = s.b i ∧ f i (s.a i) = 0) :=
  bisect_iterate_strict f a0 b0 i h0 hs k

/-- **Golden-section search, all iteration counts** (`c=None`).  For any ratio `gr` with `1/2 < gr < 1` (the code
    uses `2/(√5+1)`), if element `i` is strictly unimodal on `[a₀, b₀]` with minimiser `xs`, then for whatever
    `xtol` and `maxiter ≥ 1` there is `k < maxiter` (the number of completed bodies) such that the final bracket
    lies in `[a₀, b₀]`, contains `xs`, has width exactly `gr^(k+1)(b₀ − a₀)`; the returned point is one of its
    end points, hence within that width of `xs`; and if the loop stopped early, within `xtol` of `xs`. -/
theorem C14_golden (gr : K) (hg1 : 1 / 2 < gr) (hg2 : gr < 1) (f : Fin n → K → K) (a0 b0 : Vec K n)
    (xtol : K) (maxiter : Nat) (hmax : 0 < maxiter) (i : Fin n) (xs : K) (hab : a0 i < b0 i)
    (hu : Unimodal (f i) (a0 i) (b0 i) xs) :
    let out := golden gr f a0 b0 none xtol maxiter
    ∃ k, k < maxiter ∧ a0 i ≤ out.2.a i ∧ out.2.a i ≤ xs ∧ xs ≤ out.2.b i ∧ out.2.b i ≤ b0 i ∧
      out.2.b i - out.2.a i = gr ^ (k + 1) * (b0 i - a0 i) ∧
      (out.1 i = out.2.a i ∨ out.1 i = out.2.b i) ∧ |out.1 i - xs| ≤ gr ^ (k + 1) * (b0 i - a0 i) ∧
      (k + 1 = maxiter ∨ (out.2.xerr ≤ xtol ∧ |out.1 i - xs| ≤ xtol)) :=
  golden_spec gr hg1 hg2 f a0 b0 xtol maxiter hmax i xs hab hu

/-- **Lanes are independent (bisection).**  Two vectorised calls — of any widths `n`, `m`, whatever the other lanes do,
    converged or not — that agree on one lane's function and initial bracket produce the same bracket `(a, b, f(a), f(b))`
    on that lane after every number `k` of loop bodies.  The lanes interact only through the common stopping test. -/
theorem C14_bisect_lane_independent {m : Nat} (f : Fin n → K → K) (g : Fin m → K → K) (a0 b0 : Vec K n) (a0' b0' : Vec K m)
    (i : Fin n) (j : Fin m) (hfg : f i = g j) (ha : a0 i = a0' j) (hb : b0 i = b0' j) (k : Nat) :
    let s := (bisectStep f)^[k] (bisectInit f a0 b0)
    let t := (bisectStep g)^[k] (bisectInit g a0' b0')
    s.a i = t.a j ∧ s.b i = t.b j ∧ s.fa i = t.fa j ∧ s.fb i = t.fb j :=
  bisect_lane_independent f g a0 b0 a0' b0' i j hfg ha hb k

/-- **Lanes are independent (golden section)**, with or without a supplied `c` -/
theorem C14_golden_lane_independent {m : Nat} (gr : K) (f : Fin n → K → K) (g : Fin m → K → K) (a0 b0 : Vec K n)
    (a0' b0' : Vec K m) (c : Option (Vec K n)) (c' : Option (Vec K m)) (i : Fin n) (j : Fin m) (hfg : f i = g j)
    (ha : a0 i = a0' j) (hb : b0 i = b0' j)
    (hc : (goldInit gr a0 b0 c).c i = (goldInit gr a0' b0' c').c j) (k : Nat) :
    let s := (fun s => goldPoints gr (goldShrink f s))^[k] (goldInit gr a0 b0 c)
    let t := (fun s => goldPoints gr (goldShrink g s))^[k] (goldInit gr a0' b0' c')
    s.a i = t.a j ∧ s.b i = t.b j ∧ s.c i = t.c j ∧ s.d i = t.d j :=
  golden_lane_independent gr f g a0 b0 a0' b0' c c' i j hfg ha hb hc k

/-- **`golden` with a supplied first interior point `c`** — proved part (`_partial`): for `a₀ < c < d₀ = a₀ + gr (b₀ − a₀)`
    the same guarantees as `C14_golden` hold, the first shrink having width `w₁ ∈ {gr (b₀ − a₀), b₀ − c}`: final bracket
    inside `[a₀, b₀]`, containing the minimiser, of width `gr^k w₁`; returned end point within that of the minimiser, within
    `xtol` when stopped early.  For `c ≥ d₀` — also "within the interval `(a, b)`" as documented — see the counterexample. -/
theorem C14_golden_c_partial (gr : K) (hg1 : 1 / 2 < gr) (hg2 : gr < 1) (f : Fin n → K → K) (a0 b0 c : Vec K n)
    (xtol : K) (maxiter : Nat) (hmax : 0 < maxiter) (i : Fin n) (xs : K) (hab : a0 i < b0 i)
    (hu : Unimodal (f i) (a0 i) (b0 i) xs) (hc1 : a0 i < c i) (hc2 : c i < a0 i + gr * (b0 i - a0 i)) :
    let out := golden gr f a0 b0 (some c) xtol maxiter
    ∃ k w1, k < maxiter ∧ (w1 = gr * (b0 i - a0 i) ∨ w1 = b0 i - c i) ∧
      a0 i ≤ out.2.a i ∧ out.2.a i ≤ xs ∧ xs ≤ out.2.b i ∧ out.2.b i ≤ b0 i ∧
      out.2.b i - out.2.a i = gr ^ k * w1 ∧
      (out.1 i = out.2.a i ∨ out.1 i = out.2.b i) ∧ |out.1 i - xs| ≤ gr ^ k * w1 ∧
      (k + 1 = maxiter ∨ (out.2.xerr ≤ xtol ∧ |out.1 i - xs| ≤ xtol)) :=
  golden_c_spec gr hg1 hg2 f a0 b0 c xtol maxiter hmax i xs hab hu hc1 hc2

/-- **`golden` with the ordered interior points of `fixes/golden-c-beyond-d.patch`** (model `goldenSorted`; the adapter
    uses it once the finding is marked `fixed:`): for *every* supplied `c` strictly inside `(a₀, b₀)` — the documented
    requirement — the full guarantee holds: final bracket inside `[a₀, b₀]`, containing the minimiser, of width `gr^k w₁`
    with `0 < w₁ < b₀ − a₀`; returned end point within that of the minimiser, within `xtol` when stopped early. -/
theorem C14_golden_c_sorted (gr : K) (hg1 : 1 / 2 < gr) (hg2 : gr < 1) (f : Fin n → K → K) (a0 b0 c : Vec K n)
    (xtol : K) (maxiter : Nat) (hmax : 0 < maxiter) (i : Fin n) (xs : K) (hab : a0 i < b0 i)
    (hu : Unimodal (f i) (a0 i) (b0 i) xs) (hc1 : a0 i < c i) (hc2 : c i < b0 i) :
    let out := goldenSorted gr f a0 b0 (some c) xtol maxiter
    ∃ k w1, k < maxiter ∧ 0 < w1 ∧ w1 < b0 i - a0 i ∧
      a0 i ≤ out.2.a i ∧ out.2.a i ≤ xs ∧ xs ≤ out.2.b i ∧ out.2.b i ≤ b0 i ∧
      out.2.b i - out.2.a i = gr ^ k * w1 ∧
      (out.1 i = out.2.a i ∨ out.1 i = out.2.b i) ∧ |out.1 i - xs| ≤ gr ^ k * w1 ∧
      (k + 1 = maxiter ∨ (out.2.xerr ≤ xtol ∧ |out.1 i - xs| ≤ xtol)) :=
  goldenSorted_spec gr hg1 hg2 f a0 b0 c xtol maxiter hmax i xs hab hu hc1 hc2

end Scalar


section GoldenCWitness

/-- the full statement suggested by the docstring ("`c` must be within the interval `(a, b)`"), NOT claimed:
    for every interior `c` the final bracket of `golden` contains the minimiser -/
def C14_golden_c_stmt : Prop :=
  ∀ (gr : ℚ), 1 / 2 < gr → gr < 1 → ∀ (f : Fin 1 → ℚ → ℚ) (a0 b0 c : Vec ℚ 1) (xtol : ℚ) (maxiter : Nat), 0 < maxiter →
    ∀ xs : ℚ, a0 0 < b0 0 → Unimodal (f 0) (a0 0) (b0 0) xs → a0 0 < c 0 → c 0 < b0 0 →
      (golden gr f a0 b0 (some c) xtol maxiter).2.a 0 ≤ xs ∧ xs ≤ (golden gr f a0 b0 (some c) xtol maxiter).2.b 0

/-- **negation witness** (recorded finding `golden-c-beyond-d`): `gr = 5/8`, `f(x) = (x − 4/5)²` on `[0, 1]`, `c = 9/10 > d = 5/8`:
    `f(c) < f(d)` makes the first body cut the bracket to `[0, 5/8]`, which no longer contains the minimiser `4/5`. -/
theorem C14_golden_c_counterexample : ¬ C14_golden_c_stmt := by
  intro h
  have hu : Unimodal (fun x : ℚ => (x - 4 / 5) ^ 2) 0 1 (4 / 5) :=
    ⟨by norm_num, by norm_num, fun u v _ huv hv => by nlinarith, fun u v hu huv _ => by nlinarith⟩
  have h1 := (h (5 / 8) (by norm_num) (by norm_num) (fun _ x => (x - 4 / 5) ^ 2) (fun _ => 0) (fun _ => 1) (fun _ => 9 / 10) 0 1
    (by norm_num) (4 / 5) (by norm_num) hu (by norm_num) (by norm_num)).2
  obtain ⟨k, hk, _, eb, _, _⟩ := goldLoop_iterate (5 / 8 : ℚ) (fun (_ : Fin 1) (x : ℚ) => (x - 4 / 5) ^ 2) 0 1
    (goldInit (5 / 8) (fun _ => 0) (fun _ => 1) (some fun _ => 9 / 10)) (by norm_num)
  have hk0 : k = 0 := by omega
  subst hk0
  have hb := (goldShrink_elem (fun (_ : Fin 1) (x : ℚ) => (x - 4 / 5) ^ 2)
    (goldInit (5 / 8) (fun _ => 0) (fun _ => 1) (some fun _ => 9 / 10)) 0).2.1
  have e : (golden (5 / 8 : ℚ) (fun (_ : Fin 1) (x : ℚ) => (x - 4 / 5) ^ 2) (fun _ => 0) (fun _ => 1) (some fun _ => 9 / 10) 0 1).2.b 0
      = (goldShrink (fun (_ : Fin 1) (x : ℚ) => (x - 4 / 5) ^ 2)
          (goldInit (5 / 8) (fun _ => 0) (fun _ => 1) (some fun _ => 9 / 10))).b 0 := congrFun eb 0
  rw [e, hb] at h1
  simp only [goldInit] at h1
  norm_num at h1

end GoldenCWitness

section BisectRoot

/-- **Bisection returns a point within `xtol` of a root** (real case): if `f_i` is continuous on the initial bracket,
    the bracket has `f(a₀)·f(b₀) ≤ 0`, and the loop was left by the tolerance test (fewer than `maxiter` bodies), then
    there is an exact root `ξ` of `f_i` in the initial bracket with `|x_i − ξ| ≤ xtol`. -/
theorem C14_bisect_root {n : Nat} (f : Fin n → ℝ → ℝ) (a0 b0 : Vec ℝ n) (xtol ftol : ℝ) (maxiter : Nat) (rc : Bool)
    (x : Vec ℝ n) (s : BisectSt ℝ n) (h : bisect f a0 b0 xtol ftol maxiter rc = .ok (x, s)) (i : Fin n)
    (h0 : a0 i ≤ b0 i) (hs : f i (a0 i) * f i (b0 i) ≤ 0) (hcont : ContinuousOn (f i) (Set.Icc (a0 i) (b0 i)))
    (hexit : s.steps < maxiter) :
    ∃ ξ, a0 i ≤ ξ ∧ ξ ≤ b0 i ∧ f i ξ = 0 ∧ |x i - ξ| ≤ xtol := by
  obtain ⟨q1, q2, q3, q4, q5, _, _, _, q9⟩ := bisect_spec f a0 b0 xtol ftol maxiter rc x s h i h0 hs
  obtain ⟨_, _, hw, _, _⟩ := q9 hexit
  have hsub : Set.Icc (s.a i) (s.b i) ⊆ Set.Icc (a0 i) (b0 i) := Set.Icc_subset_Icc q1 q3
  have hc' : ContinuousOn (f i) (Set.Icc (s.a i) (s.b i)) := hcont.mono hsub
  have hroot : ∃ ξ ∈ Set.Icc (s.a i) (s.b i), f i ξ = 0 := by
    rcases mul_nonpos_iff.1 q4 with ⟨ha, hb⟩ | ⟨ha, hb⟩
    · exact intermediate_value_Icc' q2 hc' ⟨hb, ha⟩
    · exact intermediate_value_Icc q2 hc' ⟨ha, hb⟩
  obtain ⟨ξ, ⟨hξ1, hξ2⟩, hξ⟩ := hroot
  refine ⟨ξ, le_trans q1 hξ1, le_trans hξ2 q3, hξ, ?_⟩
  rcases q5 with e | e <;> rw [e, abs_le] <;> constructor <;> linarith

end BisectRoot

section GoldenRatio
@[reducible] noncomputable def realSqrt : HasSqrt ℝ := ⟨Real.sqrt⟩
attribute [local instance] realSqrt

/-- the constant the code uses, `gr = 2/(√5+1)`, satisfies the hypothesis `1/2 < gr < 1` of `C14_golden` -/
theorem C14_golden_ratio : (1 : ℝ) / 2 < goldenRatio ∧ (goldenRatio : ℝ) < 1 := by
  have h5 : (five : ℝ) = 5 := by unfold five; norm_num
  have h2 : (two : ℝ) = 2 := by unfold two; norm_num
  have hlo : (1 : ℝ) < Real.sqrt 5 := by
    rw [show (1 : ℝ) = Real.sqrt 1 by simp]
    exact Real.sqrt_lt_sqrt (by norm_num) (by norm_num)
  have hhi : Real.sqrt 5 < 3 := by
    rw [show (3 : ℝ) = Real.sqrt 9 by rw [show (9 : ℝ) = 3 ^ 2 by norm_num, Real.sqrt_sq (by norm_num)]]
    exact Real.sqrt_lt_sqrt (by norm_num) (by norm_num)
  unfold goldenRatio
  rw [h5, h2]
  show 1 / 2 < 2 / (Real.sqrt 5 + 1) ∧ 2 / (Real.sqrt 5 + 1) < 1
  constructor
  · rw [div_lt_div_iff₀ (by norm_num) (by linarith)]; linarith
  · rw [div_lt_one (by linarith)]; linarith
end GoldenRatio

section NonVacuityScalar
-- f(x) = x − 1/3 on [0,1] has a strict sign change; (x − 1/3)² is strictly unimodal on [0,1]
example : (0 : ℚ) ≤ 1 ∧ ((0 : ℚ) - 1 / 3) * ((1 : ℚ) - 1 / 3) < 0 := by norm_num

example : Unimodal (fun x : ℚ => (x - 1 / 3) ^ 2) 0 1 (1 / 3) := by
  refine ⟨by norm_num, by norm_num, ?_, ?_⟩
  · intro u v _ huv hv
    show (v - 1 / 3) ^ 2 < (u - 1 / 3) ^ 2
    nlinarith
  · intro u v hu huv _
    show (u - 1 / 3) ^ 2 < (v - 1 / 3) ^ 2
    nlinarith
end NonVacuityScalar

end Scico.Props.C14
