/-
  Property C08 — proximal calculus rules and capability flags.   ONLY property theorems here.

  Abstract layer (`Scico.ProxCalcAbs`): `E` is any real inner-product space — `ℝⁿ`, `ℂⁿ` under
  `Re⟨·,·⟩`, N-d arrays, block arrays (`PiLp 2`).  A functional with values in `ℝ ∪ {+∞}` is a
  pair (domain, finite values); `IsProx f lam v p` is the definition of `p ∈ prox_{lam f}(v)` by
  minimisation (no convexity, no uniqueness assumed), `Cert` the sub-gradient certificate.
  Model layer (`Scico.ProxCalc`): the constructor tree `Fn`, `prox`, `eval`, `conjProx`, flags.
-/
import Scico.Proofs.ProxCalcAbs
import Scico.Proofs.ProxCalc
import Scico.Proofs.ProxCalcTree
import Scico.Proofs.ProxCalcTree2
import Scico.Proofs.FuncEval

namespace Scico.Props.C08
open Scico Scico.ProxCalcAbs Scico.ProxCalc Scico.FuncEval

section abstract
variable {E : Type*} [NormedAddCommGroup E] [InnerProductSpace ℝ E]

/-- `prox_{lam (c f)} = prox_{(lam c) f}`: `p` is a proximal point of `c·f` with parameter `lam`
    iff it is one of `f` with parameter `lam·c` — and `lam·c` is exactly the parameter
    `ScaledFunctional.prox` passes on (second conjunct, about the model of the code). -/
theorem C08_scaled (f : ExtFn E) (c lam : ℝ) (v p : E) :
    (IsProx (f.smul c) lam v p ↔ IsProx f (lam * c) v p) ∧
    (∀ {α : Type} [Add α] [Sub α] [Mul α] [Div α] [Neg α] [Zero α] [One α] [LT α] [DecidableLT α]
       [HasSqrt α] (En : Env α) (g : Fn α) (c' lam' : α) (w : Arg α),
       prox En (.scaled c' g) w lam' = prox En g w (lam' * c')) :=
  ⟨isProx_smul_iff f c lam v p, fun _ _ _ _ _ => rfl⟩

-- non-vacuity: f = 0 on ℝ, c = 2: every v is its own proximal point
example : IsProx ((⟨Set.univ, fun _ => 0⟩ : ExtFn ℝ).smul 2) 1 (3 : ℝ) 3 :=
  ⟨trivial, fun x _ => by simp [proxObj, ExtFn.smul]; positivity⟩

/-- `Loss.prox`: `f.prox(v − y, scale·lam) + y` is a proximal point of `x ↦ scale·f(x − y)`
    with parameter `lam`; conversely every proximal point arises this way. -/
theorem C08_loss_translate (f : ExtFn E) (y : E) (α lam : ℝ) (v : E) :
    (∀ q, IsProx f (α * lam) (v - y) q → IsProx (f.lossOf y α) lam v (q + y)) ∧
    (∀ p, IsProx (f.lossOf y α) lam v p ↔ IsProx f (α * lam) (v - y) (p - y)) :=
  ⟨fun q h => isProx_lossOf_of f y α lam v q h, fun p => isProx_lossOf_iff f y α lam v p⟩

example : IsProx ((⟨Set.univ, fun _ => 0⟩ : ExtFn ℝ).lossOf 1 2) 1 (3 : ℝ) (2 + 1) :=
  isProx_lossOf_of _ 1 2 1 3 2 ⟨trivial, fun x _ => by norm_num [proxObj]; positivity⟩

/-- a certificate gives a proximal point, and for a convex functional every proximal point
    carries the certificate (so the two formulations used below agree on convex functionals) -/
theorem C08_cert_iff_prox (f : ExtFn E) (hconv : ConvexOn ℝ f.dom f.val) {lam : ℝ} (hl : 0 < lam) (v p : E) :
    Cert f lam v p ↔ IsProx f lam v p :=
  ⟨isProx_of_cert hl, cert_of_isProx_convex hconv hl⟩

/-- **Moreau**: for convex `f` (any domain, no lower semicontinuity needed), if
    `q ∈ prox_{f/lam}(v/lam)` then `conj_prox`'s value `v − lam·q` is a proximal point of the
    Fenchel conjugate `f*` (defined as a supremum, `+∞` where unbounded) with parameter `lam`;
    in particular `v = lam·q + prox_{lam f*}(v)`. -/
theorem C08_moreau (f : ExtFn E) (hconv : ConvexOn ℝ f.dom f.val) {lam : ℝ} (hl : 0 < lam) (v q : E)
    (h : IsProx f (1 / lam) ((1 / lam) • v) q) :
    IsProx f.conj lam v (v - lam • q) ∧ v = lam • q + (v - lam • q) := by
  refine ⟨isProx_of_cert hl (cert_conj_of_cert f hl (cert_of_isProx_convex hconv (by positivity) h)), ?_⟩
  abel

/-- the form in the property statement: with `p = prox_{lam f}(v)`,
    `(v − p)/lam` is a proximal point of `f*/lam` at `v/lam`, i.e. `v = p + lam·prox_{f*/lam}(v/lam)` -/
theorem C08_moreau_identity (f : ExtFn E) (hconv : ConvexOn ℝ f.dom f.val) {lam : ℝ} (hl : 0 < lam) (v p : E)
    (h : IsProx f lam v p) :
    IsProx f.conj (1 / lam) ((1 / lam) • v) ((1 / lam) • (v - p)) ∧
      v = p + lam • ((1 / lam) • (v - p)) := by
  have hl' : 0 < 1 / lam := by positivity
  have h' : IsProx f (1 / (1 / lam)) ((1 / (1 / lam)) • ((1 / lam) • v)) p := by
    rw [one_div_one_div, smul_smul, mul_one_div_cancel hl.ne', one_smul]; exact h
  obtain ⟨h1, _⟩ := C08_moreau f hconv hl' ((1 / lam) • v) p h'
  refine ⟨?_, ?_⟩
  · have e : (1 / lam) • v - (1 / lam) • p = (1 / lam) • (v - p) := by rw [smul_sub]
    rwa [e] at h1
  · rw [smul_smul, mul_one_div_cancel hl.ne', one_smul]; abel

-- non-vacuity: f = 0 on ℝ is convex, prox is the identity; conj_prox returns v − lam·(v/lam) = 0
example : IsProx (⟨Set.univ, fun _ => 0⟩ : ExtFn ℝ).conj 2 (3 : ℝ) (3 - (2 : ℝ) • ((1 / 2 : ℝ) • 3)) :=
  (C08_moreau (⟨Set.univ, fun _ => 0⟩ : ExtFn ℝ) ⟨convex_univ, fun _ _ _ _ _ _ _ _ _ => by simp⟩
    (by norm_num : (0 : ℝ) < 2) 3 ((1 / 2 : ℝ) • 3)
    ⟨trivial, fun x _ => by simp [proxObj]; positivity⟩).1

end abstract

/-- block-wise proximal points are exactly the proximal points of the separable sum on the
    `ℓ²` product of any finite family of inner-product spaces (any number of blocks, blocks of
    different spaces): what `SeparableFunctional.prox` computes. -/
theorem C08_separable {ι : Type*} [Fintype ι] [DecidableEq ι] {E : ι → Type*}
    [∀ i, NormedAddCommGroup (E i)] [∀ i, InnerProductSpace ℝ (E i)]
    (f : ∀ i, ExtFn (E i)) (lam : ℝ) (v p : PiLp 2 E) :
    IsProx (ExtFn.sep f) lam v p ↔ ∀ i, IsProx (f i) lam (v i) (p i) :=
  isProx_sep_iff f lam v p

example : IsProx (ExtFn.sep (fun _ : Fin 2 => (⟨Set.univ, fun _ => 0⟩ : ExtFn ℝ))) 1
    (WithLp.toLp 2 ![1, 2]) (WithLp.toLp 2 ![1, 2]) :=
  (C08_separable _ 1 _ _).2 fun i => ⟨trivial, fun x _ => by simp [proxObj]; positivity⟩

section sql2
variable {E F : Type*} [NormedAddCommGroup E] [InnerProductSpace ℝ E] [NormedAddCommGroup F]
  [InnerProductSpace ℝ F]

/-- `SquaredL2Loss.prox`: for a linear `A`, symmetric positive semi-definite `W` and `lam·α ≥ 0`,
    `x` is the prox of `α‖Ax − y‖²_W` at `v` **iff** it solves
    `(I + 2αλ AᴴWA) x = v + 2αλ AᴴW y` (weak form: tested against every direction). -/
theorem C08_sqL2_normal_eq (A : E →ₗ[ℝ] F) (W : F →ₗ[ℝ] F)
    (hsym : ∀ a b, inner ℝ (W a) b = inner ℝ a (W b)) (hpos : ∀ a, 0 ≤ inner ℝ (W a) a) (y : F)
    {α lam : ℝ} (hal : 0 ≤ lam * α) (v x : E) :
    IsProx (sqL2Fn A W y α) lam v x ↔ NormalEq A W y α lam v x :=
  isProx_sqL2_iff A W hsym hpos y hal v x

/-- the same with the adjoint written out (complete spaces, bounded operators): the system
    `x + 2αλ Aᴴ W A x = v + 2αλ Aᴴ W y` — the `lhs`/`rhs` `SquaredL2Loss.prox` hands to `cg` -/
theorem C08_sqL2_normal_eq_adjoint [CompleteSpace E] [CompleteSpace F] (A : E →L[ℝ] F) (W : F →L[ℝ] F)
    (hsym : ∀ a b, inner ℝ (W a) b = inner ℝ a (W b)) (hpos : ∀ a, 0 ≤ inner ℝ (W a) a) (y : F)
    {α lam : ℝ} (hal : 0 ≤ lam * α) (v x : E) :
    IsProx (sqL2Fn (A : E →ₗ[ℝ] F) (W : F →ₗ[ℝ] F) y α) lam v x ↔
      x + (2 * α * lam) • (ContinuousLinearMap.adjoint A) (W (A x)) =
        v + (2 * α * lam) • (ContinuousLinearMap.adjoint A) (W y) :=
  (isProx_sqL2_iff _ _ hsym hpos y hal v x).trans (normalEq_iff_adjoint A W y α lam v x)

-- non-vacuity: A = W = id on ℝ, α = 1/2, lam = 1, y = 1, v = 3: x = 2 solves (1+1)x = 3+1
example : IsProx (sqL2Fn (LinearMap.id : ℝ →ₗ[ℝ] ℝ) LinearMap.id 1 (1 / 2)) 1 (3 : ℝ) 2 :=
  (C08_sqL2_normal_eq LinearMap.id LinearMap.id (fun _ _ => rfl) (fun a => real_inner_self_nonneg)
    1 (by norm_num) 3 2).2 fun d => by simp; ring

end sql2

section diag
variable {K : Type} [Field K] [LinearOrder K] [IsStrictOrderedRing K]

/-- diagonal `A` (real or complex data, entry by entry): the closed form returned by the
    `isinstance(A, Diagonal)` branch (model `sqL2DiagProx`, one entry = `diagEntry`) solves the
    scalar complex normal equation `(1 + c·conj(a)·w·a)·x = v + c·conj(a)·w·y`, `c = 2·scale·lam`,
    and is the minimiser of the entry's objective (the objective is a sum over entries). -/
theorem C08_sqL2_diag_closed_form {c w : K} (hc : 0 ≤ c) (hw : 0 ≤ w) (ar ai yr yi vr vi : K) :
    let x := diagEntry c w ar ai yr yi vr vi
    ((1 + c * (w * (ar * ar + ai * ai))) * x.1 = vr + c * (ar * (w * yr) + ai * (w * yi)) ∧
     (1 + c * (w * (ar * ar + ai * ai))) * x.2 = vi + c * (ar * (w * yi) - ai * (w * yr))) ∧
    (∀ xr xi, entryObj c w ar ai yr yi vr vi x.1 x.2 ≤ entryObj c w ar ai yr yi vr vi xr xi) :=
  ⟨diagEntry_solves hc hw ar ai yr yi vr vi, fun xr xi => diagEntry_minimises hc hw ar ai yr yi vr vi xr xi⟩

/-- the model's list-level closed form is that entry formula (complex and real data) -/
theorem C08_sqL2_diag_model (scale lam w ar ai yr yi vr vi : K) :
    sqL2DiagProx true scale lam (some [w]) [ar, ai] [yr, yi] [vr, vi]
      = [(diagEntry ((1 + 1) * scale * lam) w ar ai yr yi vr vi).1,
         (diagEntry ((1 + 1) * scale * lam) w ar ai yr yi vr vi).2] ∧
    sqL2DiagProx false scale lam (some [w]) [ar] [yr] [vr]
      = [(diagEntry ((1 + 1) * scale * lam) w ar 0 yr 0 vr 0).1] :=
  ⟨sqL2DiagProx_entry_cplx scale lam w ar ai yr yi vr vi, sqL2DiagProx_entry_real scale lam w ar yr vr⟩

/-- whole arrays, real diagonal `A`: the array returned by the closed-form branch minimises the
    documented objective `lam·scale·Σ w_i (y_i − a_i x_i)² + ½ Σ (x_i − v_i)²` (`diagObj`; its first
    term is `lam` times what `SquaredL2Loss.__call__` returns, second conjunct) among all arrays of
    the same length, for every length, weights `≥ 0` incl. zeros, `scale·lam ≥ 0` -/
theorem C08_sqL2_diag_minimises {scale lam : K} (hc : 0 ≤ (1 + 1) * scale * lam) (w a y v x : List K)
    (hw : ∀ wi ∈ w, 0 ≤ wi) (h1 : w.length = v.length) (h2 : a.length = v.length) (h3 : y.length = v.length)
    (h4 : x.length = v.length) :
    diagObj scale lam w a y v (sqL2DiagProx false scale lam (some w) a y v) ≤ diagObj scale lam w a y v x ∧
    (∀ [HasSqrt K] (En : Env K), En.cplx = false →
      eval En (.sqL2 (.arr y) (.diag a) (some w) scale) (.arr x)
        = .ok (scale * (List.zipWith (· * ·) w (sqmags false (List.zipWith (· - ·) y (List.zipWith (· * ·) a x)))).sum)) :=
  ⟨sqL2DiagProx_minimises_real hc w a y v x hw h1 h2 h3 h4,
   fun En hE => eval_sqL2_diag_real En hE w a y x scale (h2.trans h4.symm) (h3.trans h4.symm)⟩

/-- the system `SquaredL2Loss.prox` hands to `cg` — `lhs = Identity + lam * hessian`,
    `hessian = 2·scale·AᴴWA`, `rhs = v + 2·lam·scale·AᴴW y` (model `sqL2Lhs`, `sqL2Rhs`) — is entry by
    entry the system of `C08_sqL2_normal_eq`: `x + 2·scale·lam·(AᴴWA x)` and `v + 2·scale·lam·(AᴴW y)` -/
theorem C08_sqL2_cg_system {F : Type} [Field F] (scale lam : F) (ahwa : List F → List F) (ahwy v x : List F) :
    sqL2Lhs scale lam ahwa x = List.zipWith (fun xi ti => xi + 2 * scale * lam * ti) x (ahwa x) ∧
    sqL2Rhs scale lam ahwy v = List.zipWith (fun vi ti => vi + 2 * scale * lam * ti) v ahwy :=
  ⟨sqL2Lhs_eq scale lam ahwa x, sqL2Rhs_eq scale lam ahwy v⟩

example : sqL2DiagProx false (1 / 2 : ℚ) 1 (some [2, 0]) [1, 3] [1, 5] [4, 7] = [2, 7] := by
  norm_num [sqL2DiagProx, emul, econj, rmulL, edivR, sqmags]

-- a = 1+i, w = 2, c = 1, y = 1, v = i over ℚ:  x = (conj(a)·2·1 + i)/(1 + 2·2) = (2 − i)/5
example : diagEntry (1 : ℚ) 2 1 1 1 0 0 1 = (2 / 5, -1 / 5) := by norm_num [diagEntry]

end diag

section flags
variable {α : Type} [Add α] [Sub α] [Mul α] [Div α] [Neg α] [Zero α] [One α] [LT α] [DecidableLT α]
  [HasSqrt α]

/-- **flags are truthful — a cleared flag**: for every nesting of scaling / sum / separable /
    loss wrappers, when `has_eval` is `False` the call raises for every argument, and when
    `has_prox` is `False` the prox raises for every argument — except that a `ScaledFunctional`
    with a non-positive scale clears the flag while still forwarding (`ScaledPos` excludes it). -/
theorem C08_flags_unadvertised_raises (En : Env α) (t : Fn α) :
    (hasProx En t = false → ScaledPos t → ∀ v lam, Raises (prox En t v lam)) ∧
    (hasEval En t = false → ∀ x, Raises (eval En t x)) :=
  ⟨fun h hp v lam => prox_raises_of_not_hasProx En t v lam h hp,
   fun h x => eval_raises_of_not_hasEval En t x h⟩

/-- **flags are truthful — a set flag**: when the flag is set and the argument conforms to the tree
    (block counts, shapes of measurements / weights / diagonals), `prox` and `__call__` return a
    value (of the argument's shape): an advertised operation does not raise.  That the value
    returned by `prox` *is* the prox of the denoted functional is `C08_tree_sound` (generic
    wrappers) and `C08_sqL2_*` (`SquaredL2Loss`). -/
theorem C08_flags_advertised_available (En : Env α) (hE : En.ShapeOk) (t : Fn α) (v : Arg α) (lam : α)
    (hc : Conforms En t v) :
    (hasProx En t = true → Generic t → ∃ p, prox En t v lam = .ok p ∧ p.shapeEq v) ∧
    (hasEval En t = true → ∃ r, eval En t v = .ok r) ∧
    (∀ y A w s, t = .sqL2 y A w s → hasProx En t = true → ∃ p, prox En t v lam = .ok p) :=
  ⟨fun h hg => prox_ok_of_hasProx En hE t v lam h hg hc, fun h => eval_ok_of_hasEval En t v h hc,
   fun y A w s ht h => by subst ht; exact sqL2_prox_ok En y A w s v lam h hc⟩

/-- the repaired flags are never more generous than the rule of the tree before the repairs -/
theorem C08_flags_repaired_le_old (En : Env α) (t : Fn α) :
    (hasProx En t = true → hasProxOld En t = true) ∧ (hasEval En t = true → hasEvalOld En t = true) :=
  ⟨hasProxOld_of_hasProx En t, hasEvalOld_of_hasEval En t⟩

end flags

-- non-vacuity of the flag theorems: a concrete environment over ℚ with two leaves
-- (0: has both operations, 1: has neither) and the tree `2 * Separable([Loss(y, f=leaf0), leaf0])`
section nonvacuity

def exEnv : Env ℚ where
  hasEval := fun i => i == 0
  hasProx := fun i => i == 0
  eval := fun _ _ => 0
  prox := fun _ v _ => v
  opEval := fun _ x => x
  solve := fun _ _ _ _ v => v
  cplx := false

def exTree : Fn ℚ := .scaled 2 (.scons (.loss (.arr [1, 2]) none (.leaf 0) 3) (.scons (.leaf 0) .snil))

example : hasProx exEnv exTree = true ∧ hasEval exEnv exTree = true := by decide
example : Conforms exEnv exTree (.blk [[5, 6], [7]]) :=
  ⟨_, _, rfl, ⟨by simp [Arg.shapeEq, Env.applyOpt], fun _ _ => trivial⟩, _, _, rfl, trivial, rfl⟩
example : hasProx exEnv (.scaled 2 (.sum (.leaf 0) (.leaf 0))) = false ∧ ScaledPos (.scaled (2 : ℚ) (.sum (.leaf 0) (.leaf 0))) :=
  ⟨by decide, by simp [ScaledPos]⟩

end nonvacuity

/-- the rule of the tree **before** the repairs 1a0aadd / 689de28 was not truthful:
    `Loss(y, f=f₁+f₂)` declared `has_prox = True` while its `prox` raises for every argument, and
    `Loss(y)` (`f=None`) declared `has_eval = True` and cannot be evaluated. -/
theorem C08_flags_old_rule_counterexamples (En : Env ℚ) (y : Arg ℚ) :
    (hasProxOld En (.loss y none (.sum (.leaf 0) (.leaf 1)) 1) = true ∧
      ∀ v lam, Raises (prox En (.loss y none (.sum (.leaf 0) (.leaf 1)) 1) v lam)) ∧
    (hasEvalOld En (.lossNone y none 1) = true ∧ ∀ x, Raises (eval En (.lossNone y none 1) x)) :=
  ⟨⟨rfl, fun v lam => ⟨.notimpl, by simp [prox, hasProx]⟩⟩, ⟨rfl, fun x => ⟨.notimpl, rfl⟩⟩⟩

/-- and a non-positive scale was advertised although the forwarded prox is not a minimiser:
    for `f = |·|` on ℝ, `c = −1`, `lam = 1`, `v = 0` the wrapper returns `prox_{−1·|·|}(0)` as
    computed by `L1Norm.prox` (`sign(0)·… = 0`), but `0` does not minimise `−|x| + x²/2`
    (the value at `x = 1` is `−1/2 < 0`). -/
theorem C08_scaled_nonpositive_counterexample :
    ¬ IsProx ((⟨Set.univ, fun x : ℝ => |x|⟩ : ExtFn ℝ).smul (-1)) 1 0 0 := by
  intro h
  have := h.2 1 trivial
  simp only [proxObj, ExtFn.smul] at this
  norm_num at this

/-- **all nestings**: for every tree (any depth) whose `has_prox` flag is set (generic `Loss` scales
    positive), if the
    base functionals' proximal maps are proximal maps (hypothesis `LeafSound`, property C02), the
    value returned by the model of `prox` is a proximal point of the functional the tree denotes
    (`den`), on plain and block arguments. -/
theorem C08_tree_sound (En : Env ℝ) (S : LeafSem) (hS : LeafSound En S) (t : Fn ℝ) (v p : Arg ℝ) {lam : ℝ}
    (hl : 0 < lam) (hp : hasProx En t = true) (hgen : Generic t) (hls : LossScalesPos t)
    (hr : prox En t v lam = .ok p) :
    IsProxA (dom En S t) (den En S t) lam v p :=
  tree_sound En S hS t v p hl hp hgen hls hr

-- non-vacuity of `C08_tree_sound`: leaves = `ZeroFunctional` (prox = identity), tree `2 * Separable([Loss(y, f=zero, scale=3), zero])`
section nonvacuity_sound

def zEnv : Env ℝ where
  hasEval := fun _ => true
  hasProx := fun _ => true
  eval := fun _ _ => 0
  prox := fun _ v _ => v
  opEval := fun _ x => x
  solve := fun _ _ _ _ v => v
  cplx := false

def zSem : LeafSem := ⟨fun _ _ => True, fun _ _ => 0⟩

noncomputable def zTree : Fn ℝ := .scaled 2 (.scons (.loss (.arr [1, 2]) none (.leaf 0) 3) (.scons (.leaf 0) .snil))

example : ∃ p, prox zEnv zTree (.blk [[5, 6], [7]]) 1 = .ok p ∧
    IsProxA (dom zEnv zSem zTree) (den zEnv zSem zTree) 1 (.blk [[5, 6], [7]]) p := by
  have hp : hasProx zEnv zTree = true := by simp [zTree, hasProx, zEnv]
  have hg : Generic zTree := by simp [zTree, Generic]
  have hls : LossScalesPos zTree := by simp [zTree, LossScalesPos]
  have hc : Conforms zEnv zTree (.blk [[5, 6], [7]]) :=
    ⟨_, _, rfl, ⟨by simp [Arg.shapeEq, Env.applyOpt], fun _ _ => trivial⟩, _, _, rfl, trivial, rfl⟩
  obtain ⟨p, hpr, _⟩ := prox_ok_of_hasProx zEnv ⟨fun _ v _ => Arg.shapeEq_refl v, fun _ _ _ _ v => Arg.shapeEq_refl v⟩
    zTree (.blk [[5, 6], [7]]) 1 hp hg hc
  have zSound : LeafSound zEnv zSem := fun _ v lam _ _ => isProxA_zero lam v
  exact ⟨p, hpr, C08_tree_sound zEnv zSem zSound zTree _ p one_pos hp hg hls hpr⟩

end nonvacuity_sound

/-! ### round 2: every node kind, any sign of the scales, the model of `conj_prox` -/

/-- **all nestings, `SquaredL2Loss` nodes included**: as `C08_tree_sound`, for trees that may also contain
    `SquaredL2Loss` nodes with an Identity / Diagonal forward operator (closed-form branch) on real data
    with weights `≥ 0` (`SqNodesDiag`; what the constructor enforces: `W.diagonal >= 0`).  The value the
    model of `prox` returns is a proximal point of the denoted functional, where a `SquaredL2Loss` node
    denotes `s·Σ w_i (y_i − (A x)_i)²`. -/
theorem C08_tree_sound_with_sql2 (En : Env ℝ) (S : LeafSem) (hS : LeafSound En S) (t : Fn ℝ) (v p : Arg ℝ) {lam : ℝ}
    (hl : 0 < lam) (hp : hasProx En t = true) (hd : SqNodesDiag En t) (hls : LossScalesPos t)
    (hr : prox En t v lam = .ok p) :
    IsProxA (dom En S t) (den En S t) lam v p :=
  tree_sound_on En S (fun _ l => 0 < l) (SqDiagOk En) (fun i v lam h hi => hS i v lam h hi) (sqL2_diag_sound En S)
    t v p lam (paramsOk_diag En t lam hd (paramsOk_pos En t lam hl hp hls)) hr

-- non-vacuity: `Separable([SquaredL2Loss(y=[1,5], A=Diagonal([1,3]), W=[2,0], scale=1/2), 2 * zero])`
example : ∃ p, prox zEnv (.scons (.sqL2 (.arr [1, 5]) (.diag [1, 3]) (some [2, 0]) (1 / 2)) (.scons (.scaled 2 (.leaf 0)) .snil))
      (.blk [[4, 7], [3]]) 1 = .ok p ∧
    IsProxA (dom zEnv zSem (.scons (.sqL2 (.arr [1, 5]) (.diag [1, 3]) (some [2, 0]) (1 / 2)) (.scons (.scaled 2 (.leaf 0)) .snil)))
      (den zEnv zSem (.scons (.sqL2 (.arr [1, 5]) (.diag [1, 3]) (some [2, 0]) (1 / 2)) (.scons (.scaled 2 (.leaf 0)) .snil)))
      1 (.blk [[4, 7], [3]]) p := by
  have zSound : LeafSound zEnv zSem := fun _ v lam _ _ => isProxA_zero lam v
  have hr : prox zEnv (.scons (.sqL2 (.arr [1, 5]) (.diag [1, 3]) (some [2, 0]) (1 / 2)) (.scons (.scaled 2 (.leaf 0)) .snil))
      (.blk [[4, 7], [3]]) 1 = .ok (.blk [sqL2DiagProx false (1 / 2) 1 (some [2, 0]) [1, 3] [1, 5] [4, 7], [3]]) := by
    simp [prox, zEnv, diagOf, bind, Except.bind, pure, Except.pure]
  refine ⟨_, hr, C08_tree_sound_with_sql2 zEnv zSem zSound _ _ _ one_pos (by simp [hasProx, zEnv]) ?_ (by simp [LossScalesPos]) hr⟩
  refine ⟨⟨rfl, ⟨[1, 5], rfl, fun wl h => ?_⟩, Or.inr ⟨_, rfl⟩⟩, trivial, trivial⟩
  simp only [Option.some.injEq] at h
  subst h
  exact ⟨rfl, by simp⟩

/-- **no hypothesis on the signs of the scales**: whatever `prox` returns (flag set or cleared, scales of
    either sign) is a proximal point of the denoted functional *provided the base functionals' proximal
    maps are proximal maps at the parameters they are actually called with* (`ParamsOk` collects them:
    `lam·c` below a `ScaledFunctional`, `scale·lam` below a `Loss`).  So a non-positive scale is harmful
    exactly because it hands a non-positive parameter to a base prox, which is outside its contract (C02
    is about `lam > 0`).  `C08_tree_sound*` are the instances "positive parameters". -/
theorem C08_tree_sound_any_scale (En : Env ℝ) (S : LeafSem) (ok : Nat → ℝ → Prop)
    (okQ : Arg ℝ → OpK ℝ → Option (List ℝ) → ℝ → ℝ → Prop) (hS : LeafSoundOn En S ok) (hQ : SqSoundOn En S okQ)
    (t : Fn ℝ) (v p : Arg ℝ) (lam : ℝ) (hok : ParamsOk ok okQ t lam) (hr : prox En t v lam = .ok p) :
    IsProxA (dom En S t) (den En S t) lam v p :=
  tree_sound_on En S ok okQ hS hQ t v p lam hok hr

-- non-vacuity: the zero functional's prox (identity) is a proximal map for every parameter, so the tree
-- `(-2) * Loss(y, f=zero, scale=-3)` (flag cleared) still returns proximal points of `(-2)·(-3)·0`
example : IsProxA (dom zEnv zSem (.scaled (-2) (.loss (.arr [1, 2]) none (.leaf 0) (-3))))
    (den zEnv zSem (.scaled (-2) (.loss (.arr [1, 2]) none (.leaf 0) (-3)))) 1 (.arr [5, 6]) (.arr [5, 6]) := by
  refine C08_tree_sound_any_scale zEnv zSem (fun _ _ => True) (fun _ _ _ _ _ => False)
    (fun _ v lam _ _ => isProxA_zero lam v) (fun _ _ _ _ _ _ _ h _ => h.elim) _ _ _ 1 trivial ?_
  simp [prox, hasProx, zEnv, Arg.sub, Arg.add, Arg.zip, zipSame, Except.map, bind, Except.bind]

/-- **the flag of a `Loss` does not look at its scale** (known finding `loss-nonpositive-scale`, recorded,
    patch `fixes/loss-nonpositive-scale.patch` not applied): `has_prox` of `Loss(y, A, f, scale)` is the same
    for every `scale` (first conjunct), and for `Loss(y=[0], f=L1Norm(), scale=−1)` the flag is set, the
    model of `prox([0], 1)` returns `[0]` (`L1Norm.prox` called with parameter `−1`), but `[0]` is not a
    proximal point of `x ↦ −|x|` (`−|x| + x²/2` is `−1/2` at `x = 1`).  This is why `C08_tree_sound` keeps the
    hypothesis `LossScalesPos`. -/
theorem C08_loss_nonpositive_counterexample :
    (∀ (En : Env ℝ) (y : Arg ℝ) (A : Option Nat) (f : Fn ℝ) (s s' : ℝ),
      hasProx En (.loss y A f s) = hasProx En (.loss y A f s')) ∧
    hasProx l1Env (.loss (.arr [0]) none (.leaf 0) (-1)) = true ∧
    prox l1Env (.loss (.arr [0]) none (.leaf 0) (-1)) (.arr [0]) 1 = .ok (.arr [0]) ∧
    ¬ IsProxA (fun _ => True) (fun x => (-1) * l1 false x) 1 (.arr [0]) (.arr [0]) :=
  ⟨fun En y A f s s' => hasProx_loss_scale En y A f s s', loss_nonpos_counterexample⟩

/-- with the rule of the proposed repair (`hasProxR`: a `Loss` advertises its prox only while its scale is
    positive) a set flag alone suffices — no hypothesis on the scales is left -/
theorem C08_tree_sound_repaired_flag (En : Env ℝ) (S : LeafSem) (hS : LeafSound En S) (t : Fn ℝ) (v p : Arg ℝ) {lam : ℝ}
    (hl : 0 < lam) (hp : hasProxR En t = true) (hd : SqNodesDiag En t) (hr : prox En t v lam = .ok p) :
    IsProxA (dom En S t) (den En S t) lam v p ∧ hasProx En t = true :=
  ⟨tree_sound_on En S (fun _ l => 0 < l) (SqDiagOk En) (fun i v lam h hi => hS i v lam h hi) (sqL2_diag_sound En S)
    t v p lam (paramsOk_diag En t lam hd (paramsOk_of_hasProxR En t lam hl hp)) hr, hasProx_of_hasProxR En t hp⟩

example : hasProxR zEnv zTree = true := by simp [zTree, hasProxR, zEnv]
example : hasProxR l1Env (.loss (.arr [0]) none (.leaf 0) (-1)) = false := by simp [hasProxR]

/-- **complex diagonal `A`, whole arrays, every length** (companion of `C08_sqL2_diag_minimises`): on interleaved
    complex data the array returned by the closed-form branch minimises
    `Σ_j (c/2)·w_j·|a_j x_j − y_j|² + ½|x_j − v_j|²`, `c = 2·scale·lam` (`diagObjC`, i.e.
    `lam·scale·Σ w|A x − y|² + ½‖x − v‖²`), among all arrays of the same length; weights `≥ 0` incl. zeros -/
theorem C08_sqL2_diag_minimises_complex {K : Type} [Field K] [LinearOrder K] [IsStrictOrderedRing K] {scale lam : K}
    (hc : 0 ≤ (1 + 1) * scale * lam) (w a y v x : List K) (hw : ∀ wi ∈ w, 0 ≤ wi) (ha : a.length = 2 * w.length)
    (hy : y.length = 2 * w.length) (hv : v.length = 2 * w.length) (hx : x.length = 2 * w.length) :
    diagObjC ((1 + 1) * scale * lam) w a y v (sqL2DiagProx true scale lam (some w) a y v)
      ≤ diagObjC ((1 + 1) * scale * lam) w a y v x :=
  sqL2DiagProx_minimises_cplx hc w a y v x hw ha hy hv hx

-- a = [1+i, 2], w = [2, 0], y = [1, 3i], v = [i, 1−i], scale = 1/2, lam = 1 over ℚ
example : sqL2DiagProx true (1 / 2 : ℚ) 1 (some [2, 0]) [1, 1, 2, 0] [1, 0, 0, 3] [0, 1, 1, -1] = [2 / 5, -1 / 5, 1, -1] := by
  norm_num [sqL2DiagProx, emul, econj, cconjL, rmulL, rmulLc, cmulL, sqmags, pairs, edivR, edivRc]

/-- the model of `Functional.conj_prox` is `v − lam · prox(v / lam, 1 / lam)` (so `C08_moreau` applies to
    it with `q` the value of the inner `prox` call) -/
theorem C08_conj_prox_model {α : Type} [Add α] [Sub α] [Mul α] [Div α] [Neg α] [Zero α] [One α] [LT α] [DecidableLT α]
    [HasSqrt α] (En : Env α) (t : Fn α) (v r : Arg α) (lam : α) (h : conjProx En t v lam = .ok r) :
    ∃ q, prox En t (Arg.map (· / lam) v) (1 / lam) = .ok q ∧ Arg.sub v (Arg.smul lam q) = .ok r :=
  conjProx_eq En t v r lam h

example : conjProx exEnv (.leaf 0) (.arr [4, 6]) 2 = .ok (.arr [0, 0]) := by
  simp [conjProx, prox, exEnv, Arg.map, Arg.smul, Arg.sub, Arg.zip, zipSame, Except.map, bind, Except.bind]
  norm_num

/-! ### round 3 -/

/-- **keyword arguments** (`prox(v, lam, **kwargs)`, e.g. the initial guess `x0`): through every nesting of
    `ScaledFunctional`, `SeparableFunctional`, `Loss` (and `conj_prox`, which calls `prox`) whoever receives keyword
    arguments — the base functionals and the CG-branch `SquaredL2Loss` nodes listed by `kwPlan` — receives exactly the
    caller's dictionary; `SquaredL2Loss.prox` starts CG from `x0` when given and not `None`, from zeros otherwise -/
theorem C08_kwargs_forwarded {α κ : Type} [Add α] [Sub α] [Mul α] [Div α] [Neg α] [Zero α] [One α] [LT α] [DecidableLT α]
    [HasSqrt α] (En : Env α) (t : Fn α) (kw : κ) (x0 v : List α) :
    (∀ c ∈ kwPlan En t kw, c.2 = kw) ∧ sqL2X0 (some x0) v = x0 ∧ sqL2X0 none v = v.map (fun _ => 0) :=
  ⟨kwPlan_forward En t kw, rfl, rfl⟩

/-- **`SeparableFunctional` applied to a plain array** (its documented argument is a `BlockArray`): the code accepts it
    iff `ndim = k` (`ValueError` otherwise) and then acts as the separable functional of the first `min(k, shape[0])`
    functionals on the block array of the first `min(k, shape[0])` slices along the leading axis (`zip` stops at the
    shorter list) — for `__call__` and for `prox` (which returns a `BlockArray`).  In particular on an array with
    exactly `k` leading slices it is the documented separable sum of `C08_separable` / `C09_separable_eval`. -/
theorem C08_separable_plain_array {α : Type} [Add α] [Sub α] [Mul α] [Div α] [Neg α] [Zero α] [One α] [LT α]
    [DecidableLT α] [HasSqrt α] (En : Env α) (fs : List (Fn α)) (shape : List Nat) (x : List α) (lam : α) :
    (shape.length ≠ fs.length → evalSepPlain En fs shape x = .error .value ∧ proxSepPlain En fs shape x lam = .error .value) ∧
    (shape.length = fs.length →
      let rows := leadingSlices shape En.cplx x
      let n := min fs.length rows.length
      evalSepPlain En fs shape x = eval En (Fn.sep (fs.take n)) (.blk (rows.take n)) ∧
      proxSepPlain En fs shape x lam = prox En (Fn.sep (fs.take n)) (.blk (rows.take n)) lam) :=
  ⟨fun h => by simp [evalSepPlain, proxSepPlain, h],
   fun h => by
     simp only [evalSepPlain, proxSepPlain, h, if_true]
     exact ⟨evalZip_eq En fs _, proxZip_eq En fs _ lam⟩⟩

-- two functionals on a (3, 2) array: only the first two rows are used
example : leadingSlices [3, 2] false [(1 : ℚ), 2, 3, 4, 5, 6] = [[1, 2], [3, 4], [5, 6]] := by decide
example : evalSepPlain exEnv [.leaf 0, .leaf 0] [3] [(1 : ℚ), 2, 3] = .error .value := by decide

/-- **kinds of scale objects**: `ScaledFunctional.has_prox` is set exactly when the wrapped functional has a prox and the
    scale is a positive real *or a real tracer* (inside `jit` the sign is unknown at construction time: the flag is kept,
    and is truthful iff the run-time value is positive); complex-dtype scales (also `2+0j`, also complex tracers) and
    non-positive reals clear it -/
theorem C08_scale_kinds (inner : Bool) (k : ScaleKind) :
    scaledHasProxOf inner k = true ↔ inner = true ∧ (k = .posReal ∨ k = .tracedReal) := by
  cases k <;> cases inner <;> simp [scaledHasProxOf]

example : scaledHasProxOf true .complex = false ∧ scaledHasProxOf true .tracedReal = true := by decide

/-- **weights of a `SquaredL2Loss` of another length than the data**: a diagonal of `n` entries is used as it is, one
    entry is broadcast to all `n`, anything else is a (broadcasting) `TypeError`; the normalised weights have `n`
    entries and stay non-negative, so the weighted theorems (`C08_sqL2_*`) apply to them -/
theorem C08_weights_normalised {K : Type} [Field K] [LinearOrder K] (w : List K) (n : Nat) (hw : ∀ a ∈ w, 0 ≤ a) :
    (w.length = n → wNormalize (some w) n = .ok (some w)) ∧
    (∀ a, w = [a] → n ≠ 1 → wNormalize (some w) n = .ok (some (List.replicate n a))) ∧
    (w.length ≠ n → w.length ≠ 1 → wNormalize (some w) n = .error .type) ∧
    (∀ w', wNormalize (some w) n = .ok (some w') → w'.length = n ∧ ∀ a ∈ w', 0 ≤ a) := by
  refine ⟨fun h => by simp [wNormalize, h], fun a ha hn => ?_, fun h1 h2 => ?_, fun w' h => ?_⟩
  · subst ha
    simp [wNormalize]
    intro h; exact absurd h.symm hn
  · simp only [wNormalize, h1, if_false]
    match w, h2 with
    | [], _ => rfl
    | [_], h2 => simp at h2
    | _ :: _ :: _, _ => rfl
  · simp only [wNormalize] at h
    split at h
    · simp only [Except.ok.injEq, Option.some.injEq] at h
      subst h; exact ⟨‹_›, hw⟩
    · match w, h, hw with
      | [a], h, hw =>
        simp only [Except.ok.injEq, Option.some.injEq] at h
        subst h
        refine ⟨by simp, fun b hb => ?_⟩
        rw [(List.mem_replicate.mp hb).2]; exact hw a (by simp)
      | [], h, _ => simp at h
      | _ :: _ :: _, h, _ => simp at h

example : wNormalize (some [(2 : ℚ)]) 3 = .ok (some [2, 2, 2]) ∧ wNormalize (some [(2 : ℚ), 1]) 3 = .error .type := by decide

/-- **closed-form branch on block arrays** (round 5): with the default Identity on a block shape or a `Diagonal` whose diagonal
    is a block array, `SquaredL2Loss.prox` on block arguments `v`, `y` of the same block shape returns a block array of that
    shape whose concatenation is the entrywise closed form `sqL2DiagProx` of the concatenated data — so the minimisation
    theorems `C08_sqL2_diag_minimises` (real) / `C08_sqL2_diag_minimises_complex` apply to it as they stand -/
theorem C08_sqL2_block_diag {α : Type} [Add α] [Sub α] [Mul α] [Div α] [Neg α] [Zero α] [One α] [LT α] [DecidableLT α] [HasSqrt α]
    (En : Env α) (ys vs : List (List α)) (A : OpK α) (w : Option (List α)) (s lam : α) (p : Arg α)
    (hA : A = .ident ∨ ∃ d, A = .diag d) (h : prox En (.sqL2 (.blk ys) A w s) (.blk vs) lam = .ok p) :
    ∃ a, diagOf En.cplx (nEntries En.cplx vs.flatten) A = some a ∧ a.length = vs.flatten.length ∧
      vs.map List.length = ys.map List.length ∧
      ((sqL2DiagProx En.cplx s lam w a ys.flatten vs.flatten).length = vs.flatten.length →
        p.flat = sqL2DiagProx En.cplx s lam w a ys.flatten vs.flatten ∧
        ∃ ps, p = .blk ps ∧ ps.map List.length = vs.map List.length) := by
  obtain ⟨a, h1, h2, h3, _, h5⟩ := sqL2_block_prox En ys vs A w s lam p hA h
  exact ⟨a, h1, h2, h3, h5⟩

-- blocks [4],[7] with block diagonal [1],[3], weights [2,0], y = [1],[5], scale 1/2, lam 1: the flat closed form [2, 7], split again
example : prox exEnv (.sqL2 (.blk [[1], [5]]) (.diag [1, 3]) (some [2, 0]) (1 / 2)) (.blk [[4], [7]]) 1 = .ok (.blk [[2], [7]]) := by
  simp [prox, exEnv, diagOf, splitLike]
  norm_num [sqL2DiagProx, emul, econj, rmulL, edivR, sqmags]

-- `2 * Separable([Loss(y, f=leaf0, scale=3), leaf0])`: both occurrences of leaf 0 receive the dictionary (here the token 7)
example : kwPlan exEnv exTree (7 : Nat) = [(.inl 0, 7), (.inl 0, 7)] := by decide

end Scico.Props.C08
