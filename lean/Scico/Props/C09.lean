/-
  Property C09 — functionals, losses and metrics evaluate to their definitions.
  ONLY property theorems here.  Model: `Scico.Model.FuncEval` (one definition per `__call__` /
  metric, transcribed from the code) and the wrapper tree of `Scico.Model.ProxCalc`.
  Data convention: complex arrays are interleaved `re, im` lists (flag `cplx`), so a block of
  complex data has even length (hypothesis `cplx = true → even lengths`).
-/
import Scico.Proofs.FuncEval
import Scico.Proofs.FuncEvalND
import Scico.Proofs.FuncEvalLoss
import Scico.Proofs.ProxCalc
import Scico.Proofs.ProxCalcTree
import Scico.Proofs.ProxCalcTree2

namespace Scico.Props.C09
open Scico Scico.FuncEval Scico.ProxCalc

/-! ### block argument = concatenation of the flattened blocks -/

/-- The code applies every full reduction to the concatenation of the ravelled blocks
    (`add_full_reduction`, model `Arg.flat`).  That value equals the documented one — the
    reduction over *all entries of all blocks*: sum of the per-block sums for `‖·‖₁`, `‖·‖₂²`,
    the non-zero count and the separable Huber norm, root of the sum of squared block norms
    for `‖·‖₂`; any number of blocks of any sizes, real or complex data. -/
theorem C09_block_eq_concat (cplx : Bool) (delta : ℝ) (bs : List (List ℝ))
    (h : cplx = true → ∀ b ∈ bs, b.length % 2 = 0) :
    l1 cplx (.blk bs) = (bs.map (fun b => l1 cplx (.arr b))).sum ∧
    sql2 cplx (.blk bs) = (bs.map (fun b => sql2 cplx (.arr b))).sum ∧
    l0 cplx (.blk bs) = (bs.map (fun b => l0 cplx (.arr b))).sum ∧
    huberSep cplx delta (.blk bs) = (bs.map (fun b => huberSep cplx delta (.arr b))).sum ∧
    l2 cplx (.blk bs) = Real.sqrt ((bs.map (fun b => (l2 cplx (.arr b)) ^ 2)).sum) :=
  ⟨l1_block cplx bs h, sql2_block cplx bs h, l0_block cplx bs h, huberSep_block cplx delta bs h,
   l2_block cplx bs h⟩

/-- and by definition the value on a block array is the value on the plain concatenation -/
theorem C09_block_is_flat (cplx : Bool) (bs : List (List ℝ)) :
    l1 cplx (.blk bs) = l1 cplx (.arr bs.flatten) ∧ sql2 cplx (.blk bs) = sql2 cplx (.arr bs.flatten) ∧
    l2 cplx (.blk bs) = l2 cplx (.arr bs.flatten) ∧ l0 cplx (.blk bs) = l0 cplx (.arr bs.flatten) :=
  ⟨rfl, rfl, rfl, rfl⟩

/-- documented block-wise rule of `L21Norm(l2_axis=None)`: the sum of the block 2-norms
    (not the 2-norm of the concatenation) -/
theorem C09_l21_blockwise (cplx : Bool) (bs : List (List ℝ)) :
    l21None cplx (.blk bs) = (bs.map (fun b => l2 cplx (.arr b))).sum :=
  l21None_block cplx bs

-- non-vacuity: two blocks [3,4] and [0,-5]: ‖·‖₂,₁ (None) = 5 + 5, whereas the 2-norm of the concatenation is √50
example : l21None false (.blk [[3, 4], [0, -5]]) = (10 : ℝ) := by
  rw [C09_l21_blockwise]
  have h1 : Real.sqrt 25 = 5 := by
    rw [show (25 : ℝ) = 5 ^ 2 by norm_num]; exact Real.sqrt_sq (by norm_num)
  simp [l2, sqmags, Arg.flat, HasSqrt.sqrt]
  norm_num [h1]

example : sql2 false (.blk [[3, 4], [0, -5]]) = (50 : ℝ) := by
  norm_num [sql2, sqmags, Arg.flat]

/-! ### indicators -/

/-- indicator functionals take only the values `0` and `+∞`, and are `0` exactly on their set:
    the non-negative orthant (all entries of all blocks `≥ 0`) and the ℓ² ball (`‖x‖₂ ≤ r`,
    boundary included) -/
theorem C09_indicators {K : Type} [Field K] [LinearOrder K] [IsStrictOrderedRing K] [HasSqrt K]
    (cplx : Bool) (r : K) (x : Arg K) :
    (nonnegInd x = .fin 0 ∨ nonnegInd x = .top) ∧ (nonnegInd x = .fin 0 ↔ ∀ a ∈ x.flat, 0 ≤ a) ∧
    (l2ballInd cplx r x = .fin 0 ∨ l2ballInd cplx r x = .top) ∧ (l2ballInd cplx r x = .fin 0 ↔ l2 cplx x ≤ r) :=
  ⟨nonnegInd_range x, nonnegInd_eq_zero_iff x, l2ballInd_range cplx r x, l2ballInd_eq_zero_iff cplx r x⟩

example : nonnegInd (.blk [[1, 0], [(2 : ℤ)]]) = .fin 0 := by simp [nonnegInd, Arg.flat]
example : nonnegInd (.blk [[1, 0], [(-2 : ℤ)]]) = .top := by simp [nonnegInd, Arg.flat]

/-! ### Huber -/

/-- the quadratic and the linear branch of the Huber function agree at `|x| = δ` (so the
    choice made by `<=` at the tie is immaterial), and the value is non-negative -/
theorem C09_huber_tie {K : Type} [Field K] [LinearOrder K] [IsStrictOrderedRing K] (delta : K) :
    (1 / (1 + 1)) * (delta * delta) = delta * (delta - delta / (1 + 1)) ∧
    huber1 delta delta = delta * (delta - delta / (1 + 1)) ∧
    (0 ≤ delta → ∀ a, 0 ≤ huber1 delta a) :=
  ⟨huber_branches_agree delta, huber1_at_delta delta, fun hd _ => huber1_nonneg hd⟩

/-- the non-separable Huber norm, which the code evaluates through the squared norm
    (`0.5·Σ|x|²` inside, `δ(√Σ|x|² − δ/2)` outside), is the Huber function of `‖x‖₂` -/
theorem C09_huber_nonsep (cplx : Bool) (delta : ℝ) (x : Arg ℝ) :
    huberNonsep cplx delta x = huber1 delta (l2 cplx x) :=
  huberNonsep_eq cplx delta x

example : huber1 (2 : ℚ) 2 = 2 := by norm_num [huber1, leR]
example : huber1 (2 : ℚ) 3 = 4 := by norm_num [huber1, leR]

/-! ### wrappers -/

/-- for every nesting of `ScaledFunctional`, `+`, `SeparableFunctional`, `Loss` and `SquaredL2Loss`, the
    value the model of `__call__` returns is the arithmetic combination the tree denotes
    (`den`: `c·f(x)`, `f(x)+g(x)`, `Σ_i f_i(x_i)`, `s·f(A x − y)`, `s·Σ w_i |y_i − (A x)_i|²`), given that
    the base functionals evaluate to their meanings -/
theorem C09_wrappers_eval (E : Env ℝ) (S : LeafSem)
    (hS : ∀ i x, E.hasEval i = true → E.eval i x = S.val i x) (t : Fn ℝ) (x : Arg ℝ) (r : ℝ)
    (h : eval E t x = .ok r) : r = den E S t x :=
  eval_eq_den E S hS t x r h

/-- `SeparableFunctional([f₁…f_k])` denotes `Σ_i f_i(x_i)` -/
theorem C09_separable_eval (E : Env ℝ) (S : LeafSem) (fs : List (Fn ℝ)) (bs : List (List ℝ))
    (h : fs.length = bs.length) :
    den E S (Fn.sep fs) (.blk bs) = (List.zipWith (fun f b => den E S f (.arr b)) fs bs).sum :=
  den_sep E S fs bs h

/-- `c * f` / `f * c` — including the overrides of `ScaledFunctional` (scale folded) and of
    `Loss` (`set_scale`) — evaluates to `c · f(x)` whenever `f(x)` is available -/
theorem C09_mul_eval {K : Type} [Field K] [LinearOrder K] [IsStrictOrderedRing K] [HasSqrt K]
    (E : Env K) (t : Fn K) (c : K) (x : Arg K) :
    eval E (t.mul c) x = (eval E t x).map (c * ·) :=
  eval_mul E t c x

/-! ### total variation: the finite difference the norms are applied to -/

/-- `SingleAxisFiniteDifference._eval` as used by `TVNorm` (append a copy of the last entry for
    `append=0`, of the first for `circular`, then `diff`) returns `n` rows:
    `x_{i+1} − x_i` for `i < n−1`, then `0` (append=0) or `x_0 − x_{n−1}` (circular) —
    the matrices of the class docstring, for every `n`. -/
theorem C09_tv_difference {K : Type} [Field K] (circular : Bool) (x : List K) :
    (diffAppend circular x).length = x.length ∧
    ∀ i, i < x.length → (diffAppend circular x).getD i 0 =
      if i + 1 < x.length then x.getD (i + 1) 0 - x.getD i 0
      else if circular then x.getD 0 0 - x.getD i 0 else 0 :=
  ⟨diffAppend_length circular x, fun i hi => diffAppend_getD circular x i hi⟩

/-- on a 1-D array the N-d index formula the TV model is written with (`fdAxis`) is that
    code-shaped difference, for every length and both boundary modes -/
theorem C09_tv_model_1d {K : Type} [Field K] (circular : Bool) (x : List K) :
    fdAxis circular [x.length] 0 x = diffAppend circular x :=
  fdAxis_1d circular x

example : diffAppend false [(1 : ℤ), 2, 4] = [1, 2, 0] := by decide
example : diffAppend true [(1 : ℤ), 2, 4] = [1, 2, -3] := by decide
-- N-d index formula used by the TV model, 2×3 image, axis 1, append=0 and circular
example : fdAxis false [2, 3] 1 [(1 : ℤ), 2, 4, 0, 4, 1] = [1, 2, 0, 4, -3, 0] := by decide
example : fdAxis true [2, 3] 0 [(1 : ℤ), 2, 4, 0, 4, 1] = [-1, 2, -3, 1, -2, 3] := by decide

/-- **N-d arrays, every shape, every axis, both boundary modes.**  For a row-major array of shape
    `pre ++ [n] ++ post` (`x.reshape(P, n, S)[a, c, b]` sits at flat position `(a·n + c)·S + b`) the finite
    difference along axis `len(pre)` that the TV norms are evaluated through (model `fdAxis`, tied axis by
    axis to `FiniteDifference`) has the shape of the input and at `(a, c, b)` equals
    `x[a, c+1, b] − x[a, c, b]` for `c + 1 < n`, and at `c = n − 1`: `x[a, 0, b] − x[a, n−1, b]` (circular) or
    `0` (`append=0`); equivalently, along every fibre `(a, ·, b)` it is the code-shaped 1-D difference
    `diffAppend` of `C09_tv_difference` (append a copy, then `diff`).  (All indices are in range.) -/
theorem C09_tv_nd {K : Type} [Field K] (circular : Bool) (pre post : List Nat) (n : Nat) (x : List K)
    (a c b : Nat) (ha : a < size pre) (hc : c < n) (hb : b < size post) :
    (fdAxis circular (pre ++ n :: post) pre.length x).length = size (pre ++ n :: post) ∧
    (a * n + c) * size post + b < size (pre ++ n :: post) ∧
    (fdAxis circular (pre ++ n :: post) pre.length x).getD ((a * n + c) * size post + b) 0 =
      (if c + 1 < n then
        x.getD ((a * n + (c + 1)) * size post + b) 0 - x.getD ((a * n + c) * size post + b) 0
      else if circular then
        x.getD ((a * n + 0) * size post + b) 0 - x.getD ((a * n + c) * size post + b) 0
      else 0) ∧
    (fdAxis circular (pre ++ n :: post) pre.length x).getD ((a * n + c) * size post + b) 0 =
      (diffAppend circular (fibre n (size post) x a b)).getD c 0 :=
  ⟨fdAxis_length _ _ _ _, by rw [size_split]; exact idx_lt ha hc hb, fdAxis_nd circular pre post n x a c b ha hc hb,
   fdAxis_fibre circular pre post n x a c b ha hc hb⟩

-- 2×3 image [[1,2,4],[0,4,1]], axis 1 (pre = [2], n = 3, post = []), position (a, c, b) = (1, 2, 0): last column
example : (fdAxis true ([2] ++ 3 :: []) [2].length [(1 : ℚ), 2, 4, 0, 4, 1]).getD ((1 * 3 + 2) * size [] + 0) 0 = 0 - 1 := by
  rw [(C09_tv_nd true [2] [] 3 [(1 : ℚ), 2, 4, 0, 4, 1] 1 2 0 (by decide) (by decide) (by decide)).2.2.1]
  norm_num [size]
-- 3-D: shape [2,2,2], axis 1, element (a,c,b) = (1,0,1): x[1,1,1] − x[1,0,1] = 8 − 6
example : (fdAxis false [2, 2, 2] 1 [(1 : ℤ), 2, 3, 4, 5, 6, 7, 8]).getD 5 0 = 2 := by decide

/-- **the TV norms are the stated norms of those differences** (any shape, any list of axes, both
    boundary modes).  Real data: `AnisotropicTVNorm` = `L1Norm` of the stack `G x` = `Σ_axes Σ_positions |D_ax x|`;
    `IsotropicTVNorm` = `Σ_positions sqrt(Σ_axes |D_ax x|²)`.  Complex data (`comps = [re, im]`, the
    difference acts on both parts): the same with `|D_ax x|² = (D_ax re)² + (D_ax im)²`.  And
    `IsotropicTVNorm` is `L21Norm(l2_axis=0)` applied to the stack of shape `len(axes) :: shape`
    (how the code evaluates it), real or complex. -/
theorem C09_tv_norms (circular : Bool) (shape axes : List Nat) (x re im : List ℝ) :
    tvAniso circular shape axes [x] = l1 false (.blk (axes.map (fun ax => fdAxis circular shape ax x))) ∧
    tvAniso circular shape axes [x] =
      (axes.map (fun ax => ((fdAxis circular shape ax x).map (fun d => |d|)).sum)).sum ∧
    tvAniso circular shape axes [re, im] =
      (axes.map (fun ax => ((List.range (size shape)).map (fun i =>
        Real.sqrt ((fdAxis circular shape ax re).getD i 0 ^ 2 + (fdAxis circular shape ax im).getD i 0 ^ 2))).sum)).sum ∧
    tvIso circular shape axes [x] =
      ((List.range (size shape)).map (fun i =>
        Real.sqrt ((axes.map (fun ax => (fdAxis circular shape ax x).getD i 0 ^ 2)).sum))).sum ∧
    tvIso circular shape axes [re, im] =
      ((List.range (size shape)).map (fun i =>
        Real.sqrt ((axes.map (fun ax => (fdAxis circular shape ax re).getD i 0 ^ 2
          + (fdAxis circular shape ax im).getD i 0 ^ 2)).sum))).sum ∧
    (axes ≠ [] → ∀ comps : List (List ℝ), tvIso circular shape axes comps =
      l21AxesOfSq (axes.length :: shape) [0] (tvSq circular shape axes comps).flatten) :=
  ⟨(tvAniso_real circular shape axes x).2, (tvAniso_real circular shape axes x).1,
   tvAniso_cplx circular shape axes re im, tvIso_real circular shape axes x, tvIso_cplx circular shape axes re im,
   fun h comps => tvIso_eq_l21 circular shape axes comps h⟩

-- anisotropic TV of the 2×2 image [[1,3],[6,10]] (append=0), both axes: |5|+|7| + |2|+|4| = 18
example : tvAniso false [2, 2] [0, 1] [[(1 : ℝ), 3, 6, 10]] = 18 := by
  rw [(C09_tv_norms false [2, 2] [0, 1] [1, 3, 6, 10] [] []).2.1]
  norm_num [fdAxis, size, List.range_succ]

/-- a constant image has zero differences along every axis, in both boundary modes (the appended copy /
    the wrap-around produce a zero row) -/
theorem C09_tv_constant (circular : Bool) (pre post : List Nat) (n : Nat) (k : ℝ) (x : List ℝ)
    (hx : ∀ i, i < size (pre ++ n :: post) → x.getD i 0 = k)
    (a c b : Nat) (ha : a < size pre) (hc : c < n) (hb : b < size post) :
    (fdAxis circular (pre ++ n :: post) pre.length x).getD ((a * n + c) * size post + b) 0 = 0 :=
  fdAxis_const circular pre post n k x hx a c b ha hc hb

/-- **`L21Norm(l2_axis=0)`** on an array of shape `k :: rest` (`k ≥ 1`): the group-key index arithmetic of
    the model (`ravel ∘ dropAxes ∘ unravel`, tied numerically for every axis subset) is the documented
    `Σ_{r < ∏ rest} sqrt( Σ_{j < k} |x[j, r]|² )` (`sq` = the `|x|²` in row-major order).  Together with
    `ravel (unravel i) = i mod size` for every shape. -/
theorem C09_l21_axis0 (k : Nat) (hk : 0 < k) (rest : List Nat) (sq : List ℝ) :
    l21AxesOfSq (k :: rest) [0] sq =
      ((List.range (size rest)).map (fun r =>
        |Real.sqrt (((List.range k).map (fun j => sq.getD (j * size rest + r) 0)).sum)|)).sum ∧
    (∀ (s : List Nat) (i : Nat), ravel s (unravel s i) = i % size s) :=
  ⟨l21AxesOfSq_axis0 k hk rest sq, ravel_unravel⟩

-- 2×2 array [[3,0],[4,5]] → |x|² = [9,0,16,25], l2_axis=0: sqrt(9+16) + sqrt(0+25) = 10
example : l21Axes false [2, 2] [0] [(3 : ℝ), 0, 4, 5] = 10 := by
  have h := (C09_l21_axis0 2 (by decide) [2] [9, 0, 16, 25]).1
  have e : sqmags false [(3 : ℝ), 0, 4, 5] = [9, 0, 16, 25] := by norm_num [sqmags]
  rw [l21Axes, e, h]
  have h25 : Real.sqrt 25 = 5 := by
    rw [show (25 : ℝ) = 5 ^ 2 by norm_num]; exact Real.sqrt_sq (by norm_num)
  norm_num [size, List.range_succ, h25]

/-- **`L21Norm(l2_axis=axes)` for an ARBITRARY axis subset, any shape with positive dimensions.**  The model sums one
    `sqrt` per group over the `|x|²` of the group (first conjunct, the definition written with the group key
    `l21Key = ravel ∘ dropAxes ∘ unravel`); two entries are in the same group **iff** their multi-indices
    (`unravel` = `np.unravel_index`) agree along every axis that is not reduced — the groups of
    `(|x|²).sum(axis=axes)` —; and every entry's group has exactly one representative inside the array (its key, which
    is its own key), so each entry is counted in exactly one `sqrt`. -/
theorem C09_l21_axis_groups (shape axes : List Nat) (hpos : ∀ d ∈ shape, 0 < d) (sq : List ℝ) :
    l21AxesOfSq shape axes sq =
      (((List.range (size shape)).filter (fun i => l21Key shape axes i == i)).map (fun r =>
        |Real.sqrt ((((List.range (size shape)).filter (fun i => l21Key shape axes i == r)).map
          (fun i => sq.getD i 0)).sum)|)).sum ∧
    (∀ i j, l21Key shape axes i = l21Key shape axes j ↔
      ∀ p, axes.contains p = false → (unravel shape i).getD p 0 = (unravel shape j).getD p 0) ∧
    (∀ i, l21Key shape axes i < size shape ∧ l21Key shape axes (l21Key shape axes i) = l21Key shape axes i) ∧
    (∀ mi, List.Forall₂ (· < ·) mi shape → unravel shape (ravel shape mi) = mi) :=
  ⟨l21AxesOfSq_eq shape axes sq, l21Key_eq_iff shape axes hpos, l21Key_rep shape axes hpos, unravel_ravel shape⟩

-- shape (2,3), l2_axis=1: positions 1 = (0,1) and 2 = (0,2) share the kept coordinate 0; 1 and 4 = (1,1) do not
example : l21Key [2, 3] [1] 1 = l21Key [2, 3] [1] 2 ∧ l21Key [2, 3] [1] 1 ≠ l21Key [2, 3] [1] 4 := by decide

/-- `L21Norm.__call__` accepts a block argument only with `l2_axis=None` (`ValueError` otherwise) and then
    follows the block-wise rule of `C09_l21_blockwise` -/
theorem C09_l21_call (cplx : Bool) (axes : List Nat) (shape : List Nat) (bs : List (List ℝ)) (v : List ℝ) :
    l21Call cplx (some axes) shape (.blk bs) = none ∧
    l21Call cplx none shape (.blk bs) = some ((bs.map (fun b => l2 cplx (.arr b))).sum) ∧
    l21Call cplx (some axes) shape (.arr v) = some (l21Axes cplx shape axes v) :=
  ⟨rfl, by rw [← l21None_block]; rfl, rfl⟩

/-! ### nuclear norm (given the singular values: the SVD is a contract) -/

/-- `NuclearNorm.__call__` is `Σ σ_i` for a 2-D argument and raises otherwise; on the singular values
    `σ ≥ 0` (`k = min(m, n)` of them): `0 ≤ ‖X‖_*`, `‖X‖_F = sqrt(Σσ²) ≤ ‖X‖_* ≤ sqrt(k)·‖X‖_F` (checked on the
    real code with the Frobenius norm of `X`), and for a diagonal matrix (`σ = |d|`) it is `‖d‖₁` -/
theorem C09_nuclear (ndim : Nat) (sv d : List ℝ) (h : ∀ a ∈ sv, 0 ≤ a) :
    nuclearCall ndim sv = (if ndim = 2 then some sv.sum else none) ∧
    0 ≤ nuclearOfSv sv ∧
    Real.sqrt ((sv.map (fun a => a ^ 2)).sum) ≤ nuclearOfSv sv ∧
    nuclearOfSv sv ≤ Real.sqrt sv.length * Real.sqrt ((sv.map (fun a => a ^ 2)).sum) ∧
    nuclearOfSv (d.map (fun a => |a|)) = l1 false (.arr d) :=
  ⟨nuclearCall_eq ndim sv, (nuclear_bounds sv h).1, (nuclear_bounds sv h).2.1, (nuclear_bounds sv h).2.2, nuclear_diag d⟩

example : nuclearCall 2 [(5 : ℝ), 5] = some 10 ∧ nuclearCall 3 [(5 : ℝ), 5] = none := by
  constructor <;> norm_num [nuclearCall, nuclearOfSv]

/-! ### losses -/

/-- the three squared losses are non-negative for `scale ≥ 0`, `W ≥ 0` (any data, real or complex);
    for real data and measurements `y ≥ 0`: `SquaredL2AbsLoss(x) ≤ SquaredL2Loss(x)` (reverse triangle inequality,
    every length); and on block arrays the residual `y − A x` is formed block-wise, which after flattening is
    the residual of the concatenations (so the value is the documented sum over all entries) -/
theorem C09_squared_losses (cplx : Bool) {scale : ℝ} (hs : 0 ≤ scale) (w : Option (List ℝ))
    (hw : ∀ l, w = some l → ∀ a ∈ l, 0 ≤ a) (y ax : List ℝ) :
    (0 ≤ sqL2Loss cplx scale w y ax ∧ 0 ≤ sqL2AbsLoss cplx scale w y ax ∧ 0 ≤ sqL2SqAbsLoss cplx scale w y ax) ∧
    ((∀ a ∈ y, 0 ≤ a) → sqL2AbsLoss false scale w y ax ≤ sqL2Loss false scale w y ax) ∧
    (∀ r c : Arg ℝ, r.shapeEq c → (Arg.zipT (· - ·) r c).flat = List.zipWith (· - ·) r.flat c.flat) :=
  ⟨sq_losses_nonneg cplx hs w hw y ax, fun hy => sqL2AbsLoss_le_sqL2Loss_real hs w hw y ax hy,
   fun _ _ h => flat_zipT_sub h⟩

example : sqL2AbsLoss false (1 / 2 : ℝ) (some [2, 1]) [1, 3] [-1, 2] = 1 / 2 := by
  norm_num [sqL2AbsLoss, wsum, mags, absR]
example : sqL2Loss false (1 / 2 : ℝ) (some [2, 1]) [1, 3] [-1, 2] = 9 / 2 := by
  norm_num [sqL2Loss, wsum, sqmags]

/-- `PoissonLoss`: for counts `y > 0`, predictions `A x > 0` and `scale ≥ 0` the value
    `scale·Σ (Ax − y log Ax + log y!)` is at least its value at `A x = y` (every length) -/
theorem C09_poisson_min {scale : ℝ} (hs : 0 ≤ scale) (y ax const : List ℝ) (h1 : y.length = ax.length)
    (h2 : const.length = ax.length) (hy : ∀ a ∈ y, 0 < a) (ha : ∀ a ∈ ax, 0 < a) :
    poissonLoss scale y y const ≤ poissonLoss scale y ax const :=
  poissonLoss_min hs y ax const h1 h2 hy ha

example : poissonLoss (1 : ℝ) [2] [2] [0] ≤ poissonLoss (1 : ℝ) [2] [5] [0] :=
  C09_poisson_min zero_le_one _ _ _ rfl rfl (by simp) (by simp)

/-! ### proximal average -/

/-- `ProximalAverage`: a weight list of the wrong length is rejected; the stored weights sum to one (default `1/N`
    for `N ≥ 1` functionals; given weights with non-zero sum, kept when they already sum to one and divided by
    their sum otherwise); `__call__` is `Σ α_i f_i(x)`, with `no_inf_eval` the infinite terms count as `0` -/
theorem C09_proxavg (n : Nat) (hn : 0 < n) (al : List ℝ) (hs : al.sum ≠ 0) (isInf : ℝ → Bool) (ws vals : List ℝ) :
    (al.length ≠ n → proxAvgInit (n : ℝ) (some al) n = none) ∧
    (proxAvgWeights (n : ℝ) none n).sum = 1 ∧ (proxAvgWeights (n : ℝ) (some al) n).sum = 1 ∧
    proxAvgEval isInf false ws vals = (List.zipWith (· * ·) ws vals).sum ∧
    proxAvgEval isInf true ws vals = ((List.zipWith (· * ·) ws vals).map (fun a => if isInf a then 0 else a)).sum :=
  ⟨fun h => by simp [proxAvgInit, h], (proxAvgWeights_sum_one n hn al hs).1, (proxAvgWeights_sum_one n hn al hs).2.2.1,
   proxAvgEval_sum isInf ws vals, proxAvgEval_filter isInf ws vals⟩

example : proxAvgWeights (2 : ℝ) (some [1, 3]) 2 = [1 / 4, 3 / 4] := by
  norm_num [proxAvgWeights, isZero]

/-! ### metrics -/

/-- `mse ≥ 0` (non-empty images: the mean divides by the number of entries);
    `isnr = snr(ref, restored) − snr(ref, degraded)`;
    `psnr = snr + 10·log₁₀(range²/var(ref))` (whenever the logarithms' arguments are positive) -/
theorem C09_metric_identities (cplx : Bool) (r d s : List ℝ) (range : ℝ) :
    (0 < (sqmags cplx (List.zipWith (· - ·) r d)).length → 0 ≤ mse cplx r d) ∧
    (0 < var cplx r → 0 < mse cplx r d → 0 < mse cplx r s →
      isnr cplx r d s = snr cplx r s - snr cplx r d) ∧
    (range ≠ 0 → 0 < var false r → 0 < mse false r d →
      psnr r d (some range) = snr false r d + db (range * range / var false r)) :=
  ⟨fun _ => mse_nonneg cplx r d, isnr_eq_snr_sub cplx r d s, psnr_eq_snr_add r d range⟩

/-- `rel_res`: `0` when `‖Ax‖ = ‖b‖ = 0` (the code returns before dividing), otherwise
    `‖b − Ax‖ / max(‖Ax‖, ‖b‖)`, which is the standard `‖b − Ax‖/‖b‖` when `‖Ax‖ ≤ ‖b‖ ≠ 0` -/
theorem C09_rel_res (cplx : Bool) (ax b : List ℝ) :
    ((sqmags cplx ax).sum = 0 → (sqmags cplx b).sum = 0 → relRes cplx ax b = 0) ∧
    (0 < max (Real.sqrt (sqmags cplx ax).sum) (Real.sqrt (sqmags cplx b).sum) →
      relRes cplx ax b = Real.sqrt (sqmags cplx (List.zipWith (· - ·) b ax)).sum /
        max (Real.sqrt (sqmags cplx ax).sum) (Real.sqrt (sqmags cplx b).sum)) ∧
    (0 < Real.sqrt (sqmags cplx b).sum → Real.sqrt (sqmags cplx ax).sum ≤ Real.sqrt (sqmags cplx b).sum →
      relRes cplx ax b = Real.sqrt (sqmags cplx (List.zipWith (· - ·) b ax)).sum / Real.sqrt (sqmags cplx b).sum) :=
  ⟨relRes_zero_den cplx ax b, relRes_eq cplx ax b, relRes_standard cplx ax b⟩

example : relRes false [0, 0] [(0 : ℝ), 0] = 0 := (C09_rel_res false _ _).1 (by simp [sqmags]) (by simp [sqmags])

/-- `rel_res ≤ 2` for real arrays of the same shape (triangle inequality `‖b − Ax‖ ≤ ‖b‖ + ‖Ax‖ ≤ 2·max`) -/
theorem C09_rel_res_le_two (ax b : List ℝ) (h : ax.length = b.length) : relRes false ax b ≤ 2 :=
  relRes_le_two ax b h

-- attained: b = −Ax
example : relRes false [1, 0] [(-1 : ℝ), 0] = 2 := by
  have h1 : Real.sqrt 4 = 2 := by rw [show (4 : ℝ) = 2 ^ 2 by norm_num]; exact Real.sqrt_sq (by norm_num)
  norm_num [relRes, sqmags, HasSqrt.sqrt, maxR, isZero, h1]

/-- `mae ≥ 0`; for real images of the same non-zero size `mse = 0` exactly when they are equal; and on block
    arrays (after 200a606) the metrics are evaluated on `_flatten(reference − comparison)`, which is the
    difference of the concatenations, so every metric of block arrays is the metric of the concatenations -/
theorem C09_metric_zero_and_blocks (r c : List ℝ) (hl : r.length = c.length) (hne : r ≠ []) :
    0 ≤ mae false r c ∧ (mse false r c = 0 ↔ r = c) ∧
    (∀ R C : Arg ℝ, R.shapeEq C → (Arg.zipT (· - ·) R C).flat = List.zipWith (· - ·) R.flat C.flat) :=
  ⟨mae_nonneg r c, mse_eq_zero_iff r c hl hne, fun _ _ h => flat_zipT_sub h⟩

example : mse false [1, 2] [(1 : ℝ), 2] = 0 := (C09_metric_zero_and_blocks _ _ rfl (by simp)).2.1.2 rfl

end Scico.Props.C09
