/-
  Property C09 — functionals, losses and metrics evaluate to their definitions.
  ONLY property theorems here.  Model: `Scico.Model.FuncEval` (one definition per `__call__` /
  metric, transcribed from the code) and the wrapper tree of `Scico.Model.ProxCalc`.
  Data convention: complex arrays are interleaved `re, im` lists (flag `cplx`), so a block of
  complex data has even length (hypothesis `cplx = true → even lengths`).
-/
import Scico.Proofs.FuncEval
import Scico.Proofs.ProxCalc
import Scico.Proofs.ProxCalcTree

namespace Scico.Props.C09
open Scico Scico.FuncEval Scico.ProxCalc

/-! ### block argument = concatenation of the flattened blocks -/

/-- The code applies every full reduction to the concatenation of the ravelled blocks
    (`add_full_reduction`, model `Arg.flat`).  That value equals the documented one — the
    reduction over *all entries of all blocks*: sum of the per-block sums for `‖·‖₁`, `‖·‖₂²`,
    the non-zero count and the separable Huber norm, root of the sum of squared block norms
    for `‖·‖₂`; any number of blocks of any sizes, real or complex data. -/
theorem C09_block_eq_concat (cplx : Bool) (delta : ℝ) (bs : List (List ℝ))
    (h : cplx = true → ∀ b ∈ bs, b.length % 2 = 0) :
    l1 cplx (.blk bs) = (bs.map (fun b => l1 cplx (.arr b))).sum ∧
    sql2 cplx (.blk bs) = (bs.map (fun b => sql2 cplx (.arr b))).sum ∧
    l0 cplx (.blk bs) = (bs.map (fun b => l0 cplx (.arr b))).sum ∧
    huberSep cplx delta (.blk bs) = (bs.map (fun b => huberSep cplx delta (.arr b))).sum ∧
    l2 cplx (.blk bs) = Real.sqrt ((bs.map (fun b => (l2 cplx (.arr b)) ^ 2)).sum) :=
  ⟨l1_block cplx bs h, sql2_block cplx bs h, l0_block cplx bs h, huberSep_block cplx delta bs h,
   l2_block cplx bs h⟩

/-- and by definition the value on a block array is the value on the plain concatenation -/
theorem C09_block_is_flat (cplx : Bool) (bs : List (List ℝ)) :
    l1 cplx (.blk bs) = l1 cplx (.arr bs.flatten) ∧ sql2 cplx (.blk bs) = sql2 cplx (.arr bs.flatten) ∧
    l2 cplx (.blk bs) = l2 cplx (.arr bs.flatten) ∧ l0 cplx (.blk bs) = l0 cplx (.arr bs.flatten) :=
  ⟨rfl, rfl, rfl, rfl⟩

/-- documented block-wise rule of `L21Norm(l2_axis=None)`: the sum of the block 2-norms
    (not the 2-norm of the concatenation) -/
theorem C09_l21_blockwise (cplx : Bool) (bs : List (List ℝ)) :
    l21None cplx (.blk bs) = (bs.map (fun b => l2 cplx (.arr b))).sum :=
  l21None_block cplx bs

-- non-vacuity: two blocks [3,4] and [0,-5]: ‖·‖₂,₁ (None) = 5 + 5, whereas the 2-norm of the concatenation is √50
example : l21None false (.blk [[3, 4], [0, -5]]) = (10 : ℝ) := by
  rw [C09_l21_blockwise]
  have h1 : Real.sqrt 25 = 5 := by
    rw [show (25 : ℝ) = 5 ^ 2 by norm_num]; exact Real.sqrt_sq (by norm_num)
  simp [l2, sqmags, Arg.flat, HasSqrt.sqrt]
  norm_num [h1]

example : sql2 false (.blk [[3, 4], [0, -5]]) = (50 : ℝ) := by
  norm_num [sql2, sqmags, Arg.flat]

/-! ### indicators -/

/-- indicator functionals take only the values `0` and `+∞`, and are `0` exactly on their set:
    the non-negative orthant (all entries of all blocks `≥ 0`) and the ℓ² ball (`‖x‖₂ ≤ r`,
    boundary included) -/
theorem C09_indicators {K : Type} [Field K] [LinearOrder K] [IsStrictOrderedRing K] [HasSqrt K]
    (cplx : Bool) (r : K) (x : Arg K) :
    (nonnegInd x = .fin 0 ∨ nonnegInd x = .top) ∧ (nonnegInd x = .fin 0 ↔ ∀ a ∈ x.flat, 0 ≤ a) ∧
    (l2ballInd cplx r x = .fin 0 ∨ l2ballInd cplx r x = .top) ∧ (l2ballInd cplx r x = .fin 0 ↔ l2 cplx x ≤ r) :=
  ⟨nonnegInd_range x, nonnegInd_eq_zero_iff x, l2ballInd_range cplx r x, l2ballInd_eq_zero_iff cplx r x⟩

example : nonnegInd (.blk [[1, 0], [(2 : ℤ)]]) = .fin 0 := by simp [nonnegInd, Arg.flat]
example : nonnegInd (.blk [[1, 0], [(-2 : ℤ)]]) = .top := by simp [nonnegInd, Arg.flat]

/-! ### Huber -/

/-- the quadratic and the linear branch of the Huber function agree at `|x| = δ` (so the
    choice made by `<=` at the tie is immaterial), and the value is non-negative -/
theorem C09_huber_tie {K : Type} [Field K] [LinearOrder K] [IsStrictOrderedRing K] (delta : K) :
    (1 / (1 + 1)) * (delta * delta) = delta * (delta - delta / (1 + 1)) ∧
    huber1 delta delta = delta * (delta - delta / (1 + 1)) ∧
    (0 ≤ delta → ∀ a, 0 ≤ huber1 delta a) :=
  ⟨huber_branches_agree delta, huber1_at_delta delta, fun hd _ => huber1_nonneg hd⟩

/-- the non-separable Huber norm, which the code evaluates through the squared norm
    (`0.5·Σ|x|²` inside, `δ(√Σ|x|² − δ/2)` outside), is the Huber function of `‖x‖₂` -/
theorem C09_huber_nonsep (cplx : Bool) (delta : ℝ) (x : Arg ℝ) :
    huberNonsep cplx delta x = huber1 delta (l2 cplx x) :=
  huberNonsep_eq cplx delta x

example : huber1 (2 : ℚ) 2 = 2 := by norm_num [huber1, leR]
example : huber1 (2 : ℚ) 3 = 4 := by norm_num [huber1, leR]

/-! ### wrappers -/

/-- for every nesting of `ScaledFunctional`, `+`, `SeparableFunctional` and `Loss`, the value
    the model of `__call__` returns is the arithmetic combination the tree denotes
    (`den`: `c·f(x)`, `f(x)+g(x)`, `Σ_i f_i(x_i)`, `s·f(A x − y)`), given that the base
    functionals evaluate to their meanings -/
theorem C09_wrappers_eval (E : Env ℝ) (S : LeafSem)
    (hS : ∀ i x, E.hasEval i = true → E.eval i x = S.val i x) (t : Fn ℝ) (x : Arg ℝ) (r : ℝ)
    (hg : Generic t) (h : eval E t x = .ok r) : r = den E S t x :=
  eval_eq_den E S hS t x r hg h

/-- `SeparableFunctional([f₁…f_k])` denotes `Σ_i f_i(x_i)` -/
theorem C09_separable_eval (E : Env ℝ) (S : LeafSem) (fs : List (Fn ℝ)) (bs : List (List ℝ))
    (h : fs.length = bs.length) :
    den E S (Fn.sep fs) (.blk bs) = (List.zipWith (fun f b => den E S f (.arr b)) fs bs).sum :=
  den_sep E S fs bs h

/-- `c * f` / `f * c` — including the overrides of `ScaledFunctional` (scale folded) and of
    `Loss` (`set_scale`) — evaluates to `c · f(x)` whenever `f(x)` is available -/
theorem C09_mul_eval {K : Type} [Field K] [LinearOrder K] [IsStrictOrderedRing K] [HasSqrt K]
    (E : Env K) (t : Fn K) (c : K) (x : Arg K) :
    eval E (t.mul c) x = (eval E t x).map (c * ·) :=
  eval_mul E t c x

/-! ### total variation: the finite difference the norms are applied to -/

/-- `SingleAxisFiniteDifference._eval` as used by `TVNorm` (append a copy of the last entry for
    `append=0`, of the first for `circular`, then `diff`) returns `n` rows:
    `x_{i+1} − x_i` for `i < n−1`, then `0` (append=0) or `x_0 − x_{n−1}` (circular) —
    the matrices of the class docstring, for every `n`. -/
theorem C09_tv_difference {K : Type} [Field K] (circular : Bool) (x : List K) :
    (diffAppend circular x).length = x.length ∧
    ∀ i, i < x.length → (diffAppend circular x).getD i 0 =
      if i + 1 < x.length then x.getD (i + 1) 0 - x.getD i 0
      else if circular then x.getD 0 0 - x.getD i 0 else 0 :=
  ⟨diffAppend_length circular x, fun i hi => diffAppend_getD circular x i hi⟩

/-- on a 1-D array the N-d index formula the TV model is written with (`fdAxis`) is that
    code-shaped difference, for every length and both boundary modes -/
theorem C09_tv_model_1d {K : Type} [Field K] (circular : Bool) (x : List K) :
    fdAxis circular [x.length] 0 x = diffAppend circular x :=
  fdAxis_1d circular x

example : diffAppend false [(1 : ℤ), 2, 4] = [1, 2, 0] := by decide
example : diffAppend true [(1 : ℤ), 2, 4] = [1, 2, -3] := by decide
-- N-d index formula used by the TV model, 2×3 image, axis 1, append=0 and circular
example : fdAxis false [2, 3] 1 [(1 : ℤ), 2, 4, 0, 4, 1] = [1, 2, 0, 4, -3, 0] := by decide
example : fdAxis true [2, 3] 0 [(1 : ℤ), 2, 4, 0, 4, 1] = [-1, 2, -3, 1, -2, 3] := by decide

/-! ### metrics -/

/-- `mse ≥ 0`; `isnr = snr(ref, restored) − snr(ref, degraded)`;
    `psnr = snr + 10·log₁₀(range²/var(ref))` (whenever the logarithms' arguments are positive) -/
theorem C09_metric_identities (cplx : Bool) (r d s : List ℝ) (range : ℝ) :
    0 ≤ mse cplx r d ∧
    (0 < var cplx r → 0 < mse cplx r d → 0 < mse cplx r s →
      isnr cplx r d s = snr cplx r s - snr cplx r d) ∧
    (range ≠ 0 → 0 < var false r → 0 < mse false r d →
      psnr r d (some range) = snr false r d + db (range * range / var false r)) :=
  ⟨mse_nonneg cplx r d, isnr_eq_snr_sub cplx r d s, psnr_eq_snr_add r d range⟩

/-- `rel_res`: `0` when `‖Ax‖ = ‖b‖ = 0` (the code returns before dividing), otherwise
    `‖b − Ax‖ / max(‖Ax‖, ‖b‖)`, which is the standard `‖b − Ax‖/‖b‖` when `‖Ax‖ ≤ ‖b‖ ≠ 0` -/
theorem C09_rel_res (cplx : Bool) (ax b : List ℝ) :
    ((sqmags cplx ax).sum = 0 → (sqmags cplx b).sum = 0 → relRes cplx ax b = 0) ∧
    (0 < max (Real.sqrt (sqmags cplx ax).sum) (Real.sqrt (sqmags cplx b).sum) →
      relRes cplx ax b = Real.sqrt (sqmags cplx (List.zipWith (· - ·) b ax)).sum /
        max (Real.sqrt (sqmags cplx ax).sum) (Real.sqrt (sqmags cplx b).sum)) ∧
    (0 < Real.sqrt (sqmags cplx b).sum → Real.sqrt (sqmags cplx ax).sum ≤ Real.sqrt (sqmags cplx b).sum →
      relRes cplx ax b = Real.sqrt (sqmags cplx (List.zipWith (· - ·) b ax)).sum / Real.sqrt (sqmags cplx b).sum) :=
  ⟨relRes_zero_den cplx ax b, relRes_eq cplx ax b, relRes_standard cplx ax b⟩

example : relRes false [0, 0] [(0 : ℝ), 0] = 0 := (C09_rel_res false _ _).1 (by simp [sqmags]) (by simp [sqmags])

end Scico.Props.C09
