/-
  Property C17 — norm estimates and parameter estimators satisfy their documented inequalities.
  ONLY property theorems here (helpers: `Scico.Proofs.Estim`, `Scico.Proofs.EstimNorms`).

  Power iteration is reasoned about on an arbitrary real inner-product space (`ℝⁿ`, `ℂⁿ` with
  `Re⟨·,·⟩`, block arrays), the operator being any bounded linear map; the closed-form norms on
  `Fin n → ℝ` for every `n`.
-/
import Scico.Proofs.Estim
import Scico.Proofs.EstimNorms
import Scico.Proofs.EstimConv
import Scico.Proofs.EstimMat
import Scico.Proofs.EstimZero
import Scico.Proofs.EstimSource
import Scico.Proofs.EstimComplex
import Mathlib.Analysis.InnerProductSpace.Adjoint
import Mathlib.Analysis.InnerProductSpace.Spectrum

set_option linter.unusedSectionVars false

namespace Scico.Props.C17
open Scico Scico.Estim

/-! ### power iteration / `operator_norm` -/

section power

variable {E F : Type} [NormedAddCommGroup E] [InnerProductSpace ℝ E]
  [NormedAddCommGroup F] [InnerProductSpace ℝ F]

/-- Every eigenvalue estimate `power_iteration` returns for a bounded operator `B` — for every
    iteration budget and every non-zero start — is at most `‖B‖`. -/
theorem C17_rayleigh_le_opNorm (B : E →L[ℝ] E) (maxiter : Nat) (v0 : E) (hv0 : v0 ≠ 0) (mu : ℝ) (v : E)
    (h : powerIteration (opsOf B) maxiter v0 = .ok (mu, v)) : mu ≤ ‖B‖ := by
  obtain ⟨_, hp⟩ := powerIteration_ok B maxiter v0 mu v h
  exact powerLoop_pred B (· ≤ ‖B‖) (norm_nonneg _) (fun w hw => rq_le_opNorm B w hw) maxiter none _
    (normalize_ne_zero v0 hv0) (by intro m' hm'; cases hm') mu hp

/-- … and two-sided: for *any* bounded operator (not necessarily symmetric or positive — `power_iteration` accepts every
    `LinearOperator`) the estimate satisfies `|mu| ≤ ‖B‖`. -/
theorem C17_rayleigh_abs_le_opNorm (B : E →L[ℝ] E) (maxiter : Nat) (v0 : E) (hv0 : v0 ≠ 0) (mu : ℝ) (v : E)
    (h : powerIteration (opsOf B) maxiter v0 = .ok (mu, v)) : |mu| ≤ ‖B‖ := by
  obtain ⟨_, hp⟩ := powerIteration_ok B maxiter v0 mu v h
  refine powerLoop_pred B (fun m => |m| ≤ ‖B‖) (by simp) (fun w hw => ?_) maxiter none _
    (normalize_ne_zero v0 hv0) (by intro m' hm'; cases hm') mu hp
  unfold rq
  have hn : 0 < ‖w‖ := norm_pos_iff.2 hw
  rw [abs_div, abs_of_pos (mul_pos hn hn), div_le_iff₀ (mul_pos hn hn)]
  calc |inner ℝ w (B w)| ≤ ‖w‖ * ‖B w‖ := abs_real_inner_le_norm _ _
    _ ≤ ‖w‖ * (‖B‖ * ‖w‖) := by gcongr; exact B.le_opNorm w
    _ = ‖B‖ * (‖w‖ * ‖w‖) := by ring

/-- For a Gram operator `B = AᴴA` (what `operator_norm` iterates) every estimate lies in `[0, ‖A‖²]`. -/
theorem C17_rayleigh_le (B : E →L[ℝ] E) (A : E →L[ℝ] F) (hG : IsGram B A) (maxiter : Nat) (v0 : E)
    (hv0 : v0 ≠ 0) (mu : ℝ) (v : E) (h : powerIteration (opsOf B) maxiter v0 = .ok (mu, v)) :
    0 ≤ mu ∧ mu ≤ ‖A‖ ^ 2 := by
  obtain ⟨_, hp⟩ := powerIteration_ok B maxiter v0 mu v h
  exact powerLoop_pred B (fun m => 0 ≤ m ∧ m ≤ ‖A‖ ^ 2) ⟨le_refl 0, by positivity⟩
    (fun w hw => ⟨hG.rq_nonneg w, hG.rq_le w hw⟩) maxiter none _
    (normalize_ne_zero v0 hv0) (by intro m' hm'; cases hm') mu hp

/-- `operator_norm(A) ≤ ‖A‖₂` for every budget and every non-zero start. -/
theorem C17_opnorm_le (B : E →L[ℝ] E) (A : E →L[ℝ] F) (hG : IsGram B A) (maxiter : Nat) (v0 : E)
    (hv0 : v0 ≠ 0) (c : ℝ) (h : operatorNorm (opsOf B) maxiter v0 = .ok c) : 0 ≤ c ∧ c ≤ ‖A‖ := by
  unfold operatorNorm at h
  split at h
  · rename_i mu v hp
    simp only [Except.ok.injEq] at h
    subst h
    obtain ⟨h0, h1⟩ := C17_rayleigh_le B A hG maxiter v0 hv0 mu v hp
    refine ⟨Real.sqrt_nonneg _, ?_⟩
    show Real.sqrt mu ≤ ‖A‖
    calc Real.sqrt mu ≤ Real.sqrt (‖A‖ ^ 2) := Real.sqrt_le_sqrt h1
      _ = ‖A‖ := Real.sqrt_sq (norm_nonneg _)
  · cases h

/-- with complete spaces `A.H @ A` (adjoint composed with `A`) is such a Gram operator -/
theorem C17_gram_adjoint [CompleteSpace E] [CompleteSpace F] (A : E →L[ℝ] F) :
    IsGram ((ContinuousLinearMap.adjoint A).comp A) A := by
  intro x y
  simp [ContinuousLinearMap.adjoint_inner_left]

/-- The estimates are non-decreasing in the iteration budget (Gram operator, same start):
    the estimate with budget `k+1` never exceeds the one with budget `k+2`. -/
theorem C17_rayleigh_mono (B : E →L[ℝ] E) (A : E →L[ℝ] F) (hG : IsGram B A) (k : Nat) (v0 : E)
    (hv0 : v0 ≠ 0) (m m' : ℝ) (v v' : E)
    (h : powerIteration (opsOf B) (k + 1) v0 = .ok (m, v))
    (h' : powerIteration (opsOf B) (k + 2) v0 = .ok (m', v')) : m ≤ m' := by
  obtain ⟨_, hp⟩ := powerIteration_ok B _ v0 m v h
  obtain ⟨_, hp'⟩ := powerIteration_ok B _ v0 m' v' h'
  exact hG.powerLoop_mono k _ (normalize_ne_zero v0 hv0) m m' hp hp'

/-- hence `operator_norm` is non-decreasing in the budget too -/
theorem C17_opnorm_mono (B : E →L[ℝ] E) (A : E →L[ℝ] F) (hG : IsGram B A) (k : Nat) (v0 : E)
    (hv0 : v0 ≠ 0) (c c' : ℝ) (h : operatorNorm (opsOf B) (k + 1) v0 = .ok c)
    (h' : operatorNorm (opsOf B) (k + 2) v0 = .ok c') : c ≤ c' := by
  unfold operatorNorm at h h'
  split at h
  · rename_i mu v hp
    split at h'
    · rename_i mu' v' hp'
      simp only [Except.ok.injEq] at h h'
      subst h; subst h'
      exact Real.sqrt_le_sqrt (C17_rayleigh_mono B A hG k v0 hv0 mu mu' v v' hp hp')
    · cases h'
  · cases h

/-- Scale equivariance: for every `s > 0`, however small or large, the estimate for `s • B` is `s` times the
    estimate for `B` (same start, same budget) — only an operator that maps the iterate to exactly `0` takes the
    zero exit.  (`v0 ≠ 0`: guard of the normalisation, see `C17_zero_exact`.) -/
theorem C17_scale (B : E →L[ℝ] E) (s : ℝ) (hs : 0 < s) (maxiter : Nat) (v0 : E) (_hv0 : v0 ≠ 0) (m m' : ℝ) (v v' : E)
    (h : powerIteration (opsOf B) maxiter v0 = .ok (m, v))
    (h' : powerIteration (opsOf (s • B)) maxiter v0 = .ok (m', v')) : m' = s * m := by
  obtain ⟨_, hp⟩ := powerIteration_ok B maxiter v0 m v h
  obtain ⟨_, hp'⟩ := powerIteration_ok (s • B) maxiter v0 m' v' h'
  have := powerLoop_smul_op B s hs maxiter none (‖v0‖⁻¹ • v0)
  simp only [Option.map_none] at this
  rw [hp, hp'] at this
  simpa using this

/-- hence `operator_norm(c·A) = |c|·operator_norm(A)` for `c ≠ 0` (Gram operator `c²·B`) -/
theorem C17_opnorm_scale (B : E →L[ℝ] E) (c : ℝ) (hc : c ≠ 0) (maxiter : Nat) (v0 : E) (hv0 : v0 ≠ 0) (n n' : ℝ)
    (h : operatorNorm (opsOf B) maxiter v0 = .ok n)
    (h' : operatorNorm (opsOf ((c ^ 2) • B)) maxiter v0 = .ok n') : n' = |c| * n := by
  unfold operatorNorm at h h'
  split at h
  · rename_i mu v hp
    split at h'
    · rename_i mu' v' hp'
      simp only [Except.ok.injEq] at h h'
      subst h; subst h'
      rw [C17_scale B (c ^ 2) (by positivity) maxiter v0 hv0 mu mu' v v' hp hp']
      show Real.sqrt (c ^ 2 * mu) = |c| * Real.sqrt mu
      rw [Real.sqrt_mul (sq_nonneg c), Real.sqrt_sq_eq_abs]
    · cases h'
  · cases h

/-- The zero operator: the estimate is exactly `0` (and the returned vector `0`) for every budget ≥ 1.
    (`v0 ≠ 0` is the guard of the normalisation `v0 / ‖v0‖`: over `ℝ` the model totalises `0/0 = 0`, whereas the
    code would produce NaN for a zero start — the proof does not need the guard, the *reading* of the theorem does.) -/
theorem C17_zero_exact (k : Nat) (v0 : E) (_hv0 : v0 ≠ 0) :
    powerIteration (opsOf (0 : E →L[ℝ] E)) (k + 1) v0 = .ok (0, 0) ∧
    operatorNorm (opsOf (0 : E →L[ℝ] E)) (k + 1) v0 = .ok 0 := by
  have hp : powerIteration (opsOf (0 : E →L[ℝ] E)) (k + 1) v0 = .ok (0, 0) := by
    unfold powerIteration
    rw [if_neg (by omega)]
    simp only
    rw [powerLoop_succ_zero (0 : E →L[ℝ] E) k none _ (by simp)]
    simp
  refine ⟨hp, ?_⟩
  unfold operatorNorm
  rw [hp]
  simp

/-- `maxiter < 1` is rejected (`ValueError`), and any budget ≥ 1 yields an estimate -/
theorem C17_budget (B : E →L[ℝ] E) (maxiter : Nat) (v0 : E) :
    (maxiter = 0 → powerIteration (opsOf B) maxiter v0 = .error "value") ∧
    (1 ≤ maxiter → ∃ mu v, powerIteration (opsOf B) maxiter v0 = .ok (mu, v)) := by
  constructor
  · rintro rfl; rfl
  · intro h
    obtain ⟨k, rfl⟩ : ∃ k, maxiter = k + 1 := ⟨maxiter - 1, by omega⟩
    unfold powerIteration
    rw [if_neg (by omega)]
    simp only
    obtain ⟨m, hm⟩ := powerLoop_isSome B k none ((opsOf B).sdiv v0 ((opsOf B).norm v0))
    generalize hq : powerLoop (opsOf B) (k + 1) none ((opsOf B).sdiv v0 ((opsOf B).norm v0)) = q at hm
    obtain ⟨q1, q2⟩ := q
    simp only at hm
    subst hm
    exact ⟨m, q2, rfl⟩

/-! ### convergence under a spectral gap -/

section converge

variable {ι : Type} [Fintype ι] [DecidableEq ι]

/-- **Geometric convergence of `power_iteration`.**  `B` diagonal in an orthonormal basis `b` with eigenvalues `lam`;
    the largest eigenvalue `lam1 > 0` is attained on the index set `D` (multiplicity allowed — e.g. a complex operator
    seen as a real one) and separated from the rest (`Dominant lam D lam1 r`: all others in `[0, r·lam1]`, `r ≤ 1`); the
    random start has a non-zero component `P v0` in the dominant eigenspace (`Σ_{i∈D} ⟨b i,v0⟩² > 0`).  Then the estimate
    returned with budget `k+1` satisfies

        lam1 · (1 − r^(2k) · ‖v0 − P v0‖² / ‖P v0‖²)  ≤  mu  ≤  lam1 . -/
theorem C17_power_converges_rate (B : E →L[ℝ] E) (b : OrthonormalBasis ι ℝ E) (lam : ι → ℝ)
    (hB : IsDiagIn B b lam) (D : Finset ι) (lam1 r : ℝ) (hd : Dominant lam D lam1 r) (v0 : E)
    (hc0 : 0 < ∑ i ∈ D, inner ℝ (b i) v0 ^ 2)
    (k : Nat) (mu : ℝ) (v : E) (h : powerIteration (opsOf B) (k + 1) v0 = .ok (mu, v)) :
    mu ≤ lam1 ∧
      lam1 - lam1 * (r ^ (2 * k) * ((‖v0‖ ^ 2 - ∑ i ∈ D, inner ℝ (b i) v0 ^ 2) / ∑ i ∈ D, inner ℝ (b i) v0 ^ 2)) ≤ mu := by
  have hc : 0 < head b D v0 := by simpa only [head, co, sq] using hc0
  have := powerIteration_gap hB hd v0 hc k mu v h
  simpa only [tail, head, co, pow_mul, sq] using this

/-- The vector `power_iteration` returns ("eigenvector with eigenvalue `mu`" in the docstring) under the same hypotheses:
    it has unit length, and its squared distance from the dominant eigenspace, `‖v‖² − Σ_{i∈D}⟨b i,v⟩²`, is at most
    `r^(2(k+1))·‖v0 − P v0‖²/‖P v0‖²` — it converges to the top eigenspace at the same geometric rate. -/
theorem C17_power_vector_converges (B : E →L[ℝ] E) (b : OrthonormalBasis ι ℝ E) (lam : ι → ℝ)
    (hB : IsDiagIn B b lam) (D : Finset ι) (lam1 r : ℝ) (hd : Dominant lam D lam1 r) (v0 : E)
    (hc0 : 0 < ∑ i ∈ D, inner ℝ (b i) v0 ^ 2)
    (k : Nat) (mu : ℝ) (v : E) (h : powerIteration (opsOf B) (k + 1) v0 = .ok (mu, v)) :
    ‖v‖ = 1 ∧
      ‖v‖ ^ 2 - ∑ i ∈ D, inner ℝ (b i) v ^ 2 ≤
        r ^ (2 * (k + 1)) * ((‖v0‖ ^ 2 - ∑ i ∈ D, inner ℝ (b i) v0 ^ 2) / ∑ i ∈ D, inner ℝ (b i) v0 ^ 2) := by
  have hc : 0 < head b D v0 := by simpa only [head, co, sq] using hc0
  have := powerIteration_gap_vec hB hd v0 hc k mu v h
  simpa only [tail, head, co, pow_mul, sq] using this

/-- the case of a simple largest eigenvalue (`D = {i0}`): the start must not be orthogonal to the top eigenvector -/
theorem C17_power_converges_rate_simple (B : E →L[ℝ] E) (b : OrthonormalBasis ι ℝ E) (lam : ι → ℝ)
    (hB : IsDiagIn B b lam) (i0 : ι) (r : ℝ) (hd : Dominant lam {i0} (lam i0) r) (v0 : E)
    (hc0 : inner ℝ (b i0) v0 ≠ 0)
    (k : Nat) (mu : ℝ) (v : E) (h : powerIteration (opsOf B) (k + 1) v0 = .ok (mu, v)) :
    mu ≤ lam i0 ∧
      lam i0 - lam i0 * (r ^ (2 * k) * ((‖v0‖ ^ 2 - inner ℝ (b i0) v0 ^ 2) / inner ℝ (b i0) v0 ^ 2)) ≤ mu := by
  have := C17_power_converges_rate B b lam hB {i0} (lam i0) r hd v0
    (by rw [Finset.sum_singleton]; positivity) k mu v h
  simpa only [Finset.sum_singleton] using this

/-- hence, when the gap is strict (`r < 1`), the estimates converge to the largest eigenvalue as the budget grows -/
theorem C17_power_converges (B : E →L[ℝ] E) (b : OrthonormalBasis ι ℝ E) (lam : ι → ℝ)
    (hB : IsDiagIn B b lam) (D : Finset ι) (lam1 r : ℝ) (hd : Dominant lam D lam1 r) (hr : r < 1) (v0 : E)
    (hc0 : 0 < ∑ i ∈ D, inner ℝ (b i) v0 ^ 2) (mu : ℕ → ℝ)
    (h : ∀ k, ∃ v, powerIteration (opsOf B) (k + 1) v0 = .ok (mu k, v)) :
    Filter.Tendsto mu Filter.atTop (nhds lam1) :=
  powerIteration_tendsto hB hd hr v0 (by simpa only [head, co, sq] using hc0) mu h

/-- **`operator_norm` converges to the induced 2-norm.**  `B = AᴴA` (Gram operator) diagonal in an orthonormal
    basis, largest eigenvalue `lam1 > 0` attained on `D ≠ ∅` and separated from the rest (`lam i ≤ r·lam1`, `r < 1`, for
    `i ∉ D`), start with a non-zero component in the dominant eigenspace.  Then `lam1 = ‖A‖²` (`σ_max(A)²`), every
    estimate `c k` (budget `k+1`) satisfies `‖A‖²(1 − r^(2k)·C) ≤ (c k)² ≤ ‖A‖²`, and `c k → ‖A‖`. -/
theorem C17_opnorm_converges (B : E →L[ℝ] E) (A : E →L[ℝ] F) (hG : IsGram B A) (b : OrthonormalBasis ι ℝ E)
    (lam : ι → ℝ) (hB : IsDiagIn B b lam) (D : Finset ι) (lam1 : ℝ) (hpos : 0 < lam1) (htop : ∀ i, i ∈ D → lam i = lam1)
    (r : ℝ) (hr0 : 0 ≤ r) (hr : r < 1) (hgap : ∀ i, i ∉ D → lam i ≤ r * lam1) (v0 : E)
    (hc0 : 0 < ∑ i ∈ D, inner ℝ (b i) v0 ^ 2) (c : ℕ → ℝ)
    (h : ∀ k, operatorNorm (opsOf B) (k + 1) v0 = .ok (c k)) :
    lam1 = ‖A‖ ^ 2 ∧
    (∀ k, c k ^ 2 ≤ ‖A‖ ^ 2 ∧
      ‖A‖ ^ 2 - ‖A‖ ^ 2 * (r ^ (2 * k) * ((‖v0‖ ^ 2 - ∑ i ∈ D, inner ℝ (b i) v0 ^ 2) / ∑ i ∈ D, inner ℝ (b i) v0 ^ 2)) ≤ c k ^ 2) ∧
    Filter.Tendsto c Filter.atTop (nhds ‖A‖) := by
  have hd : Dominant lam D lam1 r := hG.dominant hB hpos hr0 (le_of_lt hr) htop hgap
  -- `D` is not empty (the start has a component in it)
  obtain ⟨i0, hi0⟩ : ∃ i0, i0 ∈ D := by
    by_contra hne
    push Not at hne
    have : ∑ i ∈ D, inner ℝ (b i) v0 ^ 2 = 0 := Finset.sum_eq_zero (fun i hi => absurd hi (hne i))
    rw [this] at hc0
    exact lt_irrefl _ hc0
  have hl0 : lam i0 = lam1 := htop i0 hi0
  have hmax : ∀ i, lam i ≤ lam i0 := by
    intro i
    rw [hl0]
    by_cases hi : i ∈ D
    · rw [htop i hi]
    · exact le_trans (hgap i hi) (by nlinarith)
  have hnorm : ‖A‖ = Real.sqrt lam1 := by rw [← hl0]; exact hG.opNorm_eq_sqrt hB i0 hmax
  have hlam : lam1 = ‖A‖ ^ 2 := by rw [hnorm, Real.sq_sqrt (le_of_lt hpos)]
  -- the eigenvalue estimates behind the norm estimates
  have hmu : ∀ k, ∃ mu v, powerIteration (opsOf B) (k + 1) v0 = .ok (mu, v) ∧ c k = Real.sqrt mu :=
    fun k => operatorNorm_ok _ _ _ _ (h k)
  choose mu vv hmu using hmu
  have hv0 : v0 ≠ 0 := by
    rintro rfl
    simp at hc0
  have hmu0 : ∀ k, 0 ≤ mu k := fun k => (C17_rayleigh_le B A hG (k + 1) v0 hv0 (mu k) (vv k) (hmu k).1).1
  refine ⟨hlam, ?_, ?_⟩
  · intro k
    have hb := C17_power_converges_rate B b lam hB D lam1 r hd v0 hc0 k (mu k) (vv k) (hmu k).1
    rw [(hmu k).2, Real.sq_sqrt (hmu0 k), ← hlam]
    exact hb
  · have ht : Filter.Tendsto mu Filter.atTop (nhds lam1) :=
      C17_power_converges B b lam hB D lam1 r hd hr v0 hc0 mu (fun k => ⟨vv k, (hmu k).1⟩)
    have hc : c = fun k => Real.sqrt (mu k) := funext fun k => (hmu k).2
    rw [hc, hnorm]
    exact (Real.continuous_sqrt.tendsto lam1).comp ht

/-- **What `ord = 2` and `ord = -2` mean** (`MatrixOperator.norm`, `Diagonal.norm`): with `lam` the eigenvalues of the Gram
    operator `AᴴA` in an orthonormal eigenbasis (squared singular values of `A`), the largest singular value
    `√(max lam)` is the induced 2-norm `‖A‖` (= `sup ‖Ax‖/‖x‖`, what `operator_norm` estimates), and the smallest one
    `√(min lam)` is `inf ‖Ax‖/‖x‖`, attained at its eigenvector.  (The computation of the spectrum — the SVD behind
    `jnp.linalg.norm(A, ±2)` — remains a contract.) -/
theorem C17_sigma_max_min (B : E →L[ℝ] E) (A : E →L[ℝ] F) (hG : IsGram B A) (b : OrthonormalBasis ι ℝ E)
    (lam : ι → ℝ) (hB : IsDiagIn B b lam) (imax imin : ι) (hmax : ∀ i, lam i ≤ lam imax) (hmin : ∀ i, lam imin ≤ lam i) :
    ‖A‖ = Real.sqrt (lam imax) ∧
    (∀ x : E, Real.sqrt (lam imin) * ‖x‖ ≤ ‖A x‖) ∧ ‖A (b imin)‖ = Real.sqrt (lam imin) * ‖b imin‖ :=
  ⟨hG.opNorm_eq_sqrt hB imax hmax, hG.sigma_min hB imin hmin⟩

/-- a Gram operator is symmetric -/
theorem C17_gram_symmetric (B : E →L[ℝ] E) (A : E →L[ℝ] F) (hG : IsGram B A) :
    (B : E →ₗ[ℝ] E).IsSymmetric := by
  intro x y
  show inner ℝ (B x) y = inner ℝ x (B y)
  rw [hG x y, real_inner_comm (B y) x, hG y x, real_inner_comm]

/-- The eigenbasis need not be supplied: on a finite-dimensional space every Gram operator is symmetric
    (`C17_gram_symmetric`) and Mathlib's spectral theorem provides eigenvalues `ev 0 ≥ ev 1 ≥ …` with an orthonormal
    eigenbasis.  If the largest one is positive and separated from the *different* ones (`ev i ≠ ev 0 → ev i ≤ r·ev 0`,
    `r < 1`; the largest may be repeated) and the start is not orthogonal to the top eigenspace, `operator_norm`
    converges to `‖A‖`. -/
theorem C17_opnorm_converges_spectral [FiniteDimensional ℝ E] {n : Nat} (hn : Module.finrank ℝ E = n + 1)
    (B : E →L[ℝ] E) (A : E →L[ℝ] F) (hG : IsGram B A) (hS : (B : E →ₗ[ℝ] E).IsSymmetric)
    (hpos : 0 < hS.eigenvalues hn 0) (r : ℝ) (hr0 : 0 ≤ r) (hr : r < 1)
    (hgap : ∀ i, hS.eigenvalues hn i ≠ hS.eigenvalues hn 0 → hS.eigenvalues hn i ≤ r * hS.eigenvalues hn 0) (v0 : E)
    (hc0 : ∃ i, hS.eigenvalues hn i = hS.eigenvalues hn 0 ∧ inner ℝ (hS.eigenvectorBasis hn i) v0 ≠ 0) (c : ℕ → ℝ)
    (h : ∀ k, operatorNorm (opsOf B) (k + 1) v0 = .ok (c k)) :
    Filter.Tendsto c Filter.atTop (nhds ‖A‖) := by
  classical
  have hB : IsDiagIn B (hS.eigenvectorBasis hn) (hS.eigenvalues hn) := by
    intro i
    have := hS.apply_eigenvectorBasis hn i
    simp only [ContinuousLinearMap.coe_coe, RCLike.ofReal_real_eq_id, id_eq] at this
    exact this
  set D : Finset (Fin (n + 1)) := Finset.univ.filter (fun i => hS.eigenvalues hn i = hS.eigenvalues hn 0) with hD
  have hmem : ∀ i, i ∈ D ↔ hS.eigenvalues hn i = hS.eigenvalues hn 0 := by
    intro i; simp [hD]
  obtain ⟨i1, hi1, hne⟩ := hc0
  have hstart : 0 < ∑ i ∈ D, inner ℝ (hS.eigenvectorBasis hn i) v0 ^ 2 := by
    apply lt_of_lt_of_le (pow_pos (abs_pos.2 hne) 2)
    rw [sq_abs]
    exact Finset.single_le_sum (f := fun i => inner ℝ (hS.eigenvectorBasis hn i) v0 ^ 2)
      (fun i _ => sq_nonneg _) ((hmem i1).2 hi1)
  exact (C17_opnorm_converges B A hG (hS.eigenvectorBasis hn) (hS.eigenvalues hn) hB D (hS.eigenvalues hn 0) hpos
    (fun i hi => (hmem i).1 hi) r hr0 hr (fun i hi => hgap i (fun he => hi ((hmem i).2 he))) v0 hstart c h).2.2

end converge

end power

/-! ### closed-form norms of `Diagonal` and `ScaledIdentity` -/

section norms

variable {n : Nat}

/-- `ord = None / 'fro'`: the Frobenius norm of the matrix `diag d` -/
theorem C17_diag_norms_fro (d : Fin n → ℝ) :
    diagNorm .fro (List.ofFn d) = .ok (Real.sqrt (∑ i, ∑ j, (Matrix.diagonal d i j) ^ 2)) ∧
    diagNorm .none (List.ofFn d) = diagNorm .fro (List.ofFn d) := by
  rw [diagonal_sq_sum]
  exact ⟨diagNorm_fro d, rfl⟩

/-- `ord = 'nuc'`: the sum of the singular values of `diag d`, i.e. of the square roots of the
    eigenvalues (roots of the characteristic polynomial, with multiplicity) of `(diag d)ᵀ diag d` -/
theorem C17_diag_norms_nuc (d : Fin n → ℝ) :
    diagNorm .nuc (List.ofFn d) =
      .ok ((((Matrix.diagonal d).transpose * Matrix.diagonal d).charpoly.roots.map Real.sqrt).sum) := by
  rw [singular_values_diagonal_sum]
  exact diagNorm_nuc d

/-- `ord = inf, 1, 2` all return `max |dᵢ|`, which is the maximal absolute row sum, the maximal
    absolute column sum, and the largest singular value (`‖diag d · x‖ ≤ m‖x‖` with equality at a
    basis vector) of `diag d`. -/
theorem C17_diag_norms_max (d : Fin n → ℝ) (hn : 0 < n) :
    ∃ m, diagNorm .pinf (List.ofFn d) = .ok m ∧ diagNorm (.int 1) (List.ofFn d) = .ok m ∧
      diagNorm (.int 2) (List.ofFn d) = .ok m ∧
      IsMaxOf m (List.ofFn fun i => ∑ j, |Matrix.diagonal d i j|) ∧
      IsMaxOf m (List.ofFn fun j => ∑ i, |Matrix.diagonal d i j|) ∧
      (∀ x : Fin n → ℝ, ∑ i, (d i * x i) ^ 2 ≤ m ^ 2 * ∑ i, x i ^ 2) ∧
      (∃ x : Fin n → ℝ, ∑ i, x i ^ 2 = 1 ∧ ∑ i, (d i * x i) ^ 2 = m ^ 2) := by
  have hne : (List.ofFn fun i => |d i|) ≠ [] := by
    intro h
    have := congrArg List.length h
    simp at this; omega
  obtain ⟨m, hm⟩ := lmax_isSome hne
  have hspec := lmax_spec hm
  have hok := diagNorm_pinf_ok d m hm
  refine ⟨m, hok, hok, hok, ?_, ?_, ?_, ?_⟩
  · simpa only [diagonal_row_abs_sum] using hspec
  · simpa only [diagonal_col_abs_sum] using hspec
  · intro x
    apply diag_apply_sq_le
    intro i
    exact hspec.2 _ (by simp [List.mem_ofFn])
  · obtain ⟨k, hk⟩ := (List.mem_ofFn' _ _).1 hspec.1
    refine ⟨fun i => if i = k then 1 else 0, (diag_apply_basis d k).2, ?_⟩
    rw [(diag_apply_basis d k).1]
    simp only at hk
    rw [hk]

/-- `ord = -inf, -1, -2` all return `min |dᵢ|`: minimal absolute row / column sum and smallest
    singular value (`‖diag d · x‖ ≥ m‖x‖` with equality at a basis vector). -/
theorem C17_diag_norms_min (d : Fin n → ℝ) (hn : 0 < n) :
    ∃ m, diagNorm .ninf (List.ofFn d) = .ok m ∧ diagNorm (.int (-1)) (List.ofFn d) = .ok m ∧
      diagNorm (.int (-2)) (List.ofFn d) = .ok m ∧
      IsMinOf m (List.ofFn fun i => ∑ j, |Matrix.diagonal d i j|) ∧
      IsMinOf m (List.ofFn fun j => ∑ i, |Matrix.diagonal d i j|) ∧
      (∀ x : Fin n → ℝ, m ^ 2 * ∑ i, x i ^ 2 ≤ ∑ i, (d i * x i) ^ 2) ∧
      (∃ x : Fin n → ℝ, ∑ i, x i ^ 2 = 1 ∧ ∑ i, (d i * x i) ^ 2 = m ^ 2) := by
  have hne : (List.ofFn fun i => |d i|) ≠ [] := by
    intro h
    have := congrArg List.length h
    simp at this; omega
  obtain ⟨m, hm⟩ := lmin_isSome hne
  have hspec := lmin_spec hm
  have hok := diagNorm_ninf_ok d m hm
  obtain ⟨k, hk⟩ := (List.mem_ofFn' _ _).1 hspec.1
  simp only at hk
  have hm0 : 0 ≤ m := by rw [← hk]; exact abs_nonneg _
  refine ⟨m, hok, hok, hok, ?_, ?_, ?_, ?_⟩
  · simpa only [diagonal_row_abs_sum] using hspec
  · simpa only [diagonal_col_abs_sum] using hspec
  · intro x
    apply diag_apply_sq_ge _ _ _ hm0
    intro i
    exact hspec.2 _ (by simp [List.mem_ofFn])
  · refine ⟨fun i => if i = k then 1 else 0, (diag_apply_basis d k).2, ?_⟩
    rw [(diag_apply_basis d k).1, hk]

/-- The entrywise-computable matrix norms (`fro`, `±inf`, `±1`) of the dense matrix `diag d`
    (model `matNorm`, tied to `MatrixOperator.norm` / numpy) coincide with `Diagonal.norm`. -/
theorem C17_diag_norms_dense (d : Fin n → ℝ) (hn : 0 < n) (o : Ord)
    (ho : o = .fro ∨ o = .none ∨ o = .pinf ∨ o = .ninf ∨ o = .int 1 ∨ o = .int (-1)) :
    (matNorm o (absRows (Matrix.diagonal d)) (absCols (Matrix.diagonal d))).map Except.ok =
      some (diagNorm o (List.ofFn d)) := by
  have hne : (List.ofFn fun i => |d i|) ≠ [] := by
    intro h
    have := congrArg List.length h
    simp at this; omega
  have hfro : lsum ((absRows (Matrix.diagonal d)).map fun r => lsum (r.map fun x => x * x)) = ∑ i, d i ^ 2 := by
    simp only [absRows, List.map_ofFn, Function.comp, lsum_ofFn]
    rw [← diagonal_sq_sum]
    apply Finset.sum_congr rfl; intro i _
    apply Finset.sum_congr rfl; intro j _
    rw [abs_mul_abs_self]; ring
  rcases ho with rfl | rfl | rfl | rfl | rfl | rfl
  · simp only [matNorm, hfro, Option.map_some, diagNorm_fro, hasSqrt_real]
  · simp only [matNorm, hfro, Option.map_some, diagNorm_none, diagNorm_fro, hasSqrt_real]
  · obtain ⟨m, hm⟩ := lmax_isSome hne
    simp only [matNorm, absRows_diagonal_sums, hm, Option.map_some, diagNorm_pinf_ok d m hm]
  · obtain ⟨m, hm⟩ := lmin_isSome hne
    simp only [matNorm, absRows_diagonal_sums, hm, Option.map_some, diagNorm_ninf_ok d m hm]
  · obtain ⟨m, hm⟩ := lmax_isSome hne
    simp only [matNorm, absCols_diagonal_sums, hm, Option.map_some, diagNorm_one, diagNorm_pinf_ok d m hm]
  · obtain ⟨m, hm⟩ := lmin_isSome hne
    simp only [matNorm, absCols_diagonal_sums, hm, Option.map_some, diagNorm_neg_one, diagNorm_ninf_ok d m hm]

/-- A complex diagonal: `Diagonal.norm` is the same function of the moduli `|dᵢ|` as for the real
    diagonal `(|d₁|,…,|dₙ|)` (to which `diag d` is unitarily equivalent), for every order. -/
theorem C17_diag_norms_complex (z : Fin n → ℂ) (o : Ord) :
    diagNormC o (List.ofFn fun i => ((z i).re, (z i).im)) = diagNorm o (List.ofFn fun i => ‖z i‖) :=
  diagNormC_eq z o

/-- any other `ord` (0, 3, unknown strings, …) is rejected with `ValueError` by both classes -/
theorem C17_diag_norms_reject (d : List ℝ) (ac sN nN : ℝ) (k : Int) (hk : k ≠ 1 ∧ k ≠ 2 ∧ k ≠ -1 ∧ k ≠ -2) :
    diagNorm (.int k) d = .error "value" ∧ diagNorm .other d = .error "value" ∧
    scaledIdNorm (.int k) ac sN nN = .error "value" ∧ scaledIdNorm .other ac sN nN = .error "value" := by
  obtain ⟨h1, h2, h3, h4⟩ := hk
  refine ⟨?_, rfl, ?_, rfl⟩
  · unfold diagNorm diagKey
    split <;> simp_all
  · unfold scaledIdNorm
    split <;> simp_all

/-- `ScaledIdentity(c, N).norm(ord)` equals `Diagonal` of the constant diagonal `(c,…,c)` for every order -/
theorem C17_scaledid_norms (c : ℝ) (N : Nat) (hN : 0 < N) (o : Ord) :
    scaledIdNorm o |c| (Real.sqrt N) N = diagNorm o (List.ofFn fun _ : Fin N => c) := by
  have hne : (List.ofFn fun _ : Fin N => |c|) ≠ [] := by
    intro h
    have := congrArg List.length h
    simp at this; omega
  have hmax : lmax (List.ofFn fun _ : Fin N => |c|) = some |c| := by
    obtain ⟨m, hm⟩ := lmax_isSome hne
    obtain ⟨k, hk⟩ := (List.mem_ofFn' _ _).1 (lmax_spec hm).1
    rw [hm, ← hk]
  have hmin : lmin (List.ofFn fun _ : Fin N => |c|) = some |c| := by
    obtain ⟨m, hm⟩ := lmin_isSome hne
    obtain ⟨k, hk⟩ := (List.mem_ofFn' _ _).1 (lmin_spec hm).1
    rw [hm, ← hk]
  have hfro : diagNorm .fro (List.ofFn fun _ : Fin N => c) = .ok (|c| * Real.sqrt N) := by
    rw [diagNorm_fro]
    congr 1
    rw [Finset.sum_const, Finset.card_univ, Fintype.card_fin, nsmul_eq_mul, mul_comm,
      Real.sqrt_mul (sq_nonneg c), Real.sqrt_sq_eq_abs]
  have hnuc : diagNorm .nuc (List.ofFn fun _ : Fin N => c) = .ok (|c| * N) := by
    rw [diagNorm_nuc]
    congr 1
    rw [Finset.sum_const, Finset.card_univ, Fintype.card_fin, nsmul_eq_mul, mul_comm]
  have hp := diagNorm_pinf_ok (fun _ : Fin N => c) |c| hmax
  have hq := diagNorm_ninf_ok (fun _ : Fin N => c) |c| hmin
  unfold scaledIdNorm
  split
  · rw [diagNorm_none, hfro]
  · rw [hfro]
  · rw [hnuc]
  · rw [hp]
  · rw [hq]
  · rw [diagNorm_neg_one, hq]
  · rw [diagNorm_neg_two, hq]
  · rw [diagNorm_one, hp]
  · rw [diagNorm_two, hp]
  · rename_i h1 h2 h3 h4 h5 h6 h7 h8 h9
    cases o with
    | none => exact absurd rfl h1
    | fro => exact absurd rfl h2
    | nuc => exact absurd rfl h3
    | pinf => exact absurd rfl h4
    | ninf => exact absurd rfl h5
    | other => rfl
    | int k =>
      have hk : k ≠ 1 ∧ k ≠ 2 ∧ k ≠ -1 ∧ k ≠ -2 :=
        ⟨fun h => h8 (by rw [h]), fun h => h9 (by rw [h]), fun h => h6 (by rw [h]), fun h => h7 (by rw [h])⟩
      exact ((C17_diag_norms_reject _ 0 0 0 k hk).1).symm

end norms

/-! ### `MatrixOperator.norm`: the entrywise orders are the induced norms -/

section matnorm
variable {m n : Nat}

/-- `MatrixOperator.norm(inf)` (model `matNorm`, i.e. what `jnp.linalg.norm(A, inf)` computes: the largest absolute row
    sum) is the norm induced by the vector ∞-norm: `‖Mx‖∞ ≤ c` whenever `‖x‖∞ ≤ 1`, with equality for a sign vector. -/
theorem C17_mat_norm_inf (M : Matrix (Fin m) (Fin n) ℝ) (hm : 0 < m) :
    ∃ c, matNorm .pinf (absRowsR M) (absColsR M) = some c ∧
      IsMaxOf c (List.ofFn fun i => ∑ j, |M i j|) ∧
      (∀ x : Fin n → ℝ, (∀ j, |x j| ≤ 1) → ∀ i, |∑ j, M i j * x j| ≤ c) ∧
      (∃ x : Fin n → ℝ, (∀ j, |x j| ≤ 1) ∧ ∃ i, |∑ j, M i j * x j| = c) := by
  obtain ⟨c, hc⟩ := lmax_isSome (ofFn_ne_nil hm fun i => ∑ j, |M i j|)
  have hspec := lmax_spec hc
  refine ⟨c, by simp only [matNorm, absRowsR_sums, hc], hspec, ?_, ?_⟩
  · intro x hx i
    exact le_trans (row_bound M x hx i) (hspec.2 _ (by simp [List.mem_ofFn]))
  · obtain ⟨i, hi⟩ := (List.mem_ofFn' _ _).1 hspec.1
    obtain ⟨x, hx, hsum⟩ := row_attained M i
    refine ⟨x, hx, i, ?_⟩
    rw [hsum, abs_of_nonneg (Finset.sum_nonneg fun j _ => abs_nonneg _)]
    exact hi

/-- `MatrixOperator.norm(1)` (largest absolute column sum) is the norm induced by the vector 1-norm:
    `‖Mx‖₁ ≤ c‖x‖₁` with equality at a basis vector. -/
theorem C17_mat_norm_one (M : Matrix (Fin m) (Fin n) ℝ) (hn : 0 < n) :
    ∃ c, matNorm (.int 1) (absRowsR M) (absColsR M) = some c ∧
      IsMaxOf c (List.ofFn fun j => ∑ i, |M i j|) ∧
      (∀ x : Fin n → ℝ, ∑ i, |∑ j, M i j * x j| ≤ c * ∑ j, |x j|) ∧
      (∃ x : Fin n → ℝ, ∑ j, |x j| = 1 ∧ ∑ i, |∑ j, M i j * x j| = c) := by
  obtain ⟨c, hc⟩ := lmax_isSome (ofFn_ne_nil hn fun j => ∑ i, |M i j|)
  have hspec := lmax_spec hc
  refine ⟨c, by simp only [matNorm, absColsR_sums, hc], hspec, ?_, ?_⟩
  · intro x
    exact col_bound M c (fun j => hspec.2 _ (by simp [List.mem_ofFn])) x
  · obtain ⟨j0, hj⟩ := (List.mem_ofFn' _ _).1 hspec.1
    obtain ⟨h1, h2⟩ := col_attained M j0
    exact ⟨fun j => if j = j0 then 1 else 0, h2, by rw [h1]; exact hj⟩

/-- `ord = -inf` / `-1`: the smallest absolute row / column sum (numpy's definition of these orders) -/
theorem C17_mat_norm_min (M : Matrix (Fin m) (Fin n) ℝ) (hm : 0 < m) (hn : 0 < n) :
    (∃ c, matNorm .ninf (absRowsR M) (absColsR M) = some c ∧ IsMinOf c (List.ofFn fun i => ∑ j, |M i j|)) ∧
    (∃ c, matNorm (.int (-1)) (absRowsR M) (absColsR M) = some c ∧ IsMinOf c (List.ofFn fun j => ∑ i, |M i j|)) := by
  constructor
  · obtain ⟨c, hc⟩ := lmin_isSome (ofFn_ne_nil hm fun i => ∑ j, |M i j|)
    exact ⟨c, by simp only [matNorm, absRowsR_sums, hc], lmin_spec hc⟩
  · obtain ⟨c, hc⟩ := lmin_isSome (ofFn_ne_nil hn fun j => ∑ i, |M i j|)
    exact ⟨c, by simp only [matNorm, absColsR_sums, hc], lmin_spec hc⟩

/-- `ord = None / 'fro'`: the Frobenius norm `√ΣᵢΣⱼ Mᵢⱼ²` -/
theorem C17_mat_norm_fro (M : Matrix (Fin m) (Fin n) ℝ) :
    matNorm .fro (absRowsR M) (absColsR M) = some (Real.sqrt (∑ i, ∑ j, M i j ^ 2)) ∧
    matNorm .none (absRowsR M) (absColsR M) = matNorm .fro (absRowsR M) (absColsR M) :=
  matNorm_fro_eq M

end matnorm

section svd
variable {E F : Type} [NormedAddCommGroup E] [InnerProductSpace ℝ E] [NormedAddCommGroup F] [InnerProductSpace ℝ F]

/-- **`MatrixOperator.norm(2)`, `(-2)`, `('nuc')` through the singular values.**  Contract: the singular values handed to
    `svNorm` are `sᵢ = √lamᵢ` for the eigenvalues `lam` of the Gram operator `AᴴA` in an orthonormal eigenbasis (`n` of them,
    `n ≥ 1`: the case of a matrix with at least as many rows as columns; for a wide matrix apply it to `Aᴴ`, which has the
    same non-zero singular values).  Then `ord = 2` returns the induced 2-norm `‖A‖`, `ord = -2` the number
    `inf ‖Ax‖/‖x‖` (a lower bound for all `x`, attained at a unit eigenvector), `ord = 'nuc'` the sum `Σ √lamᵢ`. -/
theorem C17_mat_norm_sv {n : Nat} (hn : 0 < n) (B : E →L[ℝ] E) (A : E →L[ℝ] F) (hG : IsGram B A)
    (b : OrthonormalBasis (Fin n) ℝ E) (lam : Fin n → ℝ) (hB : IsDiagIn B b lam) :
    svNorm (.int 2) (List.ofFn fun i => Real.sqrt (lam i)) = some ‖A‖ ∧
    (∃ c, svNorm (.int (-2)) (List.ofFn fun i => Real.sqrt (lam i)) = some c ∧
      (∀ x : E, c * ‖x‖ ≤ ‖A x‖) ∧ ∃ x : E, ‖x‖ = 1 ∧ ‖A x‖ = c) ∧
    svNorm .nuc (List.ofFn fun i => Real.sqrt (lam i)) = some (∑ i, Real.sqrt (lam i)) := by
  have hne : (List.ofFn fun i => Real.sqrt (lam i)) ≠ [] := by
    intro h
    have := congrArg List.length h
    simp at this; omega
  have hnn : ∀ i, 0 ≤ lam i := fun i => hG.eigen_nonneg hB i
  refine ⟨?_, ?_, ?_⟩
  · obtain ⟨c, hc⟩ := lmax_isSome hne
    obtain ⟨hmem, hle⟩ := lmax_spec hc
    obtain ⟨imax, himax⟩ := (List.mem_ofFn' _ _).1 hmem
    simp only at himax
    have hmax : ∀ i, lam i ≤ lam imax := by
      intro i
      have h1 : Real.sqrt (lam i) ≤ Real.sqrt (lam imax) := by
        rw [himax]; exact hle _ (by simp [List.mem_ofFn])
      exact (Real.sqrt_le_sqrt_iff (hnn imax)).1 h1
    show lmax _ = _
    rw [hc, hG.opNorm_eq_sqrt hB imax hmax, himax]
  · obtain ⟨c, hc⟩ := lmin_isSome hne
    obtain ⟨hmem, hle⟩ := lmin_spec hc
    obtain ⟨imin, himin⟩ := (List.mem_ofFn' _ _).1 hmem
    simp only at himin
    have hmin : ∀ i, lam imin ≤ lam i := by
      intro i
      have h1 : Real.sqrt (lam imin) ≤ Real.sqrt (lam i) := by
        rw [himin]; exact hle _ (by simp [List.mem_ofFn])
      exact (Real.sqrt_le_sqrt_iff (hnn i)).1 h1
    obtain ⟨h1, h2⟩ := hG.sigma_min hB imin hmin
    refine ⟨c, hc, ?_, b imin, b.orthonormal.1 imin, ?_⟩
    · intro x; rw [← himin]; exact h1 x
    · rw [h2, b.orthonormal.1 imin, mul_one, himin]
  · show some (lsum _) = _
    rw [lsum_ofFn]

/-- a wide matrix is handled through its adjoint: `Aᴴ` has the same induced 2-norm (and the same non-zero singular values) -/
theorem C17_opnorm_adjoint [CompleteSpace E] [CompleteSpace F] (A : E →L[ℝ] F) :
    ‖ContinuousLinearMap.adjoint A‖ = ‖A‖ :=
  LinearIsometryEquiv.norm_map ContinuousLinearMap.adjoint A

end svd


/-! ### parameter estimators -/

/-- `PDHG.estimate_parameters` with a safety factor: `τσc² = 1/factor` — hence `< 1` for every
    `factor > 1` (default 1.01) — `σ = ratio·τ`, both positive; `c` is the norm estimate used. -/
theorem C17_pdhg_est (c ratio fac : ℝ) (hc : 0 < c) (hr : 0 < ratio) (hf : 1 < fac) :
    let p := pdhgEst c ratio (some fac)
    p.1 * p.2 * c ^ 2 = 1 / fac ∧ p.1 * p.2 * c ^ 2 < 1 ∧ p.2 = ratio * p.1 ∧ 0 < p.1 ∧ 0 < p.2 := by
  intro p
  have h0 : 0 < fac := by linarith
  have hprod := pdhgEst_prod c ratio fac hc hr h0
  refine ⟨hprod, ?_, rfl, (pdhgEst_pos c ratio fac hc hr h0).1, (pdhgEst_pos c ratio fac hc hr h0).2⟩
  show (pdhgEst c ratio (some fac)).1 * (pdhgEst c ratio (some fac)).2 * c ^ 2 < 1
  rw [hprod, div_lt_one h0]
  exact hf

/-- factor disabled (`None`, replaced by `1.0`): `τσc² = 1` and `σ = ratio·τ` -/
theorem C17_pdhg_est_disabled (c ratio : ℝ) (hc : 0 < c) (hr : 0 < ratio) :
    let p := pdhgEst c ratio none
    p.1 * p.2 * c ^ 2 = 1 ∧ p.2 = ratio * p.1 ∧ pdhgEst c ratio none = pdhgEst c ratio (some 1) := by
  intro p
  have h : pdhgEst c ratio none = pdhgEst c ratio (some 1) := rfl
  refine ⟨?_, rfl, h⟩
  show (pdhgEst c ratio none).1 * (pdhgEst c ratio none).2 * c ^ 2 = 1
  rw [h, pdhgEst_prod c ratio 1 hc hr one_pos]
  norm_num

/-- `ProximalADMM.estimate_parameters`: `μ > c_A²`, `ν > c_B²` for `factor > 1` and positive norm
    estimates; the bare squares when the factor is disabled. -/
theorem C17_padmm_est (cA cB fac : ℝ) (hA : 0 < cA) (hB : 0 < cB) (hf : 1 < fac) :
    cA ^ 2 < (padmmEst cA cB (some fac)).1 ∧ cB ^ 2 < (padmmEst cA cB (some fac)).2 ∧
    padmmEst cA cB none = (cA ^ 2, cB ^ 2) := by
  simp only [padmmEst]
  refine ⟨?_, ?_, ?_⟩
  · nlinarith [mul_pos hA hA]
  · nlinarith [mul_pos hB hB]
  · simp [sq]

/-- `NonLinearPADMM.estimate_parameters` applies the same rule to the norm estimates of the two
    partial Jacobians `J_x H(x,z)`, `J_z H(x,z)`. -/
theorem C17_nlpadmm_est (cJx cJz fac : ℝ) (hx : 0 < cJx) (hz : 0 < cJz) (hf : 1 < fac) :
    cJx ^ 2 < (padmmEst cJx cJz (some fac)).1 ∧ cJz ^ 2 < (padmmEst cJx cJz (some fac)).2 :=
  ⟨(C17_padmm_est cJx cJz fac hx hz hf).1, (C17_padmm_est cJx cJz fac hx hz hf).2.1⟩

/-! ### the estimators and the *true* norm -/

/-- `PDHG.estimate_parameters` and the constraint the solver needs, `τσ‖C‖₂² < 1` for the **true** norm `nC`: it holds as soon
    as the estimate `c ≤ nC` used is within the safety factor, `nC² < factor·c²` (power iteration only under-estimates). -/
theorem C17_pdhg_true_constraint (nC c ratio fac : ℝ) (hc : 0 < c) (hr : 0 < ratio) (hf : 0 < fac)
    (h : nC ^ 2 < fac * c ^ 2) :
    let p := pdhgEst c ratio (some fac)
    p.1 * p.2 * nC ^ 2 < 1 := by
  intro p
  have hprod : p.1 * p.2 * c ^ 2 = 1 / fac := pdhgEst_prod c ratio fac hc hr hf
  have hc2 : 0 < c ^ 2 := by positivity
  have hpp : p.1 * p.2 = 1 / (fac * c ^ 2) := by
    have : p.1 * p.2 = (1 / fac) / c ^ 2 := by rw [← hprod]; field_simp
    rw [this]; field_simp
  rw [hpp, div_mul_eq_mul_div, one_mul, div_lt_one (by positivity)]
  exact h

/-- the same for `ProximalADMM` / `NonLinearPADMM`: `μ = factor·c² > ‖A‖²` for the true norm under the same condition -/
theorem C17_padmm_true_constraint (nA nB cA cB fac : ℝ) (hA : nA ^ 2 < fac * cA ^ 2) (hB : nB ^ 2 < fac * cB ^ 2) :
    nA ^ 2 < (padmmEst cA cB (some fac)).1 ∧ nB ^ 2 < (padmmEst cA cB (some fac)).2 := by
  simp only [padmmEst]
  constructor
  · calc nA ^ 2 < fac * cA ^ 2 := hA
      _ = fac * (cA * cA) := by ring
  · calc nB ^ 2 < fac * cB ^ 2 := hB
      _ = fac * (cB * cB) := by ring

section eventually
variable {E F : Type} [NormedAddCommGroup E] [InnerProductSpace ℝ E] [NormedAddCommGroup F] [InnerProductSpace ℝ F]
variable {ι : Type} [Fintype ι] [DecidableEq ι]

/-- **When is the budget large enough?**  Under the spectral-gap hypotheses of `C17_opnorm_converges`, with
    `C₀ = ‖v0 − P v0‖²/‖P v0‖²`: as soon as `r^(2k)·C₀ < 1 − 1/factor` the norm estimate `c` obtained with budget `k+1`
    satisfies `‖A‖² < factor·c²`, so the parameters derived from it respect the constraints for the **true** norm:
    `τσ‖A‖² < 1` (PDHG) and `μ > ‖A‖²` (proximal ADMM). -/
theorem C17_estimators_true_norm (B : E →L[ℝ] E) (A : E →L[ℝ] F) (hG : IsGram B A) (b : OrthonormalBasis ι ℝ E)
    (lam : ι → ℝ) (hB : IsDiagIn B b lam) (D : Finset ι) (lam1 : ℝ) (hpos : 0 < lam1) (htop : ∀ i, i ∈ D → lam i = lam1)
    (r : ℝ) (hr0 : 0 ≤ r) (hr : r < 1) (hgap : ∀ i, i ∉ D → lam i ≤ r * lam1) (v0 : E)
    (hc0 : 0 < ∑ i ∈ D, inner ℝ (b i) v0 ^ 2) (k : Nat) (c : ℝ)
    (h : operatorNorm (opsOf B) (k + 1) v0 = .ok c) (ratio fac : ℝ) (hratio : 0 < ratio) (hf : 1 < fac)
    (hk : r ^ (2 * k) * ((‖v0‖ ^ 2 - ∑ i ∈ D, inner ℝ (b i) v0 ^ 2) / ∑ i ∈ D, inner ℝ (b i) v0 ^ 2) < 1 - 1 / fac) :
    0 < c ∧ ‖A‖ ^ 2 < fac * c ^ 2 ∧
    (pdhgEst c ratio (some fac)).1 * (pdhgEst c ratio (some fac)).2 * ‖A‖ ^ 2 < 1 ∧
    ‖A‖ ^ 2 < (padmmEst c c (some fac)).1 := by
  -- one estimate suffices: use the constant sequence trick through the rate statement for this `k`
  obtain ⟨mu, vv, hmu, hcs⟩ := operatorNorm_ok _ _ _ _ h
  have hd : Dominant lam D lam1 r := hG.dominant hB hpos hr0 (le_of_lt hr) htop hgap
  have hv0 : v0 ≠ 0 := by
    rintro rfl
    simp at hc0
  have hmu0 : 0 ≤ mu := (C17_rayleigh_le B A hG (k + 1) v0 hv0 mu vv hmu).1
  have hrate := C17_power_converges_rate B b lam hB D lam1 r hd v0 hc0 k mu vv hmu
  -- lam1 = ‖A‖²
  obtain ⟨i0, hi0⟩ : ∃ i0, i0 ∈ D := by
    by_contra hne
    push Not at hne
    have : ∑ i ∈ D, inner ℝ (b i) v0 ^ 2 = 0 := Finset.sum_eq_zero (fun i hi => absurd hi (hne i))
    rw [this] at hc0
    exact lt_irrefl _ hc0
  have hl0 : lam i0 = lam1 := htop i0 hi0
  have hmax : ∀ i, lam i ≤ lam i0 := by
    intro i
    rw [hl0]
    by_cases hi : i ∈ D
    · rw [htop i hi]
    · exact le_trans (hgap i hi) (by nlinarith)
  have hnorm : ‖A‖ = Real.sqrt lam1 := by rw [← hl0]; exact hG.opNorm_eq_sqrt hB i0 hmax
  have hlam : lam1 = ‖A‖ ^ 2 := by rw [hnorm, Real.sq_sqrt (le_of_lt hpos)]
  have hc2 : c ^ 2 = mu := by rw [hcs, Real.sq_sqrt hmu0]
  set C0 := (‖v0‖ ^ 2 - ∑ i ∈ D, inner ℝ (b i) v0 ^ 2) / ∑ i ∈ D, inner ℝ (b i) v0 ^ 2 with hC0
  have hf0 : 0 < fac := by linarith
  -- mu ≥ lam1 (1 − r^{2k} C0) > lam1 / fac
  have hlow : lam1 / fac < mu := by
    have h1 : lam1 - lam1 * (r ^ (2 * k) * C0) ≤ mu := hrate.2
    have h2 : lam1 * (r ^ (2 * k) * C0) < lam1 * (1 - 1 / fac) := mul_lt_mul_of_pos_left hk hpos
    have h3 : lam1 / fac = lam1 - lam1 * (1 - 1 / fac) := by field_simp; ring
    rw [h3]; linarith
  have hmupos : 0 < mu := lt_trans (div_pos hpos hf0) hlow
  have hcpos : 0 < c := by rw [hcs]; exact Real.sqrt_pos.2 hmupos
  have hmain : ‖A‖ ^ 2 < fac * c ^ 2 := by
    rw [hc2, ← hlam]
    have := (div_lt_iff₀ hf0).1 hlow
    linarith
  exact ⟨hcpos, hmain, C17_pdhg_true_constraint ‖A‖ c ratio fac hcpos hratio hf0 hmain,
    (C17_padmm_true_constraint ‖A‖ ‖A‖ c c fac hmain hmain).1⟩

end eventually
-- non-vacuity of the budget condition: gap ratio r = 1/4, C₀ = 1, default factor 1.01: budget k+1 = 3 suffices
example : ((1 : ℝ) / 4) ^ (2 * 2) * 1 < 1 - 1 / 1.01 := by norm_num

/-! ### the estimators at a zero norm estimate (zero operator, `C17_zero_exact`) — what the code does there

Over the IEEE-extended reals (`XR ℝ`: `1/0 = +inf`, `inf·0 = NaN`, NaN-false comparisons).  These are *negation
witnesses*: for the zero operator the documented strict inequalities are not satisfied (known finding
`estimators-zero-operator`); `C17_pdhg_est`, `C17_padmm_est`, `C17_nlpadmm_est` assume a positive estimate. -/

section zero
open Scico.StepSize Scico.StepSize.XR

/-- `PDHG.estimate_parameters` for a norm estimate `0`: `τ = σ = +inf` (any factor, also disabled), and
    `τ·σ·c²` is NaN, not `< 1`. -/
theorem C17_pdhg_est_zero (ratio fac : ℝ) (hr : 0 < ratio) (hf : 0 < fac) :
    pdhgEst (fin 0 : XR ℝ) (fin ratio) (some (fin fac)) = (pinf, pinf) ∧
    pdhgEst (fin 0 : XR ℝ) (fin ratio) none = (pinf, pinf) ∧
    ¬ ((pinf : XR ℝ) * pinf * (fin 0 * fin 0) < 1) :=
  ⟨pdhgEst_zero ratio fac hr hf, pdhgEst_zero_none ratio hr, pdhg_product_zero⟩

/-- `ProximalADMM` / `NonLinearPADMM.estimate_parameters` for norm estimates `0`: `μ = ν = 0` whatever the factor, so
    `μ > ‖A‖²` (`0 > 0`) does not hold. -/
theorem C17_padmm_est_zero (fac : Option ℝ) :
    padmmEst (fin 0 : XR ℝ) (fin 0) (fac.map fin) = (fin 0, fin 0) ∧ ¬ ((fin 0 * fin 0 : XR ℝ) < fin 0) :=
  ⟨padmmEst_zero fac, padmm_not_gt_zero⟩

end zero

/-! ### round 4: the data the model copies from the source (kept equal to it by `Generated/EstimTables.lean`) -/

section source

/-- **The `ord` tables.**  The model functions are the tables the translator reads from `_diag.py`: `diagKey` is the remapping
    chain of `Diagonal.norm` (`None → 'fro'`, `-1,-2 → -inf`, `1,2 → inf`), an order is accepted iff its image is a key of
    `ordfunc` (then the listed function of `|d|` is applied), and `ScaledIdentity.norm` is its if-chain
    (`|c|√N`, `|c|N`, `|c|`, else `ValueError`). -/
theorem C17_ord_tables (o : Ord) (d : List ℝ) (ac sN nN : ℝ) :
    diagKey o = remapOrd diagRemap o ∧
    ((diagOrdFunc.map (·.1)).contains (diagKey o) = false → diagNorm o d = .error "value") ∧
    ((diagOrdFunc.map (·.1)).contains (diagKey o) = true → diagNorm o d = absNorm (diagKey o) (d.map HasAbs.abs)) ∧
    scaledIdNorm o ac sN nN =
      (match branchOf sidBranches o with
      | some "snp.abs(scalar) * snp.sqrt(N)" => .ok (ac * sN)
      | some "snp.abs(scalar) * N" => .ok (ac * nN)
      | some "snp.abs(scalar)" => .ok ac
      | _ => .error "value") :=
  ⟨diagKey_eq_remap o, diagNorm_reject_of_not_key o d, diagNorm_of_key o d, scaledIdNorm_eq_branches o ac sN nN⟩

/-- **The default arguments** (`ratio=1.0`, `factor=1.01`, read from the signatures): for every positive norm estimate `c` the
    parameters returned *by default* satisfy `τσc² < 1`, `σ = τ`, `μ > c²`; `factor=None` is replaced by the literal `1.0`. -/
theorem C17_default_parameters (fac ratio one : ℝ)
    (hfac : (defaultOf estimSignatures "PDHG.estimate_parameters" "factor").bind PyLit.toReal = some fac)
    (hratio : (defaultOf estimSignatures "PDHG.estimate_parameters" "ratio").bind PyLit.toReal = some ratio)
    (hone : pdhgFactorNone.toReal = some one) (c : ℝ) (hc : 0 < c) :
    (pdhgEst c ratio (some fac)).1 * (pdhgEst c ratio (some fac)).2 * c ^ 2 < 1 ∧
    (pdhgEst c ratio (some fac)).2 = (pdhgEst c ratio (some fac)).1 ∧
    c ^ 2 < (padmmEst c c (some fac)).1 ∧
    pdhgEst c ratio none = pdhgEst c ratio (some one) := by
  obtain ⟨h1, _, _, h4, h5, _, _⟩ := estimator_defaults
  rw [h1] at hfac
  rw [h4] at hratio
  rw [h5] at hone
  have hf : fac = 101 / 10 ^ 2 := (Option.some.inj hfac).symm
  have hr : ratio = 1 := by rw [← Option.some.inj hratio]; norm_num
  have ho : one = 1 := by rw [← Option.some.inj hone]; norm_num
  subst hr; subst ho
  have hf1 : 1 < fac := by rw [hf]; norm_num
  obtain ⟨_, a, b, _, _⟩ := C17_pdhg_est c 1 fac hc one_pos hf1
  refine ⟨a, by rw [b]; ring, (C17_padmm_est c c fac hc hc hf1).1, rfl⟩

end source

/-! ### round 5: `power_iteration` on complex operators (complex Rayleigh quotient) -/

section complexpower

variable {Ec : Type} [NormedAddCommGroup Ec] [InnerProductSpace ℂ Ec]

/-- **Complex operators.**  On a complex inner-product space (`ℂⁿ`, `⟨v,w⟩ = Σ conj(vᵢ)wᵢ`) the value `mu` that `power_iteration`
    returns for a bounded ℂ-linear operator `B` — any budget, any non-zero start, `B` not necessarily Hermitian or normal — is a
    complex number with `|mu| ≤ ‖B‖`; it is real when `B` is Hermitian (so `operator_norm` loses nothing by taking `.real` of the
    estimate for `AᴴA`); the zero operator gives exactly `(0, 0)`; `maxiter = 0` is rejected. -/
theorem C17_power_complex (B : Ec →L[ℂ] Ec) (maxiter : Nat) (v0 : Ec) (hv0 : v0 ≠ 0) (mu : ℂ) (v : Ec)
    (h : powerIterationC (opsOfC B) maxiter v0 = .ok (mu, v)) :
    ‖mu‖ ≤ ‖B‖ ∧ ((∀ x y, inner ℂ (B x) y = inner ℂ x (B y)) → mu.im = 0) := by
  obtain ⟨_, hp⟩ := powerIterationC_ok B maxiter v0 mu v h
  constructor
  · exact powerLoopC_pred B (fun m => ‖m‖ ≤ ‖B‖) (by simp) (fun w hw => norm_rqC_le B w hw) maxiter none _
      (normalizeC_ne_zero v0 hv0) (by intro m' hm'; cases hm') mu hp
  · intro hB
    exact powerLoopC_pred B (fun m => m.im = 0) (by simp) (fun w _ => rqC_im_eq_zero B hB w) maxiter none _
      (normalizeC_ne_zero v0 hv0) (by intro m' hm'; cases hm') mu hp

theorem C17_power_complex_zero_budget (B : Ec →L[ℂ] Ec) (k : Nat) (v0 : Ec) (_hv0 : v0 ≠ 0) :
    powerIterationC (opsOfC (0 : Ec →L[ℂ] Ec)) (k + 1) v0 = .ok (0, 0) ∧
    powerIterationC (opsOfC B) 0 v0 = .error "value" := by
  refine ⟨?_, rfl⟩
  unfold powerIterationC
  rw [if_neg (by omega)]
  simp only
  rw [powerLoopC_succ_zero (0 : Ec →L[ℂ] Ec) k none _ (by simp)]
  simp

-- non-vacuity: multiplication by `i` on ℂ is a bounded operator that is not Hermitian (⟨i·1, 1⟩ = −i ≠ i = ⟨1, i·1⟩)
example : inner ℂ ((Complex.I • ContinuousLinearMap.id ℂ ℂ) (1 : ℂ)) (1 : ℂ) ≠
    inner ℂ (1 : ℂ) ((Complex.I • ContinuousLinearMap.id ℂ ℂ) (1 : ℂ)) := by
  simp [Complex.ext_iff]
  norm_num

end complexpower

/-! ### non-vacuity -/

-- default PDHG parameters for an estimate c = 2, ratio 4
example : (1 : ℝ) / 1.01 < 1 := by norm_num
example : let p := pdhgEst (2 : ℝ) 4 (some 1.01); p.1 * p.2 * 2 ^ 2 < 1 :=
  (C17_pdhg_est 2 4 1.01 (by norm_num) (by norm_num) (by norm_num)).2.1
example : (padmmEst (3 : ℝ) 1 (some 1.01)).1 = 1.01 * (3 * 3) := rfl
-- `svNorm` on the singular values (2, 1): nuclear norm 3
example : svNorm .nuc ([2, 1] : List ℝ) = some 3 := by
  simp [svNorm, lsum]; norm_num
-- closed forms on diag(1,-3,2)
example : diagNorm .nuc (List.ofFn ![(1 : ℝ), -3, 2]) = .ok 6 := by
  rw [diagNorm_nuc]; simp [Fin.sum_univ_succ]; norm_num
-- a Gram operator exists on ℝ (A = 2·id, B = 4·id) and the identity is its own Gram operator
example : IsGram (ContinuousLinearMap.id ℝ ℝ) (ContinuousLinearMap.id ℝ ℝ) := fun _ _ => rfl

-- convergence hypotheses are satisfiable for any prescribed spectrum: diag(4,1) on ℝ², gap ratio r = 1/4,
-- it is the Gram operator of diag(2,1), and the start (1,1) has a non-zero dominant component
example : ∃ (B A : EuclideanSpace ℝ (Fin 2) →L[ℝ] EuclideanSpace ℝ (Fin 2)),
    IsGram B A ∧ IsDiagIn B (EuclideanSpace.basisFun (Fin 2) ℝ) ![4, 1] ∧ Dominant ![(4 : ℝ), 1] {0} 4 (1 / 4) ∧
    inner ℝ ((EuclideanSpace.basisFun (Fin 2) ℝ) 0) (WithLp.toLp 2 ![(1 : ℝ), 1]) ≠ 0 := by
  refine ⟨diagOp _ ![4, 1], diagOp _ (fun i => Real.sqrt (![4, 1] i)), isGram_diagOp _ _ ?_, isDiagIn_diagOp _ _, ?_, ?_⟩
  · intro i; fin_cases i <;> simp
  · refine ⟨by norm_num, by norm_num, by norm_num, ?_, ?_⟩
    · intro i hi
      simp only [Finset.mem_singleton] at hi
      subst hi; simp
    · intro i hi
      simp only [Finset.mem_singleton] at hi
      fin_cases i
      · exact absurd rfl hi
      · simp
  · simp [EuclideanSpace.basisFun_apply, PiLp.inner_apply]
-- a repeated largest eigenvalue (2·identity on ℝ²: every index is dominant, r = 0): the estimate is exact at budget 1
example : Dominant ![(2 : ℝ), 2] Finset.univ 2 0 :=
  ⟨by norm_num, le_refl _, by norm_num, fun i _ => by fin_cases i <;> simp, fun i hi => absurd (Finset.mem_univ i) hi⟩

end Scico.Props.C17
