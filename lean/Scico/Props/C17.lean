import Scico.Model.Estim
namespace Scico.Props.C17
open Scico.Estim
/-- placeholder while the harness is brought up (replaced below) -/
theorem C17_padmm_none (cA cB : Nat) : padmmEst cA cB none = (cA * cA, cB * cB) := rfl
end Scico.Props.C17
