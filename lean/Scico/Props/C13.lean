/-
  Property C13 — block arrays and the wrapped numpy namespace act block-wise as documented.
  ONLY property theorems (and their non-vacuity examples) here.

  The model (`Scico.Model.Block`) transcribes `_blockarray.py` / `_wrappers.py`; the
  specification side is index-wise (`Rel₂`, `Proj`, `FirstBlk`, `Homog`, `WF` of
  `Scico.Proofs.Block`).  Every statement holds for an arbitrary universe `α` of Python
  values, arbitrary jax primitives `E`, an arbitrary per-block function `f`/`op` (which
  may raise), any number of blocks and any mix of positional / keyword arguments.
-/
import Scico.Proofs.Block
import Scico.Proofs.BlockRandom
import Scico.Proofs.BlockTree
import Scico.Proofs.BlockSlice

namespace Scico.Props.C13
open Scico.Block

variable {α β δ : Type} [DecidableEq δ]

/-! ### operator overloads -/

/-- unary operators act block by block -/
theorem C13_unary (E : Env α δ) (op : α → Res α) (h : α → α) (self : List α)
    (hop : ∀ x ∈ self, op x = .ok (h x)) (harr : ∀ x ∈ self, E.isArr (h x) = true)
    (hdt : Homog E (self.map h)) : unop E op self = .ok (self.map h) :=
  mkFrom_of_arrays E hop harr hdt

/-- … and nothing else can come out: any result has one block per input block, block `i` being
    `op self[i]` (converted with `jnp.array` when it is not an array) -/
theorem C13_unary_conv (E : Env α δ) (op : α → Res α) (self r : List α)
    (h : unop E op self = .ok r) :
    r.length = self.length ∧
    ∀ (i : Nat) (h1 : i < self.length) (h2 : i < r.length),
      ∃ z, op self[i] = .ok z ∧ coerce E z = .ok r[i] := by
  obtain ⟨h1, _, h3⟩ := mkFrom_ok E h
  exact ⟨h1, h3⟩

/-- binary operator on two block arrays with equally many blocks: corresponding blocks -/
theorem C13_binary_blocks (E : Env α δ) (op : α → α → Res (Option α)) (h : α → α → α)
    (self other : List α) (hlen : self.length = other.length)
    (hop : ∀ p ∈ List.zip self other, op p.1 p.2 = .ok (some (h p.1 p.2)))
    (harr : ∀ p ∈ List.zip self other, E.isArr (h p.1 p.2) = true)
    (hdt : Homog E (List.zipWith h self other)) :
    binop E op self (.blk other) = .ok (some (List.zipWith h self other)) := by
  unfold binop
  simp only [hlen, ne_eq, not_true_eq_false, if_false]
  rw [← zip_map_eq_zipWith] at hdt ⊢
  have := mkFrom_of_arrays E (g := opPair op) (h := fun p => h p.1 p.2) (xs := List.zip self other)
    (fun p hp => by simp [opPair, hop p hp]) harr hdt
  simp [this, Except.map]

/-- block operands with different numbers of blocks are rejected, whatever the operator -/
theorem C13_binary_mismatch (E : Env α δ) (op : α → α → Res (Option α)) (self other : List α)
    (hlen : self.length ≠ other.length) : binop E op self (.blk other) = .error .type := by
  simp [binop, hlen]

/-- a scalar or plain array operand is broadcast to every block -/
theorem C13_binary_broadcast (E : Env α δ) (op : α → α → Res (Option α)) (h : α → α → α)
    (self : List α) (o : α)
    (hop : ∀ x ∈ self, op x o = .ok (some (h x o)))
    (harr : ∀ x ∈ self, E.isArr (h x o) = true)
    (hdt : Homog E (self.map (fun x => h x o))) :
    binop E op self (.one o) = .ok (some (self.map (fun x => h x o))) := by
  unfold binop
  have h1 : mapE (fun x => op x o) self = .ok (self.map (fun x => some (h x o))) :=
    mapE_ok_of_forall hop
  have h2 : (self.map (fun x => some (h x o))).any Option.isNone = false := by
    simp
  have h3 : (self.map (fun x => some (h x o))).filterMap id = self.map (fun x => h x o) := by
    rw [List.filterMap_map]; simp
  simp only [h1, h2, h3]
  have hwf : WF E (self.map (fun x => h x o)) :=
    ⟨by intro a ha; obtain ⟨x, hx, rfl⟩ := List.mem_map.1 ha; exact harr x hx, hdt⟩
  simp [mkBlock_wf E hwf, Except.map]

/-- if the per-block operator answers `NotImplemented` for some block (and raises for none),
    the block operator answers `NotImplemented` (Python then tries the reflected operator) -/
theorem C13_binary_notimpl (E : Env α δ) (op : α → α → Res (Option α)) (self : List α) (o : α)
    (res : α → Option α) (hop : ∀ x ∈ self, op x o = .ok (res x))
    (hni : ∃ x ∈ self, res x = none) : binop E op self (.one o) = .ok none := by
  unfold binop
  have h1 : mapE (fun x => op x o) self = .ok (self.map res) := mapE_ok_of_forall hop
  have h2 : (self.map res).any Option.isNone = true := by
    obtain ⟨x, hx, hr⟩ := hni
    simp only [List.any_map, List.any_eq_true]
    exact ⟨x, hx, by simp [hr]⟩
  simp [h1, h2]

/-- lifted methods / properties: per block; a `BlockArray` when the results are arrays … -/
theorem C13_method_blocks (E : Env α δ) (m : α → Res α) (h : α → α) (self : List α)
    (hne : self ≠ []) (hm : ∀ x ∈ self, m x = .ok (h x))
    (harr : ∀ x ∈ self, E.isArr (h x) = true) (hdt : Homog E (self.map h)) :
    liftMethod E m self = .ok (.blk (self.map h)) := by
  unfold liftMethod
  rw [mapE_ok_of_forall hm]
  cases self with
  | nil => exact absurd rfl hne
  | cons x xs =>
    have hwf : WF E ((x :: xs).map h) :=
      ⟨by intro a ha; obtain ⟨y, hy, rfl⟩ := List.mem_map.1 ha; exact harr y hy, hdt⟩
    have := mkBlock_wf E hwf
    simp only [List.map_cons] at this ⊢
    simp [harr x (by simp), this, Except.map]

/-- … and the plain tuple of the per-block results otherwise (`x.shape`, `x.size`, `x.ndim`) -/
theorem C13_method_tuple (E : Env α δ) (m : α → Res α) (h : α → α) (x : α) (xs : List α)
    (hm : ∀ y ∈ x :: xs, m y = .ok (h y)) (hnarr : E.isArr (h x) = false) :
    liftMethod E m (x :: xs) = .ok (.tup ((x :: xs).map h)) := by
  unfold liftMethod
  rw [mapE_ok_of_forall hm]
  simp [hnarr]

/-- `x[k]` is list indexing: for `-n ≤ k < n` it is block `k` (counted from the end when negative),
    otherwise `IndexError` -/
theorem C13_getitem (self : List α) (k : Int) :
    (∀ (_ : 0 ≤ k) (h1 : k < self.length), getItem self k = .ok (self[k.toNat]'(by omega))) ∧
    (∀ (_ : k < 0) (h1 : -(self.length : Int) ≤ k),
        getItem self k = .ok (self[(k + self.length).toNat]'(by omega))) ∧
    (k < -(self.length : Int) ∨ (self.length : Int) ≤ k → getItem self k = .error .index) := by
  refine ⟨?_, ?_, ?_⟩
  · intro h0 h1
    have h2 : ¬ (k < 0) := by omega
    have h3 : ¬ ((self.length : Int) ≤ k) := by omega
    unfold getItem
    simp only [h2, h3, if_false, or_self]
    rw [List.getElem?_eq_getElem (by omega)]
  · intro h0 h1
    have h2 : ¬ (k + (self.length : Int) < 0) := by omega
    have h3 : ¬ ((self.length : Int) ≤ k + self.length) := by omega
    unfold getItem
    simp only [h0, if_true, h2, h3, or_self, if_false]
    rw [List.getElem?_eq_getElem (by omega)]
  · intro h
    unfold getItem
    by_cases hk : k < 0
    · have h2 : k + (self.length : Int) < 0 := by omega
      simp only [hk, if_true, h2, true_or]
    · have h2 : (self.length : Int) ≤ k := by omega
      simp only [hk, if_false, h2, or_true, if_true]

/-- `x[start:stop:step]` is Python list slicing, returned as a block array: a zero step is a
    ValueError; otherwise, with `(a, b, st)` the clipped bounds of `slice.indices(n)`, the result has one
    block per index `j` of `range(a, b, st)`, namely block `j` of `x` (every `j` is a valid index: nothing
    is read outside the list), and it is well formed -/
theorem C13_getslice (E : Env α δ) (self : List α) (hwf : WF E self) (start stop step : Option Int) :
    (step = some 0 → getSlice E self start stop step = .error .value) ∧
    (∀ a b st, sliceBounds self.length start stop step = some (a, b, st) →
      ∃ r, getSlice E self start stop step = .ok r ∧ WF E r ∧
        List.Forall₂ (fun (j : Int) (x : α) => ∃ hj : j.toNat < self.length, x = self[j.toNat])
          (sliceIdx a b st) r) := by
  constructor
  · rintro rfl
    simp [getSlice, sliceBounds]
  · intro a b st h
    have hreads := slice_reads self rfl h
    have hsub : ∀ x ∈ (sliceIdx a b st).filterMap (fun j => self[j.toNat]?), x ∈ self := by
      intro x hx
      obtain ⟨j, _, hj⟩ := List.mem_filterMap.1 hx
      exact List.mem_of_getElem? hj
    have hwf' : WF E ((sliceIdx a b st).filterMap (fun j => self[j.toNat]?)) :=
      ⟨fun x hx => hwf.1 x (hsub x hx), fun x hx y hy => hwf.2 x (hsub x hx) y (hsub y hy)⟩
    exact ⟨_, by simp [getSlice, h, mkBlock_wf E hwf'], hwf', hreads⟩

/-- the documented forms: `x[:k]` are the first `k` blocks (`0 ≤ k ≤ n`) -/
theorem C13_getslice_prefix (E : Env α δ) (self : List α) (hwf : WF E self) (k : Nat) (hk : k ≤ self.length) :
    getSlice E self none (some (k : Int)) none = .ok (self.take k) := by
  have hb : sliceBounds self.length none (some (k : Int)) none = some (0, (k : Int), 1) := by
    unfold sliceBounds
    have h1 : ¬ ((k : Int) < 0) := by omega
    by_cases h2 : (self.length : Int) ≤ k
    · have : k = self.length := by omega
      simp [h1, this]
    · simp [h1, h2]
  have hwf' : WF E (self.take k) :=
    ⟨fun x hx => hwf.1 x (List.mem_of_mem_take hx),
     fun x hx y hy => hwf.2 x (List.mem_of_mem_take hx) y (List.mem_of_mem_take hy)⟩
  simp only [getSlice, hb, slice_prefix_reads]
  exact mkBlock_wf E hwf'

/-- a block array behaves as the tuple of its blocks under iteration: Python's legacy sequence protocol
    (`x[0], x[1], …` until `IndexError`; this is what `for x in self`, `zip(self, other)`, `tuple(x)` and
    `solver._ravel` run) yields exactly the blocks, in order, after `n + 1` calls of `__getitem__` — which is
    why the model may work on the block list directly -/
theorem C13_iter (self : List α) :
    iterBlocks self = self ∧ ∀ fuel, self.length + 1 ≤ fuel → iterFrom self 0 fuel = self := by
  constructor
  · simpa [iterBlocks] using iterFrom_eq_drop self (self.length + 1) 0 (by omega)
  · intro fuel h
    simpa using iterFrom_eq_drop self fuel 0 (by omega)

/-! ### `map_func_over_blocks` -/

/-- the number of blocks is taken from the first `BlockArray` in the order
    positional arguments, then keyword arguments; none → no mapping -/
theorem C13_search_order (args : List (PyVal α)) (kwargs : List (String × PyVal α)) :
    (∀ l, FirstBlk (args ++ kwargs.map Prod.snd) l → numBlocksInArgs args kwargs = l.length) ∧
    (NoBlk (args ++ kwargs.map Prod.snd) → numBlocksInArgs args kwargs = 0) :=
  ⟨fun _ h => numBlocks_first h, numBlocks_noblk⟩

/-- For any `f` and any mix of positional / keyword block arguments the result is
    `[f(args↓i, kwargs↓i)]ᵢ`, `i < n`, `n` the block count of the first block argument. -/
theorem C13_map_blocks_partial (E : Env α δ) (f : List (PyVal α) → List (String × PyVal α) → Res α)
    (args : List (PyVal α)) (kwargs : List (String × PyVal α)) (l0 : List α)
    (hfirst : FirstBlk (args ++ kwargs.map Prod.snd) l0) (hpos : 0 < l0.length)
    (hlen : ∀ v ∈ args ++ kwargs.map Prod.snd, ∀ l, v = PyVal.blk l → l.length = l0.length)
    (A : Nat → List (PyVal α)) (K : Nat → List (String × PyVal α))
    (hA : ∀ i, i < l0.length → Rel₂ (Proj i) args (A i))
    (hK : ∀ i, i < l0.length →
      Rel₂ (fun kv kv' => kv'.1 = kv.1 ∧ Proj i kv.2 kv'.2) kwargs (K i))
    (r : Nat → α) (hf : ∀ i, i < l0.length → f (A i) (K i) = .ok (r i))
    (harr : ∀ i, i < l0.length → E.isArr (r i) = true)
    (hdt : Homog E ((List.range l0.length).map r)) :
    mapFuncOverBlocks E f args kwargs = .ok (.blk ((List.range l0.length).map r)) := by
  unfold mapFuncOverBlocks
  have hn := numBlocks_first hfirst
  have hl : lensOk l0.length (args ++ kwargs.map Prod.snd) = true := lensOk_iff.2 hlen
  simp only [hn, hl, Bool.not_true, Bool.false_eq_true, if_false,
    show ¬ l0.length = 0 by omega, blockArgsKwargs_ok hA hK]
  rw [mkFrom_map]
  have := mkFrom_of_arrays E (g := fun i => f (A i) (K i)) (h := r) (xs := List.range l0.length)
    (fun i hi => hf i (List.mem_range.1 hi)) (fun i hi => harr i (List.mem_range.1 hi)) hdt
  simp [this, Except.map]

/-- The full statement — *whatever* the per-block function returns (also tuples, as `frexp` or
    `linalg.eig` do), the result is the list of the per-block results — is NOT claimed: it fails on
    the code as it is (finding `map-blocks-tuple-results`).  `C13_map_blocks_partial` above is the proved part:
    it needs `harr` (the per-block results are arrays). -/
def C13_map_blocks_stmt : Prop :=
  ∀ (α δ : Type) [DecidableEq δ] (E : Env α δ) (f : List (PyVal α) → List (String × PyVal α) → Res α)
    (bs : List α) (r : α → α), bs ≠ [] → (∀ b ∈ bs, f [PyVal.one b] [] = .ok (r b)) →
    mapFuncOverBlocks E f [PyVal.blk bs] [] = .ok (.blk (bs.map r))

/-- negation witness: a per-block function whose results are not arrays and cannot be converted
    (ragged tuples): every per-block call succeeds, yet the mapped call is rejected -/
theorem C13_map_blocks_tuple_witness : ¬ C13_map_blocks_stmt := by
  intro h
  -- values: 0 = an array, 1 = a tuple that `jnp.array` rejects
  let E : Env Nat Unit := ⟨fun x => x == 0, fun _ => .error .shape, fun _ => ()⟩
  have := h Nat Unit E (fun _ _ => .ok 1) [0] (fun _ => 1) (by simp) (by simp)
  revert this
  decide

/-- converse: whatever block array comes out has `n` blocks, block `i` being `f` applied to
    the `i`-th projections of the arguments -/
theorem C13_map_blocks_conv (E : Env α δ) (f : List (PyVal α) → List (String × PyVal α) → Res α)
    (args : List (PyVal α)) (kwargs : List (String × PyVal α)) (rs : List α)
    (hpos : 0 < numBlocksInArgs args kwargs)
    (h : mapFuncOverBlocks E f args kwargs = .ok (.blk rs)) :
    rs.length = numBlocksInArgs args kwargs ∧ Homog E rs ∧
    ∀ (i : Nat) (hi : i < rs.length), ∃ a k z,
      Rel₂ (Proj i) args a ∧
      Rel₂ (fun kv kv' => kv'.1 = kv.1 ∧ Proj i kv.2 kv'.2) kwargs k ∧
      f a k = .ok z ∧ coerce E z = .ok rs[i] := by
  unfold mapFuncOverBlocks at h
  simp only [show ¬ numBlocksInArgs args kwargs = 0 by omega, if_false] at h
  split at h
  · simp at h
  · cases hb : blockArgsKwargs (numBlocksInArgs args kwargs) args kwargs with
    | error e => simp [hb] at h
    | ok calls =>
      simp only [hb] at h
      cases hm : mkFrom E (fun (c : List (PyVal α) × List (String × PyVal α)) => f c.1 c.2) calls with
      | error e => simp [hm, Except.map] at h
      | ok rs' =>
        simp [hm, Except.map] at h
        subst h
        obtain ⟨hlen, hh, hget⟩ := mkFrom_ok E hm
        obtain ⟨hcl, hcalls⟩ := blockArgsKwargs_conv hb
        refine ⟨by omega, hh, fun i hi => ?_⟩
        obtain ⟨z, hz, hc⟩ := hget i (by omega) hi
        obtain ⟨ha, hk⟩ := hcalls i (by omega)
        exact ⟨_, _, z, ha, hk, hz, hc⟩

/-- no block argument: the function is called once, unchanged -/
theorem C13_map_noblock (E : Env α δ) (f : List (PyVal α) → List (String × PyVal α) → Res α)
    (args : List (PyVal α)) (kwargs : List (String × PyVal α))
    (h : NoBlk (args ++ kwargs.map Prod.snd)) :
    mapFuncOverBlocks E f args kwargs = (f args kwargs).map PyVal.one := by
  simp [mapFuncOverBlocks, numBlocks_noblk h]

/-- degenerate case of the code's test `num_blocks == 0`: when the first block argument is an *empty*
    block array nothing is mapped either — the function receives the block arrays themselves -/
theorem C13_map_empty_first (E : Env α δ) (f : List (PyVal α) → List (String × PyVal α) → Res α)
    (args : List (PyVal α)) (kwargs : List (String × PyVal α))
    (hfirst : FirstBlk (args ++ kwargs.map Prod.snd) []) :
    mapFuncOverBlocks E f args kwargs = (f args kwargs).map PyVal.one := by
  have hn := numBlocks_first hfirst
  simp [mapFuncOverBlocks, hn]

/-- a block argument whose number of blocks differs from the first one's is rejected -/
theorem C13_map_mismatch (E : Env α δ) (f : List (PyVal α) → List (String × PyVal α) → Res α)
    (args : List (PyVal α)) (kwargs : List (String × PyVal α)) (l0 l1 : List α)
    (hfirst : FirstBlk (args ++ kwargs.map Prod.snd) l0) (hpos : 0 < l0.length)
    (hmem : PyVal.blk l1 ∈ args ++ kwargs.map Prod.snd) (hne : l1.length ≠ l0.length) :
    mapFuncOverBlocks E f args kwargs = .error .type := by
  unfold mapFuncOverBlocks
  have hn := numBlocks_first hfirst
  have hl : ¬ lensOk l0.length (args ++ kwargs.map Prod.snd) = true := by
    intro c
    exact hne (lensOk_iff.1 c _ hmem l1 rfl)
  simp [hn, show ¬ l0.length = 0 by omega, hl]

/-- `map_void_func_over_blocks` (the wrapped `numpy.testing` assertions): the function is called on
    the projections of block `0, 1, …` in this order; the call succeeds when every per-block call does,
    and the first failing block decides the exception -/
theorem C13_map_void (f : List (PyVal α) → List (String × PyVal α) → Res Unit)
    (args : List (PyVal α)) (kwargs : List (String × PyVal α)) (l0 : List α)
    (hfirst : FirstBlk (args ++ kwargs.map Prod.snd) l0) (hpos : 0 < l0.length)
    (hlen : ∀ v ∈ args ++ kwargs.map Prod.snd, ∀ l, v = PyVal.blk l → l.length = l0.length)
    (A : Nat → List (PyVal α)) (K : Nat → List (String × PyVal α))
    (hA : ∀ i, i < l0.length → Rel₂ (Proj i) args (A i))
    (hK : ∀ i, i < l0.length →
      Rel₂ (fun kv kv' => kv'.1 = kv.1 ∧ Proj i kv.2 kv'.2) kwargs (K i)) :
    ((∀ i, i < l0.length → f (A i) (K i) = .ok ()) → mapVoidFuncOverBlocks f args kwargs = .ok ()) ∧
    (∀ i e, i < l0.length → (∀ j, j < i → f (A j) (K j) = .ok ()) → f (A i) (K i) = .error e →
      mapVoidFuncOverBlocks f args kwargs = .error e) := by
  have hn := numBlocks_first hfirst
  have hl : lensOk l0.length (args ++ kwargs.map Prod.snd) = true := lensOk_iff.2 hlen
  have hunf : mapVoidFuncOverBlocks f args kwargs =
      (mapE (fun i => f (A i) (K i)) (List.range l0.length)).map (fun _ => ()) := by
    unfold mapVoidFuncOverBlocks
    simp only [hn, hl, Bool.not_true, Bool.false_eq_true, if_false,
      show ¬ l0.length = 0 by omega, blockArgsKwargs_ok hA hK]
    rw [mapE_map]
  constructor
  · intro hall
    rw [hunf, mapE_ok_of_forall (h := fun _ => ()) (fun i hi => hall i (List.mem_range.1 hi))]
    rfl
  · intro i e hi hbefore hfail
    rw [hunf]
    have hsplit : List.range l0.length = List.range i ++ i :: (List.range' (i + 1) (l0.length - (i + 1))) := by
      apply List.ext_getElem
      · simp; omega
      · intro k h1 h2
        simp only [List.getElem_range]
        by_cases hk : k < i
        · rw [List.getElem_append_left (by simpa using hk)]; simp
        · rw [List.getElem_append_right (by simpa using hk)]
          simp only [List.length_range]
          by_cases hk2 : k = i
          · subst hk2; simp
          · have : k - i = (k - i - 1) + 1 := by omega
            rw [List.getElem_cons, dif_neg (by omega)]
            simp only [List.getElem_range']
            omega
    rw [hsplit, mapE_error_of (g := fun i => f (A i) (K i)) (e := e)
      (fun j hj => ⟨(), hbefore j (List.mem_range.1 hj)⟩) hfail]
    rfl

/-! ### `add_full_reduction` -/

/-- no `axis`, one block argument: the function is applied once, to the concatenation of the
    ravelled blocks -/
theorem C13_full_reduction (E : Env α δ) (f : List (PyVal α) → List (String × PyVal α) → Res α)
    (cat : List α → Res α) (pre post : Bound α) (k : String) (bs : List α) (c : α)
    (hpre : ∀ kv ∈ pre, kv.2.isBlk = false) (hpost : ∀ kv ∈ post, kv.2.isBlk = false)
    (hax : hasKey "axis" (pre ++ post) = false) (hc : cat bs = .ok c) :
    addFullReduction (fun b => mapFuncOverBlocks E f [] b) cat (pre ++ (k, PyVal.blk bs) :: post)
      = (f [] (pre ++ post ++ [(k, PyVal.one c)])).map PyVal.one := by
  unfold addFullReduction
  obtain ⟨p1, p2⟩ := filter_isBlk_noblk hpre
  obtain ⟨q1, q2⟩ := filter_isBlk_noblk hpost
  have hb : PyVal.isBlk (PyVal.blk bs) = true := rfl
  simp only [List.filter_append, List.filter_cons, hb, p1, p2, q1, q2, if_true,
    Bool.not_true, Bool.false_eq_true, if_false, List.nil_append, hax,
    List.length_singleton, gt_iff_lt, Nat.lt_irrefl, mapE, catArg, hc, Except.map]
  apply C13_map_noblock
  intro v hv
  simp only [List.nil_append, List.map_append, List.map_cons, List.map_nil, List.mem_append,
    List.mem_map, List.mem_singleton] at hv
  rcases hv with (⟨kv, hkv, rfl⟩ | ⟨kv, hkv, rfl⟩) | rfl
  · exact hpre kv hkv
  · exact hpost kv hkv
  · rfl

/-- with `axis` the reduction is mapped over the blocks (each block gets the same `axis`) -/
theorem C13_full_reduction_axis (E : Env α δ)
    (f : List (PyVal α) → List (String × PyVal α) → Res α)
    (cat : List α → Res α) (pre post : Bound α) (k : String) (bs : List α)
    (hpre : ∀ kv ∈ pre, kv.2.isBlk = false) (hpost : ∀ kv ∈ post, kv.2.isBlk = false)
    (hax : hasKey "axis" (pre ++ post) = true) (hpos : 0 < bs.length)
    (r : Nat → α)
    (hf : ∀ i (hi : i < bs.length), f [] (pre ++ post ++ [(k, PyVal.one bs[i])]) = .ok (r i))
    (harr : ∀ i, i < bs.length → E.isArr (r i) = true)
    (hdt : Homog E ((List.range bs.length).map r)) :
    addFullReduction (fun b => mapFuncOverBlocks E f [] b) cat (pre ++ (k, PyVal.blk bs) :: post)
      = .ok (.blk ((List.range bs.length).map r)) := by
  unfold addFullReduction
  obtain ⟨p1, p2⟩ := filter_isBlk_noblk hpre
  obtain ⟨q1, q2⟩ := filter_isBlk_noblk hpost
  have hb : PyVal.isBlk (PyVal.blk bs) = true := rfl
  simp only [List.filter_append, List.filter_cons, hb, p1, p2, q1, q2, if_true,
    Bool.not_true, Bool.false_eq_true, if_false, List.nil_append, hax]
  have hnb : ∀ kv ∈ pre ++ post, kv.2.isBlk = false := by
    intro kv hkv
    rcases List.mem_append.1 hkv with h | h
    · exact hpre kv h
    · exact hpost kv h
  refine C13_map_blocks_partial E f [] (pre ++ post ++ [(k, PyVal.blk bs)]) bs ?_ hpos ?_
    (fun _ => []) (fun i => if hi : i < bs.length then pre ++ post ++ [(k, PyVal.one bs[i])] else [])
    (fun i _ => ⟨rfl, fun j h1 _ => by simp at h1⟩) ?_ r ?_ harr hdt
  · refine ⟨(pre ++ post).map Prod.snd, [], by simp, ?_⟩
    intro v hv
    obtain ⟨kv, hkv, rfl⟩ := List.mem_map.1 hv
    exact hnb kv hkv
  · intro v hv l hl
    subst hl
    simp only [List.nil_append, List.map_append, List.map_cons, List.map_nil, List.mem_append,
      List.mem_map, List.mem_singleton] at hv
    rcases hv with (⟨kv, hkv, he⟩ | ⟨kv, hkv, he⟩) | he
    · have := hpre kv hkv; rw [he] at this; simp [PyVal.isBlk] at this
    · have := hpost kv hkv; rw [he] at this; simp [PyVal.isBlk] at this
    · injection he with he; rw [he]
  · intro i hi
    simp only [hi, dif_pos]
    refine ⟨by simp, fun j h1 h2 => ?_⟩
    by_cases hj : j < (pre ++ post).length
    · have e1 : (pre ++ post ++ [(k, PyVal.blk bs)])[j] = (pre ++ post)[j] :=
        List.getElem_append_left hj
      have e2 : (pre ++ post ++ [(k, PyVal.one bs[i])])[j] = (pre ++ post)[j] :=
        List.getElem_append_left hj
      rw [e1, e2]
      refine ⟨rfl, noblk_proj (hnb _ (List.getElem_mem hj))⟩
    · have hj' : j = (pre ++ post).length := by
        simp only [List.length_append, List.length_singleton] at h1 hj ⊢; omega
      subst hj'
      simp only [List.getElem_concat_length]
      exact ⟨trivial, ⟨hi, rfl⟩⟩
  · intro i hi
    simp only [hi, dif_pos]
    exact hf i hi

/-- how `axis` is detected (`sig.bind(*args, **kwargs)`, then `"axis" in bound.arguments`): it counts as given
    exactly when enough positional arguments reach its position in the signature, or when it is passed by
    keyword — whatever its value, also `None`; too many positionals, an unknown keyword or a keyword that is
    already bound positionally is a `TypeError` before anything is reduced.  With `C13_full_reduction` /
    `C13_full_reduction_axis`: `snp.sum(x, 0)`, `snp.sum(x, axis=0)`, `snp.linalg.norm(x, None, 0)` map over the
    blocks, `snp.sum(x)`, `snp.linalg.norm(x, 1)`, `snp.sum(x, keepdims=True)` reduce the concatenation. -/
theorem C13_axis_binding (E : Env α δ) (posParams kwOnly : List String)
    (f : List (PyVal α) → List (String × PyVal α) → Res α) (cat : List α → Res α)
    (args : List (PyVal α)) (kwargs : List (String × PyVal α)) :
    (posParams.length < args.length → reductionCall E posParams kwOnly f cat args kwargs = .error .type) ∧
    (∀ bound, bindCall posParams kwOnly args kwargs = .ok bound →
      hasKey "axis" bound = (decide (posParams.idxOf "axis" < args.length) || hasKey "axis" kwargs) ∧
      reductionCall E posParams kwOnly f cat args kwargs
        = addFullReduction (fun b => mapFuncOverBlocks E f [] b) cat bound) := by
  constructor
  · intro h
    simp [reductionCall, bindCall, h]
  · intro bound h
    refine ⟨?_, by simp [reductionCall, h]⟩
    unfold bindCall at h
    by_cases hl : posParams.length < args.length
    · simp [hl] at h
    · simp only [hl, if_false] at h
      split at h
      · cases h
      · simp only [Except.ok.injEq] at h
        subst h
        rw [hasKey_append, hasKey_zip]
        congr 1
        by_cases hi : posParams.idxOf "axis" < args.length
        · have : posParams.idxOf "axis" < posParams.length := by omega
          simp [hi, this]
        · simp [hi]

/-- `jnp.concatenate(v.ravel())`: the lifted `ravel` of every block, then one concatenation; an
    empty block array is rejected (`IndexError` of the lifted method) before anything is concatenated -/
theorem C13_ravel_cat (E : Env α δ) (rv : α → Res α) (concat : List α → Res α) (h : α → α)
    (bs : List α) (hrv : ∀ x ∈ bs, rv x = .ok (h x)) (harr : ∀ x ∈ bs, E.isArr (h x) = true)
    (hdt : Homog E (bs.map h)) :
    (bs ≠ [] → ravelCatVia E rv concat bs = concat (bs.map h)) ∧
    (bs = [] → ravelCatVia E rv concat bs = .error .index) := by
  constructor
  · intro hne
    unfold ravelCatVia
    rw [C13_method_blocks E rv h bs hne hrv harr hdt]
  · rintro rfl
    simp [ravelCatVia, liftMethod, mapE]

/-- several block arguments and no `axis`: rejected (`ValueError`) -/
theorem C13_full_reduction_two (inner : Bound α → Res (PyVal α)) (cat : List α → Res α)
    (bound : Bound α) (hax : hasKey "axis" (bound.filter (fun kv => !kv.2.isBlk)) = false)
    (h2 : 1 < (bound.filter (fun kv => kv.2.isBlk)).length) :
    addFullReduction inner cat bound = .error .value := by
  simp [addFullReduction, hax, h2]

/-- `sum` of the concatenation = sum of the per-block sums -/
theorem C13_sum_concat {M : Type} [AddMonoid M] (bs : List (List M)) :
    rsum (ravelCat bs) = rsum (bs.map rsum) := by
  rw [rsum_eq_sum, rsum_eq_sum]
  have : bs.map rsum = bs.map List.sum := List.map_congr_left (fun l _ => rsum_eq_sum l)
  rw [this]
  exact List.sum_flatten

/-- `‖·‖²` of the concatenation = sum of the per-block squared norms -/
theorem C13_sumsq_concat {M : Type} [Semiring M] (bs : List (List M)) :
    rsumsq (ravelCat bs) = rsum (bs.map rsumsq) := by
  unfold rsumsq ravelCat
  rw [List.map_flatten]
  have := C13_sum_concat (bs.map (List.map (fun x : M => x * x)))
  unfold ravelCat at this
  rw [this, List.map_map]
  rfl

/-- `max`/`min` of the concatenation = max/min of the per-block extrema (empty blocks skipped;
    all blocks empty ↔ no value, where numpy raises) -/
theorem C13_max_concat {M : Type} [LinearOrder M] (bs : List (List M)) :
    rmax (ravelCat bs) = optCombine max (bs.map rmax) := rmax_flatten bs

theorem C13_min_concat {M : Type} [LinearOrder M] (bs : List (List M)) :
    rmin (ravelCat bs) = optCombine min (bs.map rmin) := rmin_flatten bs

/-- `count_nonzero`, `any`, `all` of the concatenation from the per-block values -/
theorem C13_count_concat (nz : α → Bool) (bs : List (List α)) :
    rcount nz (ravelCat bs) = (bs.map (rcount nz)).sum := rcount_flatten nz bs

theorem C13_any_concat (nz : α → Bool) (bs : List (List α)) :
    rany nz (ravelCat bs) = (bs.map (rany nz)).any id := by
  simp [rany, ravelCat, List.any_flatten, List.any_map, Function.comp_def]

theorem C13_all_concat (nz : α → Bool) (bs : List (List α)) :
    rall nz (ravelCat bs) = (bs.map (rall nz)).all id := by
  simp [rall, ravelCat, List.all_flatten, List.all_map, Function.comp_def]

/-! ### creation routines -/

/-- a nested `shape` creates a block array block by block: block `i` is `f` called with the
    same arguments and `shape = items[i]` -/
theorem C13_creation (E : Env α δ) (f : List (String × CVal β) → Res α) (key : String)
    (bound : List (String × CVal β)) (items : List STree)
    (hk : lookupKey key bound = some (.tree (.tup items)))
    (hnest : (STree.tup items).isNested = true)
    (r : STree → α)
    (hf : ∀ x ∈ items, f (eraseKey key bound ++ [(key, CVal.tree x)]) = .ok (r x))
    (harr : ∀ x ∈ items, E.isArr (r x) = true) (hdt : Homog E (items.map r)) :
    mapTupleOfTuples E f key bound = .ok (.blk (items.map r)) := by
  unfold mapTupleOfTuples
  simp only [hk, hnest, Bool.not_true, Bool.false_eq_true, if_false]
  rw [mkFrom_of_arrays E hf harr hdt]
  rfl

/-- a flat shape (or no `shape` argument at all): the routine is called unchanged -/
theorem C13_creation_flat (E : Env α δ) (f : List (String × CVal β) → Res α) (key : String)
    (bound : List (String × CVal β))
    (h : lookupKey key bound = none ∨ (∃ b, lookupKey key bound = some (.oth b)) ∨
      ∃ t, lookupKey key bound = some (.tree t) ∧ t.isNested = false) :
    mapTupleOfTuples E f key bound = (f bound).map PyVal.one := by
  unfold mapTupleOfTuples
  rcases h with h | ⟨b, h⟩ | ⟨t, h, hn⟩
  · simp [h]
  · simp [h]
  · simp [h, hn]

/-- the created blocks together have `shape_to_size(shape)` elements -/
theorem C13_creation_size (items : List STree) (hnest : (STree.tup items).isNested = true) :
    shapeToSize (.tup items) = (items.map STree.prod).sum := by
  simp [shapeToSize, hnest]

/-! ### pytree registration and the dtype invariant -/

/-- `unflatten ∘ flatten = id` on well-formed block arrays, `flatten ∘ unflatten = id` on
    well-formed children (what `jit`, `grad`, `jvp`, `vjp`, `scan`, `cond`, `tree_map` with
    array-valued functions use) -/
theorem C13_pytree (E : Env α δ) (b : List α) (hwf : WF E b) :
    treeUnflatten E (treeFlatten b).2 (treeFlatten b).1 = .ok b ∧
    ((treeUnflatten E () b).map treeFlatten) = .ok (b, ()) := by
  have hall : b.all E.isArr = true := List.all_eq_true.2 hwf.1
  constructor
  · simp [treeUnflatten, treeFlatten, hall, mkBlock_wf E hwf]
  · simp [treeUnflatten, hall, mkBlock_wf E hwf, Except.map, treeFlatten]

/-- JAX's contract for a registered node: `unflatten` takes ANY leaves and `flatten` gives them back
    (transformations such as `vmap`, `jacfwd`, `jacrev`, `hessian`, `eval_shape`, lowering rebuild
    trees with placeholder leaves `object()`, `None`, `ShapeDtypeStruct`):
    a list with a non-array leaf is stored untouched; whatever is accepted comes back unchanged from
    `flatten`; the only lists rejected are arrays of different dtypes (the dtype invariant). -/
theorem C13_pytree_placeholders (E : Env α δ) (children : List α) :
    (children.all E.isArr = false → treeUnflatten E () children = .ok children) ∧
    (∀ b, treeUnflatten E () children = .ok b → (treeFlatten b).1 = children) ∧
    (∀ e, treeUnflatten E () children = .error e →
        e = .dtype ∧ (∀ a ∈ children, E.isArr a = true) ∧ ¬ Homog E children) := by
  refine ⟨fun h => by simp [treeUnflatten, h], fun b hb => ?_, fun e he => ?_⟩
  · unfold treeUnflatten at hb
    by_cases hall : children.all E.isArr = true
    · simp only [hall, if_true] at hb
      obtain ⟨hlen, _, hget⟩ := mkFrom_ok E hb
      apply List.ext_getElem hlen
      intro i h1 h2
      obtain ⟨z, hz, hc⟩ := hget i h2 h1
      simp only [Except.ok.injEq] at hz
      subst hz
      have : E.isArr children[i] = true := List.all_eq_true.1 hall _ (List.getElem_mem h2)
      rw [coerce_arr E this] at hc
      simpa [treeFlatten] using (Except.ok.inj hc).symm
    · simp only [hall] at hb
      simpa [treeFlatten] using (Except.ok.inj hb).symm
  · unfold treeUnflatten at he
    by_cases hall : children.all E.isArr = true
    · simp only [hall, if_true] at he
      have harr : ∀ a ∈ children, E.isArr a = true := List.all_eq_true.1 hall
      by_cases hh : Homog E children
      · rw [mkBlock_wf E ⟨harr, hh⟩] at he; cases he
      · have := mkFrom_hetero E (g := Except.ok) (h := id) (xs := children) (fun _ _ => rfl) harr (by simpa using hh)
        simp only [mkBlock] at he
        rw [this] at he
        exact ⟨(Except.error.inj he).symm, harr, hh⟩
    · simp [hall] at he

/-- block arrays nested inside tuples / lists / dicts (and next to other leaves): with jax's flatten /
    unflatten recursion, `tree_unflatten(tree_structure(t), tree_leaves(t)) = t` whenever every block array
    node of `t` is acceptable (holds a non-array placeholder, or arrays of one dtype) -/
theorem C13_pytree_nested (E : Env α δ) (t : PT α) (h : t.Ok E) :
    unflat E t.struct t.leaves = .ok (t, []) := by
  simpa using unflat_leaves E t [] h

/-- … and for ANY leaves (tracers, placeholders, results of a mapped function): whatever
    `tree_unflatten` returns has the requested structure and exactly the given leaves, in order and
    untouched; in particular `tree_map f t`, when it succeeds, is `t` with every leaf `a` replaced by
    `f a` — block by block for the block arrays inside -/
theorem C13_pytree_nested_sound (E : Env α δ) :
    (∀ (s : PT Unit) (l : List α) (t : PT α) (r : List α),
      unflat E s l = .ok (t, r) → t.struct = s ∧ t.leaves ++ r = l) ∧
    (∀ (f : α → α) (t t' : PT α), treeMap E f t = .ok t' →
      t'.struct = t.struct ∧ t'.leaves = t.leaves.map f) ∧
    -- the registered node function on rebuilt children (leaves, or pytrees themselves: nested block
    -- arrays, tuples): it never changes them, and rejects only arrays of different dtypes
    (∀ (ts : List (PT α)) (t : PT α), unflattenNode E ts = .ok t → t = .blk ts) ∧
    (∀ (ts : List (PT α)) (e : Err), unflattenNode E ts = .error e →
      e = .dtype ∧ ts.all (childArr E) = true ∧ ¬ Homog E (leafVals ts)) :=
  ⟨unflat_sound E, treeMap_sound E, fun _ _ h => unflattenNode_eq E h, fun _ _ h => unflattenNode_error E h⟩

/-- before d088c11 every leaf went through the constructor: a leaf that `jnp.array` rejects made
    `unflatten` raise (finding `blockarray-pytree-placeholder-leaves`, repaired) -/
theorem C13_pytree_old_witness :
    ∃ (E : Env Nat Unit) (children : List Nat),
      treeUnflattenOld E () children = .error .type ∧ treeUnflatten E () children = .ok children :=
  ⟨⟨fun x => x == 0, fun _ => .error .type, fun _ => ()⟩, [1], by decide, by decide⟩

/-- one homogeneous dtype is an invariant: every block array produced by the constructor, the
    operator overloads, lifted methods, the function wrappers, `unflatten` from array leaves and the
    assignment of a block is well formed -/
theorem C13_dtype_inv (E : Env α δ) (hAs : ∀ x y, E.asArr x = .ok y → E.isArr y = true) :
    (∀ l r, mkBlock E l = .ok r → WF E r) ∧
    (∀ op self r, unop E op self = .ok r → WF E r) ∧
    (∀ op self o r, binop E op self o = .ok (some r) → WF E r) ∧
    (∀ m self r, liftMethod E m self = .ok (.blk r) → WF E r) ∧
    (∀ f args kwargs r, 0 < numBlocksInArgs args kwargs →
        mapFuncOverBlocks E f args kwargs = .ok (.blk r) → WF E r) ∧
    (∀ aux l r, (∀ a ∈ l, E.isArr a = true) → treeUnflatten E aux l = .ok r → WF E r) ∧
    (∀ self k v r, setItem E self k v = .ok r → WF E r) := by
  refine ⟨fun l r h => mkFrom_wf E hAs h, fun op self r h => mkFrom_wf E hAs h, ?_, ?_, ?_,
    fun _ l r harr h => ?_, fun self k v r h => ?_⟩
  rotate_left 3
  · have hall : l.all E.isArr = true := List.all_eq_true.2 harr
    simp only [treeUnflatten, hall, if_true] at h
    exact mkFrom_wf E hAs h
  · unfold setItem at h
    cases hp : pyIndex self.length k with
    | none => simp [hp] at h
    | some j => simp only [hp] at h; exact mkFrom_wf E hAs h
  · intro op self o r h
    unfold binop at h
    cases o with
    | blk other =>
      simp only at h
      split at h
      · simp at h
      · cases hm : mkFrom E (opPair op) (List.zip self other) with
        | error e => simp [hm, Except.map] at h
        | ok r' =>
          simp [hm, Except.map] at h
          subst h
          exact mkFrom_wf E hAs hm
    | one o =>
      simp only at h
      cases hm : mapE (fun x => op x o) self with
      | error e => simp [hm] at h
      | ok result =>
        simp only [hm] at h
        split at h
        · simp at h
        · cases hb : mkBlock E (result.filterMap id) with
          | error e => rw [hb] at h; simp [Except.map] at h
          | ok r' =>
            rw [hb] at h
            simp [Except.map] at h
            subst h
            exact mkFrom_wf E hAs hb
  · intro m self r h
    unfold liftMethod at h
    cases hm : mapE m self with
    | error e => simp [hm] at h
    | ok res =>
      cases res with
      | nil => simp [hm] at h
      | cons r0 rs =>
        simp only [hm] at h
        split at h
        · cases hb : mkBlock E (r0 :: rs) with
          | error e => simp [hb, Except.map] at h
          | ok r' =>
            simp [hb, Except.map] at h
            subst h
            exact mkFrom_wf E hAs hb
        · simp at h
  · intro f args kwargs r hpos h
    unfold mapFuncOverBlocks at h
    simp only [show ¬ numBlocksInArgs args kwargs = 0 by omega, if_false] at h
    split at h
    · simp at h
    · cases hb : blockArgsKwargs (numBlocksInArgs args kwargs) args kwargs with
      | error e => simp [hb] at h
      | ok calls =>
        simp only [hb] at h
        cases hm : mkFrom E (fun (c : List (PyVal α) × List (String × PyVal α)) => f c.1 c.2) calls with
        | error e => simp [hm, Except.map] at h
        | ok rs' =>
          simp [hm, Except.map] at h
          subst h
          exact mkFrom_wf E hAs hm

/-- blocks of different dtypes are rejected by the constructor -/
theorem C13_dtype_reject (E : Env α δ) (l : List α) (harr : ∀ a ∈ l, E.isArr a = true)
    (hdt : ¬ Homog E l) : mkBlock E l = .error .dtype := by
  have := mkFrom_hetero E (g := Except.ok) (h := id) (xs := l) (fun _ _ => rfl) harr (by simpa using hdt)
  simpa [mkBlock] using this

/-! ### assignment of blocks (round 2) -/

/-- `x[k] = v` with `v` an array of the block array's dtype replaces block `k` (negative `k` from the
    end), an index outside `[-n, n)` is an `IndexError` … -/
theorem C13_setitem (E : Env α δ) (self : List α) (k : Int) (v : α)
    (hwf : WF E self) (hv : E.isArr v = true) (hdt : ∀ a ∈ self, E.dt a = E.dt v) :
    (∀ (_ : 0 ≤ k) (_ : k < self.length), setItem E self k v = .ok (self.set k.toNat v)) ∧
    (∀ (_ : k < 0) (_ : -(self.length : Int) ≤ k),
        setItem E self k v = .ok (self.set (k + self.length).toNat v)) ∧
    (k < -(self.length : Int) ∨ (self.length : Int) ≤ k → setItem E self k v = .error .index) := by
  have hwf' : ∀ j, WF E (self.set j v) := by
    intro j
    have key : ∀ c ∈ self.set j v, E.isArr c = true ∧ E.dt c = E.dt v := by
      intro c hc
      rcases List.mem_or_eq_of_mem_set hc with h1 | h1
      · exact ⟨hwf.1 c h1, hdt c h1⟩
      · rw [h1]; exact ⟨hv, rfl⟩
    exact ⟨fun a ha => (key a ha).1, fun a ha b hb => by rw [(key a ha).2, (key b hb).2]⟩
  refine ⟨?_, ?_, ?_⟩
  · intro h0 h1
    have h2 : ¬ (k < 0) := by omega
    have h3 : ¬ ((self.length : Int) ≤ k) := by omega
    simp [setItem, pyIndex, h2, h3, mkBlock_wf E (hwf' _)]
  · intro h0 h1
    have h2 : ¬ (k + (self.length : Int) < 0) := by omega
    have h3 : ¬ ((self.length : Int) ≤ k + self.length) := by omega
    simp [setItem, pyIndex, h0, h2, h3, mkBlock_wf E (hwf' _)]
  · intro h
    by_cases hk : k < 0
    · have h2 : k + (self.length : Int) < 0 := by omega
      simp [setItem, pyIndex, hk, h2]
    · have h2 : (self.length : Int) ≤ k := by omega
      simp [setItem, pyIndex, hk, h2]

/-- … and an array of another dtype is rejected: the block array keeps one dtype
    (the general invariant for every value is the last clause of `C13_dtype_inv`) -/
theorem C13_setitem_reject (E : Env α δ) (self : List α) (k : Int) (v : α) (j : Nat)
    (hwf : WF E self) (hv : E.isArr v = true) (hj : pyIndex self.length k = some j)
    (hother : ∃ a ∈ self.set j v, E.dt a ≠ E.dt v) :
    setItem E self k v = .error .dtype := by
  have hjlt : j < self.length := pyIndex_lt hj
  have harr : ∀ a ∈ self.set j v, E.isArr a = true := by
    intro a ha
    rcases List.mem_or_eq_of_mem_set ha with h1 | h1
    · exact hwf.1 a h1
    · rw [h1]; exact hv
  have hnh : ¬ Homog E (self.set j v) := by
    intro hh
    obtain ⟨a, ha, hne⟩ := hother
    exact hne (hh a ha v (mem_set_self hjlt v))
  simp only [setItem, hj]
  exact C13_dtype_reject E _ harr hnh

/-- `x.dtype` is the dtype of every block — also after an assignment, in particular after the one
    block of a single-block array was replaced by an array of another dtype (the property reads the
    blocks, it is not a value remembered from construction) -/
theorem C13_dtype_property (E : Env α δ) (hAs : ∀ x y, E.asArr x = .ok y → E.isArr y = true) :
    (∀ b, WF E b → b ≠ [] → ∃ d, dtypeOf E b = .ok d ∧ ∀ a ∈ b, E.dt a = d) ∧
    (∀ self k v r, setItem E self k v = .ok r → ∃ d, dtypeOf E r = .ok d ∧ ∀ a ∈ r, E.dt a = d) ∧
    (∀ (a0 v : α), E.isArr v = true → setItem E [a0] 0 v = .ok [v] ∧ dtypeOf E [v] = .ok (E.dt v)) := by
  have key : ∀ b, WF E b → b ≠ [] → ∃ d, dtypeOf E b = .ok d ∧ ∀ a ∈ b, E.dt a = d := by
    intro b hwf hne
    cases b with
    | nil => exact absurd rfl hne
    | cons a0 rest => exact ⟨E.dt a0, rfl, fun a ha => hwf.2 a ha a0 (by simp)⟩
  refine ⟨key, ?_, ?_⟩
  · intro self k v r h
    have hwf : WF E r := by
      unfold setItem at h
      cases hp : pyIndex self.length k with
      | none => simp [hp] at h
      | some j => simp only [hp] at h; exact mkFrom_wf E hAs h
    have hne : r ≠ [] := by
      unfold setItem at h
      cases hp : pyIndex self.length k with
      | none => simp [hp] at h
      | some j =>
        simp only [hp] at h
        have hl := (mkFrom_ok E h).1
        have hj := pyIndex_lt hp
        intro hr
        rw [hr] at hl
        simp at hl
        omega
    exact key r hwf hne
  · intro a0 v hv
    have hwf : WF E [v] := ⟨by simpa using hv, by intro a ha b hb; simp at ha hb; rw [ha, hb]⟩
    refine ⟨?_, rfl⟩
    have : pyIndex 1 0 = some 0 := by decide
    simp [setItem, this, mkBlock_wf E hwf]

/-- `x[start:stop:step] = values` is Python list slice assignment followed by the constructor:
    whatever is accepted is a well-formed block array (one dtype); a simple slice (step omitted or 1)
    is replaced by ANY number of values — `x[:lo] ++ values ++ x[hi:]`, the number of blocks changes —
    while an extended slice takes exactly as many values as it has indices, and a zero step is a
    ValueError -/
theorem C13_setslice (E : Env α δ) (hAs : ∀ x y, E.asArr x = .ok y → E.isArr y = true)
    (self values : List α) (start stop step : Option Int) :
    (∀ r, setSlice E self start stop step values = .ok r → WF E r) ∧
    (∀ a b, sliceBounds self.length start stop step = some (a, b, 1) →
      WF E (self.take a.toNat ++ values ++ self.drop (max a b).toNat) →
      setSlice E self start stop step values
        = .ok (self.take a.toNat ++ values ++ self.drop (max a b).toNat)) ∧
    (∀ a b st, sliceBounds self.length start stop step = some (a, b, st) → st ≠ 1 →
      values.length ≠ sliceLen a b st → setSlice E self start stop step values = .error .shape) ∧
    (step = some 0 → setSlice E self start stop step values = .error .value) := by
  refine ⟨?_, ?_, ?_, ?_⟩
  · intro r h
    unfold setSlice at h
    cases hb : sliceBounds self.length start stop step with
    | none => simp [hb] at h
    | some p =>
      obtain ⟨a, b, st⟩ := p
      simp only [hb] at h
      by_cases h1 : st = 1
      · simp only [h1, if_true] at h
        exact mkFrom_wf E hAs h
      · simp only [h1, if_false] at h
        by_cases h2 : values.length ≠ sliceLen a b st
        · simp [h2] at h
        · simp only [h2, if_false] at h
          exact mkFrom_wf E hAs h
  · intro a b hb hwf
    simp only [setSlice, hb, if_true]
    exact mkBlock_wf E hwf
  · intro a b st hb h1 h2
    simp [setSlice, hb, h1, h2]
  · rintro rfl
    simp [setSlice, sliceBounds]

/-- before d088c11 the value was stored as it is and the invariant could be broken
    (finding `blockarray-setitem-unchecked`, repaired): blocks = numbers, dtype = parity -/
theorem C13_setitem_old_witness :
    ∃ (E : Env Nat Nat) (self : List Nat) (r : List Nat), WF E self ∧
      setItemOld self 0 1 = .ok r ∧ ¬ WF E r ∧ setItem E self 0 1 = .error .dtype := by
  refine ⟨⟨fun _ => true, Except.ok, fun x => x % 2⟩, [0, 2], [1, 2], ⟨fun _ _ => rfl, ?_⟩, by decide, ?_, by decide⟩
  · intro a ha b hb
    simp at ha hb
    rcases ha with rfl | rfl <;> rcases hb with rfl | rfl <;> rfl
  · intro h
    have := h.2 1 (by simp) 2 (by simp)
    revert this
    decide

/-! ### `scico.random` (round 2) -/

section randprops
variable {κ σ : Type}

/-- nested shape: block `i` is `jax.random.<name>` called with the SAME key and `shape = items[i]`;
    the returned key is `split(key)[0]` -/
theorem C13_random_nested (E : Env α δ) (P : RngPrims κ σ β) (params : List String)
    (g : List (String × RVal κ σ β) → Res α)
    (args : List (RVal κ σ β)) (kwKey kwSeed : RVal κ σ β) (kwargs : List (String × RVal κ σ β))
    (k : RVal κ σ β) (k' : κ) (bound : List (String × RVal κ σ β)) (items : List STree)
    (hk : EffKey P (keyOf params.length args kwKey) (seedOf params.length args kwSeed) k)
    (hb : bindArgs params (k :: args.take (params.length - 1)) kwargs = .ok bound)
    (hshape : lookupKey "shape" bound = some (.tree (.tup items)))
    (hnest : (STree.tup items).isNested = true)
    (r : STree → α)
    (hf : ∀ x ∈ items, g (eraseKey "shape" bound ++ [("shape", CVal.tree x)]) = .ok (r x))
    (harr : ∀ x ∈ items, E.isArr (r x) = true) (hdt : Homog E (items.map r))
    (hs : P.split0 k = .ok k') :
    randomWrapped E P params g args kwKey kwSeed kwargs = .ok (.blk (items.map r), k') := by
  unfold randomWrapped
  apply addSeed_of P _ _ args kwKey kwSeed kwargs k _ k' hk _ hs
  simp only [hb]
  unfold mapTupleOfTuples
  simp only [hshape, hnest, Bool.not_true, Bool.false_eq_true, if_false]
  rw [mkFrom_of_arrays E hf harr hdt]
  rfl

/-- whatever is drawn, the returned key is `split(k)[0]` of the effective key `k` — it does not
    depend on shape, dtype or the other arguments — and the draw used `k` -/
theorem C13_random_key_thread (E : Env α δ) (P : RngPrims κ σ β) (params : List String)
    (g : List (String × RVal κ σ β) → Res α)
    (args : List (RVal κ σ β)) (kwKey kwSeed : RVal κ σ β) (kwargs : List (String × RVal κ σ β))
    (v : PyVal α) (k' : κ)
    (h : randomWrapped E P params g args kwKey kwSeed kwargs = .ok (v, k')) :
    ∃ k bound, EffKey P (keyOf params.length args kwKey) (seedOf params.length args kwSeed) k ∧
      P.split0 k = .ok k' ∧
      bindArgs params (k :: args.take (params.length - 1)) kwargs = .ok bound ∧
      mapTupleOfTuples E g "shape" bound = .ok v := by
  obtain ⟨k, hk, hf, hs⟩ := addSeed_ok P _ _ args kwKey kwSeed kwargs v k' h
  cases hb : bindArgs params (k :: args.take (params.length - 1)) kwargs with
  | error e => simp [hb] at hf
  | ok bound => exact ⟨k, bound, hk, hs, hb, by simpa [hb] using hf⟩

/-- a key and a seed together are rejected, whatever else is passed -/
theorem C13_random_exclusive (E : Env α δ) (P : RngPrims κ σ β) (params : List String)
    (g : List (String × RVal κ σ β) → Res α)
    (args : List (RVal κ σ β)) (kwKey kwSeed : RVal κ σ β) (kwargs : List (String × RVal κ σ β))
    (h1 : (keyOf params.length args kwKey).isNone = false)
    (h2 : (seedOf params.length args kwSeed).isNone = false) :
    randomWrapped E P params g args kwKey kwSeed kwargs = .error .value :=
  addSeed_both P _ _ args kwKey kwSeed kwargs h1 h2

end randprops


/-! ### non-vacuity: concrete instances (blocks = lists of integers, dtype = unit) -/

section examples

def exEnv : Env (List Int) Unit := ⟨fun _ => true, Except.ok, fun _ => ()⟩

-- unary negation of ((1,2),(3)) acts per block
example : unop exEnv (fun x => .ok (x.map (- ·))) [[1, 2], [3]] = .ok [[-1, -2], [-3]] := by decide
-- block + block, block + scalar broadcast, mismatch
example : binop exEnv (fun x y => .ok (some (List.zipWith (· + ·) x y))) [[1, 2], [3]]
    (.blk [[10, 20], [30]]) = .ok (some [[11, 22], [33]]) := by decide
example : binop exEnv (fun x y => .ok (some (x.map (· + y.headD 0)))) [[1, 2], [3]]
    (.one [5]) = .ok (some [[6, 7], [8]]) := by decide
example : binop exEnv (fun x y => .ok (some (List.zipWith (· + ·) x y))) [[1, 2], [3]]
    (.blk [[10, 20]]) = .error .type := by decide
-- map over blocks with one positional and one keyword block argument and a scalar
example : mapFuncOverBlocks exEnv
    (fun a k => match a, k with
      | [.one x, .one s], [(_, .one y)] => .ok (List.zipWith (fun p q => p * s.headD 0 + q) x y)
      | _, _ => .error .type)
    [.blk [[1, 2], [3]], .one [10]] [("out", .blk [[7, 7], [7]])]
    = .ok (.blk [[17, 27], [37]]) := by decide
-- the void wrapper (an assertion that every entry is positive): all blocks pass / the second block fails first
example : mapVoidFuncOverBlocks
    (fun a _ => match a with
      | [.one (x : List Int)] => if x.all (0 < ·) then .ok () else .error .other
      | _ => .error .type)
    [.blk [[1, 2], [3]]] [] = .ok () := by decide
example : mapVoidFuncOverBlocks
    (fun a _ => match a with
      | [.one (x : List Int)] => if x.all (0 < ·) then .ok () else (if x.length = 1 then .error .value else .error .other)
      | _ => .error .type)
    [.blk [[1, 2], [-3], [0, 0]]] [] = .error .value := by decide
-- the hypotheses of `C13_map_blocks_partial` are satisfiable: first block found after a scalar
example : FirstBlk ([PyVal.one [0], PyVal.blk [[1, 2], [3]]] ++ ([] : List (String × PyVal (List Int))).map Prod.snd)
    [[1, 2], [3]] := ⟨[PyVal.one [0]], [], rfl, by simp [PyVal.isBlk]⟩
-- full reduction: sum over the concatenation, and per-block sums fold to the same value
example : rsum (ravelCat [[1, 2], [3], ([] : List Int)]) = 6 := by decide
example : rsum ([[1, 2], [3], ([] : List Int)].map rsum) = 6 := by decide
example : rmax (ravelCat [[1, 5], [], [3]]) = optCombine max ([[1, 5], [], [3]].map (rmax (α := Int))) := by decide
-- creation with a nested shape ((2,3),(4,)) : two blocks, 10 elements
example : mapTupleOfTuples (β := Unit) exEnv
    (fun b => match lookupKey "shape" b with
      | some (.tree t) => .ok (List.replicate t.prod 0)
      | _ => .error .type) "shape"
    [("shape", .tree (.tup [.tup [.int 2, .int 3], .tup [.int 4]]))]
    = .ok (.blk [List.replicate 6 0, List.replicate 4 0]) := by decide
example : shapeToSize (.tup [.tup [.int 2, .int 3], .tup [.int 4]]) = 10 := by decide
example : WF exEnv [[1, 2], [3]] := ⟨fun _ _ => rfl, fun _ _ _ _ => rfl⟩
-- iteration: three blocks need four `__getitem__` calls; with fewer the iteration would be cut short
example : iterBlocks [[1], [2, 3], [4]] = [[1], [2, 3], [4]] := by decide
example : iterFrom [[1], [2, 3], [4]] 0 2 = [[1], [2, 3]] := by decide
-- slices: x[::-1], x[1:], x[-2:5:2] on four blocks
example : getSlice exEnv [[1], [2], [3], [4]] none none (some (-1)) = .ok [[4], [3], [2], [1]] := by decide
example : getSlice exEnv [[1], [2], [3], [4]] (some 1) none none = .ok [[2], [3], [4]] := by decide
example : getSlice exEnv [[1], [2], [3], [4]] (some (-3)) (some 9) (some 2) = .ok [[2], [4]] := by decide
example : sliceBounds 4 (some (-3)) (some 9) (some 2) = some (1, 4, 2) := by decide
-- signature of `jnp.linalg.norm`: (x, ord, axis, keepdims); `norm(x, 1)` binds no axis, `norm(x, None, 0)` does
example : bindCall ["x", "ord", "axis", "keepdims"] [] [10, 1] ([] : List (String × Nat)) = .ok [("x", 10), ("ord", 1)] := by decide
example : hasKey "axis" [("x", 10), ("ord", 1)] = false := by decide
example : (["x", "ord", "axis", "keepdims"] : List String).idxOf "axis" = 2 := by decide
example : bindCall ["x", "ord", "axis", "keepdims"] [] [10, 0, 0] [("axis", 1)] = (.error .type : Res (List (String × Nat))) := by decide
-- slice assignment: x[1:2] = three blocks (4 blocks afterwards); x[::2] = two blocks; wrong count for an extended slice
example : setSlice exEnv [[1], [2]] (some 1) (some 2) none [[7], [8], [9]] = .ok [[1], [7], [8], [9]] := by decide
example : setSlice exEnv [[1], [2], [3]] none none (some 2) [[7], [8]] = .ok [[7], [2], [8]] := by decide
example : setSlice exEnv [[1], [2], [3]] none none (some 2) [[7]] = .error .shape := by decide
-- assignment: `x[-1] = v` replaces the last block; index errors as for `x[k]`
example : setItem exEnv [[1, 2], [3]] (-1) [9] = .ok [[1, 2], [9]] := by decide
example : setItem exEnv [[1, 2], [3]] 2 [9] = (.error .index : Res (List (List Int))) := by decide
-- placeholder leaves are stored untouched: dtype = parity, arrays = even numbers; [1, 4] has a non-array leaf
example : treeUnflatten (⟨fun x => x % 2 == 0, fun _ => .error .type, fun x => x⟩ : Env Nat Nat) () [1, 4] = .ok [1, 4] := by decide
-- a dict {a: BlockArray([2, 4]), b: (7, BlockArray([1, 6]))} with dtype = parity, arrays = even numbers:
-- the second block array holds a non-array leaf (a placeholder), the first one arrays of one dtype
def exTree : PT Nat := .tup [.blk [.leaf 2, .leaf 4], .tup [.leaf 7, .blk [.leaf 1, .leaf 6]]]
def exEnvP : Env Nat Nat := ⟨fun x => x % 2 == 0, fun _ => .error .type, fun x => x % 2⟩
example : exTree.leaves = [2, 4, 7, 1, 6] := by decide
example : unflat exEnvP exTree.struct [2, 4, 7, 1, 6] = .ok (exTree, []) := by rfl
example : exTree.Ok exEnvP := by
  refine ⟨⟨⟨trivial, trivial, trivial⟩, Or.inr ⟨by decide, ?_⟩⟩, ⟨trivial, ⟨⟨trivial, trivial, trivial⟩, Or.inl (by decide)⟩, trivial⟩, trivial⟩
  intro a ha b hb
  simp [leafVals] at ha hb
  rcases ha with rfl | rfl <;> rcases hb with rfl | rfl <;> rfl
-- a block array of block arrays (what `jax.hessian` returns): the outer node holds non-array children
def exNested : PT Nat := .blk [.blk [.leaf 2, .leaf 4], .blk [.leaf 6]]
example : unflat exEnvP exNested.struct [2, 4, 6] = .ok (exNested, []) := by rfl
-- with every number an array and dtype = parity, the inner block [2, 3] mixes dtypes
example : unflat (⟨fun _ => true, Except.ok, fun x => x % 2⟩ : Env Nat Nat) exNested.struct [2, 3, 6] = .error .dtype := by rfl
-- scico.random: universe = Nat, keys = seeds = Nat, `PRNGKey s = 100 + s`, `split(k)[0] = 2 k`,
-- a draw with key `k` and shape tree `t` gives `k + t.prod`
def exPrims : RngPrims Nat Nat Unit :=
  ⟨0, fun v => match v with | .oth (.seed s) => .ok (100 + s) | _ => .error .type,
      fun v => match v with | .oth (.key k) => .ok (2 * k) | _ => .error .type⟩
def exEnvN : Env Nat Unit := ⟨fun _ => true, Except.ok, fun _ => ()⟩
def exDraw (b : List (String × RVal Nat Nat Unit)) : Res Nat :=
  match lookupKey "key" b, lookupKey "shape" b with
  | some (.oth (.key k)), some (.tree t) => .ok (k + t.prod)
  | _, _ => .error .type
-- nested shape ((2,),(2,)) with key 7 given by keyword: both blocks drawn with key 7 (equal blocks), new key 14
example : randomWrapped exEnvN exPrims ["key", "shape", "dtype"] exDraw
    [.tree (.tup [.tup [.int 2], .tup [.int 2]])] (.oth (.key 7)) (.oth .none) []
    = .ok (.blk [9, 9], 14) := by decide
-- no key, no seed: `PRNGKey(0)`; seed 5 positional (4th argument): `PRNGKey(5)`
example : randomWrapped exEnvN exPrims ["key", "shape", "dtype"] exDraw
    [.tree (.tup [.int 3])] (.oth .none) (.oth .none) [] = .ok (.one 103, 200) := by decide
example : randomWrapped exEnvN exPrims ["key", "shape", "dtype"] exDraw
    [.tree (.tup [.int 3]), .oth (.oth ()), .oth .none, .oth (.seed 5)] (.oth .none) (.oth .none) []
    = .ok (.one 108, 210) := by decide
-- the hypotheses of `C13_random_nested` are satisfiable: effective key, binding, nested shape
example : EffKey exPrims (.oth (.key 7)) (.oth .none) (.oth (.key 7)) := .given _ _ rfl rfl
example : EffKey exPrims (.oth .none) (.oth .none) (.oth (.key 100)) := .default _ _ 100 rfl rfl rfl
example : bindArgs ["key", "shape", "dtype"] [(.oth (.key 7) : RVal Nat Nat Unit), .tree (.tup [.tup [.int 2], .tup [.int 2]])] []
    = .ok [("key", .oth (.key 7)), ("shape", .tree (.tup [.tup [.int 2], .tup [.int 2]]))] := by rfl
-- key and seed together
example : randomWrapped exEnvN exPrims ["key", "shape", "dtype"] exDraw
    [.tree (.tup [.int 3])] (.oth (.key 7)) (.oth (.seed 1)) [] = .error .value := by decide

end examples

end Scico.Props.C13
