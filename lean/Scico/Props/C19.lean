/-
  Property C19 — results do not depend on execution mode or call history; randomness is explicit.
  ONLY property theorems and their non-vacuity examples here (helpers: Proofs/Cache.lean).

  What these theorems carry: the *stateful pieces* of scico, modelled as state machines in
  `Scico.Model.Cache` (TVNorm operator cache, object graph of rescaled losses, helper-object
  back-references, argument handling of the random generators), for ALL call histories.
  What they do not carry: that XLA-compiled and eager execution of the same traced program agree
  (a fact about the JAX runtime) — covered only by the multi-mode differential tie of harness/c19.py.
-/
import Scico.Proofs.Cache
import Scico.Proofs.CacheOpts
import Scico.Proofs.CacheJit
import Scico.Proofs.CacheTrace

namespace Scico.Props.C19
open Scico.Cache

/-! ### TVNorm operator cache -/

/-- History independence ⇔ the cached operators are a function of the cache key.
    For a `TVNorm` whose cached operators report the key they were built for (`Sound.gKey/pKey`):
    every call after every history (from every constructor variant) uses exactly the operator a fresh
    object would build  **iff**  both builders factor through the key the code compares. -/
theorem C19_tv_cache {ι κ ωG ωP : Type} [DecidableEq κ] (S : TVSpec ι κ ωG ωP)
    (hG : ∀ i, S.gKey (S.buildG i) = S.keyOf i) (hP : ∀ i, S.pKey (S.buildP i) = S.keyOf i) :
    (∀ (pre : Option ι) (hist : List (TVOp ι)) (o : TVOp ι),
        (TV.step S (TV.run S (TV.init S pre) hist) o).2 = TV.fresh S o) ↔
      (∀ i j, S.keyOf i = S.keyOf j → S.buildG i = S.buildG j ∧ S.buildP i = S.buildP j) := by
  constructor
  · intro h i j hk
    constructor
    · have := h none [.call i] (.call j)
      simp only [TV.run, TV.step, TV.init, TV.fresh] at this
      have hs := query_stale S.gKey S.keyOf S.buildG hG i j hk
      rw [hs] at this
      exact Sum.inl.inj this
    · have := h none [.prox i] (.prox j)
      simp only [TV.run, TV.step, TV.init, TV.fresh] at this
      have hs := query_stale S.pKey S.keyOf S.buildP hP i j hk
      rw [hs] at this
      exact Sum.inr.inj this
  · intro h pre hist o
    have hS : S.Sound := ⟨hG, hP, fun i j hk => (h i j hk).1, fun i j hk => (h i j hk).2⟩
    exact (TV.step_good S hS _ (TV.run_good S hS hist _ (TV.init_good S pre)) o).1

/-- The keying of the current code — the operator is rebuilt when `op.shape[1] != x.shape or
    op.input_dtype != x.dtype`, i.e. the key *is* the (shape, dtype) the operators are built from —
    is history independent, for all histories, whatever the builders are. -/
theorem C19_tv_cache_shape_dtype {Shape DType ωG ωP : Type} [DecidableEq Shape] [DecidableEq DType]
    (buildG : Shape × DType → ωG) (buildP : Shape × DType → ωP)
    (gKey : ωG → Shape × DType) (pKey : ωP → Shape × DType)
    (hG : ∀ i, gKey (buildG i) = i) (hP : ∀ i, pKey (buildP i) = i)
    (pre : Option (Shape × DType)) (hist : List (TVOp (Shape × DType))) (o : TVOp (Shape × DType)) :
    let S : TVSpec (Shape × DType) (Shape × DType) ωG ωP := ⟨id, gKey, pKey, buildG, buildP⟩
    (TV.step S (TV.run S (TV.init S pre) hist) o).2 = TV.fresh S o := by
  intro S
  exact (C19_tv_cache S hG hP).mpr (fun i j hk => by cases (show i = j from hk); exact ⟨rfl, rfl⟩) pre hist o

/-- The keying of the pinned tree (shape only) is history dependent as soon as the difference operator
    depends on the dtype: after a call with dtype `d`, a call with `d'` on the same shape uses the
    operator built for `d` (negation witness; repaired upstream by keying on (shape, dtype)). -/
theorem C19_tv_cache_shape_only_stale {Shape DType ωG ωP : Type} [DecidableEq Shape]
    (buildG : Shape × DType → ωG) (buildP : Shape × DType → ωP) (gKey : ωG → Shape) (pKey : ωP → Shape)
    (hG : ∀ i, gKey (buildG i) = i.1) (s : Shape) (d d' : DType) (hne : buildG (s, d) ≠ buildG (s, d')) :
    let S : TVSpec (Shape × DType) Shape ωG ωP := ⟨Prod.fst, gKey, pKey, buildG, buildP⟩
    (TV.step S (TV.run S (TV.init S none) [.call (s, d)]) (.call (s, d'))).2 ≠ TV.fresh S (.call (s, d')) := by
  intro S
  simp only [TV.run, TV.step, TV.init, TV.fresh]
  rw [query_stale gKey Prod.fst buildG hG (s, d) (s, d') rfl]
  intro h
  exact hne (Sum.inl.inj h)

-- non-vacuity: shapes and dtypes as numbers, the operator *is* its (shape, dtype) descriptor
example : (TV.step (⟨id, id, id, id, id⟩ : TVSpec (Nat × Nat) (Nat × Nat) (Nat × Nat) (Nat × Nat))
    (TV.run ⟨id, id, id, id, id⟩ (TV.init ⟨id, id, id, id, id⟩ (some (4, 0))) [.call (4, 0), .prox (5, 1), .call (4, 1)])
    (.call (4, 0))).2 = .inl (4, 0) := by decide
example : (TV.step (⟨Prod.fst, Prod.fst, Prod.fst, id, id⟩ : TVSpec (Nat × Nat) Nat (Nat × Nat) (Nat × Nat))
    (TV.run ⟨Prod.fst, Prod.fst, Prod.fst, id, id⟩ (TV.init ⟨Prod.fst, Prod.fst, Prod.fst, id, id⟩ none) [.call (4, 0)])
    (.call (4, 1))).2 = .inl (4, 0) := by decide


/-! ### caches filled inside a `jax.jit` trace (TVNorm deferred operators, `LinearOperator._adj`) -/

/-- Repaired code (`concrete = true`: construction under `jax.ensure_compile_time_eval`): after ANY history of
    queries in ANY mixture of contexts (eager, different jit traces), a query in any context succeeds and
    uses the operator a fresh object would build. -/
theorem C19_ctx_fixed {ι κ ω : Type} [DecidableEq κ] (opKey : ω → κ) (keyOf : ι → κ) (build : ι → ω)
    (hF : ∀ i j, keyOf i = keyOf j → build i = build j) (hK : ∀ i, opKey (build i) = keyOf i)
    (hist : List (ExecCtx × ι)) (c : ExecCtx) (i : ι) :
    (queryCtx true opKey keyOf build (runCtx true opKey keyOf build none hist) c i).2 = .ok (build i) := by
  have hal : ∀ c' m, m = ExecCtx.eager → usable m c' = true := fun c' m hm => by rw [hm]; exact usable_eager c'
  have hslot := runCtx_ok opKey keyOf build true (· = ExecCtx.eager) hF hK hist
    (fun p _ => ⟨hal p.1, rfl⟩) none (slotOk_none build _)
  exact (queryCtx_ok opKey keyOf build true (· = ExecCtx.eager) c hF hK (hal c) rfl _ hslot i).1

/-- Code of the current tree (`concrete = false`), partial: as long as every call of the history and the
    probe happen in ONE context (e.g. the object is only ever used eagerly, or only inside one trace) the
    query succeeds and equals the fresh object's. -/
theorem C19_ctx_partial {ι κ ω : Type} [DecidableEq κ] (opKey : ω → κ) (keyOf : ι → κ) (build : ι → ω)
    (hF : ∀ i j, keyOf i = keyOf j → build i = build j) (hK : ∀ i, opKey (build i) = keyOf i)
    (c : ExecCtx) (hist : List (ExecCtx × ι)) (hc : ∀ p ∈ hist, p.1 = c) (i : ι) :
    (queryCtx false opKey keyOf build (runCtx false opKey keyOf build none hist) c i).2 = .ok (build i) := by
  have hal : ∀ m, m = c → usable m c = true := fun m hm => by rw [hm]; exact usable_self c
  have hslot := runCtx_ok opKey keyOf build false (· = c) hF hK hist
    (fun p hp => by rw [hc p hp]; exact ⟨hal, rfl⟩) none (slotOk_none build _)
  exact (queryCtx_ok opKey keyOf build false (· = c) c hF hK hal rfl _ hslot i).1

/-- Code of the current tree, negation witness (known findings `tvnorm-jit-tracer-leak`,
    `linop-lazy-adjoint-tracer-leak`): a first query inside a jit trace followed by a query with the same key
    eagerly, or inside another trace, fails — although a fresh object succeeds. -/
theorem C19_ctx_leak {ι κ ω : Type} [DecidableEq κ] (opKey : ω → κ) (keyOf : ι → κ) (build : ι → ω)
    (hK : ∀ i, opKey (build i) = keyOf i) (t : Nat) (c : ExecCtx) (hct : c ≠ .trace t) (i j : ι)
    (hk : keyOf i = keyOf j) :
    (queryCtx false opKey keyOf build (runCtx false opKey keyOf build none [(.trace t, i)]) c j).2 = .error .leak ∧
      (queryCtx false opKey keyOf build none c j).2 = .ok (build j) := by
  refine ⟨?_, rfl⟩
  have hu : usable (.trace t) c = false := by
    simp only [usable, Bool.or_eq_false_iff, beq_eq_false_iff_ne, ne_eq]
    refine ⟨?_, ?_⟩
    · intro h; cases h
    · intro h; exact hct h.symm
  simp [runCtx, queryCtx, hK, hk, hu]

-- non-vacuity: the lazily created adjoint (trivial key): jit first, then eager
example : (queryCtx false (fun _ : Nat => ()) (fun _ : Unit => ()) (fun _ => 7)
    (runCtx false (fun _ : Nat => ()) (fun _ : Unit => ()) (fun _ => 7) none [(.trace 0, ())]) .eager ()).2 = .error .leak := by
  decide
example : (queryCtx true (fun _ : Nat => ()) (fun _ : Unit => ()) (fun _ => 7)
    (runCtx true (fun _ : Nat => ()) (fun _ : Unit => ()) (fun _ => 7) none [(.trace 0, ()), (.eager, ()), (.trace 1, ())]) .eager ()).2 = .ok 7 := by
  decide

/-! ### rescaled losses -/

/-- `c * loss` / `loss * c` on a well-formed heap: every existing object (the original included) keeps
    its scale, its value and its gradient; the new object has scale `scale·c`, value `c`-scaled, and its
    gradient is the gradient of ITS OWN `__call__` (`scale·c` times the unscaled gradient), not the
    original's; the heap stays well-formed. -/
theorem C19_rescale_no_alias {α : Type} [Mul α] (h : Heap α) (hw : h.WF) (i : Nat) (o : LossObj α)
    (ho : h[i]? = some o) (c b g : α) :
    (∀ j, j < h.length → (h.mul i c)[j]? = h[j]? ∧ (h.mul i c).value j b = h.value j b ∧
        (h.mul i c).grad j g = h.grad j g) ∧
      (h.mul i c)[h.length]? = some ⟨o.scale * c, h.length⟩ ∧
      (h.mul i c).value h.length b = some (o.scale * c * b) ∧
      (h.mul i c).grad h.length g = some (o.scale * c * g) ∧
      (h.mul i c).WF := by
  have hw' := Heap.wf_mul h hw i c
  rw [Heap.mul_eq h i c o ho] at hw' ⊢
  have hnew : (h ++ [(⟨o.scale * c, h.length⟩ : LossObj α)])[h.length]? = some ⟨o.scale * c, h.length⟩ := by
    rw [List.getElem?_append_right (Nat.le_refl _)]; simp
  refine ⟨?_, hnew, ?_, ?_, hw'⟩
  · intro j hj
    have hold := Heap.getElem?_append_old h ⟨o.scale * c, h.length⟩ j hj
    refine ⟨hold, by simp [Heap.value, hold], ?_⟩
    rw [Heap.grad_eq_own _ hw', Heap.grad_eq_own _ hw, hold]
  · simp [Heap.value]
  · rw [Heap.grad_eq_own _ hw', hnew]; rfl

/-- Any history of constructions, rescalings (`*`, `/`) and in-place `set_scale` calls, on any objects,
    in any order: each object's scale is what its own derivation says (`specScales` never looks at
    gradient bindings), and each object's gradient is its own current scale times the unscaled gradient
    — a later `set_scale` on a copy never reaches the original and vice versa. -/
theorem C19_rescale_history {α : Type} [Mul α] [Div α] (ops : List (LossOp α)) (j : Nat) (g : α) :
    let h := Heap.run ([] : Heap α) ops
    h.map (·.scale) = specScales [] ops ∧
      h.grad j g = ((specScales [] ops)[j]?).map (· * g) := by
  intro h
  have hw : h.WF := Heap.wf_run ops [] Heap.wf_nil
  have hs : h.map (·.scale) = specScales [] ops := by simpa using Heap.scales_run ops ([] : Heap α)
  refine ⟨hs, ?_⟩
  rw [Heap.grad_eq_own h hw, ← hs, List.getElem?_map]
  cases h[j]? <;> rfl

/-- Without the rebinding line (`copy` alone) the copy's gradient would be the ORIGINAL's gradient:
    the rebinding is what the theorem above rests on (negation witness for the mutated code). -/
theorem C19_rescale_needs_rebind :
    (Heap.mulNoRebind (Heap.new ([] : Heap Int) 2) 0 5).grad 1 7 = some (2 * 7) ∧
      (Heap.mul (Heap.new ([] : Heap Int) 2) 0 5).grad 1 7 = some (2 * 5 * 7) := by decide

-- non-vacuity: L = new(2); M = L*5; M.set_scale(3); N = L/2  → scales [2,3,1], gradients own
example : (Heap.run ([] : Heap Int) [.new 2, .mul 0 5, .setScale 1 3, .div 0 2]).map (·.scale) = [2, 3, 1] := by decide
example : (Heap.run ([] : Heap Int) [.new 2, .mul 0 5, .setScale 1 3, .div 0 2]).grad 0 7 = some 14 := by decide
example : (Heap.new ([] : Heap Int) 2).WF ∧ (Heap.new ([] : Heap Int) 2)[0]? = some ⟨2, 0⟩ :=
  ⟨Heap.wf_new [] Heap.wf_nil 2, rfl⟩

/-! ### attaching helper objects (sub-problem solvers, step-size policies) -/

/-- Any sequence of optimiser constructions `ss` (entry = the helper object handed to the constructor):
    a step of optimiser `a` reads, through its helper's back-reference, the state of the MOST RECENTLY
    constructed optimiser that was given the same helper object.  Hence: every optimiser reads its own
    state iff no helper object is shared. -/
theorem C19_solver_attach (ss : List Nat) :
    (∀ a s, ss[a]? = some s →
        ∃ b, (World.run World.empty ss).readsFrom a = some b ∧ ss[b]? = some s ∧ a ≤ b ∧
          ∀ c, b < c → ss[c]? ≠ some s) ∧
      (ss.Nodup ↔ ∀ a, a < ss.length → (World.run World.empty ss).readsFrom a = some a) := by
  obtain ⟨h1, h2⟩ := World.run_spec ss World.empty
  have hread : ∀ (a s : Nat), ss[a]? = some s → (World.run World.empty ss).readsFrom a = lastOcc ss s := by
    intro a s ha
    have he : World.empty.helperOf ++ ss = ss := rfl
    unfold World.readsFrom
    simp only [h1, he, ha]
    rw [h2 s]
    cases lastOcc ss s <;> simp [World.empty]
  have hex : ∀ (a s : Nat), ss[a]? = some s → ∃ b, lastOcc ss s = some b := by
    intro a s ha
    cases hl : lastOcc ss s with
    | some b => exact ⟨b, rfl⟩
    | none => exact absurd ha (lastOcc_none ss s hl a)
  constructor
  · intro a s ha
    obtain ⟨b, hb⟩ := hex a s ha
    obtain ⟨g1, g2⟩ := (lastOcc_spec ss s b).mp hb
    refine ⟨b, by rw [hread a s ha, hb], g1, ?_, g2⟩
    by_contra hlt
    exact g2 a (by omega) ha
  · constructor
    · intro hnd a ha
      have hs : ss[a]? = some ss[a] := List.getElem?_eq_getElem ha
      rw [hread a _ hs, lastOcc_nodup ss hnd a _ hs]
    · intro h
      rw [List.nodup_iff_injective_getElem]
      intro ⟨a, ha⟩ ⟨b, hb⟩ hab
      simp only at hab
      have hsa : ss[a]? = some ss[a] := List.getElem?_eq_getElem ha
      have hsb : ss[b]? = some ss[a] := by rw [List.getElem?_eq_getElem hb, hab]
      have ra := h a ha
      have rb := h b hb
      rw [hread a _ hsa] at ra
      rw [hread b _ hsb] at rb
      rw [ra] at rb
      exact Fin.ext (Option.some.inj rb)

-- non-vacuity: one solver object (id 7) given to two optimisers: optimiser 0 now reads optimiser 1's state
example : (World.run World.empty [7, 7]).readsFrom 0 = some 1 := by decide
example : (World.run World.empty [7, 8, 9]).readsFrom 1 = some 1 := by decide

/-! ### constructor options and shared defaults -/

/-- Constructors that build their option dictionary from a literal (`LinearSubproblemSolver.cg_kwargs`,
    `MatrixSubproblemSolver.solve_kwargs`, `SquaredL2Loss.prox_kwargs`): after ANY history of constructions
    (with any option dictionaries), dictionaries built by the caller and in-place writes to any dictionary object,
    (a) an object constructed without options sees exactly the literal defaults, (a') with options `u` the
    literal updated by `u`; (b) no two objects hold the same dictionary and none holds the default object;
    (c) a constructor call leaves every existing dictionary (the caller's options included) as it was. -/
theorem C19_defaults_fresh {ν : Type} (lit : Dict ν) (ops : List (OptOp ν)) :
    let w := OptWorld.run .copyUpdate lit (OptWorld.init lit) ops
    (w.ctor .copyUpdate lit none).view w.insts.length = some lit ∧
    (∀ a u, w.dicts[a]? = some u → (w.ctor .copyUpdate lit (some a)).view w.insts.length = some (lit.update u)) ∧
    w.insts.Nodup ∧ 0 ∉ w.insts ∧
    (∀ arg id, id < w.dicts.length → (w.ctor .copyUpdate lit arg).dicts[id]? = w.dicts[id]?) := by
  intro w
  have hw : w.WF := OptWorld.wf_run .copyUpdate lit ops _ (OptWorld.wf_init lit)
  refine ⟨?_, ?_, ?_, ?_, ?_⟩
  · simp [OptWorld.view, OptWorld.ctor]
  · intro a u ha
    simp [OptWorld.view, OptWorld.ctor, ha]
  · exact OptWorld.nodup_run_copy lit ops _ (OptWorld.wf_init lit) (by simp [OptWorld.init])
  · exact OptWorld.zero_not_inst_copy lit ops _ (OptWorld.wf_init lit) (by simp [OptWorld.init])
  · intro arg id hid
    simp only [OptWorld.ctor]
    exact List.getElem?_append_left hid

/-- A constructor that stores its mutable default argument by reference (`GenericSubproblemSolver`,
    `minimize_kwargs={"options": …}`), code as it is, partial: every object constructed without options holds THE
    default-argument object; what a later one sees is the literal with exactly the in-place writes to that object
    applied — so it sees the literal defaults as long as nobody writes into the options of a default-constructed
    object (scico itself only reads them: checked by the tie), whatever else happens. -/
theorem C19_defaults_shared_partial {ν : Type} (lit : Dict ν) (ops : List (OptOp ν)) :
    let w := OptWorld.run .byRef lit (OptWorld.init lit) ops
    (w.ctor .byRef lit none).view w.insts.length = some (mutsOn 0 ops lit) ∧
    ((∀ k v, OptOp.mutate 0 k v ∉ ops) → (w.ctor .byRef lit none).view w.insts.length = some lit) := by
  intro w
  have h0 : w.dicts[0]? = some (mutsOn 0 ops lit) :=
    OptWorld.dict_run .byRef (by decide) lit ops 0 (OptWorld.init lit) lit rfl
  have hv : (w.ctor .byRef lit none).view w.insts.length = some (mutsOn 0 ops lit) := by
    simp [OptWorld.view, OptWorld.ctor, h0]
  exact ⟨hv, fun hno => by rw [hv, mutsOn_none 0 ops hno]⟩

/-- Negation witnesses.  Stored-by-reference default: one in-place write through a default-constructed object
    reaches every later default-constructed object.  Class-level dictionary updated in place (not in scico; the
    seeded defect): options given to ONE constructor call are seen by a later default-constructed object — while
    the literal pattern is immune to both. -/
theorem C19_defaults_leak :
    let lit : Dict Nat := [("maxiter", 100)]
    ((OptWorld.run .byRef lit (OptWorld.init lit) [.ctor none, .mutate 0 "maxiter" 5, .ctor none]).view 1
        = some [("maxiter", 5)]) ∧
    ((OptWorld.run .classUpdate lit (OptWorld.init lit) [.userDict [("maxiter", 7)], .ctor (some 1), .ctor none]).view 1
        = some [("maxiter", 7)]) ∧
    ((OptWorld.run .copyUpdate lit (OptWorld.init lit) [.userDict [("maxiter", 7)], .ctor (some 1), .mutate 2 "maxiter" 5,
        .ctor none]).view 1 = some lit) := by decide

-- non-vacuity: options {"tol": 3} given to one object, then a default-constructed one
example : (OptWorld.run .copyUpdate [("tol", 4), ("maxiter", 100)] (OptWorld.init [("tol", 4), ("maxiter", 100)])
    [.userDict [("tol", 3)], .ctor (some 1), .ctor none] : OptWorld Nat).dicts
    = [[("tol", 4), ("maxiter", 100)], [("tol", 3)], [("tol", 3), ("maxiter", 100)], [("tol", 4), ("maxiter", 100)]] := by
  decide

/-! ### the `jit` option of linear operators: what is replaced by a `jax.jit` object, and when -/

/-- For every way of constructing a `LinearOperator` (adjoint given / defined by the subclass / derived lazily), with the
    constructor option `jit` on or off, after ANY history of `jit()`, `A(x)`, `A.adj(y)`, `A.gram(x)`, `A.gram_op`:
    `_eval` is wrapped exactly as many times as `jit()` was called (`n`); the adjoint callable, once it exists, is the one
    this kind of object is specified to use (never another one, whatever came first) and is wrapped `n` times; likewise
    `_gram`; after the first `jit()` all three exist; and the constructor option is the same as calling `jit()` right
    after construction. -/
theorem C19_jit_slots (v : LinOpVariant) (jit : Bool) (ops : List LinOpOp) :
    let s := (LinOpState.init v jit).run ops
    let n := jitCount jit ops
    s.evalDepth = n ∧ (∀ a, s.adj = some a → a = (specAdjSrc v, n)) ∧ (∀ g, s.gram = some g → g = n) ∧
      (0 < n → s.adj ≠ none ∧ s.gram ≠ none) ∧ (v ≠ .plain → s.adj ≠ none) ∧
      LinOpState.init v true = (LinOpState.init v false).jit := by
  intro s n
  have h := LinOpState.inv_run v ops _ _ (LinOpState.inv_init v jit)
  have hn : ((if jit then 1 else 0) + (ops.filter (· == LinOpOp.jit)).length) = n := rfl
  rw [hn] at h
  refine ⟨h.ev, ?_, ?_, h.jitted, h.given, ?_⟩
  · intro a ha
    rcases h.adjOk with hno | hs
    · rw [hno] at ha; cases ha
    · rw [hs] at ha; exact (Option.some.inj ha).symm
  · intro g hg
    rcases h.gramOk with hno | hs
    · rw [hno] at hg; cases hg
    · rw [hs] at hg; exact (Option.some.inj hg).symm
  · simp [LinOpState.init]

/-- Values: GIVEN the contract of `jax.jit` on values (`J f = f`, extensionally — NOT proved here, exercised by the
    multi-mode tie), a slot wrapped any number of times denotes the function it wraps; so after any history the
    adjoint evaluated is the specified one and `_eval` is the operator's own map. -/
theorem C19_jit_value {F : Type} (J : F → F) (hJ : ∀ f, J f = f) (fns : AdjSrc → F) (e : F)
    (v : LinOpVariant) (jit : Bool) (ops : List LinOpOp) :
    let s := (LinOpState.init v jit).run ops
    Nat.iterate J s.evalDepth e = e ∧ ∀ a, s.adj = some a → Nat.iterate J a.2 (fns a.1) = fns (specAdjSrc v) := by
  intro s
  have hit : ∀ (d : Nat) (f : F), Nat.iterate J d f = f := by
    intro d
    induction d with
    | zero => intro f; rfl
    | succ d ih => intro f; rw [Function.iterate_succ_apply, hJ, ih]
  refine ⟨hit _ _, ?_⟩
  intro a ha
  rw [hit, ((C19_jit_slots v jit ops).2.1 a ha)]

/-- `MatrixOperator` — the one linear-operator class that defines `adj`, `gram`, `gram_op` itself (pinned by the generated
    `slot_model_coverage`): after ANY history of `jit()`, `A(x)`, `A.adj(y)`, `A.gram(x)`, `A.gram_op`, its private slots are a
    function of the number `n` of `jit()` calls only — untouched (`_adj = _gram = None`) while `n = 0`, afterwards the derived
    adjoint and `_gram`, all wrapped `n` times; its own `adj` / `gram` / `gram_op` never create or read them. -/
theorem C19_jit_slots_matrix (ops : List LinOpOp) :
    (LinOpState.init0 .plain).runOwn ops = specOwnSlots ((ops.filter (· == .jit)).length) := by
  have h := LinOpState.runOwn_spec ops 0
  simpa [specOwnSlots, LinOpState.init0] using h

example : (LinOpState.init0 .plain).runOwn [.adj, .gram, .gramOp, .call] = ⟨0, none, none⟩ := by decide
example : (LinOpState.init0 .plain).runOwn [.adj, .jit, .gram, .jit] = ⟨2, some (.derived, 2), some 2⟩ := by decide

-- non-vacuity: no adjoint given, `gram_op` first, then `adj`, then `jit()` twice
example : (LinOpState.init .plain false).run [.gramOp, .adj, .jit, .call, .jit] = ⟨2, some (.derived, 2), some 2⟩ := by decide
example : (LinOpState.init .classAdj true).run [.gram] = ⟨1, some (.classMethod, 1), some 1⟩ := by decide
example : (LinOpState.init .plain false).run [.gram] = ⟨0, some (.derived, 0), some 0⟩ := by decide

/-! ### parameters read at trace time (cached `jax.jit` / `lax.cond` traces) and parameter updates -/

/-- A callable whose trace is cached per input signature: after ANY history of calls (any signatures) and attribute
    assignments that never touch an attribute read at trace time, a call computes with the object's CURRENT attributes —
    exactly what a fresh object built with them computes with.  (Which attributes are read at trace time is the table
    `Scico.Generated.CacheAttrs`, regenerated from the sources on every run; for functionals and losses it is empty.) -/
theorem C19_call_time_params {ν : Type} (traced : String → Bool) (attrs₀ : String → ν) (hist : List (TraceOp ν))
    (hh : ∀ a v, TraceOp.set a v ∈ hist → traced a = false) (sig : Nat) :
    ((TracedObj.run ⟨attrs₀, []⟩ hist).effective traced sig) = (TracedObj.run ⟨attrs₀, []⟩ hist).attrs := by
  apply TracedObj.effective_of_fresh
  apply TracedObj.fresh_run traced hist ⟨attrs₀, []⟩ (by intro e he; cases he)
  intro op hop
  cases op with
  | set a v => exact hh a v hop
  | call s => trivial

/-- Conversely (negation witness, the mechanism of `hubernorm-nonsep-stale-delta`, `pgm-xstep-stale-loss-scale` and of a
    per-object jitted projection): an attribute read at trace time and assigned after a first call keeps its OLD value for
    every signature already seen, and its new value for signatures not seen before — history dependence. -/
theorem C19_trace_time_stale {ν : Type} (traced : String → Bool) (attrs₀ : String → ν) (a : String) (v : ν)
    (ha : traced a = true) (sig sig' : Nat) (hs : sig' ≠ sig) :
    let o := TracedObj.run ⟨attrs₀, []⟩ [.call sig, .set a v]
    o.effective traced sig a = attrs₀ a ∧ o.effective traced sig' a = v ∧ o.attrs a = v := by
  have hne : (sig == sig') = false := by simpa using fun h => hs h.symm
  simp [TracedObj.run, TracedObj.step, TracedObj.effective, ha, hne]

-- non-vacuity: `radius` read at call time, `delta` at trace time; history: call, radius := 7, delta := 9, call again
example : ((TracedObj.run ⟨fun _ => (1 : Nat), []⟩ [.call 0, .set "radius" 7, .set "delta" 9]).effective
    (fun a => a == "delta") 0) "radius" = 7 := by decide
example : ((TracedObj.run ⟨fun _ => (1 : Nat), []⟩ [.call 0, .set "radius" 7, .set "delta" 9]).effective
    (fun a => a == "delta") 0) "delta" = 1 := by decide

/-! ### random generators -/

/-- Argument handling of the wrapped `jax.random` functions (`numParams` = arity of the jax function):
    with an effective key `k` the result is `draw k` and the returned key `split(k)[0]`; with a seed `s`
    the same for `k = PRNGKey(s)`; with neither, seed 0; with both, `ValueError` — and nothing else
    influences the outcome.  A positional key/seed (call with all positional arguments) takes precedence
    over the keyword. -/
theorem C19_rng_args {κ ρ σ τ : Type} (R : RngOps κ ρ σ) (numParams nargs : Nat) (posKey kwKey : Option κ)
    (posSeed kwSeed : Option Int) (d : κ → τ) :
    let key := if nargs ≥ numParams then posKey else kwKey
    let seed := if nargs > numParams then posSeed else kwSeed
    rngCall R numParams nargs posKey posSeed kwKey kwSeed d =
      match key, seed with
      | some _, some _ => .error .value
      | some k, none => .ok (d k, (R.split k).1)
      | none, some s => .ok (d (R.prngKey s), (R.split (R.prngKey s)).1)
      | none, none => .ok (d (R.prngKey 0), (R.split (R.prngKey 0)).1) := by
  intro key seed
  unfold rngCall
  cases hk : (if nargs ≥ numParams then posKey else kwKey) with
  | some k => cases hs : (if nargs > numParams then posSeed else kwSeed) <;> simp [key, seed, hk, hs]
  | none => cases hs : (if nargs > numParams then posSeed else kwSeed) <;> simp [key, seed, hk, hs]

/-- Nested shapes give block arrays: one block per inner shape, each drawn by the wrapped function for
    that shape; a plain shape gives a plain array.  With the keyword forms the call equals the
    documented specification `specRng`. -/
theorem C19_rng_blocks {κ ρ σ : Type} (R : RngOps κ ρ σ) (numParams : Nat) (hnp : 0 < numParams) (k : κ) (s : Int) :
    (∀ sh : σ, drawShape R (.inl sh) k = .inl (R.draw k sh)) ∧
    (∀ shs : List σ, ∃ blocks, drawShape R (.inr shs) k = .inr blocks ∧ blocks.length = shs.length ∧
        ∀ i (hi : i < shs.length), blocks[i]? = some (R.draw k shs[i])) ∧
    (∀ shape, rngCall R numParams 0 none none (some k) none (drawShape R shape) = .ok (specRng R shape k)) ∧
    (∀ shape, rngCall R numParams 0 none none none (some s) (drawShape R shape) = .ok (specRng R shape (R.prngKey s))) ∧
    (∀ shape, rngCall R numParams 0 none none none none (drawShape R shape) = .ok (specRng R shape (R.prngKey 0))) ∧
    (∀ shape, rngCall R numParams 0 none none (some k) (some s) (drawShape R shape) = .error .value) := by
  have h0 : ¬ (0 ≥ numParams) := by omega
  have h1 : ¬ (0 > numParams) := by omega
  refine ⟨fun _ => rfl, ?_, ?_, ?_, ?_, ?_⟩
  · intro shs
    exact ⟨shs.map (R.draw k), rfl, by simp, fun i hi => by simp [hi]⟩
  all_goals intro shape; simp [rngCall, h0, h1, specRng]

/-- Threading the returned key through `n` successive calls draws with the keys `k, adv k, adv² k, …`
    (`adv = first component of split`), for every `n`: the stream is a function of the starting key. -/
theorem C19_rng_chain {κ ρ σ : Type} (R : RngOps κ ρ σ) (numParams : Nat) (hnp : 0 < numParams)
    (shape : σ ⊕ List σ) (n : Nat) (k : κ) :
    chainCalls R numParams shape n k =
      .ok ((List.range n).map (fun i => drawShape R shape (Nat.iterate (adv R) i k)), Nat.iterate (adv R) n k) :=
  chainCalls_spec R numParams hnp shape n k

-- non-vacuity: keys are integers, split k = (2k+1, 2k+2), a draw records (key, shape)
def exR : RngOps Int (Int × Nat) Nat := ⟨fun s => s, fun k => (2 * k + 1, 2 * k + 2), fun k sh => (k, sh)⟩
example : rngCall exR 3 1 none none none none (drawShape exR (.inl 4)) = .ok (.inl (0, 4), 1) := by decide
example : rngCall exR 3 1 none none (some 5) none (drawShape exR (.inr [2, 3])) = .ok (.inr [(5, 2), (5, 3)], 11) := by
  decide
example : rngCall exR 3 3 (some 5) none none (some 1) (drawShape exR (.inl 4)) = .error .value := by decide
example : chainCalls exR 3 (.inl 4) 3 0 = .ok ([.inl (0, 4), .inl (1, 4), .inl (3, 4)], 7) := by decide

end Scico.Props.C19
