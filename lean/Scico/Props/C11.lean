/-
  Property C11 — solver iterations follow the documented update equations; accessors return the
  documented expressions.   ONLY property theorems (+ non-vacuity examples) here.

  `…ImplStep` is the transcription of the `step()` method body (`Model/Steps.lean`, one structure
  update per Python assignment), `…SpecStep` the transcription of the class docstring equations.
  The theorems are equalities of *functions of the state*: they hold on every state (hence on every
  reachable one, after any number of prior iterations), for every value of the scalar options
  (ρ, α, μ, ν, τ, σ, L₀ — no range restriction), for arbitrary operators / proximal maps /
  sub-problem solvers / Jacobian products / step-size hooks, and for variables in arbitrary modules
  over a linearly ordered field: real arrays, complex arrays (a complex space is a real module),
  block arrays (products of modules).
-/
import Scico.Proofs.StepsEq
import Scico.Model.StepsSource
import Mathlib.LinearAlgebra.Complex.Module
import Mathlib.Algebra.Order.Ring.Rat
import Mathlib.Algebra.Module.Pi
import Mathlib.Algebra.Module.Prod

set_option linter.unusedSectionVars false

namespace Scico.Props.C11
open Scico Scico.Steps

variable {K X Z U σ : Type} [Field K] [LinearOrder K]
  [AddCommGroup X] [Module K X] [AddCommGroup Z] [Module K Z] [AddCommGroup U] [Module K U]

/-- ADMM: the in-place loop over the live lists `z_list`/`u_list`, with the `alpha == 1.0`
    shortcut and `z_list_old = z_list.copy()` taken before the loop, is the documented iteration
    (with Boyd's relaxation) — on every state whose lists have the common length `N`. -/
theorem C11_admm_impl_eq_spec (p : ADMMParams K X Z) (s : ADMMState X Z) (N : Nat)
    (h : ADMMWf N p s) : admmImplStep p s = admmSpecStep p s :=
  admm_impl_eq_spec p s N h

/-- the length hypothesis of `C11_admm_impl_eq_spec` holds after `__init__` (which checks
    `len(C_list) = len(g_list) = len(rho_list)`) and after any number of steps -/
theorem C11_admm_wf_reachable (p : ADMMParams K X Z) (x0 : Option X) (N : Nat)
    (hr : p.rho.length = N) (hp : p.proxg.length = N) (hc : p.C.length = N) (k : Nat) :
    ADMMWf N p (iter (admmImplStep p) k (admmInit p x0)) :=
  admm_reachable_wf p x0 N hr hp hc k

/-- ADMM trajectories: `k` calls of `step()` from the constructor state are `k` documented
    iterations, for every `k` -/
theorem C11_admm_iterates (p : ADMMParams K X Z) (x0 : Option X) (N : Nat)
    (hr : p.rho.length = N) (hp : p.proxg.length = N) (hc : p.C.length = N) (k : Nat) :
    iter (admmImplStep p) k (admmInit p x0) = iter (admmSpecStep p) k (admmInit p x0) := by
  have key : ∀ k s, ADMMWf N p s → iter (admmImplStep p) k s = iter (admmSpecStep p) k s := by
    intro k
    induction k with
    | zero => intro s _; rfl
    | succ k ih =>
      intro s h
      have h' := admm_step_wf p s N h
      simp only [iter]
      rw [← admm_impl_eq_spec p s N h]
      exact ih _ h'
  exact key k _ (admm_init_wf p x0 N hr hp hc)

theorem C11_ladmm_impl_eq_spec (p : LADMMParams K X Z) :
    ladmmImplStep p = ladmmSpecStep p := funext (ladmm_impl_eq_spec p)

theorem C11_padmm_impl_eq_spec (p : PADMMParams K X Z U) :
    padmmImplStep p = padmmSpecStep p := funext (padmm_impl_eq_spec p)

/-- constructor defaults `B = None` (→ `−I`) and `c = None` (→ `0.0`): the step is the documented
    iteration for the constraint `A x − z = 0` -/
theorem C11_padmm_default_B (p : PADMMParams K X U U) (s : PADMMState X U U)
    (hB : p.B = padmmDefaultB.1) (hBH : p.BH = padmmDefaultB.2) (hc : p.c = padmmC none) :
    padmmImplStep p s =
      let xn := p.proxf (p.rho⁻¹ * p.mu⁻¹) (s.x - p.mu⁻¹ • p.AH ((2 : K) • s.u - s.uOld))
      let zn := p.proxg (p.rho⁻¹ * p.nu⁻¹) (s.z + p.nu⁻¹ • (p.A xn - s.z + s.u))
      { x := xn, z := zn, zOld := s.z, u := s.u + (p.A xn - zn), uOld := s.u } :=
  padmm_default_step p s hB hBH hc

theorem C11_nlpadmm_impl_eq_spec (p : NLPADMMParams K X Z U) :
    nlpadmmImplStep p = nlpadmmSpecStep p := funext (nlpadmm_impl_eq_spec p)

/-- PDHG, linear and non-linear `C` (the branch is `isinstance(C, LinearOperator)`); note that
    the Jacobian is taken at the *old* `x` because `self.x` has not been reassigned yet -/
theorem C11_pdhg_impl_eq_spec (p : PDHGParams K X Z) :
    pdhgImplStep p = pdhgSpecStep p := funext (pdhg_impl_eq_spec p)

/-- PGM with an arbitrary step-size hook -/
theorem C11_pgm_impl_eq_spec [HasSqrt K] (p : PGMParams σ K X) :
    pgmImplStep p = pgmSpecStep p := funext (pgm_impl_eq_spec p)

/-- accelerated PGM = FISTA with an arbitrary step-size hook; which point the hook is consulted at
    and the robust-line-search replacement follow the `isinstance` tests of the code -/
theorem C11_apgm_impl_eq_spec [HasSqrt K] (p : PGMParams σ K X) :
    apgmImplStep p = apgmSpecStep p := funext (apgm_impl_eq_spec p)

/-- any number of steps (all single-list optimisers): equal step maps give equal trajectories -/
theorem C11_iterates {S : Type} (f g : S → S) (h : f = g) (k : Nat) (s : S) :
    iter f k s = iter g k s ∧ trace f k s = trace g k s := by
  subst h; exact ⟨rfl, rfl⟩

/-- ADMM accessors: `objective(x, z_list)`, `norm_primal_residual(x)`, `norm_dual_residual()`,
    `minimizer()` are the documented expressions of the supplied point resp. the current state;
    exactly one of `x`, `z_list` is rejected (`ValueError`). -/
theorem C11_accessors_admm [HasSqrt K] (p : ADMMParams K X Z) (s : ADMMState X Z) (x : X) (zl : List Z) :
    admmObjectiveImpl p s (some x) (some zl) = .ok (admmObjectiveSpec p x zl) ∧
    admmObjectiveImpl p s none none = .ok (admmObjectiveSpec p s.x s.z) ∧
    admmObjectiveImpl p s (some x) none = .error .value ∧
    admmObjectiveImpl p s none (some zl) = .error .value ∧
    admmNormPrimalImpl p s (some x) = admmNormPrimalSpec p x s.z ∧
    admmNormPrimalImpl p s none = admmNormPrimalSpec p s.x s.z ∧
    admmNormDualImpl p s = admmNormDualSpec p s ∧
    admmMinimizer s = s.x :=
  ⟨admm_objective_both p s x zl, admm_objective_none p s, (admm_objective_mixed p s x zl).1,
   (admm_objective_mixed p s x zl).2, admm_normPrimal_spec_of p s x, admm_normPrimal_none p s,
   admm_normDual_spec p s, rfl⟩

theorem C11_accessors_ladmm (p : LADMMParams K X Z) (s : LADMMState X Z) (x : X) (z : Z) :
    ladmmObjectiveImpl p s (some x) (some z) = .ok (ladmmObjectiveSpec p x z) ∧
    ladmmObjectiveImpl p s none none = .ok (ladmmObjectiveSpec p s.x s.z) ∧
    ladmmObjectiveImpl p s (some x) none = .error .value ∧
    ladmmObjectiveImpl p s none (some z) = .error .value ∧
    ladmmNormPrimalImpl p s (some x) = ladmmNormPrimalSpec p x s.z ∧
    ladmmNormPrimalImpl p s none = ladmmNormPrimalSpec p s.x s.z ∧
    ladmmNormDualImpl p s = ladmmNormDualSpec p s ∧
    ladmmMinimizer s = s.x :=
  ⟨rfl, rfl, rfl, rfl, rfl, rfl, rfl, rfl⟩

theorem C11_accessors_padmm (p : PADMMParams K X Z U) (s : PADMMState X Z U) (x : X) (z : Z) :
    padmmObjectiveImpl p.f p.g s (some x) (some z) = .ok (padmmObjectiveSpec p.f p.g x z) ∧
    padmmObjectiveImpl p.f p.g s none none = .ok (padmmObjectiveSpec p.f p.g s.x s.z) ∧
    padmmObjectiveImpl p.f p.g s (some x) none = .error .value ∧
    padmmObjectiveImpl p.f p.g s none (some z) = .error .value ∧
    padmmNormPrimalImpl p s (some x) (some z) = .ok (padmmNormPrimalSpec p x z) ∧
    padmmNormPrimalImpl p s none none = .ok (padmmNormPrimalSpec p s.x s.z) ∧
    padmmNormPrimalImpl p s (some x) none = .error .value ∧
    padmmNormPrimalImpl p s none (some z) = .error .value ∧
    padmmNormDualImpl p s = padmmNormDualSpec p s ∧
    padmmMinimizer s = s.x :=
  ⟨rfl, rfl, rfl, rfl, rfl, rfl, rfl, rfl, padmm_normDual p s, rfl⟩

theorem C11_accessors_nlpadmm (p : NLPADMMParams K X Z U) (s : PADMMState X Z U) (x : X) (z : Z) :
    nlpadmmNormPrimalImpl p s (some x) (some z) = .ok (nlpadmmNormPrimalSpec p x z) ∧
    nlpadmmNormPrimalImpl p s none none = .ok (nlpadmmNormPrimalSpec p s.x s.z) ∧
    nlpadmmNormPrimalImpl p s (some x) none = .error .value ∧
    nlpadmmNormPrimalImpl p s none (some z) = .error .value ∧
    nlpadmmNormDualImpl p s = nlpadmmNormDualSpec p s :=
  ⟨rfl, rfl, rfl, rfl, nlpadmm_normDual p s⟩

theorem C11_accessors_pdhg (p : PDHGParams K X Z) (s : PDHGState X Z) (x : X) :
    pdhgObjectiveImpl p s (some x) = pdhgObjectiveSpec p x ∧
    pdhgObjectiveImpl p s none = pdhgObjectiveSpec p s.x ∧
    pdhgNormPrimalImpl p s = pdhgNormPrimalSpec p s ∧
    pdhgNormDualImpl p s = pdhgNormDualSpec p s ∧
    pdhgMinimizer s = s.x :=
  ⟨rfl, rfl, pdhg_normPrimal p s, pdhg_normDual p s, rfl⟩

theorem C11_accessors_pgm [HasSqrt K] (p : PGMParams σ K X) (s : PGMState σ K X) (a : APGMState σ K X)
    (ri : X → X → K) (x y : X) (L : K) :
    pgmObjectiveImpl p s.x (some x) = pgmObjectiveSpec p x ∧
    pgmObjectiveImpl p s.x none = pgmObjectiveSpec p s.x ∧
    pgmFQuadApproxImpl p ri x y L = pgmFQuadApproxSpec p ri x y L ∧
    pgmNormResidual (pgmImplStep p s) = p.normX (s.x - (pgmSpecStep p s).x) ∧
    (p.pol.kind ≠ .robust → apgmNormResidual (apgmImplStep p a) = p.normX ((apgmSpecStep p a).x - a.v)) ∧
    (p.pol.kind = .robust → apgmNormResidual (apgmImplStep p a) = p.normX ((apgmSpecStep p a).x - a.x)) ∧
    pgmMinimizer s = s.x ∧ apgmMinimizer a = a.x := by
  refine ⟨rfl, rfl, rfl, ?_, ?_, ?_, rfl, rfl⟩
  · rw [pgm_impl_eq_spec]; rfl
  · intro hk
    rw [apgm_impl_eq_spec]
    unfold apgmSpecStep apgmNormResidual
    cases hkk : p.pol.kind <;> simp_all
  · intro hk
    rw [apgm_impl_eq_spec]
    unfold apgmSpecStep apgmNormResidual
    simp [hk]

/-- constructors / `z_init` / `u_init`: `x = x0` (zeros when `None`), `z_i = C_i x0`, `z_old = z`, `u_i = 0`
    (ADMM, LinearizedADMM); missing starts are zeros and the previous-iterate copies equal the current
    ones (ProximalADMM family, PDHG); `v = x0`, `t = 1`, `L = L0`, residual `inf` (PGM / AcceleratedPGM) -/
theorem C11_init (pa : ADMMParams K X Z) (pl : LADMMParams K X Z) (x0 : X) (z0 : Z) (u0 : U) (L0 inf : K) (m : σ) :
    admmInit pa (some x0) = { x := x0, z := pa.C.map (fun C => C x0), zOld := pa.C.map (fun C => C x0),
                              u := pa.C.map (fun _ => 0) } ∧
    (admmInit pa none).x = 0 ∧
    ladmmInit pl (some x0) = { x := x0, z := pl.C x0, zOld := pl.C x0, u := 0 } ∧
    (ladmmInit pl none).x = 0 ∧
    (padmmInit (some x0) (some z0) (some u0) : PADMMState X Z U) = { x := x0, z := z0, zOld := z0, u := u0, uOld := u0 } ∧
    (padmmInit none none none : PADMMState X Z U) = { x := 0, z := 0, zOld := 0, u := 0, uOld := 0 } ∧
    (pdhgInit (some x0) (some z0) : PDHGState X Z) = { x := x0, xOld := x0, z := z0, zOld := z0 } ∧
    (pdhgInit none none : PDHGState X Z) = { x := 0, xOld := 0, z := 0, zOld := 0 } ∧
    (pgmInit L0 inf x0 m : PGMState σ K X) = { x := x0, L := L0, fpr := inf, mem := m } ∧
    (apgmInit L0 inf x0 m : APGMState σ K X) = { x := x0, v := x0, t := 1, L := L0, fpr := inf, mem := m } :=
  ⟨rfl, rfl, rfl, rfl, rfl, rfl, rfl, rfl, rfl, rfl⟩

/-- EVERY combination of given / missing starts (`x0`, `z0`, `u0` each `None` or an array): the constructor state is the supplied
    value (zeros where missing) and each `*_old` copy is initialised FROM THE SAME value as its variable — `z_old = z`, `u_old = u`
    (`ProximalADMMBase.__init__`), `x_old = x`, `z_old = z` (`PDHG.__init__`), `z_old = z = C x0`, `u = 0` (`ADMM`, `LinearizedADMM`) -/
theorem C11_init_any_starts (pa : ADMMParams K X Z) (pl : LADMMParams K X Z) (x0 : Option X) (z0 : Option Z) (u0 : Option U) :
    (padmmInit x0 z0 u0 : PADMMState X Z U)
      = { x := x0.getD 0, z := z0.getD 0, zOld := z0.getD 0, u := u0.getD 0, uOld := u0.getD 0 } ∧
    (pdhgInit x0 z0 : PDHGState X Z) = { x := x0.getD 0, xOld := x0.getD 0, z := z0.getD 0, zOld := z0.getD 0 } ∧
    ladmmInit pl x0 = { x := x0.getD 0, z := pl.C (x0.getD 0), zOld := pl.C (x0.getD 0), u := 0 } ∧
    admmInit pa x0 = { x := x0.getD 0, z := pa.C.map (fun C => C (x0.getD 0)), zOld := pa.C.map (fun C => C (x0.getD 0)),
                       u := pa.C.map (fun _ => 0) } := by
  cases x0 <;> cases z0 <;> cases u0 <;> exact ⟨rfl, rfl, rfl, rfl⟩

/-- constructor argument checks.  `ADMM.__init__`: `len(C_list) ≠ len(g_list)` or `len(rho_list) ≠ len(g_list)` is a
    `ValueError`; otherwise the state is `admmInit` and all lists have the common length `N = len(g_list)` — the
    hypothesis of `C11_admm_impl_eq_spec` (`proxg` and `g` are the same list of functional objects, hence `hpg`).
    `PGM/AcceleratedPGM.__init__`: `g.has_prox` false is a `ValueError`. -/
theorem C11_init_checked (p : ADMMParams K X Z) (x0 : Option X) (hpg : p.proxg.length = p.g.length)
    (L0 inf : K) (x1 : X) (m : σ) :
    (p.C.length ≠ p.g.length → admmInitChecked p x0 = .error .value) ∧
    (p.rho.length ≠ p.g.length → admmInitChecked p x0 = .error .value) ∧
    (p.C.length = p.g.length → p.rho.length = p.g.length →
      admmInitChecked p x0 = .ok (admmInit p x0) ∧ ADMMWf p.g.length p (admmInit p x0)) ∧
    (admmInit p none).z = p.C.map (fun C => C 0) ∧
    (pgmInitChecked false L0 inf x1 m : Except Err (PGMState σ K X)) = .error .value ∧
    (pgmInitChecked true L0 inf x1 m : Except Err (PGMState σ K X)) = .ok (pgmInit L0 inf x1 m) ∧
    (apgmInitChecked false L0 inf x1 m : Except Err (APGMState σ K X)) = .error .value ∧
    (apgmInitChecked true L0 inf x1 m : Except Err (APGMState σ K X)) = .ok (apgmInit L0 inf x1 m) := by
  refine ⟨fun h => ?_, fun h => ?_, fun h1 h2 => ⟨?_, admm_init_wf p x0 _ h2 hpg h1⟩, rfl, rfl, rfl, rfl, rfl⟩
  · unfold admmInitChecked; simp [h]
  · unfold admmInitChecked
    by_cases hc : p.C.length = p.g.length <;> simp [hc, h]
  · unfold admmInitChecked; simp [h1, h2]

/-- the empty constraint list `N = 0` (`g_list = C_list = rho_list = []`): the linear-system sub-problem solvers reject it
    (`TypeError` from `internal_init`), `GenericSubproblemSolver` accepts it when `x0` is given (`IndexError` otherwise); the
    accepted state has empty lists, `step()` is `x ← solver.solve(x)` (the documented `argmin f`) and keeps the lists empty,
    both residual accessors are the norm of an empty sum.  For `N ≥ 1` the full constructor agrees with `admmInitChecked`. -/
theorem C11_admm_empty [HasSqrt K] (p : ADMMParams K X Z) (hg : p.g = []) (hC : p.C = []) (hr : p.rho = [])
    (hp : p.proxg = []) (x0 : X) (q : ADMMParams K X Z) (hq : q.C ≠ []) (r : Bool) (y0 : Option X) :
    admmInitFull true p (some x0) = .error .type ∧ admmInitFull true p none = .error .type ∧
    admmInitFull false p none = .error .index ∧
    admmInitFull false p (some x0) = .ok { x := x0, z := [], zOld := [], u := [] } ∧
    admmImplStep p { x := x0, z := [], zOld := [], u := [] } = { x := p.solveX [] [] x0, z := [], zOld := [], u := [] } ∧
    admmNormPrimalImpl p { x := x0, z := [], zOld := [], u := [] } none = HasSqrt.sqrt 0 ∧
    admmNormDualImpl p { x := x0, z := [], zOld := [], u := [] } = p.normX 0 ∧
    admmInitFull r q y0 = admmInitChecked q y0 := by
  refine ⟨?_, ?_, ?_, ?_, ?_, ?_, ?_, ?_⟩
  · simp [admmInitFull, hg, hC, hr]
  · simp [admmInitFull, hg, hC, hr]
  · simp [admmInitFull, hg, hC, hr]
  · simp [admmInitFull, admmInit, hg, hC, hr]
  · simp [admmImplStep, admmZipLen, hC, hr, hp]
  · simp [admmNormPrimalImpl, hC, hr]
  · simp [admmNormDualImpl, hr]
  · have hl : q.C.length ≠ 0 := fun h => hq (List.length_eq_zero_iff.1 h)
    unfold admmInitFull admmInitChecked
    by_cases h1 : q.C.length = q.g.length <;> by_cases h2 : q.rho.length = q.g.length
    · have hgne : q.g ≠ [] := fun h => hl (by rw [h1, h]; rfl)
      simp [h1, h2, hgne]
    · simp [h1, h2]
    · simp [h1]
    · simp [h1]

/-- step-size state of the Barzilai–Borwein policies (`BBStepSize`, `AdaptiveBBStepSize`): after every call of `step()`
    of PGM and of AcceleratedPGM the policy's memory `(xprev, gradprev)` is the iterate `x` of the pre-state and its
    gradient — whether or not the BB value was accepted — and `L` is the documented quotient `ΔgᵀΔg / ΔxᵀΔg` of the
    differences to the remembered point when it passes the finiteness / positivity test, the previous `L` otherwise -/
theorem C11_bb_step [HasSqrt K] (gradf : X → X) (ri : X → X → K) (ok : K → Bool) (dz : X) (kappa : K)
    (p : PGMParams (BBMem X) K X) (hp : p.pol = bbPolicy gradf ri ok dz)
    (q : PGMParams (ABBMem K X) K X) (hq : q.pol = abbPolicy gradf ri ok kappa dz)
    (s : PGMState (BBMem X) K X) (a : APGMState (BBMem X) K X)
    (s' : PGMState (ABBMem K X) K X) (a' : APGMState (ABBMem K X) K X) :
    (pgmImplStep p s).mem = some (s.x, gradf s.x) ∧ (apgmImplStep p a).mem = some (a.x, gradf a.x) ∧
    (pgmImplStep q s').mem.prev = some (s'.x, gradf s'.x) ∧ (apgmImplStep q a').mem.prev = some (a'.x, gradf a'.x) ∧
    (pgmImplStep p s).L = (match s.mem with
      | none => s.L
      | some (xp, gp) =>
        if ok (ri (gradf s.x - gp) (gradf s.x - gp) / ri (s.x - xp) (gradf s.x - gp))
        then ri (gradf s.x - gp) (gradf s.x - gp) / ri (s.x - xp) (gradf s.x - gp) else s.L) := by
  refine ⟨?_, ?_, ?_, ?_, ?_⟩
  · unfold pgmImplStep; rw [hp]; unfold bbPolicy
    rcases s.mem with _ | ⟨xp, gp⟩ <;> rfl
  · unfold apgmImplStep; rw [hp]; unfold bbPolicy
    rcases a.mem with _ | ⟨xp, gp⟩ <;> simp [PolKind.isBB, PolKind.isRobust]
  · unfold pgmImplStep; rw [hq]; unfold abbPolicy
    rcases hm : s'.mem.prev with _ | ⟨xp, gp⟩ <;> simp [hm]
  · unfold apgmImplStep; rw [hq]; unfold abbPolicy
    rcases hm : a'.mem.prev with _ | ⟨xp, gp⟩ <;> simp [hm, PolKind.isBB, PolKind.isRobust]
  · unfold pgmImplStep; rw [hp]; unfold bbPolicy
    rcases s.mem with _ | ⟨xp, gp⟩ <;> rfl

/-- … hence along every PGM trajectory with `BBStepSize` the difference used at iteration `k+1` is between the
    consecutive iterates `x_{k+1}` and `x_k` (the memory after `k+1` steps is `(x_k, ∇f(x_k))`), for every history of
    accepted and rejected values -/
theorem C11_bb_memory_traj [HasSqrt K] (gradf : X → X) (ri : X → X → K) (ok : K → Bool) (dz : X)
    (p : PGMParams (BBMem X) K X) (hp : p.pol = bbPolicy gradf ri ok dz) (s : PGMState (BBMem X) K X) (k : Nat) :
    (iter (pgmImplStep p) (k + 1) s).mem = some ((iter (pgmImplStep p) k s).x, gradf (iter (pgmImplStep p) k s).x) := by
  have hsucc : ∀ (k : Nat) (s : PGMState (BBMem X) K X),
      iter (pgmImplStep p) (k + 1) s = pgmImplStep p (iter (pgmImplStep p) k s) := by
    intro k
    induction k with
    | zero => intro s; rfl
    | succ k ih => intro s; exact ih (pgmImplStep p s)
  rw [hsucc]
  generalize iter (pgmImplStep p) k s = t
  unfold pgmImplStep; rw [hp]; unfold bbPolicy
  rcases t.mem with _ | ⟨xp, gp⟩ <;> rfl

/-- the defect of the pinned tree, as a theorem about the pinned body: ignoring the supplied `x`
    is *not* the documented residual (witness over ℚ: `C = id`, `z = 0`, current `x = 0`,
    supplied `x = 1`) -/
theorem C11_ladmm_primal_pinned_differs :
    ∃ (p : LADMMParams ℚ ℚ ℚ) (s : LADMMState ℚ ℚ) (x : ℚ),
      ladmmNormPrimalPinned p s (some x) ≠ ladmmNormPrimalSpec p x s.z := by
  refine ⟨{ f := fun _ => 0, g := fun _ => 0, proxf := fun _ v => v, proxg := fun _ v => v,
            C := id, Cadj := id, mu := 1, nu := 1, normX := abs, normZ := abs },
          { x := 0, z := 0, zOld := 0, u := 0 }, 1, ?_⟩
  simp [ladmmNormPrimalPinned, ladmmNormPrimalImpl, ladmmNormPrimalSpec]

/-- what the model copies from the optimiser sources, pinned as tables in `Model/StepsSource.lean`; the generated module
    `Scico.Generated.StepsTables` (rewritten from the working tree by `harness/steps_translate.py` on every run) states that the
    tables read from the source equal the pinned ones.  Consequences used by the model: the order of the state updates of every
    `step()` (`…ImplStep` performs one structure update per assignment, in this order); the defaults the model hard-wires
    (`alpha = 1.0`, `B = None`, `c = None`, missing starts, `fast_dual_residual = True`); the state attributes the constructors
    store (`…Init`); and which sub-problem solver classes reduce over `C_list` at attachment (`solverReduces` of
    `admmInitFull`: an empty list is a `TypeError` exactly for those) -/
theorem C11_source_transcription :
    Steps.Source.StepTargets ∧ Steps.Source.ModelDefaults ∧ Steps.Source.InitStateAttrs ∧ Steps.Source.SolverReducesFlags :=
  ⟨Steps.Source.step_targets, Steps.Source.model_defaults, Steps.Source.init_state_attrs, Steps.Source.solver_reduces_flags⟩

/-! ### non-vacuity -/

-- complex variables: ℂ is a module over ℝ; block variables: products of modules
example (p : LADMMParams ℝ ℂ (ℂ × ℂ)) : ladmmImplStep p = ladmmSpecStep p := C11_ladmm_impl_eq_spec p
example (p : PDHGParams ℝ (ℝ × (Fin 3 → ℝ)) (Fin 2 → ℂ)) : pdhgImplStep p = pdhgSpecStep p :=
  C11_pdhg_impl_eq_spec p
example (p : PADMMParams ℚ (Fin 2 → ℚ) ℚ (ℚ × ℚ)) : padmmImplStep p = padmmSpecStep p :=
  C11_padmm_impl_eq_spec p

/-- a concrete two-constraint ADMM instance over ℚ (relaxation `α = 3/2`, `ρ = (1, 2)`) -/
def exP : ADMMParams ℚ ℚ ℚ :=
  { f := none, g := [fun _ => 0, fun z => z], proxg := [fun _ v => v, fun lam v => v - lam],
    C := [id, fun x => 2 * x], Cadj := [id, fun z => 2 * z], rho := [1, 2], alpha := 3 / 2,
    solveX := fun z u _ => (z.zipWith (fun a b => a - b) u).sum / 4, normX := abs, normZ := abs }
def exS : ADMMState ℚ ℚ := { x := 1, z := [1, 2], zOld := [0, 0], u := [1 / 2, 0] }

example : ADMMWf 2 exP exS := by simp [ADMMWf, exP, exS]
-- the empty constraint list: accepted by the generic solver with a start, one step is the solver's x-update
example :
    let p0 : ADMMParams ℚ ℚ ℚ := { exP with g := [], proxg := [], C := [], Cadj := [], rho := [], solveX := fun _ _ x => x / 2 }
    admmInitFull false p0 (some 4) = .ok { x := 4, z := [], zOld := [], u := [] } ∧
    (admmImplStep p0 { x := 4, z := [], zOld := [], u := [] }).x = 2 ∧ admmInitFull true p0 (some 4) = .error .type := by
  refine ⟨by simp [admmInitFull, admmInit], by simp [admmImplStep, admmZipLen, exP]; norm_num, by simp [admmInitFull]⟩
-- BB policy on the concave `f(x) = −x²/2` over ℚ (`Δx·Δg < 0`): the value is rejected (`L` kept) and the memory is still refreshed
example :
    let pol : Policy (BBMem ℚ) ℚ ℚ := bbPolicy (fun x => -x) (fun a b => a * b) (fun l => decide (0 < l)) 0
    pol.update (some (1, -1)) 3 2 2 = (3, some (2, -2)) := by decide +kernel
-- the constructor check accepts the instance and rejects it when a penalty parameter is missing
example : admmInitChecked exP (some 1) = .ok (admmInit exP (some 1)) := by simp [admmInitChecked, exP]
example : admmInitChecked { exP with rho := [1] } (some 1) = .error .value := by simp [admmInitChecked, exP]
-- the step really moves the state, and both transcriptions compute the same numbers
example : (admmImplStep exP exS).x = 5 / 8 ∧ (admmImplStep exP exS).z = [15 / 16, 3 / 8] ∧
    (admmImplStep exP exS).u = [0, 1 / 2] ∧ (admmImplStep exP exS).zOld = [1, 2] := by
  refine ⟨?_, ?_, ?_, ?_⟩ <;> decide +kernel
example : (admmSpecStep exP exS).z = [15 / 16, 3 / 8] := by decide +kernel

end Scico.Props.C11
