/-
  Property C10 — every ADMM x-update solver returns the sub-problem minimiser.
  ONLY property theorems (and non-vacuity examples); lemmas in `Scico/Proofs/LinSolveADMM.lean`,
  model in `Scico/Model/LinSolve.lean`.

  Reading guide.  The x-step objective is `α‖Ax − y‖²_W + Σ ρ_i/2 ‖z_i − u_i − C_i x‖²`.
  `C10_normal_eq_iff_argmin` says its minimisers are exactly the solutions of the documented normal equations.
  The `C10_assembly_*` theorems say that what each solver class of `_admmaux.py` hands to its back end (cg, the
  factorisation solver, the DFT division, the block-circulant Woodbury solver) *is* that system; the back ends
  themselves are covered by C14 (`C14_cg_exit`, `C14_woodbury_matrix`, `C14_woodbury_conv`).
-/
import Scico.Proofs.LinSolveADMM
import Scico.Proofs.LinSolveADMM2
import Scico.Proofs.LinSolveADMM3
import Scico.Proofs.LinSolveADMM4
import Scico.Proofs.LinSolveADMM5
import Mathlib.Tactic.NormNum

namespace Scico.Props.C10
open Scico Scico.LinSolve RCLike Matrix

section Argmin
variable {𝕜 V Y : Type} [RCLike 𝕜] [NormedAddCommGroup V] [InnerProductSpace 𝕜 V]
  [NormedAddCommGroup Y] [InnerProductSpace 𝕜 Y]
  {ι : Type} [Fintype ι] {U : ι → Type} [∀ i, NormedAddCommGroup (U i)] [∀ i, InnerProductSpace 𝕜 (U i)]

/-- **Normal equations ⇔ argmin.**  For any linear `A`, `C_i` (with adjoints `AH`, `CH_i`), any Hermitian positive
    semi-definite weighting `W`, any `α ≥ 0`, `ρ_i ≥ 0`, any `y`, `v_i = z_i − u_i`, real or complex:
    `x` satisfies `(2α AᴴWA + Σ ρ_i C_iᴴC_i) x = 2α AᴴW y + Σ ρ_i C_iᴴ v_i` iff `x` minimises
    `α ⟪Ax − y, W(Ax − y)⟫ + Σ ρ_i/2 ‖v_i − C_i x‖²`. -/
theorem C10_normal_eq_iff_argmin (A : V →ₗ[𝕜] Y) (AH : Y →ₗ[𝕜] V) (hA : ∀ x y, inner 𝕜 (A x) y = inner 𝕜 x (AH y))
    (W : Y →ₗ[𝕜] Y) (hWs : ∀ u v, inner 𝕜 (W u) v = inner 𝕜 u (W v)) (hWp : ∀ u, 0 ≤ re (inner 𝕜 u (W u)))
    (C : ∀ i, V →ₗ[𝕜] U i) (CH : ∀ i, U i →ₗ[𝕜] V) (hC : ∀ i x y, inner 𝕜 (C i x) y = inner 𝕜 x (CH i y))
    (α : ℝ) (hα : 0 ≤ α) (ρ : ι → ℝ) (hρ : ∀ i, 0 ≤ ρ i) (y : Y) (v : ∀ i, U i) (x : V) :
    (((2 * α : ℝ) : 𝕜) • AH (W (A x)) + ∑ i, ((ρ i : ℝ) : 𝕜) • CH i (C i x)
        = ((2 * α : ℝ) : 𝕜) • AH (W y) + ∑ i, ((ρ i : ℝ) : 𝕜) • CH i (v i))
      ↔ ∀ x', xstepObj A W C α ρ y v x ≤ xstepObj A W C α ρ y v x' :=
  normal_eq_iff_argmin A AH hA W hWs hWp C CH hC α hα ρ hρ y v x

-- non-vacuity: V = Y = U = ℝ, A = C = W = identity, α = 3/2 (≠ ½), ρ = 2
example : ∃ (A AH W : ℝ →ₗ[ℝ] ℝ), (∀ x y, inner ℝ (A x) y = inner ℝ x (AH y)) ∧
    (∀ u v, inner ℝ (W u) v = inner ℝ u (W v)) ∧ (∀ u, 0 ≤ re (inner ℝ u (W u))) :=
  ⟨LinearMap.id, LinearMap.id, LinearMap.id, fun _ _ => rfl, fun _ _ => rfl, fun u => by
    simp [inner]; exact mul_self_nonneg u⟩

/-- **All exact solvers return the same `x`.**  If some `C_{i₀}` is injective with `ρ_{i₀} > 0` (an `Identity`, a
    `Diagonal` without zero, a tall full-rank matrix), `W ⪰ 0`, `α ≥ 0`, `ρ ≥ 0`, the normal equations have at most one
    solution: any two `x` satisfying them (from cg, the factorisation, the DFT division, scipy) coincide. -/
theorem C10_solvers_agree (A : V →ₗ[𝕜] Y) (AH : Y →ₗ[𝕜] V) (hA : ∀ x y, inner 𝕜 (A x) y = inner 𝕜 x (AH y))
    (W : Y →ₗ[𝕜] Y) (hWp : ∀ u, 0 ≤ re (inner 𝕜 u (W u)))
    (C : ∀ i, V →ₗ[𝕜] U i) (CH : ∀ i, U i →ₗ[𝕜] V) (hC : ∀ i x y, inner 𝕜 (C i x) y = inner 𝕜 x (CH i y))
    (α : ℝ) (hα : 0 ≤ α) (ρ : ι → ℝ) (hρ : ∀ i, 0 ≤ ρ i) (i0 : ι) (hρ0 : 0 < ρ i0) (hinj : ∀ h, C i0 h = 0 → h = 0)
    (rhs : V) (x1 x2 : V)
    (h1 : ((2 * α : ℝ) : 𝕜) • AH (W (A x1)) + ∑ i, ((ρ i : ℝ) : 𝕜) • CH i (C i x1) = rhs)
    (h2 : ((2 * α : ℝ) : 𝕜) • AH (W (A x2)) + ∑ i, ((ρ i : ℝ) : 𝕜) • CH i (C i x2) = rhs) : x1 = x2 :=
  normal_eq_unique A AH hA W C CH hC α ρ
    (fun h hh => xstepQuad_pos_of_injective A W hWp C α hα ρ hρ i0 hρ0 hinj h hh) rhs x1 x2 h1 h2

-- non-vacuity: the identity on ℝ is injective
example : ∀ h : ℝ, (LinearMap.id : ℝ →ₗ[ℝ] ℝ) h = 0 → h = 0 := fun _ h => h

end Argmin

section Generic
variable {𝕜 V Y U : Type} [RCLike 𝕜] [NormedAddCommGroup V] [InnerProductSpace 𝕜 V]
  [NormedAddCommGroup Y] [InnerProductSpace 𝕜 Y] [NormedAddCommGroup U] [InnerProductSpace 𝕜 U] {n : Nat}

/-- **`GenericSubproblemSolver`**: the function it hands to `scipy.optimize.minimize`
    (`out = Σ 0.5·ρ_i·Σ|z_i − u_i − C_i x|²;  out += f(x)`, model `genericObj`) is, for `f = α‖A· − y‖²_W`, the x-step
    objective; hence a point is an exact minimiser of what scipy receives iff it satisfies the documented normal equations. -/
theorem C10_generic_objective (A : V →ₗ[𝕜] Y) (AH : Y →ₗ[𝕜] V) (hA : ∀ x y, inner 𝕜 (A x) y = inner 𝕜 x (AH y))
    (W : Y →ₗ[𝕜] Y) (hWs : ∀ u v, inner 𝕜 (W u) v = inner 𝕜 u (W v)) (hWp : ∀ u, 0 ≤ re (inner 𝕜 u (W u)))
    (C : Fin n → V →ₗ[𝕜] U) (CH : Fin n → U →ₗ[𝕜] V) (hC : ∀ i x y, inner 𝕜 (C i x) y = inner 𝕜 x (CH i y))
    (α : ℝ) (hα : 0 ≤ α) (ρ : Fin n → ℝ) (hρ : ∀ i, 0 ≤ ρ i) (y : Y) (z u : Fin n → U) (x : V) :
    let obj := genericObj (fun w : U => ‖w‖ ^ 2) (some fun x => α * re (inner 𝕜 (A x - y) (W (A x - y))))
        (List.ofFn fun i => (ρ i, (⇑(C i) : V → U), z i, u i))
    obj x = xstepObj (U := fun _ : Fin n => U) A W C α ρ y (fun i => z i - u i) x ∧
    ((∀ x', obj x ≤ obj x') ↔
      ((2 * α : ℝ) : 𝕜) • AH (W (A x)) + ∑ i, ((ρ i : ℝ) : 𝕜) • CH i (C i x)
        = ((2 * α : ℝ) : 𝕜) • AH (W y) + ∑ i, ((ρ i : ℝ) : 𝕜) • CH i (z i - u i)) := by
  intro obj
  have hobj : ∀ x, obj x = xstepObj (U := fun _ : Fin n => U) A W C α ρ y (fun i => z i - u i) x :=
    fun x => genericObj_eq_xstepObj A W C α ρ y z u x
  refine ⟨hobj x, ?_⟩
  rw [normal_eq_iff_argmin (U := fun _ : Fin n => U) A AH hA W hWs hWp C CH hC α hα ρ hρ y (fun i => z i - u i) x]
  simp only [hobj]

/-- **`accuracy` of the block-circulant solvers**: they report `rel_res` of the system divided by `2α` (resp. `2ωρ₁`);
    `rel_res` is invariant under a common non-zero scaling, so this is the relative residual of the unscaled system too. -/
theorem C10_accuracy_scale_invariant {E : Type} [NormedAddCommGroup E] [NormedSpace 𝕜 E] (c : 𝕜) (hc : c ≠ 0) (ax b : E) :
    relRes (fun v : E => ‖v‖) (c • ax) (c • b) = relRes (fun v : E => ‖v‖) ax b :=
  relRes_smul c hc ax b

end Generic

section Assembly
variable {S M U Y' : Type} [Field S] [AddCommGroup M] [Module S M] [AddCommGroup U]

/-- **`LinearSubproblemSolver`** (scico cg and jax cg alike — only the back end differs): for any loss scale,
    any weighting, any non-empty list of `(ρ_i, C_i, z_i, u_i)`, the operator handed to `cg` is
    `x ↦ Σ ρ_i C_iᴴC_i x + 2α AᴴW A x` and the right-hand side is `2α AᴴW y + Σ ρ_i C_iᴴ(z_i − u_i)`. -/
theorem C10_assembly_linear (f : Option (SqL2 S M Y')) (terms : List (Term S M U)) (hne : terms ≠ []) :
    (∃ lhs, linearLhs f terms = some lhs ∧ ∀ x, lhs x = lhsSpec f terms x) ∧ linearRhs 0 f terms = rhsSpec f terms :=
  ⟨linearLhs_spec f terms hne, linearRhs_spec f terms⟩

/-- an empty `C_list` is rejected (`reduce` of an empty list) -/
theorem C10_assembly_linear_empty (f : Option (SqL2 S M Y')) : linearLhs (U := U) f [] = none := rfl

/-- **`CircularConvolveSolver`**, per DFT frequency: the divisor is `Σ ρ_i ĝ_i + 2α ĝ_A` (`ĝ` the transfer function
    of the gram operator) and, where it is non-zero, the returned `x̂` satisfies `divisor · x̂ = r̂hs`. -/
theorem C10_assembly_circular {N : Nat} (f : Option (S × Vec S N)) (terms : List (S × Vec S N)) (hne : terms ≠ [])
    (rhs : Vec S N) :
    ∃ lhs, circLhsHat f terms = some lhs ∧
      (∀ w, lhs w = (terms.map fun t => t.1 * t.2 w).sum + (match f with | none => 0 | some (sc, gA) => 2 * sc * gA w)) ∧
      (∀ w, lhs w ≠ 0 → lhs w * circSolveHat lhs rhs w = rhs w) := by
  obtain ⟨lhs, h1, h2⟩ := circLhsHat_spec f terms hne
  exact ⟨lhs, h1, h2, fun w hw => circSolveHat_spec lhs rhs w hw⟩

/-- **`FBlockCircularConvolveSolver`**: dividing by `2α` gives a system equivalent to
    `2α AᴴA x + Σ ρ_i C_iᴴC_i x = 2α AᴴW y + Σ ρ_i C_iᴴ(z_i − u_i)` … -/
theorem C10_fblock_scaling (f : SqL2 S M Y') (terms : List (Term S M U)) (hne : terms ≠ []) (hc : 2 * f.scale ≠ 0) :
    ∃ lhs rhs, fblockSystem 0 f terms = some (lhs, rhs) ∧
      ∀ x, (lhs x = rhs ↔
        (2 * f.scale) • f.A.adj (f.A.eval x) + (terms.map fun t => t.rho • t.C.adj (t.C.eval x)).sum = rhsSpec (some f) terms) :=
  fblock_spec f terms hne hc

/-- … which is the documented system exactly when the loss is unweighted (`W = I`): the solver uses `f.W` on the
    right-hand side only. -/
theorem C10_fblock_scaling_unweighted (f : SqL2 S M Y') (terms : List (Term S M U)) (hne : terms ≠ []) (hc : 2 * f.scale ≠ 0)
    (hW : ∀ v, f.W v = v) :
    ∃ lhs rhs, fblockSystem 0 f terms = some (lhs, rhs) ∧
      ∀ x, (lhs x = rhs ↔ lhsSpec (some f) terms x = rhsSpec (some f) terms) :=
  fblock_spec_unweighted f terms hne hc hW

/-- **`G0BlockCircularConvolveSolver`, what it solves**: the first term is weighted by `2 ω ρ₁`. -/
theorem C10_g0_system (omega : S) (t1 : Term S M U) (rest : List (Term S M U)) (hne : rest ≠ [])
    (hc : 2 * omega * t1.rho ≠ 0) :
    ∃ lhs rhs, g0System 0 omega (t1 :: rest) = some (lhs, rhs) ∧
      ∀ x, (lhs x = rhs ↔
        (2 * omega * t1.rho) • t1.C.adj (t1.C.eval x) + (rest.map fun t => t.rho • t.C.adj (t.C.eval x)).sum
          = (2 * omega * t1.rho) • t1.C.adj (t1.z - t1.u) + (rest.map fun t => t.rho • t.C.adj (t.z - t.u)).sum) :=
  g0_spec omega t1 rest hne hc

/-- **`C10_g0_scaling_partial`**: for `g₁.scale = ½` (`2ω = 1`) the system G0 solves is the documented one. -/
theorem C10_g0_scaling_partial (omega : S) (t1 : Term S M U) (rest : List (Term S M U)) (hne : rest ≠ [])
    (hω : 2 * omega = 1) (hρ : t1.rho ≠ 0) :
    ∃ lhs rhs, g0System 0 omega (t1 :: rest) = some (lhs, rhs) ∧
      ∀ x, (lhs x = rhs ↔ lhsSpec (Y' := Y') none (t1 :: rest) x = rhsSpec (Y' := Y') none (t1 :: rest)) :=
  g0_spec_half omega t1 rest hne hω hρ

/-- the **exact condition** in general: a solution of G0's system satisfies the documented normal equations iff
    `(2ω − 1) ρ₁ · C₁ᴴ(C₁ x − (z₁ − u₁)) = 0` -/
theorem C10_g0_scaling_exact (omega : S) (t1 : Term S M U) (rest : List (Term S M U)) (x : M)
    (hadd : ∀ a b, t1.C.adj (a - b) = t1.C.adj a - t1.C.adj b)
    (hsys : (2 * omega * t1.rho) • t1.C.adj (t1.C.eval x) + (rest.map fun t => t.rho • t.C.adj (t.C.eval x)).sum
          = (2 * omega * t1.rho) • t1.C.adj (t1.z - t1.u) + (rest.map fun t => t.rho • t.C.adj (t.z - t.u)).sum) :
    lhsSpec (Y' := Y') none (t1 :: rest) x = rhsSpec (Y' := Y') none (t1 :: rest) ↔
      ((2 * omega - 1) * t1.rho) • t1.C.adj (t1.C.eval x - (t1.z - t1.u)) = 0 :=
  g0_exact omega t1 rest x hadd hsys

end Assembly

section StaleScale
variable {S M U Y' : Type} [Field S] [AddCommGroup M] [Module S M] [AddCommGroup U]

/-- **`f.set_scale(s1)` after the ADMM object was built** (recorded finding `stale-scale-after-init`): the solvers that precompute
    their left-hand side in `internal_init` (Matrix, CircularConvolve) then work with the operator of the *old* scale and the
    right-hand side of the *new* one (`staleScaleSystem`) … -/
theorem C10_stale_scale_system (f : SqL2 S M Y') (s1 : S) (terms : List (Term S M U)) (hne : terms ≠ []) :
    ∃ lhs rhs, staleScaleSystem 0 f s1 terms = some (lhs, rhs) ∧
      (∀ x, lhs x = lhsSpec (some f) terms x) ∧ rhs = rhsSpec (some (f.withScale s1)) terms :=
  staleScale_spec f s1 terms hne

/-- … and a solution of that system satisfies the documented normal equations of the current loss iff
    `2 (s1 − s0) · Aᴴ W A x = 0` (`_partial`: it does when the scale was not changed, or `AᴴWA x = 0`). -/
theorem C10_stale_scale_partial (f : SqL2 S M Y') (s1 : S) (terms : List (Term S M U)) (x : M)
    (hsys : lhsSpec (some f) terms x = rhsSpec (some (f.withScale s1)) terms) :
    lhsSpec (some (f.withScale s1)) terms x = rhsSpec (some (f.withScale s1)) terms ↔
      (2 * (s1 - f.scale)) • f.A.adj (f.W (f.A.eval x)) = 0 :=
  staleScale_exact f s1 terms x hsys

/-- the same finding for **`FBlockCircularConvolveSolver`**: `D` was divided by the old `2 s0` in `internal_init`, `solve` divides the
    right-hand side (current scale) by the new `2 s1` (`fblockStaleSystem`) … -/
theorem C10_fblock_stale_system (f : SqL2 S M Y') (s1 : S) (terms : List (Term S M U)) (hne : terms ≠ []) :
    ∃ lhs rhs, fblockStaleSystem 0 f s1 terms = some (lhs, rhs) ∧
      (∀ x, lhs x = f.A.adj (f.A.eval x) + (1 / (2 * f.scale)) • (terms.map fun t => t.rho • t.C.adj (t.C.eval x)).sum) ∧
      rhs = (1 / (2 * s1)) • rhsSpec (some (f.withScale s1)) terms :=
  fblockStale_spec f s1 terms hne

/-- … and (unweighted loss, `s0, s1 ≠ 0`) a solution of it satisfies the documented normal equations of the current loss iff
    `(s1 − s0) · Σ ρ_i C_iᴴ C_i x = 0` -/
theorem C10_fblock_stale_partial (f : SqL2 S M Y') (s1 : S) (terms : List (Term S M U)) (x : M) (hW : ∀ v, f.W v = v)
    (h0 : 2 * f.scale ≠ 0) (h1 : 2 * s1 ≠ 0)
    (hsys : f.A.adj (f.A.eval x) + (1 / (2 * f.scale)) • (terms.map fun t => t.rho • t.C.adj (t.C.eval x)).sum
        = (1 / (2 * s1)) • rhsSpec (some (f.withScale s1)) terms) :
    lhsSpec (some (f.withScale s1)) terms x = rhsSpec (some (f.withScale s1)) terms ↔
      (s1 - f.scale) • (terms.map fun t => t.rho • t.C.adj (t.C.eval x)).sum = 0 :=
  fblockStale_exact f s1 terms x hW h0 h1 hsys

end StaleScale

section StaleWitness
/-- the statement one would like (NOT claimed): whatever the scale was when the ADMM object was built, the solution of the system the
    precomputing solvers work with satisfies the normal equations of the loss as it is now -/
def C10_stale_scale_stmt : Prop :=
  ∀ (f : SqL2 ℚ ℚ ℚ) (s1 : ℚ) (terms : List (Term ℚ ℚ ℚ)) (x : ℚ), terms ≠ [] →
    lhsSpec (some f) terms x = rhsSpec (some (f.withScale s1)) terms →
    lhsSpec (some (f.withScale s1)) terms x = rhsSpec (some (f.withScale s1)) terms

/-- **negation witness**: scalars, `A = W = C = 1`, `y = 1`, `ρ = 1`, `z − u = 0`, scale `½` at construction then `set_scale(2)`:
    the stale system is `(1 + 1) x = 4`, `x = 2`; the x-step minimiser solves `(4 + 1) x = 4`, `x = 4/5`. -/
theorem C10_stale_scale_counterexample : ¬ C10_stale_scale_stmt := by
  intro h
  let I : LinOp ℚ ℚ := ⟨id, id⟩
  have := h ⟨1 / 2, I, id, 1⟩ 2 [⟨1, I, 0, 0⟩] 2 (by simp) (by simp [lhsSpec, rhsSpec, SqL2.withScale, I]; norm_num)
  simp [lhsSpec, rhsSpec, SqL2.withScale, I] at this
  norm_num at this

end StaleWitness

section G0Docstring
variable {𝕜 V Y : Type} [RCLike 𝕜] [NormedAddCommGroup V] [InnerProductSpace 𝕜 V]
  [NormedAddCommGroup Y] [InnerProductSpace 𝕜 Y]
  {ι : Type} [Fintype ι] {U : ι → Type} [∀ i, NormedAddCommGroup (U i)] [∀ i, InnerProductSpace 𝕜 (U i)]

/-- **The other side of `g0-scale`: G0 solves the step written in its own docstring.**  For every `ω ≥ 0` the system the solver
    assembles (`C10_g0_system`) characterises the minimisers of `ρ₁ ω ‖C₁ x − v₁‖² + Σ_{i≥2} ρ_i/2 ‖C_i x − v_i‖²` — the objective its
    docstring calls "the ADMM x-step".  The x-step of the ADMM algorithm (`C10_normal_eq_iff_argmin`) has `ρ₁/2` in place of `ρ₁ ω`
    (the scale of `g₁` belongs to the prox of `g₁`, not to the x-step); the two coincide iff `2ω = 1` (`C10_g0_scaling_exact`). -/
theorem C10_g0_solves_docstring (C1 : V →ₗ[𝕜] Y) (C1H : Y →ₗ[𝕜] V) (hC1 : ∀ x y, inner 𝕜 (C1 x) y = inner 𝕜 x (C1H y))
    (C : ∀ i, V →ₗ[𝕜] U i) (CH : ∀ i, U i →ₗ[𝕜] V) (hC : ∀ i x y, inner 𝕜 (C i x) y = inner 𝕜 x (CH i y))
    (ω ρ1 : ℝ) (hω : 0 ≤ ω) (hρ1 : 0 ≤ ρ1) (ρ : ι → ℝ) (hρ : ∀ i, 0 ≤ ρ i) (v1 : Y) (v : ∀ i, U i) (x : V) :
    (((2 * (ω * ρ1) : ℝ) : 𝕜) • C1H (C1 x) + ∑ i, ((ρ i : ℝ) : 𝕜) • CH i (C i x)
        = ((2 * (ω * ρ1) : ℝ) : 𝕜) • C1H v1 + ∑ i, ((ρ i : ℝ) : 𝕜) • CH i (v i))
      ↔ ∀ x', g0DocObj C1 C ω ρ1 ρ v1 v x ≤ g0DocObj C1 C ω ρ1 ρ v1 v x' :=
  g0_solves_docstring C1 C1H hC1 C CH hC ω ρ1 hω hρ1 ρ hρ v1 v x

end G0Docstring

section G0Witness
/-- the full statement one would like (NOT claimed): G0's system is the documented one for every scale -/
def C10_g0_scaling_stmt : Prop :=
  ∀ (omega : ℚ) (t1 : Term ℚ ℚ ℚ) (rest : List (Term ℚ ℚ ℚ)), rest ≠ [] → 2 * omega * t1.rho ≠ 0 →
    ∀ lhs rhs, g0System 0 omega (t1 :: rest) = some (lhs, rhs) →
      ∀ x, lhs x = rhs → lhsSpec (Y' := ℚ) none (t1 :: rest) x = rhsSpec (Y' := ℚ) none (t1 :: rest)

/-- **negation witness** (recorded finding `g0-scale`): scalars, `C₁ = C₂ = I`, `ρ = (1,1)`, `z₁−u₁ = 1`,
    `z₂−u₂ = 0`, `g₁.scale = 2`: G0 solves `(1 + ¼)x = 1`, i.e. `x = 4/5`, the x-step minimiser is `x = 1/2`. -/
theorem C10_g0_scaling_counterexample : ¬ C10_g0_scaling_stmt := by
  intro h
  let I : LinOp ℚ ℚ := ⟨id, id⟩
  have := h 2 ⟨1, I, 1, 0⟩ [⟨1, I, 0, 0⟩] (by simp) (by norm_num) _ _ rfl (4 / 5)
    (by simp [LinOp.gram, g0RhsRaw, two, I]; norm_num)
  simp [lhsSpec, rhsSpec, I] at this
  norm_num at this

end G0Witness

section EndToEnd
variable {𝕜 V U Y : Type} [RCLike 𝕜] [NormedAddCommGroup V] [InnerProductSpace 𝕜 V] [AddCommGroup U] [Module 𝕜 U]
  [AddCommGroup Y] [Module 𝕜 Y]

/-- **`LinearSubproblemSolver` end to end** (`scico.solver.cg`, no preconditioner): assembly (`C10_assembly_linear`) composed with
    the exit rule of `cg` (`C14_cg_rel_res_true`): for linear `A`, `W`, `C_i`, any scale, state and non-empty term list, the returned
    `x` satisfies `‖rhs − lhs x‖ ≤ max(tol ‖rhs‖, atol)` for the *documented* `lhs`, `rhs`, unless `maxiter` bodies were used;
    `info["rel_res"] = ‖rhs − lhs x‖ / ‖rhs‖`. -/
theorem C10_linear_solver_end_to_end (f : Option (LSqL2 𝕜 V Y)) (terms : List (LTerm 𝕜 V U)) (hne : terms ≠ []) (x0 : V)
    (tol atol : ℝ) (maxiter : Nat) :
    ∃ lhs, linearLhs (f.map LSqL2.toSqL2) (terms.map LTerm.toTerm) = some lhs ∧
      let rhs := linearRhs 0 (f.map LSqL2.toSqL2) (terms.map LTerm.toTerm)
      let out := cg (rcOps 𝕜 V) lhs (fun v => v) rhs x0 tol atol maxiter
      let res := rhsSpec (f.map LSqL2.toSqL2) (terms.map LTerm.toTerm) - lhsSpec (f.map LSqL2.toSqL2) (terms.map LTerm.toTerm) out.1
      (0 ≤ max (tol * ‖rhs‖) atol → out.2.relRes = ‖res‖ / ‖rhs‖ ∧ (out.2.numIter = maxiter ∨ ‖res‖ ≤ max (tol * ‖rhs‖) atol)) :=
  linearSolver_spec f terms hne x0 tol atol maxiter

end EndToEnd

section InitChecks
/-! ### the class checks of every `internal_init` (tables re-read from the source by `harness/linsolve_translate.py`) -/

/-- every guard and test occurring in the tables is one the model interprets: `initResult` never answers "uninterpretable" -/
theorem C10_init_checks_interpretable : ∀ e ∈ solverTables.checks, checksInterpretable e.2 = true := by decide

/-- `LinearSubproblemSolver` accepts exactly `f = None` or a `SquaredL2Loss` whose `A` is a `LinearOperator` (else `TypeError`) -/
theorem C10_accepts_linear (F : InitFacts) :
    initResult (checksOf solverTables "LinearSubproblemSolver") F = .ok () ↔
      (F.fNone = true ∨ (F.isinst "admm.f" "SquaredL2Loss" = true ∧ F.isinst "admm.f.A" "LinearOperator" = true)) := by
  cases h1 : F.fNone <;> cases h2 : F.isinst "admm.f" "SquaredL2Loss" <;> cases h3 : F.isinst "admm.f.A" "LinearOperator" <;>
    simp [checksOf, solverTables, List.lookup, initResult, ClassCheck.fires, guardEval, errKind, h1, h2, h3]

/-- `MatrixSubproblemSolver`: `f = None` or `SquaredL2Loss` with `A` a `Diagonal`/`MatrixOperator`, and every `C_i` a `Diagonal`/`MatrixOperator` -/
theorem C10_accepts_matrix (F : InitFacts) :
    initResult (checksOf solverTables "MatrixSubproblemSolver") F = .ok () ↔
      ((F.fNone = true ∨ (F.isinst "admm.f" "SquaredL2Loss" = true ∧
          (F.isinst "admm.f.A" "Diagonal" = true ∨ F.isinst "admm.f.A" "MatrixOperator" = true))) ∧
        ∀ p ∈ F.ciInst, (p "Diagonal" = true ∨ p "MatrixOperator" = true)) := by
  have hany : (F.ciInst.any fun p => !p "Diagonal" && !p "MatrixOperator") = false ↔
      ∀ p ∈ F.ciInst, (p "Diagonal" = true ∨ p "MatrixOperator" = true) := by
    simp [List.any_eq_false]
    constructor <;> intro h p hp <;> have := h p hp <;> revert this <;> cases p "Diagonal" <;> cases p "MatrixOperator" <;> simp
  rw [← hany]
  cases h1 : F.fNone <;> cases h2 : F.isinst "admm.f" "SquaredL2Loss" <;> cases h3 : F.isinst "admm.f.A" "Diagonal" <;>
    cases h4 : F.isinst "admm.f.A" "MatrixOperator" <;> cases h5 : (F.ciInst.any fun p => !p "Diagonal" && !p "MatrixOperator") <;>
    simp [checksOf, solverTables, List.lookup, initResult, ClassCheck.fires, guardEval, errKind, h1, h2, h3, h4, h5]

/-- `CircularConvolveSolver`: `f = None`, or `SquaredL2Loss` with `A` a `CircularConvolve`/`Identity` (else `TypeError`) and an
    unweighted loss (`f.W` an `Identity`, else `ValueError`) -/
theorem C10_accepts_circular (F : InitFacts) :
    (initResult (checksOf solverTables "CircularConvolveSolver") F = .ok () ↔
      (F.fNone = true ∨ (F.isinst "admm.f" "SquaredL2Loss" = true ∧
        (F.isinst "admm.f.A" "CircularConvolve" = true ∨ F.isinst "admm.f.A" "Identity" = true) ∧ F.isinst "admm.f.W" "Identity" = true))) ∧
    (F.fNone = false → F.isinst "admm.f" "SquaredL2Loss" = true →
      (F.isinst "admm.f.A" "CircularConvolve" = true ∨ F.isinst "admm.f.A" "Identity" = true) → F.isinst "admm.f.W" "Identity" = false →
      initResult (checksOf solverTables "CircularConvolveSolver") F = .error "value") := by
  cases h1 : F.fNone <;> cases h2 : F.isinst "admm.f" "SquaredL2Loss" <;> cases h3 : F.isinst "admm.f.A" "CircularConvolve" <;>
    cases h4 : F.isinst "admm.f.A" "Identity" <;> cases h5 : F.isinst "admm.f.W" "Identity" <;>
    simp [checksOf, solverTables, List.lookup, initResult, ClassCheck.fires, guardEval, errKind, h1, h2, h3, h4, h5]

/-- `FBlockCircularConvolveSolver`: `f` must be given (`ValueError`), a `SquaredL2Loss` with `A` a `ComposedLinearOperator` (`TypeError`),
    unweighted (`ValueError`) -/
theorem C10_accepts_fblock (F : InitFacts) :
    (initResult (checksOf solverTables "FBlockCircularConvolveSolver") F = .ok () ↔
      (F.fNone = false ∧ F.isinst "admm.f" "SquaredL2Loss" = true ∧ F.isinst "admm.f.A" "ComposedLinearOperator" = true ∧
        F.isinst "admm.f.W" "Identity" = true)) ∧
    (F.fNone = true → initResult (checksOf solverTables "FBlockCircularConvolveSolver") F = .error "value") := by
  cases h1 : F.fNone <;> cases h2 : F.isinst "admm.f" "SquaredL2Loss" <;> cases h3 : F.isinst "admm.f.A" "ComposedLinearOperator" <;>
    cases h5 : F.isinst "admm.f.W" "Identity" <;>
    simp [checksOf, solverTables, List.lookup, initResult, ClassCheck.fires, guardEval, testEval, errKind, h1, h2, h3, h5]

/-- `G0BlockCircularConvolveSolver`: `f` is `None` or a `ZeroFunctional` (`ValueError`), `g₁` a `SquaredL2Loss`, `C₁` a
    `ComposedLinearOperator` (`TypeError`) -/
theorem C10_accepts_g0 (F : InitFacts) :
    initResult (checksOf solverTables "G0BlockCircularConvolveSolver") F = .ok () ↔
      ((F.fNone = true ∨ F.isinst "admm.f" "ZeroFunctional" = true) ∧ F.isinst "admm.g_list[0]" "SquaredL2Loss" = true ∧
        F.isinst "admm.C_list[0]" "ComposedLinearOperator" = true) := by
  cases h1 : F.fNone <;> cases h2 : F.isinst "admm.f" "ZeroFunctional" <;> cases h3 : F.isinst "admm.g_list[0]" "SquaredL2Loss" <;>
    cases h4 : F.isinst "admm.C_list[0]" "ComposedLinearOperator" <;>
    simp [checksOf, solverTables, List.lookup, initResult, ClassCheck.fires, guardEval, testEval, errKind, h1, h2, h3, h4]

-- non-vacuity: facts of an ADMM object with f = None and two Diagonal C_i are accepted by MatrixSubproblemSolver
example : initResult (checksOf solverTables "MatrixSubproblemSolver")
    { fNone := true, isinst := fun _ _ => false, ciInst := [fun c => c == "Diagonal", fun c => c == "Diagonal"] } = .ok () := by decide

end InitChecks

section MatrixSub
variable {K : Type} [Field K] [HasConj K] [HasIsZero K] {m n : Nat}

/-- **`MatrixSubproblemSolver`**: the factorisation solver is built for `A`, `W' = 2αW` and
    `D = Σ ρ_i C_iᴴC_i` (a 1-D `D` iff every `C_i` is a `Diagonal`), so that its documented system
    `(Aᴴ W' A + D) x = rhs` is the x-step normal equation. -/
theorem C10_assembly_matrix (scale : K) (A : Mat K m n) (W : Vec K m) (terms : List (K × COp K n)) (hne : terms ≠ []) :
    ∃ s, matrixSubATAD scale A W terms = some s ∧ s.A = A ∧ (∀ i, s.W i = 2 * scale * W i) ∧
      (∀ i j, s.D.entry i j = (terms.map fun t => t.1 * t.2.gramD.entry i j).sum) ∧
      (s.D.isDiag = true ↔ ∀ t ∈ terms, ∃ d, t.2 = .diag d) :=
  matrixSubATAD_spec scale A W terms hne

/-- **`MatrixSubproblemSolver` end to end**: `C10_assembly_matrix` composed with `C14_woodbury_matrix` — whatever path the
    factorisation solver takes, `solve` returns the solution of `(Aᴴ (2αW) A + Σ ρ_i C_iᴴ C_i) x = rhs`, given the factorisation
    contract and, on the Woodbury path, a 1-D `D = Σ ρ_i |c_i|²` without zero entry. -/
theorem C10_matrix_solver_end_to_end (hz : LawfulIsZero K) (scale : K) (A : Mat K m n) (W : Vec K m) (terms : List (K × COp K n))
    (s : ATAD K m n) (hs : matrixSubATAD scale A W terms = some s)
    (fsW : Vec K m → Vec K m) (fsD : Vec K n → Vec K n) (rhs : Vec K n)
    (hfsW : ∀ d, s.D = .diag d → ∀ c, LinSolve.mulVec (gWoodbury s.A d s.W) (fsW c) = c)
    (hfsD : ∀ c, LinSolve.mulVec (gDirect s.A s.D s.W) (fsD c) = c)
    (hnz : ∀ d, s.D = .diag d → s.useWoodbury = true → ∀ k, d k ≠ 0) :
    (Matrix.of (conjT A) * Matrix.diagonal (fun i => 2 * scale * W i) * Matrix.of A
        + Matrix.of (fun i j => (terms.map fun t => t.1 * t.2.gramD.entry i j).sum)) *ᵥ (s.solve fsW fsD rhs) = rhs :=
  matrixSub_solve_spec hz scale A W terms s hs fsW fsD rhs hfsW hfsD hnz

end MatrixSub

section NonVacuityEndToEnd
/- the solver object of a 1×2 problem (`A = [1 1]`, `α = ½`, `W = 1`, one `Diagonal` `C = I`, `ρ = 1`) exists and takes the
   Woodbury path; its factor-solve contract is met by `c ↦ c/3` (see the example in `Props/C14.lean`) -/
local instance : HasConj ℚ := ⟨id⟩
local instance : HasIsZero ℚ := ⟨fun x => decide (x = 0)⟩

example : ∃ s : ATAD ℚ 1 2, matrixSubATAD (1 / 2 : ℚ) (fun _ _ => 1) (fun _ => 1) [(1, COp.diag fun _ => 1)] = some s ∧
    s.D.isDiag = true ∧ ∀ i, s.W i = 1 := by
  refine ⟨_, rfl, rfl, ?_⟩
  intro i
  simp [two]; norm_num

-- a term list and a loss built from linear maps (V = U = Y = ℝ)
example : ∃ (f : LSqL2 ℝ ℝ ℝ) (t : LTerm ℝ ℝ ℝ), [t] ≠ [] ∧ f.scale = 2 :=
  ⟨⟨2, LinearMap.id, LinearMap.id, LinearMap.id, 1⟩, ⟨3, LinearMap.id, LinearMap.id, 1, 0⟩, by simp, rfl⟩
end NonVacuityEndToEnd

end Scico.Props.C10
