/-
  Property C16 — PGM step-size policies return the documented, usable step sizes.
  ONLY property theorems here (helpers: `Scico.Proofs.StepSize`, `Scico.Proofs.StepSizeEnv`).

  Scalars are the IEEE-extended numbers `XR K` over an arbitrary linear ordered field `K`
  (`fin a | pinf | ninf | nan`, division by an exact zero, NaN-false comparisons), so that
  "finite and strictly positive" (`PosFin`) is a statement with content; the control-flow theorems
  (`C16_linesearch_*`, `C16_apgm_point_*`) hold for every scalar type, `Float` included.
-/
import Scico.Proofs.StepSizeEnv
import Scico.Proofs.StepSizeRobust
import Scico.Proofs.StepSizeHist
import Scico.Proofs.StepSizeSpace
import Scico.Proofs.StepSizeNaN
import Scico.Proofs.StepSizeSource
import Mathlib.Analysis.InnerProductSpace.Basic
import Mathlib.Analysis.InnerProductSpace.PiL2
import Mathlib.Analysis.Complex.Basic

set_option linter.unusedSectionVars false

namespace Scico.Props.C16
open Scico Scico.StepSize Scico.StepSize.XR

variable {K : Type} [Field K] [LinearOrder K] [IsStrictOrderedRing K]

/-! ### Barzilai–Borwein -/

/-- `BBStepSize.update` (after the first call) returns the ratio `num/den` exactly when that
    ratio is a finite positive number, the previous `L` otherwise — for all inputs, `±inf` and
    NaN included. -/
theorem C16_bb_ratio (Lprev xg gg : XR K) [Decidable (PosFin (gg / xg))] :
    bbRule Lprev xg gg = if PosFin (gg / xg) then gg / xg else Lprev :=
  bbRule_eq Lprev xg gg

/-- For finite inner products `xg = Re⟨Δx,Δg⟩`, `gg = Re⟨Δg,Δg⟩ ≥ 0`: the documented ratio
    `⟨Δg,Δg⟩/⟨Δx,Δg⟩` if `⟨Δx,Δg⟩ > 0` and `Δg ≠ 0`; the previous value for orthogonal differences
    (`xg = 0`, where the quotient is `+inf`), repeated iterates (`0/0`), negative curvature. -/
theorem C16_bb_ratio_fin (Lprev : XR K) (xg gg : K) (hgg : 0 ≤ gg) :
    bbRule Lprev (fin xg) (fin gg) = if 0 < xg ∧ 0 < gg then fin (gg / xg) else Lprev := by
  rw [bbRule_fin]
  by_cases h : 0 < xg ∧ 0 < gg
  · rw [if_pos h, if_pos (Or.inl ⟨h.2, h.1⟩)]
  · rw [if_neg h, if_neg]
    rintro (⟨h1, h2⟩ | ⟨h1, _⟩)
    · exact h ⟨h2, h1⟩
    · exact absurd h1 (not_lt.2 hgg)

section inner

variable {E : Type} [NormedAddCommGroup E] [InnerProductSpace ℝ E]

-- `envOfSpace f grad prox smul` (`Proofs/StepSizeSpace.lean`): the solver's view of a problem on a real inner-product
-- space (`ℝⁿ`; `ℂⁿ` with `Re⟨·,·⟩`; block arrays = product spaces), exact arithmetic embedded in the extended reals

open Classical in
/-- `BBStepSize.update(v)` on a real inner-product space returns
    `‖Δg‖² / ⟨Δx, Δg⟩` with `Δx = v − x_prev`, `Δg = ∇f(v) − ∇f(x_prev)` when `⟨Δx,Δg⟩ > 0` and
    `Δg ≠ 0`, and the solver's current `L` otherwise; it stores `(v, ∇f(v))`. -/
theorem C16_bb_ratio_inner (f : E → ℝ) (grad : E → E) (prox : E → XR ℝ → E) (smul : XR ℝ → E → E)
    (x v xp : E) (L : XR ℝ) (ps : PolState E (XR ℝ)) (hprev : ps.prev = some (xp, grad xp)) :
    update (envOfSpace f grad prox smul) .bb x L ps v =
      some (if 0 < inner ℝ (v - xp) (grad v - grad xp) ∧ grad v - grad xp ≠ 0
              then fin (‖grad v - grad xp‖ ^ 2 / inner ℝ (v - xp) (grad v - grad xp)) else L,
            { ps with prev := some (v, grad v) }) := by
  simp only [update, hprev, envOfSpace]
  rw [C16_bb_ratio_fin _ _ _ real_inner_self_nonneg, real_inner_self_eq_norm_sq]
  congr 2
  have key : (0 < ‖grad v - grad xp‖ ^ 2) ↔ grad v - grad xp ≠ 0 := by
    rw [← norm_pos_iff]
    constructor
    · intro h
      by_contra hn
      have h0 : ‖grad v - grad xp‖ = 0 := le_antisymm (not_lt.1 hn) (norm_nonneg _)
      rw [h0] at h
      norm_num at h
    · intro h; positivity
  by_cases hc : 0 < inner ℝ (v - xp) (grad v - grad xp) ∧ grad v - grad xp ≠ 0
  · rw [if_pos hc, if_pos ⟨hc.1, key.2 hc.2⟩]
  · rw [if_neg hc, if_neg (fun h => hc ⟨h.1, key.1 h.2⟩)]

end inner

/-! ### adaptive Barzilai–Borwein -/

/-- When the three inner products are finite and positive, `AdaptiveBBStepSize.update` returns
    `1/α` for the documented `α = α_BB2 if α_BB2/α_BB1 < κ else α_BB1`
    (`α_BB1 = ⟨Δx,Δx⟩/⟨Δx,Δg⟩`, `α_BB2 = ⟨Δx,Δg⟩/⟨Δg,Δg⟩`) and remembers `1/α_BB1`, `1/α_BB2`. -/
theorem C16_adaptive_bb (k : K) (Lprev : XR K) (m1 m2 : Option (XR K)) {xx xg gg : K}
    (hxx : 0 < xx) (hxg : 0 < xg) (hgg : 0 < gg) :
    abbRule (fin k) Lprev m1 m2 (fin xx) (fin xg) (fin gg) =
      (fin (1 / abbAlpha k xx xg gg), some (fin (xg / xx)), some (fin (gg / xg))) :=
  abbRule_documented k Lprev m1 m2 hxx hxg hgg

/-- In general (any inputs): each of the two estimates is the freshly computed ratio if usable
    (finite, positive), the remembered one otherwise; the `κ` rule is applied when both exist, and the
    previous `L` is kept when one of them has never been usable. -/
theorem C16_adaptive_bb_rule (κ Lprev : XR K) (m1 m2 : Option (XR K)) (xx xg gg : XR K) :
    abbRule κ Lprev m1 m2 xx xg gg =
      (abbSelect κ Lprev (keep m1 (xg / xx)) (keep m2 (gg / xg)), keep m1 (xg / xx), keep m2 (gg / xg)) :=
  abbRule_eq κ Lprev m1 m2 xx xg gg

/-- The memory after any history of calls holds the most recent usable value of each ratio
    (`none` if there never was one). -/
theorem C16_adaptive_bb_memory (h : List (XR K × XR K × XR K)) :
    abbMem (none, none) h =
      (lastUsable (h.map fun c => c.2.1 / c.1), lastUsable (h.map fun c => c.2.2 / c.2.1)) := by
  rw [abbMem_eq]
  congr 1
  · cases lastUsable (h.map fun c => c.2.1 / c.1) <;> rfl
  · cases lastUsable (h.map fun c => c.2.2 / c.2.1) <;> rfl

/-! ### every policy keeps `L` finite and positive -/

section posfin

variable {V : Type} [HasSqrt K]

/-- `PGM`: for every problem (any `f`, `∇f`, prox, inner product — even returning `inf`/NaN), every
    policy with `γ_u, γ_d` finite positive, every `κ`, every `maxiter`, every number of steps:
    if `L₀` is finite and positive then so is `L` after every step that completes. -/
theorem C16_positive_finite_pgm (env : Env V (XR K)) (pol : Policy (XR K)) (hpol : PolOK pol)
    (x0 : V) (L0 inf : XR K) (hL0 : PosFin L0) (k : Nat) (s : PGMState V (XR K))
    (h : iterate (pgmStep env pol) k (PGMState.init x0 L0 inf) = some s) : PosFin s.L :=
  (iterate_inv _ (fun _ _ hs hstep => pgmStep_inv env pol hpol hs hstep) k _ _ (init_inv x0 hL0 inf) h).1

/-- the same for `AcceleratedPGM` -/
theorem C16_positive_finite_apgm (env : Env V (XR K)) (pol : Policy (XR K)) (hpol : PolOK pol)
    (x0 : V) (L0 inf : XR K) (hL0 : PosFin L0) (k : Nat) (s : PGMState V (XR K))
    (h : iterate (apgmStep env pol) k (PGMState.init x0 L0 inf) = some s) : PosFin s.L :=
  (iterate_inv _ (fun _ _ hs hstep => apgmStep_inv env pol hpol hs hstep) k _ _ (init_inv x0 hL0 inf) h).1

/-- a single `update` call of any policy, from any policy state whose memory is usable -/
theorem C16_positive_finite_update (env : Env V (XR K)) (pol : Policy (XR K)) (hpol : PolOK pol) (x v : V)
    (L : XR K) (ps : PolState V (XR K)) (hL : PosFin L) (h1 : OptPos ps.l1) (h2 : OptPos ps.l2)
    (L' : XR K) (ps' : PolState V (XR K)) (h : update env pol x L ps v = some (L', ps')) : PosFin L' :=
  (update_posFin env pol hpol x ps v hL h1 h2 h).1

/-- the only call that does not complete is a robust line search with `maxiter = 0` -/
theorem C16_update_raises_iff (env : Env V (XR K)) (pol : Policy (XR K)) (x v : V) (L : XR K)
    (ps : PolState V (XR K)) :
    update env pol x L ps v = none ↔ ∃ γd γu, pol = .rls γd γu 0 := by
  cases pol with
  | rls γd γu m =>
    rw [update_rls_none_iff]
    constructor
    · rintro rfl; exact ⟨γd, γu, rfl⟩
    · rintro ⟨_, _, h⟩; cases h; rfl
  | base => simp [update]
  | bb => cases hp : ps.prev <;> simp [update, hp]
  | abb κ => cases hp : ps.prev <;> simp [update, hp]
  | ls γu m =>
    simp only [update]
    split <;> simp

end posfin

/-! ### line searches -/

section search

variable {V S : Type} [Zero S] [One S] [Add S] [Sub S] [Mul S] [Div S] [LE S] [DecidableLE S] [LT S]
  [DecidableLT S] [IEEE S] [HasSqrt S]

/-- The search loop returns `L·γ_u^k` for the least `k < maxiter` whose trial is accepted — the last
    value tried (`k = maxiter − 1`) if none is — together with the data computed *with that value*,
    after `k+1` trials.  (Any scalar type; induction on the fuel.) -/
theorem C16_linesearch_first {β : Type} (γu : S) (trial : Nat → S → β) (ok : S → β → Bool)
    (maxiter : Nat) (L L' : S) (b : β) (n : Nat)
    (h : searchLoop γu trial ok maxiter 0 L = some (L', b, n)) :
    ∃ k, k < maxiter ∧ n = k + 1 ∧ L' = geom L γu k ∧ b = trial k L' ∧
      (∀ j, j < k → ok (geom L γu j) (trial j (geom L γu j)) = false) ∧
      (ok L' b = true ∨ k + 1 = maxiter) := by
  obtain ⟨k, h1, h2, h3, h4, h5, h6⟩ := searchLoop_spec γu trial ok maxiter 0 L L' b n h
  refine ⟨k, h1, by omega, h3, by simpa using h4, ?_, h6⟩
  intro j hj
  simpa using h5 j hj

/-- over the extended reals the returned value is the finite number `L₀·γ_u^k` -/
theorem C16_linesearch_value (l0 g : K) (k : Nat) : geom (fin l0 : XR K) (fin g) k = fin (l0 * g ^ k) :=
  geom_fin l0 g k

/-- `LineSearchStepSize.update(v)`: `L·γ_u^k` for the least `k < maxiter` with
    `f(z) ≤ f̂(z, v)` at `z = x_step(v, L·γ_u^k)`, the last value tried if there is none
    (`maxiter = 0`: `L` unchanged, nothing tried). -/
theorem C16_linesearch_update (env : Env V S) (γu : S) (maxiter : Nat) (x : V) (L : S)
    (ps : PolState V S) (v : V) (L' : S) (ps' : PolState V S)
    (h : update env (.ls γu maxiter) x L ps v = some (L', ps')) :
    (maxiter = 0 ∧ L' = L ∧ ps'.tried = 0) ∨
    ∃ k, k < maxiter ∧ L' = geom L γu k ∧ ps'.tried = k + 1 ∧
      (∀ j, j < k → ¬ Accept env v (geom L γu j)) ∧ (Accept env v L' ∨ k + 1 = maxiter) :=
  update_ls env γu maxiter x L ps v L' ps' h

/-- the iterate `PGM.step` produces with a line search is the candidate that was tested with the
    returned `L` -/
theorem C16_linesearch_candidate (env : Env V S) (pol : Policy S) (s s' : PGMState V S)
    (h : pgmStep env pol s = some s') : s'.x = xstep env s.x s'.L := by
  unfold pgmStep at h
  split at h
  · cases h
  · simp only [Option.some.injEq] at h
    subst h
    rfl

/-- `RobustLineSearchStepSize.update`: starts from `γ_d·L`; returns `γ_d·L·γ_u^k` for the least
    accepted `k < maxiter` (last tried otherwise); the candidate `Z` handed back, the new `T_k` and the
    update of the auxiliary sequence `Zrb` are all computed with the returned value. -/
theorem C16_linesearch_robust (env : Env V S) (γd γu : S) (maxiter : Nat) (x : V) (L : S)
    (ps : PolState V S) (v : V) (L' : S) (ps' : PolState V S)
    (h : update env (.rls γd γu maxiter) x L ps v = some (L', ps')) :
    ∃ k, k < maxiter ∧ L' = geom (L * γd) γu k ∧ ps'.tried = k + 1 ∧
      (∀ j, j < k → ¬ AcceptR env x ps.Tk (zrbOf ps x) (geom (L * γd) γu j)) ∧
      (AcceptR env x ps.Tk (zrbOf ps x) L' ∨ k + 1 = maxiter) ∧
      ps'.Z = some (rlsTrial env x ps.Tk (zrbOf ps x) L').2.2.2 ∧
      ps'.Tk = (rlsTrial env x ps.Tk (zrbOf ps x) L').2.1 ∧
      ps'.Zrb = some (env.add (zrbOf ps x) (env.smul ((rlsTrial env x ps.Tk (zrbOf ps x) L').1 * L')
        (env.sub (rlsTrial env x ps.Tk (zrbOf ps x) L').2.2.2 (rlsTrial env x ps.Tk (zrbOf ps x) L').2.2.1))) :=
  update_rls env γd γu maxiter x L ps v L' ps' h (zrbOf ps x) rfl

/-! ### which point each policy is evaluated at in accelerated PGM -/

/-- Barzilai–Borwein policies see the *iterate* `x_k` (differences of successive iterates), the
    gradient step is then taken from the extrapolation `v_k` with the new `L`. -/
theorem C16_apgm_point_bb (env : Env V S) (pol : Policy S) (hpol : pol.isBB = true) (s s' : PGMState V S)
    (h : apgmStep env pol s = some s') :
    update env pol s.x s.L s.ps s.x = some (s'.L, s'.ps) ∧ s'.x = xstep env s.v s'.L := by
  unfold apgmStep at h
  simp only [apgmPoint, hpol, if_true] at h
  split at h
  · cases h
  · rename_i L ps hu
    cases pol with
    | rls _ _ _ => simp [Policy.isBB] at hpol
    | base => simp [Policy.isBB] at hpol
    | ls _ _ => simp [Policy.isBB] at hpol
    | bb => simp only [Option.some.injEq] at h; subst h; exact ⟨hu, rfl⟩
    | abb κ => simp only [Option.some.injEq] at h; subst h; exact ⟨hu, rfl⟩

/-- The base policy and the line search see the *extrapolation* `v_k`; the new iterate is
    `x_step(v_k, L)` (for the line search: the candidate tested with the returned `L`), and the
    extrapolation is `v' = x' + ((t−1)/t')(x' − x)` with `t' = (1+√(1+4t²))/2`. -/
theorem C16_apgm_point_v (env : Env V S) (pol : Policy S) (hpol : pol = .base ∨ ∃ γu m, pol = .ls γu m)
    (s s' : PGMState V S) (h : apgmStep env pol s = some s') :
    update env pol s.x s.L s.ps s.v = some (s'.L, s'.ps) ∧ s'.x = xstep env s.v s'.L ∧
      s'.t = half * (1 + sqrt (1 + four * (s.t * s.t))) ∧
      s'.v = env.add s'.x (env.smul ((s.t - 1) / s'.t) (env.sub s'.x s.x)) := by
  unfold apgmStep at h
  have hbb : pol.isBB = false := by
    rcases hpol with rfl | ⟨_, _, rfl⟩ <;> rfl
  simp only [apgmPoint, hbb, Bool.false_eq_true, if_false] at h
  split at h
  · cases h
  · rename_i L ps hu
    rcases hpol with rfl | ⟨γu, m, rfl⟩
    · simp only [Option.some.injEq] at h; subst h; exact ⟨hu, rfl, rfl, rfl⟩
    · simp only [Option.some.injEq] at h; subst h; exact ⟨hu, rfl, rfl, rfl⟩

/-- The robust line search is called with `v_k` but computes its own auxiliary point; the new
    iterate is the candidate `Z` it hands back, and `v`, `t` are left untouched. -/
theorem C16_apgm_point_robust (env : Env V S) (γd γu : S) (m : Nat) (s s' : PGMState V S)
    (h : apgmStep env (.rls γd γu m) s = some s') :
    update env (.rls γd γu m) s.x s.L s.ps s.v = some (s'.L, s'.ps) ∧ s'.ps.Z = some s'.x ∧
      s'.v = s.v ∧ s'.t = s.t := by
  unfold apgmStep at h
  simp only [apgmPoint, Policy.isBB, Bool.false_eq_true, if_false] at h
  split at h
  · cases h
  · rename_i L ps hu
    split at h
    · cases h
    · rename_i z hz
      simp only [Option.some.injEq] at h
      subst h
      exact ⟨hu, hz, rfl, rfl⟩

end search

/-! ## round 2: complex data, whole call histories, the robust search's auxiliary sequences -/

section complex
open ComplexConjugate

theorem C16_bb_ratio_complex {n : Nat} (f : EuclideanSpace ℂ (Fin n) → ℝ)
    (grad : EuclideanSpace ℂ (Fin n) → EuclideanSpace ℂ (Fin n))
    (prox : EuclideanSpace ℂ (Fin n) → XR ℝ → EuclideanSpace ℂ (Fin n))
    (smul : XR ℝ → EuclideanSpace ℂ (Fin n) → EuclideanSpace ℂ (Fin n))
    (x v xp : EuclideanSpace ℂ (Fin n)) (L : XR ℝ) (ps : PolState (EuclideanSpace ℂ (Fin n)) (XR ℝ))
    (hprev : ps.prev = some (xp, grad xp)) [Decidable (0 < (∑ i, conj ((v - xp) i) * (grad v - grad xp) i).re ∧ grad v - grad xp ≠ 0)] :
    update (envOfSpace f grad prox smul) .bb x L ps v =
      some (if 0 < (∑ i, conj ((v - xp) i) * (grad v - grad xp) i).re ∧ grad v - grad xp ≠ 0
              then fin ((∑ i, ‖(grad v - grad xp) i‖ ^ 2) / (∑ i, conj ((v - xp) i) * (grad v - grad xp) i).re) else L,
            { ps with prev := some (v, grad v) }) := by
  have hin : ∀ a b : EuclideanSpace ℂ (Fin n), inner ℝ a b = (∑ i, conj (a i) * b i).re := by
    intro a b
    rw [PiLp.inner_apply, Complex.re_sum]
    apply Finset.sum_congr rfl
    intro i _
    rw [Complex.inner, mul_comm]
  rw [C16_bb_ratio_inner f grad prox smul x v xp L ps hprev, hin, EuclideanSpace.norm_sq_eq]
  congr 2
  split <;> rfl

end complex

/-! ### adaptive BB along a whole call history of the policy object -/

section history
variable {K : Type} [Field K] [LinearOrder K] [IsStrictOrderedRing K] [HasSqrt K] {V : Type}

/-- `AdaptiveBBStepSize`: after the calls `update(v₀), update(v₁), …, update(vₙ)` of a fresh policy object — for any
    problem (`Env`), any `κ`, whatever `pgm.L` was at each call — every call completes and the object's memory
    `(Lbb1prev, Lbb2prev)` holds the most recent usable value of `⟨Δx,Δg⟩/⟨Δx,Δx⟩` resp. `⟨Δg,Δg⟩/⟨Δx,Δg⟩` over the
    consecutive pairs of call points (`none` if no pair ever gave a usable one). -/
theorem C16_adaptive_bb_history (env : Env V (XR K)) (κ : XR K) (x v0 : V) (L0 : XR K) (calls : List (V × XR K)) :
    ∃ ps', runCalls env (.abb κ) x PolState.init ((v0, L0) :: calls) = some ps' ∧
      ps'.l1 = lastUsable ((ipsAlong env v0 calls).map fun c => c.2.1 / c.1) ∧
      ps'.l2 = lastUsable ((ipsAlong env v0 calls).map fun c => c.2.2 / c.2.1) := by
  obtain ⟨ps', h1, h2⟩ := runCalls_abb_init env κ x v0 L0 calls
  rw [C16_adaptive_bb_memory] at h2
  exact ⟨ps', h1, (Prod.mk.inj h2).1, (Prod.mk.inj h2).2⟩

end history

/-! ### the auxiliary sequences of the robust line search (Florea–Vorobyov estimate sequence) -/

section robust
variable {V : Type}

/-- One trial of the robust search with the value `L > 0` and `T_k ≥ 0` (exact arithmetic): the step
    `t = (1+√(1+4LT_k))/(2L)` is at least `1/L`, satisfies the estimate-sequence identity `L·t² = T_k + t = T`, and the
    weights `T_k/T`, `t/T` of the auxiliary point `y = (T_k·x + t·Zrb)/T` are non-negative and sum to one. -/
theorem C16_robust_trial (env : Env V ℝ) (x Zrb : V) (Tk L : ℝ) (hL : 0 < L) (hT : 0 ≤ Tk) :
    let r := rlsTrial env x Tk Zrb L
    1 / L ≤ r.1 ∧ r.2.1 = Tk + r.1 ∧ L * r.1 ^ 2 = r.2.1 ∧ 0 ≤ Tk / r.2.1 ∧ 0 < r.1 / r.2.1 ∧ Tk / r.2.1 + r.1 / r.2.1 = 1 := by
  intro r
  obtain ⟨h1, h2⟩ := rlsTrial_fst env x Tk Zrb L
  obtain ⟨a, b, c, d⟩ := rlsT_spec Tk L hL hT
  have hr1 : r.1 = rlsT Tk L := h1
  have hr2 : r.2.1 = Tk + rlsT Tk L := h2
  have hpos : 0 < Tk + rlsT Tk L := by linarith
  rw [hr1, hr2]
  refine ⟨a, rfl, c, div_nonneg hT (le_of_lt hpos), div_pos b hpos, ?_⟩
  rw [← add_div, div_self (ne_of_gt hpos)]

open Classical in
/-- **Invariant along every accelerated-PGM run with the robust line search** (any problem, any `γ_d, γ_u > 0`, any
    budget, any number of steps, `L₀ > 0`): `L > 0` and `T_k ≥ 0` hold after every step, and each further step
    produces `L_{k+1} > 0`, `T_{k+1} > T_k` with `L_{k+1}·(T_{k+1} − T_k)² = T_{k+1}` — the identity of the
    Florea–Vorobyov estimate sequence, for the `L` that is *returned* (with which the handed-back candidate and the
    update of `Zrb` are computed, `C16_linesearch_robust`). -/
theorem C16_robust_estimate_sequence (env : Env V ℝ) (γd γu : ℝ) (m : Nat) (hγd : 0 < γd) (hγu : 0 < γu)
    (x0 : V) (L0 inf : ℝ) (hL0 : 0 < L0) (k : Nat) (s s' : PGMState V ℝ)
    (h : iterate (apgmStep env (.rls γd γu m)) k (PGMState.init x0 L0 inf) = some s)
    (h' : apgmStep env (.rls γd γu m) s = some s') :
    0 < s.L ∧ 0 ≤ s.ps.Tk ∧ 0 < s'.L ∧ s.ps.Tk < s'.ps.Tk ∧ s'.L * (s'.ps.Tk - s.ps.Tk) ^ 2 = s'.ps.Tk := by
  have hinv : 0 < s.L ∧ 0 ≤ s.ps.Tk := by
    refine iterate_pred (apgmStep env (.rls γd γu m)) (fun s => 0 < s.L ∧ 0 ≤ s.ps.Tk) ?_ k _ s ?_ h
    · intro s1 s2 hs hstep
      obtain ⟨a, b, _⟩ := apgmStep_rls_seq env γd γu m hγd hγu s1 s2 hs.1 hs.2 hstep
      exact ⟨a, le_trans hs.2 (le_of_lt b)⟩
    · exact ⟨hL0, le_refl (0 : ℝ)⟩
  obtain ⟨a, b, c⟩ := apgmStep_rls_seq env γd γu m hγd hγu s s' hinv.1 hinv.2 h'
  exact ⟨hinv.1, hinv.2, a, b, c⟩

-- non-vacuity: T_k = 2, L = 1: t = (1+√9)/2 = 2, T = 4 = L·t²
example : rlsT 2 1 = 2 := by
  unfold rlsT
  have : Real.sqrt (1 + 4 * 1 * 2) = 3 := by
    rw [show (1 + 4 * 1 * 2 : ℝ) = 3 ^ 2 by norm_num]; exact Real.sqrt_sq (by norm_num)
  rw [this]; norm_num

end robust


/-! ### the Barzilai–Borwein values and the curvature of `f` -/

section bbbounds
variable {E : Type} [NormedAddCommGroup E] [InnerProductSpace ℝ E]

open Classical in
/-- **The Barzilai–Borwein value lies between the curvature bounds of `f`.**  If along the step
    `μ‖Δx‖² ≤ ⟨Δx,Δg⟩` (strong monotonicity of `∇f`, `μ > 0`) and `‖Δg‖² ≤ Lf·⟨Δx,Δg⟩` (co-coercivity: `f` convex with
    `Lf`-Lipschitz gradient) with `Δx ≠ 0`, then `BBStepSize.update` does not fall back and returns a value in `[μ, Lf]`. -/
theorem C16_bb_between (f : E → ℝ) (grad : E → E) (prox : E → XR ℝ → E) (smul : XR ℝ → E → E)
    (x v xp : E) (L : XR ℝ) (ps : PolState E (XR ℝ)) (hprev : ps.prev = some (xp, grad xp)) (μ Lf : ℝ) (hμ : 0 < μ)
    (hx : v - xp ≠ 0)
    (hmono : μ * ‖v - xp‖ ^ 2 ≤ inner ℝ (v - xp) (grad v - grad xp))
    (hcoco : ‖grad v - grad xp‖ ^ 2 ≤ Lf * inner ℝ (v - xp) (grad v - grad xp)) :
    ∃ l : ℝ, update (envOfSpace f grad prox smul) .bb x L ps v = some (fin l, { ps with prev := some (v, grad v) }) ∧
      μ ≤ l ∧ l ≤ Lf := by
  set dx := v - xp with hdx
  set dg := grad v - grad xp with hdg
  have hxx : 0 < ‖dx‖ ^ 2 := by have := norm_pos_iff.2 hx; positivity
  have hxg : 0 < inner ℝ dx dg := lt_of_lt_of_le (mul_pos hμ hxx) hmono
  have hdg0 : dg ≠ 0 := by
    intro h0
    rw [h0, inner_zero_right] at hxg
    exact lt_irrefl _ hxg
  refine ⟨‖dg‖ ^ 2 / inner ℝ dx dg, ?_, ?_, ?_⟩
  · rw [C16_bb_ratio_inner f grad prox smul x v xp L ps hprev, if_pos ⟨hxg, hdg0⟩]
  · -- Cauchy–Schwarz: ⟨dx,dg⟩² ≤ ‖dx‖²‖dg‖²
    rw [le_div_iff₀ hxg]
    have hcs : inner ℝ dx dg * inner ℝ dx dg ≤ ‖dx‖ ^ 2 * ‖dg‖ ^ 2 := by
      have h1 := real_inner_mul_inner_self_le dx dg
      rw [real_inner_self_eq_norm_sq, real_inner_self_eq_norm_sq] at h1
      exact h1
    -- μ⟨⟩‖dx‖² ≤ ⟨⟩² ≤ ‖dx‖²‖dg‖²  ⇒  μ⟨⟩ ≤ ‖dg‖²
    have h2 : μ * inner ℝ dx dg * ‖dx‖ ^ 2 ≤ ‖dg‖ ^ 2 * ‖dx‖ ^ 2 := by
      calc μ * inner ℝ dx dg * ‖dx‖ ^ 2 = (μ * ‖dx‖ ^ 2) * inner ℝ dx dg := by ring
        _ ≤ inner ℝ dx dg * inner ℝ dx dg := mul_le_mul_of_nonneg_right hmono (le_of_lt hxg)
        _ ≤ ‖dx‖ ^ 2 * ‖dg‖ ^ 2 := hcs
        _ = ‖dg‖ ^ 2 * ‖dx‖ ^ 2 := by ring
    exact le_of_mul_le_mul_right h2 hxx
  · rw [div_le_iff₀ hxg]
    exact hcoco

/-- The two Barzilai–Borwein estimates are ordered (Cauchy–Schwarz): `⟨Δx,Δg⟩/‖Δx‖² ≤ ‖Δg‖²/⟨Δx,Δg⟩` whenever
    `⟨Δx,Δg⟩ > 0`, so the quantity `α_BB2/α_BB1 = L_BB1/L_BB2` compared with `κ` lies in `(0, 1]` (the reason for
    `κ ∈ (0,1)`), and the value `AdaptiveBBStepSize.update` returns lies between the two estimates. -/
theorem C16_adaptive_bb_order (dx dg : E) (hxg : 0 < inner ℝ dx dg) (k : ℝ) (Lprev : XR ℝ) (m1 m2 : Option (XR ℝ)) :
    inner ℝ dx dg / ‖dx‖ ^ 2 ≤ ‖dg‖ ^ 2 / inner ℝ dx dg ∧
    0 < (inner ℝ dx dg / ‖dx‖ ^ 2) / (‖dg‖ ^ 2 / inner ℝ dx dg) ∧
    (inner ℝ dx dg / ‖dx‖ ^ 2) / (‖dg‖ ^ 2 / inner ℝ dx dg) ≤ 1 ∧
    ∃ l : ℝ, (abbRule (fin k) Lprev m1 m2 (fin (‖dx‖ ^ 2)) (fin (inner ℝ dx dg)) (fin (‖dg‖ ^ 2))).1 = fin l ∧
      inner ℝ dx dg / ‖dx‖ ^ 2 ≤ l ∧ l ≤ ‖dg‖ ^ 2 / inner ℝ dx dg := by
  have hdx : dx ≠ 0 := by rintro rfl; simp at hxg
  have hdg : dg ≠ 0 := by rintro rfl; simp at hxg
  have hxx : 0 < ‖dx‖ ^ 2 := by have := norm_pos_iff.2 hdx; positivity
  have hgg : 0 < ‖dg‖ ^ 2 := by have := norm_pos_iff.2 hdg; positivity
  have hcs : inner ℝ dx dg * inner ℝ dx dg ≤ ‖dx‖ ^ 2 * ‖dg‖ ^ 2 := by
    have h1 := real_inner_mul_inner_self_le dx dg
    rw [real_inner_self_eq_norm_sq, real_inner_self_eq_norm_sq] at h1
    exact h1
  have hord : inner ℝ dx dg / ‖dx‖ ^ 2 ≤ ‖dg‖ ^ 2 / inner ℝ dx dg := by
    rw [div_le_div_iff₀ hxx hxg]; linarith [hcs]
  have h1 : 0 < inner ℝ dx dg / ‖dx‖ ^ 2 := div_pos hxg hxx
  have h2 : 0 < ‖dg‖ ^ 2 / inner ℝ dx dg := div_pos hgg hxg
  refine ⟨hord, div_pos h1 h2, (div_le_one h2).2 hord, ?_⟩
  rw [C16_adaptive_bb k Lprev m1 m2 hxx hxg hgg]
  unfold abbAlpha
  split
  · exact ⟨1 / (inner ℝ dx dg / ‖dg‖ ^ 2), rfl, by rw [one_div_div]; exact hord, by rw [one_div_div]⟩
  · exact ⟨1 / (‖dx‖ ^ 2 / inner ℝ dx dg), rfl, by rw [one_div_div], by rw [one_div_div]; exact hord⟩

-- non-vacuity of the hypotheses of `C16_bb_between`: f(x) = x² on ℝ (∇f = 2x), Δx = 1, Δg = 2, μ = Lf = 2
example : (2 : ℝ) * ‖(1 : ℝ)‖ ^ 2 ≤ inner ℝ (1 : ℝ) (2 : ℝ) ∧ ‖(2 : ℝ)‖ ^ 2 ≤ 2 * inner ℝ (1 : ℝ) (2 : ℝ) := by
  constructor
  · simp
  · simp; norm_num

end bbbounds

/-! ### the line search and the curvature of `f` -/

section descent
variable {E : Type} [NormedAddCommGroup E] [InnerProductSpace ℝ E]

/-- **The values a line search rejects lie below the curvature of `f`.**  If `f` satisfies the quadratic upper bound with
    constant `Lf` (descent lemma: `f(y) ≤ f(x) + ⟨∇f(x), y−x⟩ + (Lf/2)‖y−x‖²`, e.g. `∇f` `Lf`-Lipschitz), then every `M ≥ Lf` is
    accepted whatever the prox; hence `LineSearchStepSize.update` returns `L` itself or a value `L·γ_u^k` whose predecessor
    `L·γ_u^(k−1)` is `< Lf`: the returned reciprocal step never exceeds `max(L, γ_u·Lf)` — for any budget. -/
theorem C16_linesearch_bounded (f : E → ℝ) (grad : E → E) (prox : E → XR ℝ → E) (smul : XR ℝ → E → E) (Lf : ℝ)
    (hdesc : ∀ x y : E, f y ≤ f x + inner ℝ (grad x) (y - x) + Lf / 2 * (‖y - x‖ * ‖y - x‖))
    (l0 g : ℝ) (maxiter : Nat) (x v : E) (ps ps' : PolState E (XR ℝ)) (L' : XR ℝ)
    (h : update (envOfSpace f grad prox smul) (.ls (fin g) maxiter) x (fin l0) ps v = some (L', ps')) :
    (∀ m : ℝ, Lf ≤ m → Accept (envOfSpace f grad prox smul) v (fin m)) ∧
    ∃ k, L' = fin (l0 * g ^ k) ∧ (k = 0 ∨ l0 * g ^ (k - 1) < Lf) ∧ ∀ j, j < k → l0 * g ^ j < Lf := by
  have hacc : ∀ m : ℝ, Lf ≤ m → Accept (envOfSpace f grad prox smul) v (fin m) := by
    intro m hm
    rw [accept_iff]
    generalize xstep (envOfSpace f grad prox smul) v (fin m) = z
    have h1 := hdesc v z
    have h2 : Lf / 2 * (‖z - v‖ * ‖z - v‖) ≤ 1 / 2 * m * (‖z - v‖ * ‖z - v‖) := by
      have : 0 ≤ ‖z - v‖ * ‖z - v‖ := mul_self_nonneg _
      nlinarith
    linarith
  refine ⟨hacc, ?_⟩
  have hrej : ∀ j, ¬ Accept (envOfSpace f grad prox smul) v (geom (fin l0) (fin g) j) → l0 * g ^ j < Lf := by
    intro j hj
    rw [C16_linesearch_value] at hj
    by_contra hc
    exact hj (hacc _ (not_lt.1 hc))
  rcases C16_linesearch_update _ _ _ _ _ _ _ _ _ h with ⟨_, hL, _⟩ | ⟨k, _, hL, _, hall, _⟩
  · exact ⟨0, by rw [hL]; simp, Or.inl rfl, fun j hj => absurd hj (Nat.not_lt_zero j)⟩
  · refine ⟨k, by rw [hL, C16_linesearch_value], ?_, fun j hj => hrej j (hall j hj)⟩
    rcases Nat.eq_zero_or_pos k with hk | hk
    · exact Or.inl hk
    · exact Or.inr (hrej (k - 1) (hall (k - 1) (by omega)))

/-- … and when the budget reaches the curvature (`Lf ≤ L·γ_u^j` for some `j < maxiter`) the value returned is an
    *accepted* one — the search does not end on "last value tried". -/
theorem C16_linesearch_succeeds (f : E → ℝ) (grad : E → E) (prox : E → XR ℝ → E) (smul : XR ℝ → E → E) (Lf : ℝ)
    (hdesc : ∀ x y : E, f y ≤ f x + inner ℝ (grad x) (y - x) + Lf / 2 * (‖y - x‖ * ‖y - x‖))
    (l0 g : ℝ) (maxiter : Nat) (x v : E) (ps ps' : PolState E (XR ℝ)) (L' : XR ℝ)
    (h : update (envOfSpace f grad prox smul) (.ls (fin g) maxiter) x (fin l0) ps v = some (L', ps'))
    (hreach : ∃ j, j < maxiter ∧ Lf ≤ l0 * g ^ j) :
    Accept (envOfSpace f grad prox smul) v L' := by
  obtain ⟨hacc, _⟩ := C16_linesearch_bounded f grad prox smul Lf hdesc l0 g maxiter x v ps ps' L' h
  obtain ⟨j0, hj0, hL⟩ := hreach
  rcases C16_linesearch_update _ _ _ _ _ _ _ _ _ h with ⟨h0, _, _⟩ | ⟨k, hk, hL', _, hall, hend⟩
  · omega
  · rcases hend with ha | hlast
    · exact ha
    · rw [hL', C16_linesearch_value]
      by_cases hc : Lf ≤ l0 * g ^ k
      · exact hacc _ hc
      · -- every value of the budget would be below Lf, contradicting `hreach`
        exfalso
        have hj : j0 ≤ k := by omega
        rcases Nat.lt_or_eq_of_le hj with hlt | heq
        · have hrej := hall j0 hlt
          rw [C16_linesearch_value] at hrej
          exact hrej (hacc _ hL)
        · rw [heq] at hL; exact hc hL

-- non-vacuity of the descent hypothesis: f(x) = x²/2 on ℝ, ∇f = id, Lf = 1 (equality holds)
example : ∀ x y : ℝ, y ^ 2 / 2 ≤ x ^ 2 / 2 + inner ℝ x (y - x) + 1 / 2 * (‖y - x‖ * ‖y - x‖) := by
  intro x y
  have h : inner ℝ x (y - x) = (y - x) * x := by simp [mul_comm]
  rw [h, Real.norm_eq_abs, abs_mul_abs_self]
  nlinarith

end descent

/-! ## round 3 -/

section pgmrobust
variable {V S : Type} [Zero S] [One S] [Add S] [Sub S] [Mul S] [Div S] [LE S] [DecidableLE S] [LT S]
  [DecidableLT S] [IEEE S] [HasSqrt S]

/-- **Plain `PGM` with `RobustLineSearchStepSize`** (the class is documented for accelerated PGM, but `PGM` accepts it):
    the policy runs its search from `γ_d·L` at its own auxiliary point `y` and stores the accepted candidate in `Z`, but
    `PGM.step` ignores `Z` — the new iterate is `x_step(x, L')` with the `L'` that was tested at `y`, not at `x`. -/
theorem C16_pgm_robust (env : Env V S) (γd γu : S) (m : Nat) (s s' : PGMState V S)
    (h : pgmStep env (.rls γd γu m) s = some s') :
    update env (.rls γd γu m) s.x s.L s.ps s.x = some (s'.L, s'.ps) ∧
    s'.x = xstep env s.x s'.L ∧
    s'.ps.Z = some (rlsTrial env s.x s.ps.Tk (zrbOf s.ps s.x) s'.L).2.2.2 ∧
    (rlsTrial env s.x s.ps.Tk (zrbOf s.ps s.x) s'.L).2.2.2 =
      xstep env (rlsTrial env s.x s.ps.Tk (zrbOf s.ps s.x) s'.L).2.2.1 s'.L := by
  unfold pgmStep at h
  split at h
  · cases h
  · rename_i L ps hu
    simp only [Option.some.injEq] at h
    subst h
    obtain ⟨k, _, _, _, _, _, hZ, _, _⟩ := update_rls env γd γu m s.x s.L s.ps s.x L ps hu (zrbOf s.ps s.x) rfl
    exact ⟨hu, rfl, hZ, rfl⟩

/-- On the first call (`T_k = 0`, `Zrb` unset) the auxiliary point is `(0·x + t·x)/t`: when the array operations satisfy
    that this is `x` (true for exact vector arithmetic), the ignored candidate and the iterate coincide — the difference
    shows from the second step on. -/
theorem C16_pgm_robust_first_step (env : Env V S) (x : V) (L : S)
    (hlaw : env.sdiv (env.add (env.smul 0 x) (env.smul (rlsTrial env x 0 x L).1 x)) (rlsTrial env x 0 x L).2.1 = x) :
    (rlsTrial env x 0 x L).2.2.2 = xstep env x L := by
  have : (rlsTrial env x 0 x L).2.2.1 = x := hlaw
  show xstep env (rlsTrial env x 0 x L).2.2.1 L = xstep env x L
  rw [this]

end pgmrobust

section nan
variable {K : Type} [Field K] [LinearOrder K] [IsStrictOrderedRing K] [HasSqrt K] {V : Type}

/-- **Function values outside the domain of the loss** (NaN, as for a loss with a logarithm or a square root): a candidate
    whose `f(z)` is NaN is never accepted, whatever the quadratic model — the search backtracks (increases `L`) until the
    candidate is inside the domain or the budget ends. -/
theorem C16_linesearch_nan_candidate (env : Env V (XR K)) (v : V) (M : XR K)
    (hz : env.f (xstep env v M) = nan) : ¬ Accept env v M := by
  unfold Accept
  rw [hz]
  exact xr_not_nan_le _

/-- Conversely an *accepted* candidate lies in the domain of the loss: if `LineSearchStepSize.update` ends on an accepted value
    (not on "budget exhausted"), then `f` at the new iterate `x_step(v, L')` of `PGM.step` is not NaN — whatever the loss, also
    when earlier candidates were outside (`C16_linesearch_nan_candidate`: they are rejected and `L` is increased). -/
theorem C16_linesearch_accepted_in_domain (env : Env V (XR K)) (v : V) (M : XR K) (h : Accept env v M) :
    env.f (xstep env v M) ≠ nan ∧ fquad env (xstep env v M) v M ≠ nan := by
  unfold Accept at h
  constructor
  · intro hz; rw [hz] at h; exact xr_not_nan_le _ h
  · intro hq; rw [hq] at h; exact xr_not_le_nan _ h

/-- … and when the current point itself is outside the domain (`f(v)` NaN) no value is accepted: `LineSearchStepSize.update`
    tries `maxiter` candidates and returns the last value tried, `L·γ_u^(maxiter−1)`. -/
theorem C16_linesearch_nan_point (env : Env V (XR K)) (γu : XR K) (maxiter : Nat) (x v : V) (L L' : XR K)
    (ps ps' : PolState V (XR K)) (hv : env.f v = nan)
    (h : update env (.ls γu (maxiter + 1)) x L ps v = some (L', ps')) :
    (∀ M, ¬ Accept env v M) ∧ L' = geom L γu maxiter ∧ ps'.tried = maxiter + 1 := by
  have hnone : ∀ M, ¬ Accept env v M := by
    intro M
    unfold Accept fquad
    simp only [hv, xr_add_nan_left]
    exact xr_not_le_nan _
  refine ⟨hnone, ?_⟩
  rcases C16_linesearch_update env γu (maxiter + 1) x L ps v L' ps' h with ⟨h0, _, _⟩ | ⟨k, hk, hL, ht, _, hend⟩
  · omega
  · rcases hend with ha | hlast
    · exact absurd ha (hnone L')
    · have : k = maxiter := by omega
      subst this
      exact ⟨hL, ht⟩

end nan
-- non-vacuity: a NaN value fails both comparisons, `nan + a` is NaN
example : ¬ ((nan : XR ℚ) ≤ fin 1) ∧ ¬ ((fin 1 : XR ℚ) ≤ nan) ∧ (nan : XR ℚ) + fin 1 = nan :=
  ⟨xr_not_nan_le _, xr_not_le_nan _, xr_add_nan_left _⟩

section reattach
variable {K : Type} [Field K] [LinearOrder K] [IsStrictOrderedRing K] [HasSqrt K] {V : Type}

/-- **Re-attachment discards the history.**  `PGM.__init__` calls `step_size.internal_init(self)`, which (d5a2ecf) resets the
    memory of the policy object (`xprev/gradprev`, `Lbb1prev/Lbb2prev`, `T_k`, `Zrb`, `Z`; model `PolState.attach`).  Hence a
    policy object that served another optimizer before — whatever its state `ps`, even one holding unusable or
    non-finite remembered values — behaves exactly like a fresh one: every trajectory of the new solver is the one of
    `PGMState.init`, and in particular `L` stays finite and positive without any assumption on the old state. -/
theorem C16_reattach (env : Env V (XR K)) (pol : Policy (XR K)) (hpol : PolOK pol) (ps : PolState V (XR K))
    (x0 : V) (L0 inf : XR K) (hL0 : PosFin L0) (accel : Bool) (k : Nat) (s : PGMState V (XR K))
    (h : iterate (if accel then apgmStep env pol else pgmStep env pol) k (PGMState.attached ps x0 L0 inf) = some s) :
    PGMState.attached ps x0 L0 inf = PGMState.init x0 L0 inf ∧ PosFin s.L := by
  refine ⟨rfl, ?_⟩
  have he : PGMState.attached ps x0 L0 inf = PGMState.init x0 L0 inf := rfl
  rw [he] at h
  cases accel with
  | true => exact C16_positive_finite_apgm env pol hpol x0 L0 inf hL0 k s (by simpa using h)
  | false => exact C16_positive_finite_pgm env pol hpol x0 L0 inf hL0 k s (by simpa using h)

end reattach

/-! ## round 4: the data the model copies from the source (kept equal to it by `Generated/StepSizeTables.lean`) -/

section source

/-- **Dispatch of `AcceleratedPGM.step`.**  The model's tests (`Policy.isBB` in `apgmPoint`, the `.rls` branch of `apgmStep`)
    are the `isinstance` tests of the source — for the class hierarchy and the class tuples that the translator reads from
    `_pgmaux.py` / `_pgm.py` (subclasses included: `RobustLineSearchStepSize` derives from `LineSearchStepSize`), and the
    arguments are `self.x` (BB classes, and always in `PGM.step`), `self.v` (otherwise), `self.step_size.Z` (robust branch). -/
theorem C16_dispatch_isinstance {S : Type} (pol : Policy S) :
    pol.isBB = isInstanceOf policyClasses pol.className dispatch.apgmArgClasses ∧
    (match pol with | .rls _ _ _ => true | _ => false) = isInstanceOf policyClasses pol.className dispatch.apgmZClasses ∧
    dispatch.pgmArg = "self.x" ∧ dispatch.apgmArgThen = "self.x" ∧ dispatch.apgmArgElse = "self.v" ∧
      dispatch.apgmZThen = "self.step_size.Z" :=
  ⟨isBB_eq_dispatch pol, isRls_eq_dispatch pol, dispatch_args⟩

/-- **The constructor defaults are admissible**: every step-size class constructed with its default arguments (read from the
    source: `kappa = 0.5`; `gamma_u = 1.2, maxiter = 50`; `gamma_d = 0.9, gamma_u = 2.0, maxiter = 50`) is a policy satisfying the
    hypothesis `PolOK` of `C16_positive_finite_pgm/apgm/update`. -/
theorem C16_defaults_admissible :
    ∀ r ∈ policyClasses, ∃ pol : Policy (XR ℚ), policyOfDefaults r.1 r.2.2 = some pol ∧ PolOK pol ∧ pol.className = r.1 :=
  defaults_ok.2.2

end source

/-! ### non-vacuity: concrete instances over `ℚ` -/

-- orthogonal differences, `Re⟨Δx,Δg⟩ = 0 < ‖Δg‖²`: the quotient is `+inf`, the previous value is kept
example : bbRule (fin 1 : XR ℚ) (fin 0) (fin 2) = fin 1 := by
  rw [C16_bb_ratio_fin _ _ _ (by norm_num)]; norm_num
-- positive curvature: the documented ratio
example : bbRule (fin 1 : XR ℚ) (fin 2) (fin 6) = fin 3 := by
  rw [C16_bb_ratio_fin _ _ _ (by norm_num)]; norm_num
-- repeated iterate (0/0) and negative curvature
example : bbRule (fin 5 : XR ℚ) (fin 0) (fin 0) = fin 5 := by
  rw [C16_bb_ratio_fin _ _ _ (by norm_num)]; norm_num
example : bbRule (fin 5 : XR ℚ) (fin (-1)) (fin 2) = fin 5 := by
  rw [C16_bb_ratio_fin _ _ _ (by norm_num)]; norm_num
-- an infinite numerator is not taken either
example : bbRule (fin 5 : XR ℚ) (fin 1) pinf = fin 5 := by
  classical
  rw [C16_bb_ratio]
  have : ¬ PosFin ((pinf : XR ℚ) / fin 1) := by
    have h : (pinf : XR ℚ) / fin 1 = pinf := by simp [XR.div]
    rw [h]; exact not_posFin_pinf
  rw [if_neg this]
-- adaptive rule: α_BB1 = 1/2, α_BB2 = 1/4, ratio 1/2 < κ = 3/4 → α = α_BB2, L = 4
example : abbRule (fin (3/4) : XR ℚ) (fin 1) none none (fin 1) (fin 2) (fin 8) =
    (fin 4, some (fin 2), some (fin 4)) := by
  rw [C16_adaptive_bb _ _ _ _ (by norm_num) (by norm_num) (by norm_num)]
  norm_num [abbAlpha]
-- the hypotheses of the positivity theorem are satisfiable: default parameters of both line searches
example : PolOK (.ls (fin (6/5)) 50 : Policy (XR ℚ)) := ⟨6/5, rfl, by norm_num⟩
example : PolOK (.rls (fin (9/10)) (fin 2) 50 : Policy (XR ℚ)) := ⟨⟨9/10, rfl, by norm_num⟩, ⟨2, rfl, by norm_num⟩⟩
-- search loop: budget 3, nothing accepted → the last value tried, L₀γ² (not L₀γ³)
example : searchLoop (fin 2 : XR ℚ) (fun _ L => L) (fun _ _ => false) 3 0 (fin 1) = some (fin 4, fin 4, 3) := by
  simp [searchLoop, XR.mul]; norm_num
-- the hypothesis `γ_u > 0` of the positivity theorems is needed: with `γ_u = −1` a rejected first trial makes `L` negative
example : searchLoop (fin (-1) : XR ℚ) (fun _ L => L) (fun _ _ => false) 2 0 (fin 1) = some (fin (-1), fin (-1), 2) := by
  simp [searchLoop, XR.mul]
-- accepted at the second trial
example : searchLoop (2 : ℚ) (fun _ L => L) (fun L _ => decide (2 ≤ L)) 5 0 1 = some (2, 2, 2) := by
  simp [searchLoop]

end Scico.Props.C16
