import Scico.Model.StepSize
namespace Scico.Props.C16
open Scico.StepSize

/-- placeholder while the harness is brought up (replaced below) -/
theorem C16_search_none_iff {S β : Type} [Mul S] (γu : S) (trial : Nat → S → β) (ok : S → β → Bool) (fuel it : Nat) (L : S) :
    searchLoop γu trial ok fuel it L = none ↔ fuel = 0 := by
  induction fuel generalizing it L with
  | zero => simp [searchLoop]
  | succ n ih =>
    simp only [searchLoop]
    split
    · simp
    · cases n with
      | zero => simp
      | succ m => simp [ih]

end Scico.Props.C16
