/-
  Property C07 — gradients and Jacobian products are the true derivatives.
  ONLY property theorems and their non-vacuity examples here; lemmas are in
  `Scico/Proofs/Autograd{Alg,Wrap,Deriv}.lean`, the model in `Scico/Model/Autograd.lean`.

  Notation.  `Cx ℝ` = complex numbers as pairs; `along x d t = x + t d`;
  `reInner g d = Re Σ conj(gᵢ) dᵢ = Re⟪g,d⟫`;  `reBdot jg d = Re Σ jgᵢ dᵢ` (JAX's pairing);
  `IsGradAt f x g  :=  ∀ d, HasDerivAt (t ↦ f (x + t d)) (Re⟪g,d⟫) 0`  — what C07 asks of `f.grad(x)`;
  `JaxContract f x jg := ∀ d, HasDerivAt (t ↦ f (x + t d)) (Re Σ jgᵢ dᵢ) 0` — what `jax.grad` promises.
  A real array is a complex one with zero imaginary parts, so every statement covers both dtypes.
  `Tangent c d` : the curve `c : ℝ → ℂⁿ` is differentiable at `0` with velocity `d` (real and imaginary
  part of every component); `IsCurveGradAt f x g := ∀ c d, c 0 = x → Tangent c d → HasDerivAt (f ∘ c) (Re⟪g,d⟫) 0`
  (the gradient along every differentiable curve through `x`, not only along lines).
-/
import Scico.Proofs.AutogradConvex
import Scico.Proofs.AutogradOpTree
import Scico.Proofs.AutogradComplex

namespace Scico.Props.C07
open Scico Scico.Autograd

variable {n m k : Nat}

/-- The model's complex scalars are Mathlib's `ℂ` (ring isomorphism `cxEquiv`, compatible with
    conjugation), and the two pairings are the usual `Re Σ conj(gᵢ)dᵢ` and `Re Σ jgᵢdᵢ` of `ℂⁿ`. -/
theorem C07_pairings_are_complex (g d : CVec ℝ n) :
    reInner g d = (∑ i, (starRingEnd ℂ) (cxEquiv (g i)) * cxEquiv (d i)).re ∧
    reBdot g d = (∑ i, cxEquiv (g i) * cxEquiv (d i)).re ∧
    (∀ z : Cx ℝ, cxEquiv z.conj = (starRingEnd ℂ) (cxEquiv z)) :=
  ⟨reInner_complex g d, reBdot_complex g d, cxEquiv_conj⟩

/-! ## the conjugating wrappers -/

/-- `scico.grad`/`value_and_grad`/`jacrev` conjugate JAX's gradient; the result is the gradient in
    the sense `d/dt f(x+td)|₀ = Re⟪g,d⟫`. -/
theorem C07_conj_grad (f : CVec ℝ n → ℝ) (x jg : CVec ℝ n) (h : JaxContract f x jg) :
    IsGradAt f x (scicoGrad jg) :=
  conj_grad f x jg h

/-- block arguments: `tree_map(conj, ·)` acts block by block, that is the conjugate of the
    concatenation, and each block of the result is the gradient with respect to that block. -/
theorem C07_conj_grad_block (f : CVec ℝ (n + k) → ℝ) (x : CVec ℝ (n + k)) (j₁ : CVec ℝ n) (j₂ : CVec ℝ k)
    (h : JaxContract f x (vappend j₁ j₂)) :
    scicoGrad (vappend j₁ j₂) = vappend (scicoGrad j₁) (scicoGrad j₂) ∧
    IsGradAt (fun u => f (vappend u (vright x))) (vleft x) (scicoGrad j₁) ∧
    IsGradAt (fun u => f (vappend (vleft x) u)) (vright x) (scicoGrad j₂) := by
  have hg := conj_grad f x _ h
  refine ⟨conjVec_vappend j₁ j₂, ?_, ?_⟩
  · have := isGradAt_left f x _ hg
    unfold scicoGrad at this ⊢
    rwa [conjVec_vappend, vleft_vappend] at this
  · have := isGradAt_right f x _ hg
    unfold scicoGrad at this ⊢
    rwa [conjVec_vappend, vright_vappend] at this

/-- the gradient in the sense of C07 is unique — so any array satisfying the property at a point of
    the smoothness domain *is* the model's `grad` (what the correspondence compares the code with) -/
theorem C07_grad_unique (f : Fn ℝ n) (x g : CVec ℝ n) (h : f.Smooth x) (hg : IsGradAt f.eval x g) :
    g = f.grad x :=
  isGradAt_unique f.eval x g (f.grad x) hg (f.isGradAt x h)

/-- the conjugate is needed: JAX's own gradient of `|x|²` at `x = i` is *not* the gradient -/
theorem C07_jax_grad_is_not_grad :
    ¬ IsGradAt (Fn.sqL2 : Fn ℝ 1).eval (fun _ => ⟨0, 1⟩) ((Fn.sqL2 : Fn ℝ 1).jaxGrad (fun _ => ⟨0, 1⟩)) := by
  intro h
  have h1 := h (fun _ => ⟨0, 1⟩)
  have h2 := (Fn.sqL2 : Fn ℝ 1).isGradAt (fun _ => ⟨0, 1⟩) trivial (fun _ => ⟨0, 1⟩)
  have := h1.unique h2
  simp [reInner_eq, Fn.grad, Fn.jaxGrad, scicoGrad, conjVec, two_eq] at this
  norm_num at this

/-- `Operator.vjp(u, conjugate=True)`, `cvjp`: given JAX's transpose `G` of the (real-linear)
    Jacobian `J` for the pairing `Re Σ aᵢbᵢ`, `Gmap v = conj(G(conj v))` is the adjoint of the
    Jacobian-vector product for `Re⟪·,·⟫` — holomorphic or not. -/
theorem C07_vjp_adj_real (J : CVec ℝ n → CVec ℝ m) (G : CVec ℝ m → CVec ℝ n)
    (hG : ∀ c d, reBdot (G c) d = reBdot c (J d)) (v : CVec ℝ m) (d : CVec ℝ n) :
    reInner (vjpWrap true G v) d = reInner v (J d) ∧ reInner (cvjpWrap G v) d = reInner v (J d) := by
  rw [cvjp_eq_vjp_true]
  exact ⟨vjp_conj_real_adjoint J G hG v d, vjp_conj_real_adjoint J G hG v d⟩

/-- operators with a **real input array** (e.g. real image → complex measurements): JAX's
    cotangent is real, its contract holds for real directions; `Gmap` is still the adjoint of the
    Jacobian-vector product on the (real) input space — the conjugations are needed although the
    input is real.  Dense instance: `G c = Re(Aᵀ c)` meets the hypothesis and `Gmap v = Re(Aᴴ v)`. -/
theorem C07_vjp_adj_real_input (J : CVec ℝ n → CVec ℝ m) (G : CVec ℝ m → CVec ℝ n)
    (hG : ∀ c d, (∀ i, (d i).im = 0) → reBdot (G c) d = reBdot c (J d))
    (v : CVec ℝ m) (d : CVec ℝ n) (hd : ∀ i, (d i).im = 0) :
    reInner (vjpWrap true G v) d = reInner v (J d) :=
  vjp_conj_real_adjoint_at J G v d (hG _ d hd)

theorem C07_vjp_real_input_matrix (A : Mat ℝ m n) (v : CVec ℝ m) :
    (∀ c d, (∀ i, (d i).im = 0) →
      reBdot (realPart (mulVec (transpose A) c)) d = reBdot c (mulVec A d)) ∧
    vjpWrap true (fun c => realPart (mulVec (transpose A) c)) v = realPart (mulVec (adjMat A) v) := by
  refine ⟨fun c d hd => by rw [reBdot_realPart _ _ hd, reBdot_transpose], ?_⟩
  have h := vjpWrap_matrix A v
  simp only [vjpWrap, if_true] at h ⊢
  rw [← h]
  funext i
  apply Cx.ext' <;> simp [conjVec, Autograd.realPart]

/-- for a ℂ-linear Jacobian (`G` its plain transpose) `Gmap` is the complex adjoint,
    and without the conjugate flag it is the transpose -/
theorem C07_vjp_adj {K : Type} [CommRing K] (J : CVec K n → CVec K m) (G : CVec K m → CVec K n)
    (hG : ∀ c d, bdot (G c) d = bdot c (J d)) (v : CVec K m) (d : CVec K n) :
    cinner (vjpWrap true G v) d = cinner v (J d) ∧ bdot (vjpWrap false G v) d = bdot v (J d) :=
  ⟨vjp_conj_adjoint J G hG v d, vjp_noconj_transpose J G hG v d⟩

/-- dense instance: Jacobian `d ↦ A d`; JAX's transpose is `c ↦ Aᵀ c` (it satisfies the
    hypothesis of `C07_vjp_adj` for every `A`), and `Gmap v = Aᴴ v`. -/
theorem C07_vjp_matrix {K : Type} [CommRing K] (A : Mat K m n) (v : CVec K m) (d : CVec K n) :
    (∀ c d, bdot (mulVec (transpose A) c) d = bdot c (mulVec A d)) ∧
    vjpWrap true (mulVec (transpose A)) v = mulVec (adjMat A) v ∧
    cinner (mulVec (adjMat A) v) d = cinner v (mulVec A d) :=
  ⟨bdot_transpose A, vjpWrap_matrix A v, cinner_adjMat A v d⟩

/-- the Jacobian linear operator of `linop.jacobian`, with and without `include_eval`: the
    Jacobian-product blocks of `eval` and `adj` are adjoint to each other; with `include_eval`
    *both* directions carry `F(u)` as block 0. -/
theorem C07_jacobian_op {K : Type} [CommRing K] (inc : Bool) (Fu : CVec K m) (J : CVec K n → CVec K m)
    (G : CVec K m → CVec K n) (hG : ∀ c d, bdot (G c) d = bdot c (J d)) (v : CVec K n) (w : CVec K m) :
    cinner (jacobianAdj inc Fu G w).main v = cinner w (jacobianEval inc Fu J v).main ∧
    (jacobianEval inc Fu J v).main = J v ∧
    (jacobianEval inc Fu J v).evalBlock = (if inc then some Fu else none) ∧
    (jacobianAdj inc Fu G w).evalBlock = (if inc then some Fu else none) := by
  obtain ⟨h1, h2, h3, h4⟩ := jacobian_blocks inc Fu J G v w
  refine ⟨?_, h1, h3, h4⟩
  rw [h1, h2]
  exact vjp_conj_adjoint J G hG w v

/-- same with JAX's real-linear contract (non-holomorphic operators): adjoint for `Re⟪·,·⟫` -/
theorem C07_jacobian_op_real (inc : Bool) (Fu : CVec ℝ m) (J : CVec ℝ n → CVec ℝ m)
    (G : CVec ℝ m → CVec ℝ n) (hG : ∀ c d, reBdot (G c) d = reBdot c (J d)) (v : CVec ℝ n) (w : CVec ℝ m) :
    reInner (jacobianAdj inc Fu G w).main v = reInner w (jacobianEval inc Fu J v).main := by
  obtain ⟨h1, h2, _, _⟩ := jacobian_blocks inc Fu J G v w
  rw [h1, h2]
  exact vjp_conj_real_adjoint J G hG w v

/-- the code as it is: for an operator whose input and output dtypes differ in kind, the adjoint
    direction with `include_eval` is rejected (two blocks of different dtype); in every other
    configuration it is `jacobianAdj`, to which `C07_jacobian_op` applies
    (recorded: `known_findings.txt`, jacobian-include-eval-mixed-dtype). -/
theorem C07_jacobian_adj_partial {K : Type} [CommRing K] (inc inC outC : Bool) (Fu : CVec K m)
    (G : CVec K m → CVec K n) (w : CVec K m) :
    (jacobianAdjChecked inc inC outC Fu G w = none ↔ (inc = true ∧ inC ≠ outC)) ∧
    (¬(inc = true ∧ inC ≠ outC) → jacobianAdjChecked inc inC outC Fu G w = some (jacobianAdj inc Fu G w)) := by
  unfold jacobianAdjChecked
  cases inc <;> cases inC <;> cases outC <;> simp

/-- with `include_eval` the "linear operator" is affine: it is additive iff `F(u) = 0` -/
theorem C07_jacobian_include_eval_affine {K : Type} [CommRing K] (Fu : CVec K m) (J : CVec K n → CVec K m)
    (hJ : ∀ u v, J (vadd u v) = vadd (J u) (J v)) (v₁ v₂ : CVec K n) :
    (jacobianEval true Fu J v₁).add (jacobianEval true Fu J v₂) = some (jacobianEval true Fu J (vadd v₁ v₂))
      ↔ Fu = fun _ => 0 :=
  jacobianEval_additive_iff Fu J hJ v₁ v₂

/-- `scico.linear_adjoint`: in the two branches that go through `conj_fun` the result is the
    adjoint of `fun` whenever `jax.linear_transpose` transposes (contract at the function it is given) -/
theorem C07_linear_adjoint {K : Type} [CommRing K] (T : (CVec K n → CVec K m) → (CVec K m → CVec K n))
    (f : CVec K n → CVec K m) (cp co : Bool) (hc : cp = true ∨ co = true)
    (hT : ∀ y x, bdot (T (conjFun f) y) x = bdot y (conjFun f x)) (y : CVec K m) (x : CVec K n) :
    cinner (linearAdjoint T cp co f y) x = cinner y (f x) :=
  linearAdjoint_adjoint T f cp co hc hT y x

/-- the same for functions that are only **real**-linear (complex → real, e.g. `x ↦ Re(Mx)`; the
    code's first branch is "C→R or C→C"): with JAX's transposition contract for `Re Σ aᵢbᵢ` the result
    is the adjoint for `Re⟪·,·⟫` -/
theorem C07_linear_adjoint_real_pairing (T : (CVec ℝ n → CVec ℝ m) → (CVec ℝ m → CVec ℝ n))
    (f : CVec ℝ n → CVec ℝ m) (cp co : Bool) (hc : cp = true ∨ co = true)
    (hT : ∀ y x, reBdot (T (conjFun f) y) x = reBdot y (conjFun f x)) (y : CVec ℝ m) (x : CVec ℝ n) :
    reInner (linearAdjoint T cp co f y) x = reInner y (f x) :=
  linearAdjoint_real_adjoint T f cp co hc hT y x

/-- real → real branch (`T fun`): adjoint on real data -/
theorem C07_linear_adjoint_real {K : Type} [CommRing K] (T : (CVec K n → CVec K m) → (CVec K m → CVec K n))
    (f : CVec K n → CVec K m) (hT : ∀ y x, bdot (T f y) x = bdot y (f x)) (y : CVec K m) (x : CVec K n)
    (hy : conjVec y = y) (hTy : conjVec (T f y) = T f y) :
    cinner (linearAdjoint T false false f y) x = cinner y (f x) := by
  have : linearAdjoint T false false f = T f := by simp [linearAdjoint]
  rw [this]
  exact transpose_real_adjoint f _ hT y x hy hTy

/-! ## the weighted squared-l2 loss: exact expansion, gradient and Hessian -/

/-- EXACT for all `x`, `d`, real or complex, any field of characteristic 0 with an order:
    `f(x+d) = f(x) + Re⟪g,d⟫ + ½ Re⟪H d,d⟫` with `g = f.grad(x)` and `H = f.hessian` -/
theorem C07_quadratic {K : Type} [Field K] [LinearOrder K] [IsStrictOrderedRing K] [HasSqrt K] [HasLog K]
    (α : K) (A : Mat K m n) (y : CVec K m) (w : Vec K m) (x d : CVec K n) :
    (Fn.sqL2Loss α A y w).eval (vadd x d) =
      (Fn.sqL2Loss α A y w).eval x + reInner ((Fn.sqL2Loss α A y w).grad x) d
        + (1 / 2) * reInner (hessianApply α A w d) d :=
  sqL2Loss_expansion α A y w x d

/-- the model gradient is the documented `2αAᴴW(Ax−y)`; `hessian` applies the documented
    `2αAᴴWA`, which is Hermitian, and positive semi-definite for `α ≥ 0`, `W ≥ 0` -/
theorem C07_quadratic_formulas {K : Type} [Field K] [LinearOrder K] [IsStrictOrderedRing K] [HasSqrt K] [HasLog K]
    (α : K) (A : Mat K m n) (y : CVec K m) (w : Vec K m) (x d : CVec K n) :
    (Fn.sqL2Loss α A y w).grad x = sqL2LossGradSpec α A y w x ∧
    hessianApply α A w x = mulVec (hessianMat α A w) x ∧
    adjMat (hessianMat α A w) = hessianMat α A w ∧
    (0 ≤ α → (∀ i, 0 ≤ w i) → 0 ≤ reInner (hessianApply α A w d) d) :=
  ⟨grad_sqL2Loss_eq_spec α A y w x, hessianApply_eq_mat α A w x, hessianMat_hermitian α A w,
   fun hs hw => hessian_psd α A w d hs hw⟩

/-- hence along every line the loss is the parabola `f x + t Re⟪g,d⟫ + t² ½Re⟪Hd,d⟫`: its first
    derivative at every `t` is `Re⟪g,d⟫ + t Re⟪Hd,d⟫` and its second derivative is `Re⟪Hd,d⟫` —
    the returned gradient is the true derivative and `hessian` the true Hessian. -/
theorem C07_hessian (α : ℝ) (A : Mat ℝ m n) (y : CVec ℝ m) (w : Vec ℝ m) (x d : CVec ℝ n) (t : ℝ) :
    HasDerivAt (fun t => (Fn.sqL2Loss α A y w).eval (along x d t))
      (reInner ((Fn.sqL2Loss α A y w).grad x) d + t * reInner (hessianApply α A w d) d) t ∧
    HasDerivAt (fun t => reInner ((Fn.sqL2Loss α A y w).grad x) d + t * reInner (hessianApply α A w d) d)
      (reInner (hessianApply α A w d) d) t := by
  constructor
  · have hf : (fun t => (Fn.sqL2Loss α A y w).eval (along x d t)) = fun t =>
        (Fn.sqL2Loss α A y w).eval x + t * reInner ((Fn.sqL2Loss α A y w).grad x) d
          + t ^ 2 * ((1 / 2) * reInner (hessianApply α A w d) d) := by
      funext t; exact sqL2Loss_along α A y w x d t
    rw [hf]
    have h1 := ((hasDerivAt_id t).mul_const (reInner ((Fn.sqL2Loss α A y w).grad x) d)).const_add
      ((Fn.sqL2Loss α A y w).eval x)
    have h2 := ((hasDerivAt_id t).pow 2).mul_const ((1 / 2) * reInner (hessianApply α A w d) d)
    refine HasDerivAt.congr' (h1.add h2) (fun _ => rfl) ?_
    simp
    ring
  · have h := ((hasDerivAt_id t).mul_const (reInner (hessianApply α A w d) d)).const_add
      (reInner ((Fn.sqL2Loss α A y w).grad x) d)
    exact HasDerivAt.congr' h (fun _ => rfl) (one_mul _)

/-! ## every functional, every derived copy -/

/-- **Main theorem.**  For every expression built from the smooth functionals (`SquaredL2Norm`,
    `L2Norm`, `L1Norm`, `HuberNorm` both forms, `L1MinusL2Norm`, `L21Norm`, `ZeroFunctional`,
    `SquaredL2Loss`, `SquaredL2SquaredAbsLoss`, `SquaredL2AbsLoss`, `PoissonLoss`) by scaling (`c*f`),
    sums (`f+g`), separable combination over blocks, `Loss(y, A, f, scale)` (loss ∘ affine operator;
    with `A` a finite-difference matrix and `f` the l1 / l2,1 norm these are the TV norms) and
    `Loss(y, F, f, scale)` / `SquaredL2Loss(y, F, …)` with a **nonlinear** operator `F`, to any depth,
    the model's `grad` — the conjugate of the gradient produced by JAX's rules — is the true
    gradient at every point of the smoothness domain. -/
theorem C07_scaled_sum (f : Fn ℝ n) (x : CVec ℝ n) (h : f.Smooth x) : IsGradAt f.eval x (f.grad x) :=
  f.isGradAt x h

/-- and JAX's rules, as transcribed, satisfy JAX's contract (so the hypothesis of `C07_conj_grad`
    is met by every such functional) -/
theorem C07_jax_contract (f : Fn ℝ n) (x : CVec ℝ n) (h : f.Smooth x) :
    JaxContract f.eval x (f.jaxGrad x) :=
  f.jaxContract x h

/-- stronger than the property asks: the same along **every differentiable curve** through `x`
    (this is what makes the induction go through a nonlinear operator, where `t ↦ F(x+td)` is a
    curve, not a line) -/
theorem C07_curve (f : Fn ℝ n) (x : CVec ℝ n) (h : f.Smooth x) : IsCurveGradAt f.eval x (f.grad x) :=
  f.isCurveGradAt x h

/-- chain rule, gradient form, through an affine map — real and complex:
    `grad(s·φ(A· − y))(x) = s·Aᴴ·grad φ(Ax − y)` for ANY `φ` with a gradient at `Ax − y` -/
theorem C07_chain_linear (s : ℝ) (A : Mat ℝ m n) (y : CVec ℝ m) (φ : CVec ℝ m → ℝ) (x : CVec ℝ n)
    (g : CVec ℝ m) (h : IsGradAt φ (vsub (mulVec A x) y) g) :
    IsGradAt (fun z => s * φ (vsub (mulVec A z) y)) x (vsmul s (mulVec (adjMat A) g)) :=
  isGradAt_comp_affine s A y φ x g h

/-- chain rule, gradient form, through a **nonlinear** operator `F` under JAX's contracts at `x`:
    `J d` (second component of `F.jvp(x, d)`) is the derivative of `F` along `d`, `G` (`jax.vjp`) is
    the transpose of `J` for `Re Σ aᵢbᵢ`; `φ` has a gradient `g` along curves at `F x − y`.  Then
    `grad(s·φ(F(·) − y))(x) = s·Gmap(g)` with `Gmap = F.vjp(x, conjugate=True)[1]` — for holomorphic
    and non-holomorphic `F`, real or complex data. -/
theorem C07_chain_nonlinear (s : ℝ) (F J : CVec ℝ n → CVec ℝ m) (G : CVec ℝ m → CVec ℝ n)
    (y : CVec ℝ m) (φ : CVec ℝ m → ℝ) (x : CVec ℝ n) (g : CVec ℝ m)
    (hJ : ∀ d, Tangent (fun t => F (along x d t)) (J d))
    (hG : ∀ c d, reBdot (G c) d = reBdot c (J d))
    (h : IsCurveGradAt φ (vsub (F x) y) g) :
    IsGradAt (fun z => s * φ (vsub (F z) y)) x (vsmul s (vjpWrap true G g)) :=
  isGradAt_comp_operator s F J G y φ x g hJ hG h

/-- `SquaredSetDistance` (`0.5·Σ|x − P(x)|²`) and `SetDistance` (`_l2norm`-style guarded square root of
    `Σ|x − P(x)|²`), code after repair 8f5a90e, for ANY projection `P` with JAX's contracts at `x` (`JP`, `GP`):
    `grad` — `Gmap` of the residual map `z ↦ z − P z` applied to the outer gradient — is the gradient;
    the squared distance at **every** `x` (points of the set included), the distance where `x ≠ P x`. -/
theorem C07_set_distance (P JP GP : CVec ℝ n → CVec ℝ n) (x : CVec ℝ n)
    (hJ : ∀ d, Tangent (fun t => P (along x d t)) (JP d))
    (hG : ∀ c d, reBdot (GP c) d = reBdot c (JP d)) :
    IsGradAt (fun z => (1 / 2) * sumAbs2 (vsub z (P z))) x
      (vsmul (1 / 2) (vjpWrap true (fun c => vsub c (GP c)) ((Fn.sqL2 : Fn ℝ n).grad (vsub x (P x))))) ∧
    (sumAbs2 (vsub x (P x)) ≠ 0 →
      IsGradAt (fun z => l2normGuarded (sumAbs2 (vsub z (P z)))) x
        (vjpWrap true (fun c => vsub c (GP c)) ((Fn.l2 : Fn ℝ n).grad (vsub x (P x))))) := by
  obtain ⟨h1, h2⟩ := residual_contracts P JP GP x hJ hG
  constructor
  · have h := isGradAt_comp_operator (1 / 2) (fun z => vsub z (P z)) _ _ 0 (Fn.sqL2 : Fn ℝ n).eval x _ h1 h2
      ((Fn.sqL2 : Fn ℝ n).isCurveGradAt _ trivial)
    simpa only [vsub_zero, Fn.eval] using h
  · intro hne
    have h := isGradAt_comp_operator 1 (fun z => vsub z (P z)) _ _ 0 (Fn.l2 : Fn ℝ n).eval x _ h1 h2
      ((Fn.l2 : Fn ℝ n).isCurveGradAt _ (by simpa only [vsub_zero, Fn.Smooth] using hne))
    have e : ∀ z : CVec ℝ n, l2normGuarded (sumAbs2 (vsub z (P z))) = norm2 (vsub z (P z)) :=
      fun z => l2normGuarded_eq _ (sumAbs2_nonneg _)
    simp only [e]
    simpa only [vsub_zero, vsmul_one, one_mul, Fn.eval] using h

/-- **Squared distance to a closed convex set** (`IsProjection C P`: `P x ∈ C` and
    `Re⟪x − P x, z − P x⟫ ≤ 0` for `z ∈ C`): `½‖z − P z‖²` is differentiable at EVERY `x` with the documented
    gradient `x − P(x)` — no smoothness of `P` assumed.  Consequently, whenever JAX's contracts hold for `P`
    at `x`, what `SquaredSetDistance.grad` computes by differentiating *through* `proj` (`C07_set_distance`)
    is exactly `x − P(x)` (uniqueness of the gradient). -/
theorem C07_squared_distance_convex (C : CVec ℝ n → Prop) (P : CVec ℝ n → CVec ℝ n) (hP : IsProjection C P)
    (x : CVec ℝ n) :
    IsGradAt (fun z => (1 / 2) * sumAbs2 (vsub z (P z))) x (vsub x (P x)) ∧
    ∀ (JP GP : CVec ℝ n → CVec ℝ n), (∀ d, Tangent (fun t => P (along x d t)) (JP d)) →
      (∀ c d, reBdot (GP c) d = reBdot c (JP d)) →
      vsmul (1 / 2) (vjpWrap true (fun c => vsub c (GP c)) ((Fn.sqL2 : Fn ℝ n).grad (vsub x (P x)))) = vsub x (P x) :=
  ⟨isGradAt_sqdist C P hP x, fun JP GP hJ hG =>
    isGradAt_unique _ x _ _ (C07_set_distance P JP GP x hJ hG).1 (isGradAt_sqdist C P hP x)⟩

/-- **Distance to a closed convex set**, `SetDistance` as the code writes it (guarded square root): at every `x`
    outside the set the gradient is the documented `(x − P x)/d(x)` — no smoothness of `P` assumed -/
theorem C07_distance_convex (C : CVec ℝ n → Prop) (P : CVec ℝ n → CVec ℝ n) (hP : IsProjection C P)
    (x : CVec ℝ n) (hx : sumAbs2 (vsub x (P x)) ≠ 0) :
    IsGradAt (fun z => l2normGuarded (sumAbs2 (vsub z (P z)))) x
      (fun i => Cx.divr (vsub x (P x) i) (norm2 (vsub x (P x)))) :=
  isGradAt_dist C P hP x hx

/-- `SetDistance` at a point in the interior of the set (`P` is the identity near `x` along every line):
    the guarded square root makes the functional identically 0 there and JAX's gradient through the
    `where` is 0 — the true gradient.  (Before repair 8f5a90e the code returned NaN: `norm` at 0.) -/
theorem C07_set_distance_interior (P : CVec ℝ n → CVec ℝ n) (x : CVec ℝ n)
    (hP : ∀ d, ∀ᶠ t in nhds (0 : ℝ), P (along x d t) = along x d t) :
    IsGradAt (fun z => l2normGuarded (sumAbs2 (vsub z (P z)))) x (fun _ => 0) := by
  intro d
  have h0 : reInner (fun _ => (0 : Cx ℝ)) d = 0 := by rw [reInner_eq]; simp
  rw [h0]
  refine (hasDerivAt_const (0 : ℝ) (0 : ℝ)).congr_of_eventuallyEq ?_
  filter_upwards [hP d] with t ht
  have : vsub (along x d t) (P (along x d t)) = fun _ => 0 := by
    rw [ht]; funext i; apply Cx.ext' <;> simp [vsub]
  simp [this, sumAbs2_eq, Cx.abs2, l2normGuarded]

/-- the operator family `F(x) = Ax + B conj(x) + (Cx)² + c` of the correspondence: `Op.jvp` **is** the
    derivative of `F` along every line (so "jvp agrees with finite differences" is a theorem for
    it), `Op.vjpT` is its transpose for JAX's pairing, hence `Gmap` is the adjoint of the
    Jacobian-vector product — no hypothesis left; these discharge `hJ`, `hG` of `C07_chain_nonlinear`. -/
theorem C07_operator_jacobian (F : Op ℝ n m) (u v : CVec ℝ n) (w : CVec ℝ m) :
    Tangent (fun t => F.eval (along u v t)) (F.jvp u v) ∧
    (∀ c d, reBdot (F.vjpT u c) d = reBdot c (F.jvp u d)) ∧
    reInner (vjpWrap true (F.vjpT u) w) v = reInner w (F.jvp u v) := by
  refine ⟨?_, op_vjpT_transpose F u, vjp_conj_real_adjoint (F.jvp u) (F.vjpT u) (op_vjpT_transpose F u) w v⟩
  have h := tangent_op F (tangent_along u v)
  simp only [along_zero] at h
  exact h

/-- **operator algebra**: for every operator built from the family `Op` with `F(G)`, `F + G`, `F − G`, `a·F` (complex `a`)
    and `−F`, to any depth (`OpT`; each is a new `Operator` whose `eval_fn` closes over the operands), the chain/sum-rule
    `OpT.jvp` **is** the derivative of the composed map along every line, `OpT.vjpT` (cotangent pulled back through the
    tree in reverse) is its transpose for JAX's pairing, hence `Gmap = T.vjp(u, conjugate=True)[1]` is the adjoint of the
    Jacobian-vector product — no hypothesis; these also discharge `hJ`, `hG` of `C07_chain_nonlinear` for such `T`. -/
theorem C07_operator_tree (T : OpT ℝ n m) (u v : CVec ℝ n) (w : CVec ℝ m) :
    Tangent (fun t => T.eval (along u v t)) (T.jvp u v) ∧
    (∀ c d, reBdot (T.vjpT u c) d = reBdot c (T.jvp u d)) ∧
    reInner (vjpWrap true (T.vjpT u) w) v = reInner w (T.jvp u v) := by
  refine ⟨?_, opT_vjpT_transpose T u, vjp_conj_real_adjoint (T.jvp u) (T.vjpT u) (opT_vjpT_transpose T u) w v⟩
  have h := tangent_opT T (tangent_along u v)
  simp only [along_zero] at h
  exact h

/-- `L21Norm` after a linear map (isotropic TV: `A` = finite differences) with the guarded
    `_l2norm` of the code: at every `x` where each group of `Ax − y` is non-zero **or structurally
    zero** (its rows of `A` and entries of `y` vanish — the zero-padded boundary differences of
    `IsotropicTVNorm(circular=False)`), `grad` is the gradient.  (Before repair 66922fe the code
    returned NaN there.) -/
theorem C07_group_norm_structural_zero (s : ℝ) (A : Mat ℝ m n) (y : CVec ℝ m) (grp : Fin m → Fin k)
    (x : CVec ℝ n)
    (h : ∀ g, groupAbs2 grp (vsub (mulVec A x) y) g ≠ 0 ∨ ∀ i, grp i = g → (y i = 0 ∧ ∀ j, A i j = 0)) :
    IsGradAt (Fn.loss s A y (Fn.l21 k grp)).eval x ((Fn.loss s A y (Fn.l21 k grp)).grad x) :=
  (Fn.loss s A y (Fn.l21 k grp)).isGradAt_of_lines x (smoothLines_loss_l21 s A y grp x h)

/-- `L1Norm` after a linear map (anisotropic TV): entries of `Ax − y` non-zero or structurally zero -/
theorem C07_l1_structural_zero (s : ℝ) (A : Mat ℝ m n) (y : CVec ℝ m) (x : CVec ℝ n)
    (h : ∀ i, Cx.abs2 (vsub (mulVec A x) y i) ≠ 0 ∨ (y i = 0 ∧ ∀ j, A i j = 0)) :
    IsGradAt (Fn.loss s A y Fn.l1).eval x ((Fn.loss s A y Fn.l1).grad x) :=
  (Fn.loss s A y Fn.l1).isGradAt_of_lines x (smoothLines_loss_l1 s A y x h)

/-- more generally: smoothness along every line through `x` suffices -/
theorem C07_smooth_lines (f : Fn ℝ n) (x : CVec ℝ n) (h : f.SmoothLines x) : IsGradAt f.eval x (f.grad x) :=
  f.isGradAt_of_lines x h

/-- `PoissonLoss` (real data, `Ax > 0`) and `SquaredL2AbsLoss` (`Ax` without zero entry): the
    gradients are the documented `s·Aᴴ(1 − y/(Ax))` and `−2s·Aᴴ W (y − |Ax|)·Ax/|Ax|` -/
theorem C07_deriv_poisson_abs (s : ℝ) (A : Mat ℝ m n) (y w cst : Vec ℝ m) (x : CVec ℝ n) :
    ((∀ i, 0 < (mulVec A x i).re) →
      IsGradAt (Fn.poisson s A y cst).eval x
        (vsmul s (mulVec (adjMat A) (fun i => Cx.ofReal (1 - y i / (mulVec A x i).re))))) ∧
    ((∀ i, Cx.abs2 (mulVec A x i) ≠ 0) →
      IsGradAt (Fn.sqL2AbsLoss s A y w).eval x
        (vsmul s (mulVec (adjMat A) (fun i => Cx.smul (-(2 * w i * (y i - Cx.abs (mulVec A x i))))
          (Cx.divr (mulVec A x i) (Cx.abs (mulVec A x i))))))) := by
  constructor
  · intro h
    have hg := (Fn.poisson s A y cst).isGradAt x h
    have e : (Fn.poisson s A y cst).grad x =
        vsmul s (mulVec (adjMat A) (fun i => Cx.ofReal (1 - y i / (mulVec A x i).re))) := by
      simp only [Fn.grad, Fn.jaxGrad]
      rw [grad_through_matrix]
      congr 2
      funext i; apply Cx.ext' <;> simp [conjVec]
    rwa [e] at hg
  · intro h
    have hg := (Fn.sqL2AbsLoss s A y w).isGradAt x h
    have e : (Fn.sqL2AbsLoss s A y w).grad x =
        vsmul s (mulVec (adjMat A) (fun i => Cx.smul (-(2 * w i * (y i - Cx.abs (mulVec A x i))))
          (Cx.divr (mulVec A x i) (Cx.abs (mulVec A x i))))) := by
      simp only [Fn.grad, Fn.jaxGrad]
      rw [grad_through_matrix]
      congr 2
      funext i; apply Cx.ext' <;> simp [conjVec, two_eq, neg_div]
    rwa [e] at hg

/-- `ProximalAverage(func_list, alpha_list)`: its value is `Σ αᵢ fᵢ(x)` (weights as stored by the
    object) and its `grad` is the gradient wherever every component is smooth -/
theorem C07_proximal_average (l : List (ℝ × Fn ℝ n)) (x : CVec ℝ n) (h : ∀ p ∈ l, p.2.Smooth x) :
    (∀ z, (proxAvgFn l .zero).eval z = (l.map (fun p => p.1 * p.2.eval z)).sum) ∧
    IsGradAt (proxAvgFn l .zero).eval x ((proxAvgFn l .zero).grad x) := by
  refine ⟨fun z => ?_, (proxAvgFn l .zero).isGradAt x (proxAvgFn_smooth l .zero x trivial h)⟩
  rw [proxAvgFn_eval]; simp [Fn.eval]

/-- the gradients of `c·f` and `f+g` are the corresponding combinations -/
theorem C07_combinations (c : ℝ) (f g : Fn ℝ n) (x : CVec ℝ n) :
    (Fn.scaled c f).grad x = vsmul c (f.grad x) ∧ (Fn.add f g).grad x = vadd (f.grad x) (g.grad x) := by
  constructor
  · funext i; apply Cx.ext' <;> simp [Fn.grad, Fn.jaxGrad, scicoGrad, conjVec, vsmul]
  · funext i; apply Cx.ext' <;> simp [Fn.grad, Fn.jaxGrad, scicoGrad, conjVec, vadd]; ring

/-- `f * c` / `c * f` with the class-directed dispatch of the code (`ScaledFunctional.__mul__`
    folds the factor, `Loss.__mul__` rescales a copy): the derived object evaluates to `c·f` and
    its `grad` is the gradient of `c·f`. -/
theorem C07_mul_scalar (f : Fn ℝ n) (c : ℝ) (x : CVec ℝ n) (h : f.Smooth x) :
    (∀ z, (f.mulScalar c).eval z = c * f.eval z) ∧
    IsGradAt (fun z => c * f.eval z) x ((f.mulScalar c).grad x) := by
  have he : ∀ z, (f.mulScalar c).eval z = c * f.eval z := by
    intro z
    cases f <;> simp [Fn.mulScalar, Fn.eval] <;> ring
  have hs : (f.mulScalar c).Smooth x := by
    cases f <;> simp [Fn.mulScalar, Fn.Smooth] at h ⊢ <;> exact h
  refine ⟨he, ?_⟩
  have := (f.mulScalar c).isGradAt x hs
  have hf : (f.mulScalar c).eval = fun z => c * f.eval z := funext he
  rwa [hf] at this

/-- `f / c` exists for losses only and then is the loss with `scale/c`: it evaluates to `f/c`
    and its `grad` is the gradient of that -/
theorem C07_div_scalar (f f' : Fn ℝ n) (c : ℝ) (x : CVec ℝ n) (h : f.Smooth x)
    (hd : f.divScalar c = some f') :
    (∀ z, f'.eval z = f.eval z / c) ∧ IsGradAt (fun z => f.eval z / c) x (f'.grad x) := by
  have he : ∀ z, f'.eval z = f.eval z / c := by
    intro z
    cases f <;> simp [Fn.divScalar] at hd <;> subst hd <;> simp [Fn.eval] <;> ring
  have hs : f'.Smooth x := by
    cases f <;> simp [Fn.divScalar] at hd <;> subst hd <;> simpa [Fn.Smooth] using h
  refine ⟨he, ?_⟩
  have := f'.isGradAt x hs
  have hf : f'.eval = fun z => f.eval z / c := funext he
  rwa [hf] at this

/-- `SeparableFunctional` on a block array: value is the sum over blocks, gradient is the block
    array of the per-block gradients -/
theorem C07_separable (f : Fn ℝ n) (g : Fn ℝ k) (x : CVec ℝ (n + k)) :
    (Fn.sep f g).eval x = f.eval (vleft x) + g.eval (vright x) ∧
    (Fn.sep f g).grad x = vappend (f.grad (vleft x)) (g.grad (vright x)) := by
  refine ⟨rfl, ?_⟩
  simp only [Fn.grad, Fn.jaxGrad, scicoGrad]
  exact conjVec_vappend _ _

/-- for any functional on a block argument, the blocks of the gradient are the gradients with
    respect to each block (other blocks held fixed) -/
theorem C07_block_partial (f : CVec ℝ (n + k) → ℝ) (x g : CVec ℝ (n + k)) (h : IsGradAt f x g) :
    IsGradAt (fun u => f (vappend u (vright x))) (vleft x) (vleft g) ∧
    IsGradAt (fun u => f (vappend (vleft x) u)) (vright x) (vright g) :=
  ⟨isGradAt_left f x g h, isGradAt_right f x g h⟩

/-! ## the documented functionals one by one (explicit formulas) -/

/-- squared l2 norm: gradient `2x`, everywhere -/
theorem C07_deriv_sqL2 (x : CVec ℝ n) :
    IsGradAt (fun z => ∑ i, Cx.abs2 (z i)) x (vsmul 2 x) := by
  have h := (Fn.sqL2 : Fn ℝ n).isGradAt x trivial
  have hf : (Fn.sqL2 : Fn ℝ n).eval = fun z => ∑ i, Cx.abs2 (z i) := by
    funext z; simp [Fn.eval, sumAbs2_eq]
  have hg : (Fn.sqL2 : Fn ℝ n).grad x = vsmul 2 x := by
    funext i; apply Cx.ext' <;> simp [Fn.grad, Fn.jaxGrad, scicoGrad, conjVec, vsmul, two_eq]
  rwa [hf, hg] at h

/-- l2 norm away from the origin: gradient `x/‖x‖` -/
theorem C07_deriv_l2 (x : CVec ℝ n) (hx : ∑ i, Cx.abs2 (x i) ≠ 0) :
    IsGradAt (fun z => Real.sqrt (∑ i, Cx.abs2 (z i))) x
      (fun i => Cx.divr (x i) (Real.sqrt (∑ i, Cx.abs2 (x i)))) := by
  have h := (Fn.l2 : Fn ℝ n).isGradAt x (by simpa [Fn.Smooth, sumAbs2_eq] using hx)
  have hf : (Fn.l2 : Fn ℝ n).eval = fun z => Real.sqrt (∑ i, Cx.abs2 (z i)) := by
    funext z; simp [Fn.eval, norm2, sumAbs2_eq, hasSqrt_real]
  have hg : (Fn.l2 : Fn ℝ n).grad x = fun i => Cx.divr (x i) (Real.sqrt (∑ i, Cx.abs2 (x i))) := by
    funext i
    apply Cx.ext' <;>
      simp [Fn.grad, Fn.jaxGrad, scicoGrad, conjVec, norm2, sumAbs2_eq, hasSqrt_real, neg_div]
  rwa [hf, hg] at h

/-- l1 norm away from zero coordinates: gradient `xᵢ/|xᵢ|` -/
theorem C07_deriv_l1 (x : CVec ℝ n) (hx : ∀ i, Cx.abs2 (x i) ≠ 0) :
    IsGradAt (fun z => ∑ i, Real.sqrt (Cx.abs2 (z i))) x
      (fun i => Cx.divr (x i) (Real.sqrt (Cx.abs2 (x i)))) := by
  have h := (Fn.l1 : Fn ℝ n).isGradAt x hx
  have hf : (Fn.l1 : Fn ℝ n).eval = fun z => ∑ i, Real.sqrt (Cx.abs2 (z i)) := by
    funext z; simp [Fn.eval, vsum_eq, Cx.abs, hasSqrt_real]
  have hg : (Fn.l1 : Fn ℝ n).grad x = fun i => Cx.divr (x i) (Real.sqrt (Cx.abs2 (x i))) := by
    funext i
    simp only [Fn.grad, Fn.jaxGrad, scicoGrad, conjVec, absGrad_of_ne _ (hx i)]
    apply Cx.ext' <;> simp [Cx.abs, hasSqrt_real, neg_div]
  rwa [hf, hg] at h

/-- the guards of the smoothness domain are necessary, not artefacts of the model: the l1 norm has NO
    gradient (in the sense of C07) at any point with a zero coordinate, the l2 norm none at the origin -/
theorem C07_smooth_domain_tight (x : CVec ℝ n) (i : Fin n) :
    (x i = 0 → ¬ ∃ g, IsGradAt (Fn.l1 : Fn ℝ n).eval x g) ∧
    (¬ ∃ g, IsGradAt (Fn.l2 : Fn ℝ n).eval (fun _ => 0) g) :=
  ⟨fun hi => l1_not_grad x i hi, l2_not_grad i⟩

/-- at the kinks of the l1 norm (some `xᵢ = 0`, where no gradient exists) what `grad` returns is still a
    **sub-gradient**: for every `g` with `gᵢ = xᵢ/|xᵢ|` where `xᵢ ≠ 0` and `|gᵢ| ≤ 1` where `xᵢ = 0` — JAX gives `0`
    there for complex arrays (the model's `grad`) and `1` for real arrays — `‖z‖₁ ≥ ‖x‖₁ + Re⟪g, z − x⟫` for all `z` -/
theorem C07_l1_kink_subgradient (x z : CVec ℝ n) :
    (∀ g : CVec ℝ n, (∀ i, Cx.abs2 (x i) ≠ 0 → g i = Cx.divr (x i) (Cx.abs (x i))) →
      (∀ i, Cx.abs2 (x i) = 0 → Cx.abs2 (g i) ≤ 1) →
      (Fn.l1 : Fn ℝ n).eval x + reInner g (vsub z x) ≤ (Fn.l1 : Fn ℝ n).eval z) ∧
    (Fn.l1 : Fn ℝ n).eval x + reInner ((Fn.l1 : Fn ℝ n).grad x) (vsub z x) ≤ (Fn.l1 : Fn ℝ n).eval z := by
  refine ⟨fun g h1 h0 => l1_subgradient x g z h1 h0, l1_subgradient x _ z (fun i hi => ?_) (fun i hi => ?_)⟩
  · simp only [Fn.grad, Fn.jaxGrad, scicoGrad, conjVec, absGrad_of_ne _ hi]
    apply Cx.ext' <;> simp [neg_div]
  · simp only [Fn.grad, Fn.jaxGrad, scicoGrad, conjVec, absGrad_of_zero _ hi]
    simp [Cx.abs2, Cx.conj]

/-- Huber norm, separable form, **everywhere** (threshold `|xᵢ| = δ` and `xᵢ = 0` included):
    gradient `xᵢ` inside, `δ xᵢ/|xᵢ|` outside -/
theorem C07_deriv_huber_sep (δ : ℝ) (hδ : 0 < δ) (x : CVec ℝ n) :
    IsGradAt (Fn.huber δ true : Fn ℝ n).eval x
      (fun i => if δ < Real.sqrt (Cx.abs2 (x i)) then
                  Cx.smul δ (Cx.divr (x i) (Real.sqrt (Cx.abs2 (x i)))) else x i) := by
  have h := (Fn.huber δ true : Fn ℝ n).isGradAt x hδ
  have hg : (Fn.huber δ true : Fn ℝ n).grad x = fun i => if δ < Real.sqrt (Cx.abs2 (x i)) then
      Cx.smul δ (Cx.divr (x i) (Real.sqrt (Cx.abs2 (x i)))) else x i := by
    funext i
    simp only [Fn.grad, Fn.jaxGrad, scicoGrad, conjVec, Cx.abs, hasSqrt_real]
    by_cases hc : δ < Real.sqrt (Cx.abs2 (x i))
    · simp only [hc, if_true]
      apply Cx.ext' <;> simp [neg_div]
    · simp only [hc, if_false]
      apply Cx.ext' <;> simp
  rwa [hg] at h

/-- Huber norm, non-separable form (code after repair 7a3a18a), **everywhere** (threshold
    `‖x‖ = δ` and `x = 0` included): gradient `x` inside, `δ x/‖x‖` outside -/
theorem C07_deriv_huber_nonsep (δ : ℝ) (hδ : 0 < δ) (x : CVec ℝ n) :
    IsGradAt (Fn.huber δ false : Fn ℝ n).eval x
      (fun i => if δ < norm2 x then Cx.smul δ (Cx.divr (x i) (norm2 x)) else x i) := by
  have h := (Fn.huber δ false : Fn ℝ n).isGradAt x hδ
  have hg : (Fn.huber δ false : Fn ℝ n).grad x =
      fun i => if δ < norm2 x then Cx.smul δ (Cx.divr (x i) (norm2 x)) else x i := by
    funext i
    simp only [Fn.grad, Fn.jaxGrad, scicoGrad, conjVec]
    by_cases hc : δ < norm2 x
    · simp only [hc, if_true]
      apply Cx.ext' <;> simp [neg_div]
    · simp only [hc, if_false]
      apply Cx.ext' <;> simp
  rwa [hg] at h

/-- the formula the code used before the repair (`‖x‖·x/‖x‖` inside, through `norm`) agrees with it
    exactly on `x ≠ 0`; at `x = 0` it is `0·(0/0)` (NaN in IEEE arithmetic) although the gradient
    there is `0` by the previous theorem — the recorded finding `huber-nonsep-grad-at-zero`. -/
theorem C07_huber_nonsep_old_formula_partial (δ : ℝ) (x : CVec ℝ n) (hx : sumAbs2 x ≠ 0) :
    huberNonsepOldJaxGrad δ x = (Fn.huber δ false : Fn ℝ n).jaxGrad x :=
  huberNonsepOld_eq δ x hx

/-- real argument array with complex operators/data inside the functional (e.g. a real image and
    a Fourier-domain loss): `grad` returns a real array, the real part of the complex gradient,
    and it is the gradient for all (real) directions -/
theorem C07_real_argument (f : Fn ℝ n) (x : CVec ℝ n) (h : f.Smooth x) (d : CVec ℝ n)
    (hd : ∀ i, (d i).im = 0) :
    HasDerivAt (fun t : ℝ => f.eval (along x d t)) (reInner (f.gradRealArg x) d) 0 ∧
    (∀ i, (f.gradRealArg x i).im = 0) := by
  refine ⟨f.isGradAt_realArg x h d hd, fun i => ?_⟩
  simp [Fn.gradRealArg, scicoGrad, conjVec, Autograd.realPart]

/-! ## the model's plumbing is the table extracted from the source -/

/-- The conjugating wrappers of the model ARE the rows of `Tables.conjSites` (`(r, a)` = conjugations applied to the
    result / to the argument), the table that `Scico/Generated/AutogradTables.lean` (regenerated with `ast` from the
    scico sources on every run) must equal: `grad`/`value_and_grad`/`jacrev` closures `(1,0)`; `cvjp.conj_vjp`,
    `linear_adjoint.conj_fun`, `Operator.vjp` with `conjugate` `(1,1)`; without `conjugate`, `Operator.jvp` and the
    `jacobian`/`Function` plumbing `(0,0)`; `linear_adjoint` transposes `conj_fun, conj_fun, fun` in its three branches and
    `jacobian` always requests `conjugate=True`. -/
theorem C07_conj_sites {K : Type} [CommRing K] (G : CVec K m → CVec K n) (f : CVec K n → CVec K m) (v : CVec K m)
    (x jg : CVec K n) (T : (CVec K n → CVec K m) → (CVec K m → CVec K n)) :
    (∀ nm ∈ ["grad.conjugated_grad_aux", "grad.conjugated_grad", "value_and_grad.conjugated_value_and_grad_aux",
        "value_and_grad.conjugated_value_and_grad", "jacrev.conjugated_jacrev"], Tables.siteCounts nm = some (1, 0)) ∧
      scicoGrad jg = conjTimes 1 jg ∧
    (Tables.siteCounts "cvjp.conj_vjp" = some (1, 1) ∧ cvjpWrap G v = applySite 1 1 G v) ∧
    (Tables.siteCounts "linear_adjoint.conj_fun" = some (1, 1) ∧ conjFun f x = applySite 1 1 f x) ∧
    (Tables.siteCounts "Operator.vjp.Gmap#0" = some (1, 1) ∧ vjpWrap true G v = applySite 1 1 G v) ∧
    (Tables.siteCounts "Operator.vjp.Gmap#1" = some (0, 0) ∧ vjpWrap false G v = applySite 0 0 G v) ∧
    (∀ nm ∈ ["grad", "value_and_grad", "jacrev", "cvjp", "Operator.jvp", "Operator.vjp", "jacobian", "jacobian.adj_fn",
        "jacobian.eval_fn#0", "jacobian.eval_fn#1", "Function.slice", "Function.slice.pfunc", "Function.jvp",
        "Function.vjp", "Function.jacobian"], Tables.siteCounts nm = some (0, 0)) ∧
    (Tables.linadjBranches.map Prod.snd = ["conj_fun", "conj_fun", "fun"] ∧
      linearAdjoint T true true f = T (conjFun f) ∧ linearAdjoint T false true f = T (conjFun f) ∧
      linearAdjoint T false false f = T f) ∧
    (⟨"jacobian", "vjp", "conjugate", "True"⟩ : Tables.Forward) ∈ Tables.forwards := by
  refine ⟨by decide, rfl, ⟨by decide, rfl⟩, ⟨by decide, rfl⟩, ⟨by decide, rfl⟩, ⟨by decide, vjpWrap_false_site G v⟩,
    by decide, ⟨by decide, by simp [linearAdjoint], by simp [linearAdjoint], by simp [linearAdjoint]⟩, by decide⟩

/-! ## argument slots of `Function` and `cvjp` -/

/-- `Function.slice/jvp/vjp/jacobian(index, …)`: removing slot `index` (`fix_args`) and re-inserting
    the free variable (`pfunc`) evaluates the function at the original argument list with slot
    `index` replaced — so the derivative taken is the partial derivative in that slot; likewise
    for `cvjp(…, jidx)` through `scico.util.partial`. -/
theorem C07_function_slots {β : Type} (args : List β) (i : Nat) (h : i < args.length) (var : β) :
    sliceArgs i (fixArgs i args) var = args.set i var ∧
    sliceArgs i (fixArgs i args) args[i] = args ∧
    cvjpArgs i args var = some (args.set i var) :=
  ⟨sliceArgs_fixArgs_var args i h var, sliceArgs_fixArgs args i h, cvjpArgs_eq args i h var⟩

/-! ## scaled copies of a loss keep a correct gradient -/

/-- After **any** history of `Loss(...)`, `c*L`, `L*c`, `L/c`, `L.set_scale(s)` on any objects, for
    every object the factor used by `grad` is the factor used by `__call__`; so if `γ` is the
    gradient of the unit-scale loss `φ` at `x`, `obj.grad(x) = scale·γ` is the gradient of
    `obj(x) = scale·φ`. -/
theorem C07_rebind (ops : List (LossOp ℝ)) (i : Nat) (se : ℝ)
    (hs : (Heap.run ([] : Heap ℝ) ops).evalScale i = some se)
    (φ : CVec ℝ n → ℝ) (x γ : CVec ℝ n) (hγ : IsGradAt φ x γ) :
    (Heap.run ([] : Heap ℝ) ops).gradScale i = some se ∧ IsGradAt (fun z => se * φ z) x (vsmul se γ) := by
  refine ⟨by rw [Heap.gradScale_eq_evalScale]; exact hs, ?_⟩
  intro d
  rw [reInner_vsmul_left]
  exact (hγ d).const_mul se

/-- a Hessian operator `H = L.hessian` **kept across later operations** (`set_scale` on `L`, copies `c*L`, `L/c`,
    new losses …): taken from object `i` after ANY history `ops₁`, applied after ANY continuation `ops₂`, it
    still exists, applies `2·se·AᴴWA` with `se` the CURRENT scale of `L`, and is therefore the Hessian of the
    function `L` currently is (exact second-order expansion) — `set_scale` on `L` is followed, rescaled copies
    of `L` do not affect it. -/
theorem C07_hessian_handle (ops₁ ops₂ : List (LossOp ℝ)) (i : Nat)
    (hi : (Heap.run ([] : Heap ℝ) ops₁).evalScale i ≠ none)
    (A : Mat ℝ m n) (y : CVec ℝ m) (w : Vec ℝ m) (x d : CVec ℝ n) :
    ∃ se, (Heap.run ([] : Heap ℝ) (ops₁ ++ ops₂)).evalScale i = some se ∧
      (Heap.run ([] : Heap ℝ) (ops₁ ++ ops₂)).hessHandleApply i A w d = some (hessianApply se A w d) ∧
      (Fn.sqL2Loss se A y w).eval (vadd x d) =
        (Fn.sqL2Loss se A y w).eval x + reInner ((Fn.sqL2Loss se A y w).grad x) d
          + (1 / 2) * reInner (hessianApply se A w d) d := by
  obtain ⟨se, hse⟩ := Heap.evalScale_isSome_mono ops₁ ops₂ i hi
  exact ⟨se, hse, by simp [Heap.hessHandleApply, hse], sqL2Loss_expansion se A y w x d⟩

/-- the re-binding line of `Loss.__mul__` is what makes this true: with `copy` alone the product
    `2 * L` would use the *old* scale in its gradient -/
theorem C07_stale_without_rebind :
    let h := ([LossOp.new 1, LossOp.mul 0 2] : List (LossOp Nat)).foldl Heap.stepNoRebind []
    h.evalScale 1 = some 2 ∧ h.gradScale 1 = some 1 := by
  decide

/-! ## non-vacuity -/

-- a nested derived functional and a point of its smoothness domain
example : (Fn.scaled 3 (Fn.add Fn.l2 (Fn.huber 1 true)) : Fn ℝ 2).Smooth (fun i => ⟨1, (i : ℝ)⟩) := by
  simp [Fn.Smooth, sumAbs2_eq, Fin.sum_univ_two, Cx.abs2]
  norm_num

-- a loss composed with an operator whose residual is on the Huber threshold, and a 1-norm of a
-- residual with no zero coordinate
example : (Fn.loss (m := 1) 2 (fun _ _ => ⟨1, 0⟩) (fun _ => ⟨0, 0⟩) (Fn.add (Fn.huber 1 false) Fn.l1) : Fn ℝ 1).Smooth (fun _ => ⟨1, 0⟩) := by
  simp [Fn.Smooth, vsub, mulVec_eq, Cx.abs2]

-- the hypothesis of `C07_vjp_adj` / `C07_jacobian_op` holds for every dense Jacobian
example (A : Mat ℝ 2 3) : ∀ c d, bdot (mulVec (transpose A) c) d = bdot c (mulVec A d) := bdot_transpose A

-- the hypothesis of `C07_linear_adjoint` holds for the transpose of a dense matrix
example (M : Mat ℝ 2 3) : ∀ y x, bdot (mulVec (transpose (conjMat M)) y) x = bdot y (conjFun (mulVec M) x) := by
  intro y x; rw [conjFun_mulVec]; exact bdot_transpose _ y x

-- the hypothesis of `C07_linear_adjoint_real_pairing` holds for the complex → real map `x ↦ Re x`
-- (not ℂ-linear), whose transpose for `Re Σ aᵢbᵢ` is `y ↦ Re y`
example : ∀ (y x : CVec ℝ 2), reBdot (Autograd.realPart y) x =
    reBdot y (conjFun (fun z : CVec ℝ 2 => Autograd.realPart z) x) := by
  intro y x
  rw [reBdot_eq, reBdot_eq]
  exact Finset.sum_congr rfl (fun i _ => by simp [conjFun, conjVec, Autograd.realPart])

-- a history with three live objects
example : (Heap.run ([] : Heap Nat) [.new 1, .mul 0 2, .setScale 0 5, .mul 1 3]).evalScale 2 = some 6 := by
  decide

-- `C07_chain_nonlinear`: its hypotheses hold for a concrete non-holomorphic quadratic operator
-- (`F(x) = x + i·conj(x) + x²` on ℂ¹) and the Huber norm as `φ`
example : let F : Op ℝ 1 1 := ⟨fun _ _ => ⟨1, 0⟩, fun _ _ => ⟨0, 1⟩, fun _ _ => ⟨1, 0⟩, fun _ => 0⟩
    let x : CVec ℝ 1 := fun _ => ⟨1, 2⟩
    (∀ d, Tangent (fun t => F.eval (along x d t)) (F.jvp x d)) ∧
    (∀ c d, reBdot (F.vjpT x c) d = reBdot c (F.jvp x d)) ∧
    IsCurveGradAt (Fn.huber 1 false : Fn ℝ 1).eval (vsub (F.eval x) 0)
      ((Fn.huber 1 false : Fn ℝ 1).grad (vsub (F.eval x) 0)) := by
  intro F x
  exact ⟨fun d => (C07_operator_jacobian F x d 0).1, fun c d => (C07_operator_jacobian F x 0 0).2.1 c d,
    C07_curve _ _ (by simp [Fn.Smooth])⟩

-- `C07_set_distance`: the contracts hold for the projection onto a subspace `P z = M z` (any matrix)
example (M : Mat ℝ 2 2) (x : CVec ℝ 2) :
    (∀ d, Tangent (fun t => mulVec M (along x d t)) (mulVec M d)) ∧
    (∀ c d, reBdot (mulVec (transpose M) c) d = reBdot c (mulVec M d)) :=
  ⟨fun d => tangent_mulVec M (tangent_along x d), reBdot_transpose M⟩

-- `C07_squared_distance_convex`: the projection onto `{z : Re zᵢ ≥ 0}` (clamp of the real parts — not
-- differentiable on the faces) satisfies `IsProjection`
example : IsProjection (n := 3) (fun z => ∀ i, 0 ≤ (z i).re) (fun z i => ⟨max (z i).re 0, (z i).im⟩) := by
  refine ⟨fun x i => le_max_right _ _, fun x z hz => ?_⟩
  rw [reInner_eq]
  refine Finset.sum_nonpos (fun i _ => ?_)
  simp only [vsub, Cx.sub_re, Cx.sub_im, sub_self, zero_mul, add_zero]
  rcases le_total 0 (x i).re with h | h
  · rw [max_eq_left h]; simp
  · rw [max_eq_right h]
    have := hz i
    nlinarith

-- `C07_operator_tree` on a concrete tree `F(F + i·F) − F` over a non-holomorphic quadratic leaf
example : let F : Op ℝ 1 1 := ⟨fun _ _ => ⟨1, 0⟩, fun _ _ => ⟨0, 1⟩, fun _ _ => ⟨1, 0⟩, fun _ => 0⟩
    let T : OpT ℝ 1 1 := .sub (.comp (.leaf F) (.add (.leaf F) (.smul ⟨0, 1⟩ (.leaf F)))) (.leaf F)
    ∀ u v w : CVec ℝ 1, reInner (vjpWrap true (T.vjpT u) w) v = reInner w (T.jvp u v) :=
  fun u v w => (C07_operator_tree _ u v w).2.2

-- `C07_group_norm_structural_zero`: a 1-D non-circular difference `[x₁−x₀, 0]` with one group per row:
-- the second group is structurally zero, the first is non-zero at `x = (0, 1)`
example : let A : Mat ℝ 2 2 := fun i j => if i = 0 then (if j = 0 then ⟨-1, 0⟩ else ⟨1, 0⟩) else 0
    let x : CVec ℝ 2 := fun j => if j = 0 then 0 else ⟨1, 0⟩
    ∀ g : Fin 2, groupAbs2 (fun i : Fin 2 => i) (vsub (mulVec A x) 0) g ≠ 0 ∨
      ∀ i : Fin 2, i = g → ((0 : CVec ℝ 2) i = 0 ∧ ∀ j, A i j = 0) := by
  intro A x g
  fin_cases g
  · left
    simp [groupAbs2_eq, Fin.sum_univ_two, vsub, mulVec_eq, Cx.abs2, A, x]
  · right
    intro i hi
    subst hi
    exact ⟨rfl, fun j => by simp [A]⟩

-- Poisson / abs-loss smoothness domains are inhabited (identity operator, positive point)
example : (Fn.poisson (n := 1) (m := 1) 2 (fun _ _ => ⟨1, 0⟩) (fun _ => 3) (fun _ => 0) : Fn ℝ 1).Smooth (fun _ => ⟨2, 0⟩) := by
  simp [Fn.Smooth, mulVec_eq]

example : (Fn.sqL2AbsLoss (n := 1) (m := 1) 2 (fun _ _ => ⟨0, 1⟩) (fun _ => 3) (fun _ => 1) : Fn ℝ 1).Smooth (fun _ => ⟨2, 1⟩) := by
  simp [Fn.Smooth, mulVec_eq, Cx.abs2]
  norm_num

-- `ProximalAverage([L1Norm, SquaredL2Norm], [1, 3])`: stored weights are `1/4, 3/4`
example : proxAvgWeights 2 (fun k => (k : ℚ)) (some [1, 3]) = [1/4, 3/4] := by
  simp [proxAvgWeights]; norm_num

-- `C07_hessian_handle`: handle taken from object 0 after `[new 1]`, then `set_scale(0, 5)` and a copy `3*L`:
-- the handle applies the scale 5 (not 1, not 15)
example : (Heap.run ([] : Heap Nat) ([.new 1] ++ [.setScale 0 5, .mul 0 3])).evalScale 0 = some 5 := by decide

-- slot plumbing on a concrete argument list
example : sliceArgs 1 (fixArgs 1 [10, 20, 30]) 99 = [10, 99, 30] := by decide
example : cvjpArgs 2 [10, 20, 30] 99 = some [10, 20, 99] := by decide

end Scico.Props.C07
