/-
  Property C12 — declared shapes match actual behaviour.   ONLY property theorems here.

  Part 1 (this section): the integer shape calculus behind `Slice`, `indexed_shape`,
  `slice_length`:  the declared length of a sliced axis equals the number of positions
  Python/NumPy indexing actually selects, for every axis length, every start/stop/step
  (including negative steps and out-of-range bounds), and every selected position is
  a valid index of the axis.
-/
import Scico.Proofs.Shape
import Scico.Proofs.ShapeExt
import Scico.Proofs.ShapeIdx
import Scico.Proofs.OpAlgReject
import Scico.Proofs.OpAlgDtU
import Scico.Proofs.OpAlgStackTree
import Scico.Proofs.OpAlgStackDt
import Scico.Proofs.OpAlgFreeze
import Scico.Proofs.OpAlgRep
import Scico.Proofs.OpAlgTables

namespace Scico.Props.C12
open Scico.Shape

/-- `slice_length` (model `sliceLen`) = number of positions selected by Python slicing. -/
theorem C12_sliceLen_eq_selected (n : Nat) (sl : PySlice) (l : List Int)
    (h : selected n sl = some l) : sliceLen n sl = some (l.length : Int) := by
  unfold selected at h
  unfold sliceLen
  cases hidx : pyIndices n sl with
  | none => simp [hidx] at h
  | some t =>
    obtain ⟨a, b, s⟩ := t
    simp only [hidx, Option.some.injEq] at h ⊢
    subst h
    obtain ⟨hs, hpos, hneg⟩ := pyIndices_bounds n sl a b s hidx
    exact (rangeList_length n a b s hs (rangeLen_le_of_bounds hs hpos hneg)).symm

/-- slicing is rejected (Python `ValueError`) exactly for a zero step -/
theorem C12_slice_rejected_iff (n : Nat) (sl : PySlice) :
    sliceLen n sl = none ↔ sl.step = some 0 := by
  unfold sliceLen pyIndices
  cases hst : sl.step with
  | none => simp
  | some v => by_cases hv : v = 0 <;> simp [hv]

/-- every selected position is a valid index of the axis -/
theorem C12_selected_in_bounds (n : Nat) (sl : PySlice) (l : List Int)
    (h : selected n sl = some l) : ∀ p ∈ l, 0 ≤ p ∧ p < n := by
  unfold selected at h
  cases hidx : pyIndices n sl with
  | none => simp [hidx] at h
  | some t =>
    obtain ⟨a, b, s⟩ := t
    simp only [hidx, Option.some.injEq] at h
    subst h
    obtain ⟨_, hpos, hneg⟩ := pyIndices_bounds n sl a b s hidx
    intro p hp
    rcases rangeList_mem n a b s p hp with ⟨h1, h2, h3⟩ | ⟨h1, h2, h3⟩
    · obtain ⟨q1, q2, q3, q4⟩ := hpos h1
      omega
    · obtain ⟨q1, q2, q3, q4⟩ := hneg h1
      omega

/-- the declared length never exceeds the axis and is never negative -/
theorem C12_sliceLen_range (n : Nat) (sl : PySlice) (k : Int) (h : sliceLen n sl = some k) :
    0 ≤ k ∧ k ≤ n := by
  unfold sliceLen at h
  cases hidx : pyIndices n sl with
  | none => simp [hidx] at h
  | some t =>
    obtain ⟨a, b, s⟩ := t
    simp only [hidx, Option.some.injEq] at h
    subst h
    obtain ⟨hs, hpos, hneg⟩ := pyIndices_bounds n sl a b s hidx
    exact ⟨rangeLen_nonneg a b s, rangeLen_le_of_bounds hs hpos hneg⟩

-- non-vacuity: a reversed slice of a length-5 axis selects 4,3,2,1,0 (five positions)
example : selected 5 ⟨none, none, some (-1)⟩ = some [4, 3, 2, 1, 0] := by decide
example : sliceLen 5 ⟨none, none, some (-1)⟩ = some 5 := by decide
example : selected 6 ⟨some (-8), some 5, some 2⟩ = some [0, 2, 4] := by decide


/-! ### stacking / collapse rules (`scico/operator/_stack.py`, after fixes/opalg-13) and `indexed_shape` -/

/-- **Collapse rules.**  A sequence of shapes is *stacked* into the plain shape `(N, *S)` exactly when
    collapsing is allowed and all of them are one plain shape `S` (then the number of elements is
    preserved); it is *rejected* (twice-nested) exactly when it is not stacked and some shape is a
    BlockArray shape; otherwise it becomes the BlockArray shape of the given blocks. -/
theorem C12_collapse_spec (s : NShape) (rest : List NShape) (allow : Bool) :
    (∀ d, collapseShapes (s :: rest) allow = some (.stacked d)
        ↔ (allow = true ∧ ∃ dims, s = .plain dims ∧ (∀ t ∈ rest, t = s) ∧ d = (rest.length + 1) :: dims))
    ∧ (collapseShapes (s :: rest) allow = none
        ↔ (¬ (isCollapsible (s :: rest) = true ∧ allow = true) ∧ ∃ t ∈ s :: rest, t.isNested = true))
    ∧ (∀ d, collapseShapes (s :: rest) allow = some (.stacked d)
        → prodList d = ((s :: rest).map shapeToSize).foldr (· + ·) 0) :=
  ⟨fun d => collapse_stacked_iff s rest allow d, collapse_error_iff s rest allow,
   fun d h => collapse_stacked_size s rest allow d h⟩

/-- **`indexed_shape` = NumPy basic indexing.**  The loop of `indexed_shape` (model `indexedShape`:
    the state `idx_shape, offset, newaxis` exactly as the code updates it) computes the shape NumPy's
    basic indexing gives (`indexSpec`: consume the axes left to right, `None` inserts a unit axis,
    `Ellipsis` stands for the axes not consumed by the other entries, missing trailing entries are
    full slices) for EVERY shape and EVERY index tuple of ints / slices / `None` with at most one
    `Ellipsis` — including which indices are rejected (out-of-range integer, zero step, too many
    indices). -/
theorem C12_indexedShape_spec (shape : List Nat) (idx : List Idx)
    (h : (idx.filter (· = .ellipsis)).length ≤ 1) :
    indexedShape shape idx = indexSpec shape idx :=
  indexedShape_eq_spec shape idx h

/-- what the specification says in the three basic situations (sanity of `indexSpec`): the empty
    index keeps the shape; one leading `None` prepends a unit axis; one leading in-range integer
    removes the first axis -/
theorem C12_indexSpec_basic (n : Nat) (shape : List Nat) (i : Int) (hi : -(n : Int) ≤ i ∧ i < n) :
    indexSpec (n :: shape) [] = some (n :: shape)
    ∧ indexSpec (n :: shape) [.newaxis] = some (1 :: n :: shape)
    ∧ indexSpec (n :: shape) [.int i] = some shape
    ∧ indexSpec (n :: shape) [.ellipsis] = some (n :: shape) := by
  refine ⟨by simp [indexSpec, indexWalk], by simp [indexSpec, indexWalk, Idx.consumes], ?_, ?_⟩
  · have h1 : ¬ (i < -(n : Int) ∨ i > (n : Int) - 1) := by omega
    simp [indexSpec, indexWalk, List.filter_cons, Idx.consumes, axisLen, h1]
  · simp [indexSpec, indexWalk, Idx.consumes]

example : indexedShape [3, 4] [.newaxis, .slice ⟨some 0, some 2, none⟩] = some [1, 2, 4] := by decide
example : indexSpec [3, 4] [.newaxis, .slice ⟨some 0, some 2, none⟩] = some [1, 2, 4] := by decide
example : indexedShape [2, 3, 4] [.ellipsis, .int (-1)] = some [2, 3] := by decide
example : indexSpec [2, 3, 4] [.int 1, .ellipsis, .newaxis, .slice ⟨none, none, some (-2)⟩] = some [3, 1, 2] := by decide
example : indexSpec [2, 3] [.int 0, .int 0, .int 0] = none := by decide
example : collapseShapes [.plain [2, 3], .plain [2, 3]] true = some (.stacked [2, 2, 3]) := by decide
example : collapseShapes [.nested [[2], [3]], .nested [[2], [3]]] true = none := by decide

/-! ## Part 2 — declared metadata of derived operators (engine OpAlg, repaired tree) -/

set_option linter.unusedSectionVars false
section opmeta
open Scico.OpAlg Scico.DType
attribute [local instance] starConj
variable {K : Type} [Field K] [StarRing K] [HasRe K]

/-- **Declared shapes are the actual shapes.**  For every accepted linear expression (any depth,
    any classes): evaluation returns an array with exactly the declared output size, the adjoint
    one with exactly the declared input size, nothing is written beyond those sizes, and
    `matrix_shape` is (output size, input size) = the shape of the denoted matrix. -/
theorem C12_meta_sound (e : LExpr K) (m : Meta) (hm : infer e = .ok m) (hl : Lin e)
    (hp : PlainDiagProducts e) (hK : RealK K ∨ AllC e) :
    m.matrixShape = (m.outShape.size, m.inShape.size) ∧ m.matrixShape = dims e
    ∧ (∀ x : Vc K, ((run e).eval x).size = m.outShape.size
        ∧ ∀ i, m.outShape.size ≤ i → ((run e).eval x).get i = 0)
    ∧ (∀ y : Vc K, ((run e).adj y).size = m.inShape.size
        ∧ ∀ j, m.inShape.size ≤ j → ((run e).adj y).get j = 0) := by
  obtain ⟨o, hb, hmd, hr⟩ := of_infer hm
  obtain ⟨hS, h1, h2⟩ := build_sound e o hl hp hK hb
  subst hmd
  refine ⟨rfl, Prod.ext h1 h2, ?_, ?_⟩
  · intro x
    rw [hr]
    refine ⟨hS.evSz x, fun i hi => ?_⟩
    have := hS.ev x i
    simp only [Obj.impl] at this ⊢
    rw [this]; simp [Obj.m, Nat.not_lt.mpr hi]
  · intro y
    rw [hr]
    refine ⟨hS.adSz y, fun j hj => ?_⟩
    have := hS.ad y j
    simp only [Obj.impl] at this ⊢
    rw [this]; simp [Obj.n, Nat.not_lt.mpr hj]

/-- **Non-conforming arrays are rejected, never broadcast.**  `__call__` evaluates an array exactly
    when its shape is the declared input shape (and then returns `_eval` of it). -/
theorem C12_reject_nonconforming (o : Obj K) (xsh : Shape) (x : Vc K) :
    ((∃ v, o.callArr xsh x = .ok v) ↔ xsh = o.md.inShape)
    ∧ (∀ v, o.callArr xsh x = .ok v → v = o.eval x) := by
  unfold Obj.callArr
  by_cases h : o.md.inShape = xsh
  · simp [h]
  · have h' : ¬ xsh = o.md.inShape := fun hh => h hh.symm
    simp [h, h']

/-- **The adjoint enforces shape and dtype.**  `LinearOperator.adj` evaluates an array exactly when
    it has the declared output shape and (except for `MatrixOperator`, whose `adj` checks the shape
    only) the declared output dtype. -/
theorem C12_adj_enforces (o : Obj K) (ysh : Shape) (ydt : DT) (y : Vc K) :
    (∃ v, o.adjArr ysh ydt y = .ok v)
      ↔ (ysh = o.md.outShape ∧ (o.md.cls = .matrix ∨ ydt = o.md.outDt)) := by
  unfold Obj.adjArr
  by_cases hc : o.md.cls = .matrix
  · by_cases hs : o.md.outShape = ysh
    · simp [hc, hs]
    · have hs' : ¬ ysh = o.md.outShape := fun hh => hs hh.symm
      simp [hc, hs, hs']
  · by_cases hd : o.md.outDt = ydt
    · by_cases hs : o.md.outShape = ysh
      · simp [hc, hd, hs]
      · have hs' : ¬ ysh = o.md.outShape := fun hh => hs hh.symm
        simp [hc, hd, hs, hs']
    · have hd' : ¬ ydt = o.md.outDt := fun hh => hd hh.symm
      simp [hc, hd, hd']

/-- **Declared dtypes are the returned dtypes** (any expression, linear or not, any depth).
    Under the agreement conditions that scico does not check itself (`DtAgrees`: the operands of a
    *generic* sum declare the same dtypes, a composition through `Operator.__call__` chains its dtypes,
    a hand-written `adj_fn` returns the input dtype) evaluation on the declared input dtype returns
    exactly the declared output dtype, and `adj` accepts the declared output dtype (its dtype check and
    every inner one pass) and returns the declared input dtype.  Closed-form results (`MatrixOperator`,
    `Diagonal`, `ScaledIdentity`, `Identity`) need no condition.  The excluded cases are exactly the
    recorded findings `mixed-operand-dtypes` / `adj-dtype-check-mixed` (see the negative example). -/
theorem C12_dtype_sound (e : LExpr K) (o : Obj K) (hb : build e = .ok o) (hg : DtAgrees e) :
    o.evalDt o.md.inDt = .ok o.md.outDt
    ∧ (o.md.cls ≠ .op → o.adjCallDt o.md.outDt = .ok o.md.inDt)
    ∧ (o.md.cls = .matrix → o.md.outDt = o.md.inDt) :=
  let h := build_dt e o hg hb
  ⟨h.ev, h.ad, h.mx⟩

/-- **Dtype-uniform expressions** (a syntactic condition: every leaf is declared with the one dtype
    `dt`, scalar factors do not change it — Python floats always, Python complex numbers for a complex
    `dt`): every derived operator declares `dt` on both sides and returns it, forward and adjoint. -/
theorem C12_dtype_sound_uniform (dt : DT) (e : LExpr K) (o : Obj K) (hu : Uniform dt e)
    (hb : build e = .ok o) :
    o.md.inDt = dt ∧ o.md.outDt = dt ∧ o.evalDt dt = .ok dt
    ∧ (o.md.cls ≠ .op → o.adjCallDt dt = .ok dt) := by
  obtain ⟨hU, hD⟩ := build_uniform dt e o hu hb
  refine ⟨hU.inD, hU.outD, ?_, fun hc => ?_⟩
  · have := hD.ev; rwa [hU.inD, hU.outD] at this
  · have := hD.ad hc; rwa [hU.inD, hU.outD] at this

/-- **Stacks: declared shapes and dtypes.**  For `VerticalStack` / `DiagonalStack` of operator objects
    that denote matrices (any classes / derived expressions, any number):
    the vertical stack returns an array of exactly the declared output size = the sum of the operands'
    output sizes, on the operands' common input space, and its declared output shape is a plain array
    `(N, *S)` **iff** collapsing was requested and all operands have one plain output shape `S` (a block
    array otherwise); the diagonal stack's declared sizes are the sums on both sides. -/
theorem C12_stack_meta (ops : List (Obj K)) (Ds : List (Mx K)) (hA : AllSound ops Ds) :
    (∀ collapse o, vstack true ops collapse = .ok o →
        o.md.outShape.size = sumM ops ∧ (∀ o' ∈ ops, o'.md.inShape.size = o.md.inShape.size)
        ∧ (∀ x : Vc K, (o.eval x).size = o.md.outShape.size)
        ∧ (o.md.outShape.isNested = false
            ↔ (isCollapsibleS (ops.map (fun o => o.md.outShape)) && collapse) = true))
    ∧ (∀ cIn cOut o, dstack true ops cIn cOut = .ok o →
        o.md.outShape.size = sumM ops ∧ o.md.inShape.size = sumN ops
        ∧ (∀ x : Vc K, (o.eval x).size = o.md.outShape.size)
        ∧ (∀ y : Vc K, (o.adj y).size = o.md.inShape.size)) := by
  constructor
  · intro collapse o h
    obtain ⟨hS, hm, hn, hc⟩ := vstack_sound collapse hA h
    exact ⟨hm, hn, hS.evSz, hc⟩
  · intro cIn cOut o h
    obtain ⟨hS, hm, hn⟩ := dstack_sound cIn cOut hA h
    exact ⟨hm, hn, hS.evSz, hS.adSz⟩

/-- **Stacks: dtypes.**  Operands that declare different input or output dtypes cannot be stacked
    (both stacks, linear or not, whatever the collapse flags — the check repaired by repo commit
    d500f6a), and an accepted stack of dtype-sound operands is dtype-sound with no further condition:
    it returns its declared output dtype and its adjoint returns the declared input dtype. -/
theorem C12_stack_dtypes (lin : Bool) (ops : List (Obj K)) :
    (∀ a ∈ ops, ∀ b ∈ ops, (a.md.inDt ≠ b.md.inDt ∨ a.md.outDt ≠ b.md.outDt) → ∀ c1 c2,
        (∃ k, vstack lin ops c1 = .error k) ∧ (∃ k, dstack lin ops c1 c2 = .error k))
    ∧ ((∀ o' ∈ ops, DtOk o') →
        (∀ c o, vstack lin ops c = .ok o → DtOk o) ∧ (∀ c1 c2 o, dstack lin ops c1 c2 = .ok o → DtOk o)) :=
  ⟨fun a ha b hb hne c1 c2 => stack_reject_mixed_dtypes lin ops a b ha hb hne c1 c2,
   fun hd => ⟨fun c _ h => vstack_dt lin c hd h, fun c1 c2 _ h => dstack_dt lin c1 c2 hd h⟩⟩

/-- **`Operator.freeze`: acceptance, index normalisation, declared shapes** (repaired tree, ed13728).
    `freeze(argnum, val)` is accepted exactly for an operator on a BlockArray input, an index in
    `[-N, N)` and a value of the shape of that block; a negative index is the index counted from the end;
    the result declares the remaining blocks (a plain array iff two blocks, i.e. one remains), the
    operand's output space and dtypes, and its input size is the operand's minus the frozen block. -/
theorem C12_freeze_meta (o : Obj K) (k : Int) (valSh : Shape) (valDt : DT) (val : Vc K) :
    ((∃ r, freeze o k valSh valDt val = .ok r)
      ↔ ∃ bs p, o.md.inShape = .nested bs ∧ normIdx bs.length k = some p ∧ valSh = .plain (bs.getD p []))
    ∧ (∀ bs, o.md.inShape = .nested bs → -(bs.length : Int) ≤ k → k < 0 →
        freeze o k valSh valDt val = freeze o (k + bs.length) valSh valDt val)
    ∧ (∀ r bs p, o.md.inShape = .nested bs → normIdx bs.length k = some p →
        freeze o k valSh valDt val = .ok r →
        r.md.inShape = restShape (bs.eraseIdx p) ∧ r.md.outShape = o.md.outShape
        ∧ r.md.inDt = o.md.inDt ∧ r.md.outDt = o.md.outDt
        ∧ r.md.inShape.size + prodL (bs.getD p []) = o.md.inShape.size
        ∧ (r.md.inShape.isNested = false ↔ bs.length = 2)) := by
  refine ⟨freeze_ok_iff o k valSh valDt val, fun bs hsh h1 h2 => freeze_neg_index o bs hsh k h1 h2 _ _ _, ?_⟩
  intro r bs p hsh hp h
  obtain ⟨_, h2, h3, h4, h5, h6, h7, _, _⟩ := freeze_spec o k valSh valDt val r bs p hsh hp h
  exact ⟨h2, h3, h4, h5, h6, h7⟩

/-- **`Function.slice` / `Function.join`: declared metadata** (ed13728).  `slice(index, *fix)` is accepted
    iff the index is in `[-N, N)` (negative = from the end) and declares the shape and dtype of that
    parameter; `join()` is accepted iff all parameters have one dtype and declares the block shape of the
    parameters. -/
theorem C12_function_meta (f : Fn K) (k : Int) (fixArgs : List (Vc K)) (fixDts : List DT) :
    (∀ p, normIdx f.inShapes.length k = some p →
        ∃ r, f.slice k fixArgs fixDts = .ok r ∧ r.md.inShape = f.inShapes.getD p (.plain [])
          ∧ r.md.inDt = f.inDts.getD p .f32 ∧ r.md.outShape = f.outShape ∧ r.md.outDt = f.outDt)
    ∧ (normIdx f.inShapes.length k = none → f.slice k fixArgs fixDts = .error .other)
    ∧ (-(f.inShapes.length : Int) ≤ k → k < 0 →
        f.slice k fixArgs fixDts = f.slice (k + f.inShapes.length) fixArgs fixDts)
    ∧ (∀ d0 ds, f.inDts = d0 :: ds →
        (((∃ r, f.join = .ok r) ↔ ∀ d ∈ ds, d = d0)
          ∧ ∀ r, f.join = .ok r → r.md.inShape = .nested (f.inShapes.map plainDims) ∧ r.md.inDt = d0
              ∧ r.md.outShape = f.outShape ∧ r.md.outDt = f.outDt)) := by
  obtain ⟨h1, h2, h3⟩ := slice_spec f k fixArgs fixDts
  refine ⟨fun p hp => ?_, h2, h3, fun d0 ds hd => ?_⟩
  · obtain ⟨r, hr, _, a, b, c, d, _⟩ := h1 p hp
    exact ⟨r, hr, a, b, c, d⟩
  · obtain ⟨j1, j2⟩ := join_spec f d0 ds hd
    refine ⟨j1, fun r hr => ?_⟩
    obtain ⟨_, a, b, c, d, _⟩ := j2 r hr
    exact ⟨a, b, c, d⟩

/-- **`DiagonalReplicated`: axes and declared shapes** (repaired tree, 9420b1a).  An accepted
    `DiagonalReplicated(op, N, input_axis, output_axis)` has plain operand shapes, both axes resolved to
    positions `a ≤ len(input_shape)`, `b ≤ len(output_shape)` (`output_axis=None` means `b = a`),
    declares `shape[0:a] + (N,) + shape[a:]` on both sides — `N` times the operand's sizes — and the
    operand's dtypes; a negative `output_axis` is the axis counted from the end; one outside
    `[-(d+1), d]` is rejected. -/
theorem C12_drep_meta (lin : Bool) (o : Obj K) (N : Nat) (ia : Int) (oa : Option Int) :
    (∀ r, drep lin o N ia oa = .ok r →
      ∃ din dout a b, o.md.inShape = .plain din ∧ o.md.outShape = .plain dout
        ∧ normAxis din.length ia = some a ∧ a ≤ din.length ∧ b ≤ dout.length
        ∧ (match oa with | none => b = a | some ax => normAxis dout.length ax = some b)
        ∧ r.md.inShape = .plain (insertDim din a N) ∧ r.md.outShape = .plain (insertDim dout b N)
        ∧ r.md.inDt = o.md.inDt ∧ r.md.outDt = o.md.outDt
        ∧ r.md.inShape.size = N * o.md.inShape.size ∧ r.md.outShape.size = N * o.md.outShape.size)
    ∧ (∀ dout ax, o.md.outShape = .plain dout → -(dout.length : Int) - 1 ≤ ax → ax < 0 →
        drep lin o N ia (some ax) = drep lin o N ia (some ((dout.length : Int) + 1 + ax)))
    ∧ (∀ dout ax, o.md.outShape = .plain dout → (ax < -(dout.length : Int) - 1 ∨ (dout.length : Int) < ax) →
        ∃ e, drep lin o N ia (some ax) = .error e) := by
  refine ⟨fun r h => ?_, fun dout ax hout h1 h2 => drep_neg_output_axis lin o N ia dout hout ax h1 h2,
    fun dout ax hout h => drep_reject_output_axis lin o N ia dout hout ax h⟩
  obtain ⟨din, dout, a, b, h1, h2, h3, h4, h5, h6, h7, h8, h9, h10, _, _⟩ := drep_spec lin o N ia oa r h
  refine ⟨din, dout, a, b, h1, h2, h3, normAxis_le h3, ?_, ?_, h5, h6, h7, h8, h9, h10⟩
  · cases oa with
    | none => simp only at h4; omega
    | some ax => exact normAxis_le h4
  · cases oa with
    | none => exact h4.2
    | some ax => exact h4

/-- **The declared metadata of the generic derived operators is what the source passes to the constructors.**  With
    `Tables.model` = the constructor-argument table read from the scico sources (generated obligation
    `Scico.Generated.OpAlgTables.tables_ok`): the `input_shape / output_shape / input_dtype / output_dtype` expressions
    of `LinearOperator.__add__/__sub__/__mul__/__truediv__/T` (both returns)`/H/conj/gram_op`, `Operator.__add__/__sub__/
    __mul__/__rmul__/__truediv__/__call__` and `ComposedLinearOperator.__init__`, interpreted on the operands' metadata
    (`result_type(·, scalar)` through the scalar's kind), are exactly the metadata the model declares. -/
theorem C12_metadata_from_source (a b : Obj K) (c : Scal K) (sub : Bool) :
    Tables.RowGives (Tables.ctorRow Tables.model "linop" (if sub then "__sub__" else "__add__") 0) a.md b.md .wFloat (linAddSub sub a b).md
    ∧ (∀ o, opAddSub sub a b = .ok o →
        Tables.RowGives (Tables.ctorRow Tables.model "op" (if sub then "__sub__" else "__add__") 0) a.md b.md .wFloat o.md)
    ∧ (∀ o, opComp Cfg.fixed a b = .ok o → Tables.RowGives (Tables.ctorRow Tables.model "op" "__call__" 0) a.md b.md .wFloat o.md)
    ∧ (∀ o, linComp a b = .ok o → Tables.RowGives (Tables.ctorRow Tables.model "composed" "__init__" 0) a.md b.md .wFloat o.md)
    ∧ (∀ o, linMul a c = .ok o → Tables.RowGives (Tables.ctorRow Tables.model "linop" "__mul__" 0) a.md a.md c.kind.sk o.md)
    ∧ (∀ o, linDiv a c = .ok o → Tables.RowGives (Tables.ctorRow Tables.model "linop" "__truediv__" 0) a.md a.md c.kind.sk o.md)
    ∧ (∀ o, opMul a c = .ok o → Tables.RowGives (Tables.ctorRow Tables.model "op" "__mul__" 0) a.md a.md c.kind.sk o.md
        ∧ Tables.RowGives (Tables.ctorRow Tables.model "op" "__rmul__" 0) a.md a.md c.kind.sk o.md)
    ∧ (∀ o, opDiv a c = .ok o → Tables.RowGives (Tables.ctorRow Tables.model "op" "__truediv__" 0) a.md a.md c.kind.sk o.md)
    ∧ Tables.RowGives (Tables.ctorRow Tables.model "linop" "T" 0) a.md a.md .wFloat (linT a).md
    ∧ Tables.RowGives (Tables.ctorRow Tables.model "linop" "T" 1) a.md a.md .wFloat (linT a).md
    ∧ Tables.RowGives (Tables.ctorRow Tables.model "linop" "H" 0) a.md a.md .wFloat (linH a).md
    ∧ Tables.RowGives (Tables.ctorRow Tables.model "linop" "conj" 0) a.md a.md .wFloat (linConj a).md
    ∧ Tables.RowGives (Tables.ctorRow Tables.model "linop" "gram_op" 0) a.md a.md .wFloat (linGram Cfg.fixed a).md :=
  ⟨Tables.row_linAddSub sub a b, fun o h => Tables.row_opAddSub sub a b o h, fun o h => Tables.row_opComp a b o h,
   fun o h => Tables.row_linComp a b o h, fun o h => Tables.row_linMul a o c h, fun o h => Tables.row_linDiv a o c h,
   fun o h => Tables.row_opMul a o c h, fun o h => Tables.row_opDiv a o c h,
   (Tables.row_views a).1, (Tables.row_views a).2.1, (Tables.row_views a).2.2.1, (Tables.row_views a).2.2.2.1,
   (Tables.row_views a).2.2.2.2⟩

/-- **`Diagonal` closed forms: the arguments of the rebuilt `Diagonal` are those of the source.**  `+ − · / @` rebuild
    on `self.input_shape` (`other.input_shape` for `@`) WITHOUT `input_dtype` (so the dtype of the new diagonal is
    declared), `conj` / `gram_op` forward `self.input_dtype` — read from the source table and equal to what the model's
    `rediag` receives (seeded change `C12-m3`/`C12-p3`, "conj drops input_dtype", now breaks the generated obligation). -/
theorem C12_diagonal_args_from_source (cfg : Cfg) (sub : Bool) (a b : Obj K) (c : Scal K) :
    (∃ row, Tables.ctorRow Tables.model "diag" (if sub then "__sub__" else "__add__") 0 = some row
      ∧ Tables.shArg a.md b.md row.inSh = some a.md.inShape ∧ Tables.dtArg a.md row.inDt = some none
      ∧ diagAddSub cfg sub a b = (if a.diagonal.2.1 = b.diagonal.2.1 then
          rediag cfg (fun i => pm sub (a.diagonal.1.get i) (b.diagonal.1.get i)) a.diagonal.2.1
            (resultType a.diagonal.2.2 b.diagonal.2.2) a.md.inShape none else .error .shape))
    ∧ (∃ row, Tables.ctorRow Tables.model "diag" "__mul__" 0 = some row
      ∧ Tables.shArg a.md b.md row.inSh = some a.md.inShape ∧ Tables.dtArg a.md row.inDt = some none
      ∧ (c.kind.isScalarEquiv = true → diagMul cfg a c =
          rediag cfg (fun i => a.diagonal.1.get i * c.val) a.diagonal.2.1 (resultTypeS a.diagonal.2.2 c.kind.sk) a.md.inShape none))
    ∧ (∃ row, Tables.ctorRow Tables.model "diag" "__truediv__" 0 = some row
      ∧ Tables.shArg a.md b.md row.inSh = some a.md.inShape ∧ Tables.dtArg a.md row.inDt = some none
      ∧ (c.kind.isScalarEquiv = true → diagDiv cfg a c =
          rediag cfg (fun i => a.diagonal.1.get i / c.val) a.diagonal.2.1 (resultTypeS a.diagonal.2.2 c.kind.sk) a.md.inShape none))
    ∧ (∃ row, Tables.ctorRow Tables.model "diag" "conj" 0 = some row
      ∧ Tables.shArg a.md b.md row.inSh = some a.md.inShape ∧ Tables.dtArg a.md row.inDt = some (some a.md.inDt)
      ∧ (a.md.cls = .diag → diagConj cfg a =
          rediag cfg (fun i => conj (a.diagonal.1.get i)) a.diagonal.2.1 a.diagonal.2.2 a.md.inShape (some a.md.inDt)))
    ∧ (∃ row, Tables.ctorRow Tables.model "diag" "gram_op" 0 = some row
      ∧ Tables.shArg a.md b.md row.inSh = some a.md.inShape ∧ Tables.dtArg a.md row.inDt = some (some a.md.inDt))
    ∧ (∃ row, Tables.ctorRow Tables.model "diag" "__matmul__" 0 = some row
      ∧ Tables.shArg a.md b.md row.inSh = some b.md.inShape ∧ Tables.dtArg a.md row.inDt = some none)
    ∧ (∃ row, Tables.ctorRow Tables.model "scaledId" "__matmul__" 1 = some row
      ∧ Tables.shArg a.md b.md row.inSh = some b.md.inShape ∧ Tables.dtArg a.md row.inDt = some none) :=
  Tables.diag_rows_used cfg sub a b c

/-- `jax.numpy.result_type` on scico's four dtypes is the join of a lattice: commutative,
    associative, idempotent, with `float32` as bottom — so the declared dtype of a sum does not
    depend on operand order or grouping. -/
theorem C12_resultType_lattice (a b c : DT) :
    resultType a b = resultType b a ∧ resultType (resultType a b) c = resultType a (resultType b c)
    ∧ resultType a a = a ∧ resultType .f32 a = a := by
  cases a <;> cases b <;> cases c <;> decide

end opmeta

/-! ### non-vacuity of the dtype theorems -/
section dtexamples
open Scico.OpAlg Scico.DType
attribute [local instance] starConj

instance : StarRing ℚ := starRingOfComm
instance : HasRe ℚ := ⟨id⟩

/-- `(2·I − D) @ M.H + M.gram_op`, everything float64: dtype-uniform -/
def dtM : LExpr ℚ := .mat 3 3 .f64 (fun i j => (i : ℚ) + 2 * j)
def dtD : LExpr ℚ := .diag (.plain [3]) .f64 none none (fun i => (i : ℚ) - 1)
def dtE : LExpr ℚ :=
  .add (.matmul (.sub (.smulL ⟨2, .pyFloat⟩ (.ident (.plain [3]) .f64)) dtD) (.H dtM)) (.gram dtM)

example : Uniform .f64 dtE := by
  simp only [dtE, dtM, dtD, Uniform, ScalOk]
  decide
example : ∃ o, build dtE = .ok o := ⟨_, rfl⟩

/-- the recorded finding `mixed-operand-dtypes`: `Diagonal(float64) + LinearOperator(input_dtype =
    complex128)` with a real matrix — accepted, declares float64 → complex128, returns float64.
    The hypothesis `DtAgrees` fails exactly at the sum, and so does the conclusion. -/
def dtMixed : LExpr ℚ :=
  .add (.diag (.plain [2]) .f64 none none (fun _ => 1))
       (.lin (.plain [2]) (.plain [2]) .c128 .f64 true (fun i j => if i = j then 2 else 0))

example : ∃ o, build dtMixed = .ok o ∧ o.md.inDt = .f64 ∧ o.md.outDt = .c128
    ∧ o.evalDt o.md.inDt = .ok .f64 := ⟨_, rfl, rfl, rfl, rfl⟩
example : ¬ DtAgrees dtMixed := by
  intro h
  have := h.2.2 _ _ _ rfl rfl rfl (Or.inr rfl)
  exact absurd this.1 (by decide)

/-- a real and a complex `MatrixOperator` cannot be stacked -/
example : ∃ k, buildVStack true [dtM, (.mat 3 3 .c128 (fun _ _ => 1) : LExpr ℚ)] true = .error k :=
  ⟨_, rfl⟩
example : ∃ o, buildDStack true [dtM, dtD] true true = .ok o ∧ o.md.inShape = .plain [2, 3]
    ∧ o.md.outShape = .plain [2, 3] := ⟨_, rfl, rfl, rfl⟩

/-- `freeze(-1, v)` on an operator over `((2,),(3,))` is `freeze(1, v)`: the remaining input is the plain
    shape `(2,)` (the witness of the repaired finding `freeze-slice-negative-index`) -/
def fzOp : Obj ℚ := mkOp (.nested [[2], [3]]) (.plain [2]) .f64 .f64
  (fun x => trunc 2 (fun i => x.get i + x.get (2 + i))) (fun d => .ok d)
example : ∃ r, freeze fzOp (-1) (.plain [3]) .f64 ⟨3, fun _ => 1⟩ = .ok r ∧ r.md.inShape = .plain [2] :=
  ⟨_, rfl, rfl⟩
example : freeze fzOp (-1) (.plain [3]) .f64 ⟨3, fun _ => 1⟩ = freeze fzOp 1 (.plain [3]) .f64 ⟨3, fun _ => 1⟩ :=
  (C12_freeze_meta fzOp (-1) _ _ _).2.1 [[2], [3]] rfl (by decide) (by decide)
example : ∃ e, freeze fzOp (-3) (.plain [3]) .f64 ⟨3, fun _ => 1⟩ = .error e := ⟨_, rfl⟩

/-- `DiagonalReplicated(A: (3,)→(2,), 4, output_axis=-1)` declares `(2, 4)` (the witness of the repaired
    finding `diagonal-replicated-output-axis`; the pinned code declared `(4, 2)` and returned `(2, 4)`) -/
def drOp : Obj ℚ := mkMat 2 3 .f64 (fun i j => (i : ℚ) + j)
example : ∃ r, drep true drOp 4 0 (some (-1)) = .ok r ∧ r.md.outShape = .plain [2, 4]
    ∧ r.md.inShape = .plain [4, 3] := ⟨_, rfl, rfl, rfl⟩
example : ∃ e, drep true drOp 4 0 (some 2) = .error e := ⟨_, rfl⟩

end dtexamples

end Scico.Props.C12
