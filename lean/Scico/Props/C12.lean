/-
  Property C12 — declared shapes match actual behaviour.   ONLY property theorems here.

  Part 1 (this section): the integer shape calculus behind `Slice`, `indexed_shape`,
  `slice_length`:  the declared length of a sliced axis equals the number of positions
  Python/NumPy indexing actually selects, for every axis length, every start/stop/step
  (including negative steps and out-of-range bounds), and every selected position is
  a valid index of the axis.
-/
import Scico.Proofs.Shape

namespace Scico.Props.C12
open Scico.Shape

/-- `slice_length` (model `sliceLen`) = number of positions selected by Python slicing. -/
theorem C12_sliceLen_eq_selected (n : Nat) (sl : PySlice) (l : List Int)
    (h : selected n sl = some l) : sliceLen n sl = some (l.length : Int) := by
  unfold selected at h
  unfold sliceLen
  cases hidx : pyIndices n sl with
  | none => simp [hidx] at h
  | some t =>
    obtain ⟨a, b, s⟩ := t
    simp only [hidx, Option.some.injEq] at h ⊢
    subst h
    obtain ⟨hs, hpos, hneg⟩ := pyIndices_bounds n sl a b s hidx
    exact (rangeList_length n a b s hs (rangeLen_le_of_bounds hs hpos hneg)).symm

/-- slicing is rejected (Python `ValueError`) exactly for a zero step -/
theorem C12_slice_rejected_iff (n : Nat) (sl : PySlice) :
    sliceLen n sl = none ↔ sl.step = some 0 := by
  unfold sliceLen pyIndices
  cases hst : sl.step with
  | none => simp
  | some v => by_cases hv : v = 0 <;> simp [hv]

/-- every selected position is a valid index of the axis -/
theorem C12_selected_in_bounds (n : Nat) (sl : PySlice) (l : List Int)
    (h : selected n sl = some l) : ∀ p ∈ l, 0 ≤ p ∧ p < n := by
  unfold selected at h
  cases hidx : pyIndices n sl with
  | none => simp [hidx] at h
  | some t =>
    obtain ⟨a, b, s⟩ := t
    simp only [hidx, Option.some.injEq] at h
    subst h
    obtain ⟨_, hpos, hneg⟩ := pyIndices_bounds n sl a b s hidx
    intro p hp
    rcases rangeList_mem n a b s p hp with ⟨h1, h2, h3⟩ | ⟨h1, h2, h3⟩
    · obtain ⟨q1, q2, q3, q4⟩ := hpos h1
      omega
    · obtain ⟨q1, q2, q3, q4⟩ := hneg h1
      omega

/-- the declared length never exceeds the axis and is never negative -/
theorem C12_sliceLen_range (n : Nat) (sl : PySlice) (k : Int) (h : sliceLen n sl = some k) :
    0 ≤ k ∧ k ≤ n := by
  unfold sliceLen at h
  cases hidx : pyIndices n sl with
  | none => simp [hidx] at h
  | some t =>
    obtain ⟨a, b, s⟩ := t
    simp only [hidx, Option.some.injEq] at h
    subst h
    obtain ⟨hs, hpos, hneg⟩ := pyIndices_bounds n sl a b s hidx
    exact ⟨rangeLen_nonneg a b s, rangeLen_le_of_bounds hs hpos hneg⟩

-- non-vacuity: a reversed slice of a length-5 axis selects 4,3,2,1,0 (five positions)
example : selected 5 ⟨none, none, some (-1)⟩ = some [4, 3, 2, 1, 0] := by decide
example : sliceLen 5 ⟨none, none, some (-1)⟩ = some 5 := by decide
example : selected 6 ⟨some (-8), some 5, some 2⟩ = some [0, 2, 4] := by decide

end Scico.Props.C12
