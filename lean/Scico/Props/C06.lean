/-
  Property C06 — everything presented as a linear operator is linear.   ONLY property theorems here.

  `Scico.Jaxpr.check` is a decidable structural test on a JAX-traced program (`Model/Jaxpr.lean`).
  The translator `harness/translate_jaxpr.py` regenerates, on every run, the traced program of every
  linear operator's forward map, adjoint, transposes and Gram map from the working tree and Lean
  re-checks `check prog = .linC` (or `.linR`) by `decide` (`Scico/Generated/Jaxprs_*.lean`).
  The theorems below lift that finite verdict to *all inputs and all scalars*:

  for every interpretation `I` of the primitives in a module `V` over scalars `R → K`
  (`ℝ → ℂ` for complex operators, `ℝ → ℝ` for real ones) that satisfies the per-class facts
  `I.Sound R K` (the trusted primitive table, explicit hypotheses), and every program `p` of any length,
  `check p = linC` ⇒ `run I p` is `K`-linear, `check p = linR` ⇒ `R`-linear,
  `check p = antiC` ⇒ conjugate-linear, `check p = const true` ⇒ identically zero.
  (Conjugate-linearity is tracked so that `conj ∘ A ∘ conj` – the shape of every adjoint derived by
  `scico.linear_adjoint` for a complex operator and of `A.T`, `A.conj()` – is recognised as ℂ-linear.)
-/
import Scico.Proofs.Jaxpr
import Scico.Proofs.JaxprExample
import Scico.Proofs.JaxprScope
import Scico.Proofs.JaxprLocal
import Scico.Proofs.JaxprArray
import Scico.Proofs.JaxprFamily
import Scico.Proofs.JaxprKind
import Mathlib.LinearAlgebra.Pi
import Mathlib.LinearAlgebra.Matrix.ToLin
import Mathlib.LinearAlgebra.Matrix.DotProduct
import Mathlib.LinearAlgebra.Matrix.ConjTranspose
import Mathlib.Algebra.Star.Pi
import Mathlib.Algebra.Star.Module

namespace Scico.Props.C06
open Scico.Jaxpr

section
variable {R K V : Type} [CommSemiring R] [CommSemiring K] [StarRing K] [Algebra R K]
  [AddCommMonoid V] [Module R V] [Module K V] [IsScalarTower R K V]

/-- **Soundness of the checker**, in the form the property is stated: a program the checker tags
    `linC` denotes a map with `f (a•x + b•y) = a•f x + b•f y` for all inputs `x y` and all scalars
    `a b : K`, and `f 0 = 0`; tagged `linR`, the same for all scalars of the sub-field `R`.
    Induction over the equation list — any number of equations, inputs, outputs. -/
theorem C06_check_sound (I : Interp V) (hI : I.Sound R K) (p : Prog) :
    (check p = .linC →
      (∀ (a b : K) (x y : Fin p.nin → V), run I p (a • x + b • y) = a • run I p x + b • run I p y) ∧
        run I p 0 = 0) ∧
    (check p = .linR →
      (∀ (a b : R) (x y : Fin p.nin → V), run I p (a • x + b • y) = a • run I p x + b • run I p y) ∧
        run I p 0 = 0) := by
  constructor
  · intro h
    have hl := run_linC (R := R) hI p h
    exact ⟨fun a b x y => by rw [hl.map_add, hl.map_smul, hl.map_smul], isLinearMap_zero_at hl⟩
  · intro h
    have hl := run_linR (K := K) hI p h
    exact ⟨fun a b x y => by rw [hl.map_add, hl.map_smul, hl.map_smul], isLinearMap_zero_at hl⟩

/-- **Local form** (round 2): only the primitive instances that occur in the program have to satisfy their class
    fact (`Interp.SoundAt`, one statement per equation) - not every primitive id.  With the equations numbered
    `0, 1, 2, …` (`C06_check_ignores_prim`) and `den cls k` the `k`-th equation's JAX primitive with its static
    parameters, these hypotheses are exactly what the run-time table validation tests, instance by instance
    (harness/jaxpr_table.py, streams "coverage" and "in situ"). -/
theorem C06_check_sound_local (I : Interp V) (hstar : ∀ r : R, star (algebraMap R K r) = algebraMap R K r)
    (p : Prog) (hat : ∀ e ∈ p.eqns, I.SoundAt R K e.cls e.prim) :
    (check p = .linC → IsLinearMap K (run I p)) ∧ (check p = .linR → IsLinearMap R (run I p)) ∧
    (check p = .antiC → (∀ x y, run I p (x + y) = run I p x + run I p y) ∧
        ∀ (c : K) x, run I p (c • x) = star c • run I p x) :=
  ⟨run_linC_local hstar p hat, run_linR_local hstar p hat, fun h => run_antiC_local hstar p hat h⟩

/-- the verdict does not read the `prim` field: giving every equation its own primitive id (its position, so that
    one interpretation can give each equation its own static parameters) does not change it, and after relabelling
    the `k`-th equation is the only one carrying id `k` -/
theorem C06_check_ignores_prim (p : Prog) :
    check p.relabel = check p ∧
      ∀ i (hi : i < p.relabel.eqns.length), (p.relabel.eqns[i]).prim = i := by
  refine ⟨check_relabel p, fun i hi => ?_⟩
  have := relabelFrom_prim p.eqns 0 i hi
  rw [Nat.zero_add] at this
  exact this

/-- the generated obligations are stated with `checkFast`, the same checker in an evaluation order the
    kernel reduces quickly; it computes `check` -/
theorem C06_checkFast_eq_check (p : Prog) : checkFast p = check p := checkFast_eq_check p

/-- nothing the checker accepts depends on the default value the semantics returns for an undefined
    variable: a variable that is not tagged `bad` is defined by an equation reading only the inputs and
    the variables of earlier equations -/
theorem C06_accepted_reads_defined (p : Prog) (k : Nat) (hk : k < p.eqns.length)
    (h : tagOf (progTags p) (p.nin + k) ≠ .bad) :
    (∀ a ∈ p.eqns[k].params, a < p.nin + k) ∧ ∀ a ∈ p.eqns[k].args, a < p.nin + k :=
  accepted_reads_defined p k hk h

/-- the checker is not vacuously strict: every well-scoped program built from jointly linear
    primitives only is accepted (`linC`, or `const true` when no output depends on the input) -/
theorem C06_check_accepts_pureLin (p : Prog) (h : PureLin p.nin p.eqns)
    (houts : ∀ o ∈ p.outs, o < p.nin + p.eqns.length) :
    check p = .linC ∨ check p = .const true := by
  have := check_accepts_pureLin p h houts
  rcases hc : check p with ⟨_ | _⟩ | _ | _ | _ | _ <;> simp [hc, Tag.isLinC] at this ⊢

/-- the accepted program is (the underlying function of) a `K`-linear map -/
theorem C06_check_linC_linearMap (I : Interp V) (hI : I.Sound R K) (p : Prog) (h : check p = .linC) :
    ∃ f : (Fin p.nin → V) →ₗ[K] (Fin p.outs.length → V), ∀ x, f x = run I p x :=
  ⟨(run_linC (R := R) hI p h).mk' _, fun _ => rfl⟩

/-- a program accepted after taking real parts / conjugates is an `R`-linear map -/
theorem C06_check_linR_linearMap (I : Interp V) (hI : I.Sound R K) (p : Prog) (h : check p = .linR) :
    ∃ f : (Fin p.nin → V) →ₗ[R] (Fin p.outs.length → V), ∀ x, f x = run I p x :=
  ⟨(run_linR (K := K) hI p h).mk' _, fun _ => rfl⟩

/-- `linC` is the stronger verdict: it implies linearity over the sub-field as well -/
theorem C06_linC_is_linR (I : Interp V) (hI : I.Sound R K) (p : Prog) (h : check p = .linC) :
    IsLinearMap R (run I p) :=
  (SemiLin.restrict (run_linC' (R := R) hI p h)).isLinearMap_real

/-- a program tagged `antiC` (an odd number of conjugations) is additive and conjugate-homogeneous,
    `f (c • x) = conj c • f x`; in particular it is `R`-linear -/
theorem C06_check_antiC (I : Interp V) (hI : I.Sound R K) (p : Prog) (h : check p = .antiC) :
    (∀ x y, run I p (x + y) = run I p x + run I p y) ∧
    (∀ (c : K) x, run I p (c • x) = star c • run I p x) ∧ IsLinearMap R (run I p) :=
  ⟨(run_antiC' (R := R) hI p h).1, (run_antiC' (R := R) hI p h).2,
    (SemiLin.restrict_anti hI.star_real (run_antiC' (R := R) hI p h)).isLinearMap_real⟩

/-- a program tagged `const z` ignores its input, and is identically zero when `z = true` -/
theorem C06_check_const (I : Interp V) (hI : I.Sound R K) (p : Prog) (z : Bool) (h : check p = .const z) :
    (∀ x, run I p x = run I p 0) ∧ (z = true → ∀ x, run I p x = 0) :=
  run_const (R := R) (K := K) hI p z h

/-- the invariant behind the theorem: *every* variable of the program (not only the outputs)
    has the dependence on the input that its tag claims -/
theorem C06_every_variable (I : Interp V) (hI : I.Sound R K) (p : Prog) (i : Nat) :
    Holds R K (tagOf (progTags p) i) (fun x : Fin p.nin → V => valOf (finalEnv I p x) i) :=
  (progTags_holds (R := R) (K := K) hI p).2 i

end

section
variable {K W : Type} [CommSemiring K] [AddCommMonoid W] [Module K W]

/-- **A linear map on `Kⁿ` is determined by its values on the standard basis.** -/
theorem C06_basis_determines {n : Nat} (f g : (Fin n → K) → W) (hf : IsLinearMap K f) (hg : IsLinearMap K g)
    (h : ∀ i, f (Pi.single i 1) = g (Pi.single i 1)) : f = g := by
  have : hf.mk' f = hg.mk' g := by
    apply LinearMap.pi_ext
    intro i c
    have hs : (Pi.single i c : Fin n → K) = c • Pi.single i 1 := by
      funext j; by_cases hj : j = i <;> simp [hj]
    simp only [IsLinearMap.mk'_apply, hs, hf.map_smul, hg.map_smul, h i]
  funext x
  exact LinearMap.congr_fun this x

/-- … and is the combination of those values with the coordinates of the input -/
theorem C06_basis_expansion {n : Nat} (f : (Fin n → K) → W) (hf : IsLinearMap K f) (x : Fin n → K) :
    f x = ∑ i, x i • f (Pi.single i 1) := by
  have hx : x = ∑ i, x i • (Pi.single i 1 : Fin n → K) := by
    funext j; simp [Finset.sum_apply, Pi.single_apply]
  conv_lhs => rw [hx]
  rw [← IsLinearMap.mk'_apply hf, map_sum]
  simp

/-- consequently a linear map `Kⁿ → Kᵐ` *is* a matrix (its columns are the images of the basis) —
    the object whose conjugate transpose the derived adjoint has to be -/
theorem C06_matrix_of_linear {K : Type} [CommRing K] {n m : Nat} (f : (Fin n → K) → (Fin m → K))
    (hf : IsLinearMap K f) :
    ∃ M : Matrix (Fin m) (Fin n) K, (∀ x, f x = M.mulVec x) ∧ ∀ i j, M j i = f (Pi.single i 1) j := by
  refine ⟨LinearMap.toMatrix' (hf.mk' f), fun x => ?_, fun i j => ?_⟩
  · rw [← Matrix.toLin'_apply, Matrix.toLin'_toMatrix']; rfl
  · simp [LinearMap.toMatrix'_apply]

end


section
variable {K : Type} [CommSemiring K] [StarRing K] {n m l : Nat}

/-- **The operator calculus preserves linearity** (round 2): sums, scalar multiples and compositions (hence the Gram
    map `Aᴴ ∘ A`) of linear maps are linear, and so is the conjugated map `x ↦ conj (f (conj x))` - the shape of
    `A.conj()` and, composed with a transpose, of `A.T`.  With the linear leaves certified by the checker this covers
    the derived operators for all leaf configurations (the tie traces a sample of them: class `Derived`). -/
theorem C06_derived_linear (f g : (Fin n → K) → (Fin m → K)) (h : (Fin m → K) → (Fin l → K)) (c : K)
    (hf : IsLinearMap K f) (hg : IsLinearMap K g) (hh : IsLinearMap K h) :
    IsLinearMap K (fun x => f x + g x) ∧ IsLinearMap K (fun x => c • f x) ∧
    IsLinearMap K (fun x => h (f x)) ∧ IsLinearMap K (fun x => star (f (star x))) := by
  refine ⟨⟨fun x y => ?_, fun a x => ?_⟩, ⟨fun x y => ?_, fun a x => ?_⟩, ⟨fun x y => ?_, fun a x => ?_⟩,
    ⟨fun x y => ?_, fun a x => ?_⟩⟩
  · simp only [hf.map_add, hg.map_add]; exact add_add_add_comm _ _ _ _
  · simp only [hf.map_smul, hg.map_smul, smul_add]
  · simp only [hf.map_add, smul_add]
  · simp only [hf.map_smul, smul_comm c a]
  · simp only [hf.map_add, hh.map_add]
  · simp only [hf.map_smul, hh.map_smul]
  · simp only [star_add, hf.map_add]
  · simp only [star_smul, hf.map_smul, star_star]

end

section
open Matrix

/-- **The derived adjoint is well defined (existence).**  A linear map `Kⁿ → Kᵐ` has an adjoint for the
    pairing `⟨u,v⟩ = Σ conj(uᵢ) vᵢ`: multiplication by the conjugate transpose of its matrix, itself linear. -/
theorem C06_adjoint_exists {K : Type} [CommRing K] [StarRing K] {n m : Nat} (f : (Fin n → K) → (Fin m → K))
    (hf : IsLinearMap K f) :
    ∃ g : (Fin m → K) → (Fin n → K), IsLinearMap K g ∧ ∀ x y, star (f x) ⬝ᵥ y = star x ⬝ᵥ g y := by
  let M : Matrix (Fin m) (Fin n) K := LinearMap.toMatrix' (hf.mk' f)
  have hM : ∀ x, f x = M *ᵥ x := fun x => by
    rw [← Matrix.toLin'_apply, Matrix.toLin'_toMatrix']; rfl
  refine ⟨fun y => Mᴴ *ᵥ y, ⟨fun y z => Matrix.mulVec_add _ _ _, fun c y => Matrix.mulVec_smul _ _ _⟩, fun x y => ?_⟩
  rw [hM, Matrix.star_mulVec, Matrix.dotProduct_mulVec]

/-- **… and unique**: two maps adjoint to the same `f` coincide (test against the standard basis). -/
theorem C06_adjoint_unique {K : Type} [CommRing K] [StarRing K] {n m : Nat} (f : (Fin n → K) → (Fin m → K))
    (g g' : (Fin m → K) → (Fin n → K))
    (hg : ∀ x y, star (f x) ⬝ᵥ y = star x ⬝ᵥ g y) (hg' : ∀ x y, star (f x) ⬝ᵥ y = star x ⬝ᵥ g' y) : g = g' := by
  funext y i
  have h := (hg (Pi.single i 1) y).symm.trans (hg' (Pi.single i 1) y)
  have key : ∀ v : Fin n → K, star (Pi.single i (1 : K) : Fin n → K) ⬝ᵥ v = v i := fun v => by
    have : star (Pi.single i (1 : K) : Fin n → K) = Pi.single i 1 := by
      funext j; by_cases hj : j = i <;> simp [hj]
    rw [this, single_one_dotProduct]
  rwa [key, key] at h

end

/-- **A concrete array family with no hypothesis left** (round 2): values are flattened arrays `ℕ → ℂ`; jointly
    linear primitives are arbitrary row-finite sparse matrices over their operands (`Arr.applyDesc`: add, sub, neg,
    scaling, slice, zero padding, concatenate, reduce_sum, cumsum, reverse, broadcast, transpose, gather with constant
    indices, select_n with a constant predicate, constant matrices such as the DFT - `Proofs/JaxprArray.lean`),
    bilinear ones are the pointwise product and the full convolution, plus pointwise quotient, real / imaginary part
    and conjugate.  For EVERY descriptor table `T` and constant table `C` the verdict of the checker gives linearity
    outright. -/
theorem C06_array_family_linear (T : ℕ → List Arr.Vc → Arr.LinDesc) (C : ℕ → Arr.Vc) (p : Prog) :
    (check p = .linC → IsLinearMap ℂ (run (Arr.arrInterp T C) p)) ∧
    (check p = .linR → IsLinearMap ℝ (run (Arr.arrInterp T C) p)) ∧
    (check p = .const true → ∀ x, run (Arr.arrInterp T C) p x = 0) :=
  ⟨run_linC (R := ℝ) (Arr.arrInterp_sound T C) p, run_linR (K := ℂ) (Arr.arrInterp_sound T C) p,
    fun h => (run_const (R := ℝ) (K := ℂ) (Arr.arrInterp_sound T C) p true h).2 rfl⟩

/-- **Programs over the whole proved family need no hypothesis** (round 3).  `Fam.famInterp nl F` interprets
    `linAll` by arbitrary row-finite sparse matrices, `bilinear` by arbitrary row-finite sparse bilinear forms
    `Σ c·u j·v k` (mul with broadcasting, dot_general, conv_general_dilated), `divLike` by `u j / v k`, `realPart` by
    `Σ Re (c·u j)` (real, imag, complex → real) and `conj` by the pointwise conjugate - `Model/Jaxpr.lean: famDen` at ℂ,
    sound for EVERY table `F` (`Fam.famInterp_sound`).  The driver executes this very `run` at complex floats against
    the scico operators (stream 9) and every equation against its JAX primitive (stream 8): a translated program all of
    whose equations are family instances is "proved outright" (counted in the evidence: `proved_outright`). -/
theorem C06_family_programs_linear (nl : ℕ → List Arr.Vc → Arr.Vc) (F : FamTables ℂ) (p : Prog) :
    (check p = .linC → IsLinearMap ℂ (run (Fam.famInterp nl F) p)) ∧
    (check p = .linR → IsLinearMap ℝ (run (Fam.famInterp nl F) p)) ∧
    (check p = .antiC → (∀ x y, run (Fam.famInterp nl F) p (x + y) = run (Fam.famInterp nl F) p x + run (Fam.famInterp nl F) p y) ∧
        ∀ (c : ℂ) x, run (Fam.famInterp nl F) p (c • x) = star c • run (Fam.famInterp nl F) p x) ∧
    (check p = .const true → ∀ x, run (Fam.famInterp nl F) p x = 0) :=
  ⟨run_linC (R := ℝ) (Fam.famInterp_sound nl F) p, run_linR (K := ℂ) (Fam.famInterp_sound nl F) p,
    fun h => run_antiC' (R := ℝ) (Fam.famInterp_sound nl F) p h,
    fun h => (run_const (R := ℝ) (K := ℂ) (Fam.famInterp_sound nl F) p true h).2 rfl⟩

/-- **The dispatch of the operator calculus is sound** (round 5).  `combineKind` is the model of which class scico
    gives to `A + B`, `A - B`, `A(B)`, `A @ B` (a `LinearOperator` only when both operands are; tied on every run for
    every LinearOperator class with arithmetic of its own - generated table - against non-linear operands, stream 10).
    If each operand keeps the promise of its presentation (`KindOK`: presented linear ⇒ linear map), the sum and the
    composition keep the promise of the presentation `combineKind` assigns. -/
theorem C06_calculus_kind_sound {K : Type} [CommSemiring K] {n : Nat} (ka kb : OpKind)
    (f g : (Fin n → K) → (Fin n → K)) (hf : KindOK ka f) (hg : KindOK kb g) :
    KindOK (combineKind ka kb) (fun x => f x + g x) ∧ KindOK (combineKind ka kb) (fun x => f (g x)) :=
  combineKind_sound ka kb f g hf hg

/-! ### Non-vacuity: a concrete interpretation satisfying every hypothesis, accepted programs that
    compute what they should, rejected programs that really are not linear. -/

open Scico.Jaxpr.Example

-- the hypotheses `Interp.Sound ℝ ℂ` are satisfiable: complex sequences with add / neg / shift / mask /
-- pointwise product, quotient, real part, conjugate, square
example : vecInterp.Sound ℝ ℂ := vecInterp_sound

-- forward difference: accepted, so ℂ-linear by the theorem, and it denotes x(i+1) - x(i)
example : check fdProg = .linC := by decide
example : checkFast fdProg = .linC := by decide +kernel   -- the form of the generated obligations
example (a b : ℂ) (x y : Fin 1 → Vc) :
    run vecInterp fdProg (a • x + b • y) = a • run vecInterp fdProg x + b • run vecInterp fdProg y :=
  ((C06_check_sound vecInterp vecInterp_sound fdProg).1 (by decide)).1 a b x y
example (x : Fin 1 → Vc) (j) (i : ℕ) : run vecInterp fdProg x j i = x 0 (i + 1) - x 0 i := fdProg_run x j i

-- constants, a product with a constant, a quotient by a constant, a constant-predicate mask: accepted
example : check scaleProg = .linC := by decide

-- real part: accepted as ℝ-linear only — and it is *not* ℂ-linear
example : check reProg = .linR := by decide
example : ¬ IsLinearMap ℂ (run vecInterp reProg) := reProg_not_complex_linear
example : IsLinearMap ℝ (run vecInterp reProg) :=
  (C06_check_linR_linearMap (K := ℂ) vecInterp vecInterp_sound reProg (by decide)).elim
    fun f hf => by rw [← funext hf]; exact f.isLinear

-- one conjugation: conjugate-linear, not ℂ-linear (f(i•1) = -i ≠ i = i•f(1));
-- conj ∘ (3·) ∘ conj (the shape of a derived complex adjoint): ℂ-linear again
example : check conjProg = .antiC := by decide
example : ¬ IsLinearMap ℂ (run vecInterp conjProg) := conjProg_not_complex_linear
example : check conjConjProg = .linC := by decide

-- x*x is rejected and really is not additive: f(1+1) = 4 ≠ 2 = f(1)+f(1)
example : check sqProg = .bad := by decide
example : ¬ ∀ x y, run vecInterp sqProg (x + y) = run vecInterp sqProg x + run vecInterp sqProg y :=
  sqProg_not_additive

-- x+1 (affine; accepted silently by jax.linear_transpose) is rejected and does not map 0 to 0
example : check affProg = .bad := by decide
example : run vecInterp affProg 0 ≠ 0 := affProg_zero_ne

-- a data-dependent predicate and a division by the input are rejected
example : check dataMaskProg = .bad := by decide
example : check recipProg = .bad := by decide

-- local form: a globally sound interpretation satisfies the per-equation hypotheses of every program, and the
-- relabelled forward difference is accepted with ids 0, 1, 2
example (p : Prog) : ∀ e ∈ p.eqns, vecInterp.SoundAt ℝ ℂ e.cls e.prim := fun e _ => vecInterp_sound.at ℝ ℂ e.cls e.prim
example : check fdProg.relabel = .linC ∧ fdProg.relabel.eqns.map (·.prim) = [0, 1, 2] := by decide

-- the array family: forward difference by slice, slice, sub is accepted and computes x[i+1] - x[i] for i < n-1;
-- centring by reduce_sum, broadcast, sub computes x[i] - Σ x; Re(M x) under a constant mask is ℝ-linear only;
-- x + 1 over the same family is rejected and does not map 0 to 0
open Scico.Jaxpr.Arr in
example : check diffProg = .linC ∧ check centreProg = .linC ∧ check reMatProg = .linR ∧ check affArrProg = .bad := by decide
open Scico.Jaxpr.Arr in
example (n : ℕ) (h : ℕ → ℕ → ℂ) (C : ℕ → Arr.Vc) : IsLinearMap ℂ (run (arrInterp (demoTable n h) C) diffProg) :=
  (C06_array_family_linear (demoTable n h) C diffProg).1 (by decide)
open Scico.Jaxpr.Arr in
example (n : ℕ) (h : ℕ → ℕ → ℂ) (C : ℕ → Arr.Vc) (x : Fin 1 → Arr.Vc) (j) (i : ℕ) :
    run (arrInterp (demoTable n h) C) diffProg x j i = if i < n - 1 then x 0 (i + 1) - x 0 i else 0 :=
  diffProg_run n h C x j i
open Scico.Jaxpr.Arr in
example (n : ℕ) (h : ℕ → ℕ → ℂ) (C : ℕ → Arr.Vc) (x : Fin 1 → Arr.Vc) (j) (i : ℕ) (hi : i < n) :
    run (arrInterp (demoTable n h) C) centreProg x j i = x 0 i - ((List.range n).map (x 0)).sum :=
  centreProg_run n h C x j i hi
open Scico.Jaxpr.Arr in
example (n : ℕ) (h : ℕ → ℕ → ℂ) : run (arrInterp (demoTable n h) (fun _ _ => 1)) affArrProg 0 ≠ 0 := affArrProg_zero n h

-- the map the driver runs at Float against the JAX primitives (harness/jaxpr_family.py, stream 8) is, at ℂ, the map
-- proved jointly linear for every descriptor
example (T : Arr.LinDesc) (xs : List Arr.Vc) : Arr.applyDesc T xs = applyDescG T xs := rfl
example (T : Arr.LinDesc) (c : ℂ) (xs ys : List Arr.Vc) (h : xs.length = ys.length) :
    applyDescG T (ladd xs ys) = applyDescG T xs + applyDescG T ys ∧ applyDescG T (lsmul c xs) = c • applyDescG T xs :=
  ⟨Arr.applyDesc_add T xs ys h, Arr.applyDesc_smul T c xs⟩

-- the whole family: y = conj ((3·x)/2) through a constant product, a constant quotient and a conjugation is `antiC`
-- and denotes exactly that; the real part of the same value is `linR`; both with no hypothesis on the primitives
example : check Fam.exProg = .antiC ∧ check Fam.exProgRe = .linR := by decide
example (nl) (x : Fin 1 → Arr.Vc) (j) (i : ℕ) :
    run (Fam.famInterp nl Fam.exTables) Fam.exProg x j i = (starRingEnd ℂ) (3 * x 0 i / 2) := Fam.exProg_run nl x j i
example (nl) : IsLinearMap ℝ (run (Fam.famInterp nl Fam.exTables) Fam.exProgRe) :=
  (C06_family_programs_linear nl Fam.exTables Fam.exProgRe).2.1 (by decide)

-- dispatch rule: linear with non-linear is presented non-linear (both orders), linear with linear stays linear; the rule
-- is necessary: identity + |.| on R^1 is not a linear map, so presenting it as a LinearOperator would be a violation
example : combineKind .linear .nonlinear = .nonlinear ∧ combineKind .nonlinear .linear = .nonlinear ∧
    combineKind .linear .linear = .linear := by decide
example : ¬ IsLinearMap ℝ (fun x : Fin 1 → ℝ => x + fun i => |x i|) := abs_sum_not_linear

-- the calculus: with f = (2·), g = (3·), h = (5·) on ℂ¹ the four derived maps are linear (hypotheses satisfiable)
example : IsLinearMap ℂ (fun x : Fin 1 → ℂ => star ((2 : ℂ) • star x)) :=
  (C06_derived_linear (fun x : Fin 1 → ℂ => (2 : ℂ) • x) (fun x => (3 : ℂ) • x) (fun x : Fin 1 → ℂ => (5 : ℂ) • x) 7
    ⟨fun x y => smul_add _ x y, fun a x => smul_comm _ a x⟩ ⟨fun x y => smul_add _ x y, fun a x => smul_comm _ a x⟩
    ⟨fun x y => smul_add _ x y, fun a x => smul_comm _ a x⟩).2.2.2

end Scico.Props.C06
