/-
  Property C18 — the scipy.optimize wrappers are transparent to shape, dtype and options.
  ONLY property theorems (and their non-vacuity examples) here.

  Model: `Scico.Model.Wrap` (transcription of `_ravel`, `_unravel`, `_split_real_imag`,
  `_join_real_imag` and the prologue/epilogue of `solver.minimize`); specification side:
  `chunks`, `WF`, `SplitShaped`, `SameForm`, `total` of `Scico.Proofs.Wrap`; generated keyword
  tables: `Scico.Proofs.WrapKwargs` + `Scico/Generated/Kwargs.lean`.
  All statements hold for every scalar type `α`, every number, shape and size of blocks.
-/
import Scico.Proofs.Wrap
import Scico.Proofs.WrapKwargs
import Mathlib.Order.Basic

namespace Scico.Props.C18
open Scico.Wrap

variable {α : Type}

/-- `join (split x) = x` for arrays and block arrays … -/
theorem C18_split_join (x : Val (Cx α)) (h : x.WF) : joinVal (splitVal x) = some x :=
  joinVal_splitVal x h

/-- … and `split (join r) = r` for every real container with leading axes of length 2 -/
theorem C18_join_split (r : Val α) (h : SplitShaped r) :
    ∃ z, joinVal r = some z ∧ splitVal z = r ∧ z.WF :=
  splitVal_joinVal r h

/-- flatten then un-flatten is the identity (arrays of any shape, block arrays of any block shapes) -/
theorem C18_ravel_reshape (x : Val α) (h : x.WF) : unravel (ravel x) (shapeOf x) = some x :=
  unravel_ravel x h

/-- un-flatten then flatten is the identity: `_unravel` accepts exactly the vectors of the right
    length, gives the requested (nested) shape and keeps the order of the entries -/
theorem C18_reshape_ravel (v : List α) (sh : Shape) (h : v.length = total sh) :
    ∃ x, unravel v sh = some x ∧ ravel x = v ∧ shapeOf x = sh ∧ x.WF :=
  ravel_unravel v sh h

/-- order: the flat vector is the concatenation of the blocks' row-major data in block order;
    for a complex start each block contributes its real parts followed by its imaginary parts -/
theorem C18_layout (bs : List (Arr α)) (cs : List (Arr (Cx α))) :
    x0flat (.real (.blk bs)) = (bs.map Arr.data).flatten ∧
    x0flat (.cplx (.blk cs)) = (cs.map (fun b => b.data.map Cx.re ++ b.data.map Cx.im)).flatten := by
  constructor
  · rfl
  · simp [x0flat, prepare, splitVal, ravel, splitArr, List.map_map, Function.comp_def]

/-- index form for a complex array with `m` entries: flat coordinate `p < m` is `Re z_p`, flat
    coordinate `m + p` is `Im z_p` (row-major order of the entries) -/
theorem C18_layout_array (a : Arr (Cx α)) (p : Nat) (hp : p < a.data.length) :
    (x0flat (.cplx (.arr a)))[p]? = some (a.data[p]).re ∧
    (x0flat (.cplx (.arr a)))[a.data.length + p]? = some (a.data[p]).im := by
  have e : x0flat (.cplx (.arr a)) = a.data.map Cx.re ++ a.data.map Cx.im := rfl
  rw [e]
  constructor
  · rw [List.getElem?_append_left (by simpa using hp)]
    simp [hp]
  · rw [List.getElem?_append_right (by simp)]
    simp [hp]

/-- the function handed to scipy is `func ∘ join ∘ reshape`: at the flattening of any container
    `c` of the form of `x0` it takes the value `func c` (in particular at `x0` itself) -/
theorem C18_objective {ρ : Type} (func : Container α → ρ) (c0 c : Container α) (hwf : c.WF)
    (hform : SameForm c c0) : objective func c0 (x0flat c) = some (func c) := by
  simp [objective, result_x0flat c c0 hwf hform]

/-- the flat real problem is *equivalent*: flattening is a bijection between containers of the
    form of `x0` and real vectors of length `total`, inverse to what `minimize` does with
    scipy's answer -/
theorem C18_bijection (c0 : Container α) (hwf0 : c0.WF) :
    (∀ c, c.WF → SameForm c c0 →
        (x0flat c).length = total (workShape c0) ∧ result c0 (x0flat c) = some c) ∧
    (∀ v : List α, v.length = total (workShape c0) →
        ∃ c, result c0 v = some c ∧ x0flat c = v ∧ c.WF ∧ SameForm c c0) := by
  constructor
  · intro c hc hf
    refine ⟨?_, result_x0flat c c0 hc hf⟩
    rw [total_workShape_eq c hc, hf.1]
  · intro v hv
    exact x0flat_result c0 hwf0 v hv

/-- changing one coordinate `j` of the flat vector changes the argument of `func` along the path of
    containers whose flattening differs in coordinate `j` only — by `C18_layout` that coordinate is the
    real or the imaginary part of one entry.  Hence the `j`-th partial derivative of the flat objective
    is the derivative of `func` with respect to that one real slot (`∂/∂re`, `∂/∂im`). -/
theorem C18_coordinate_path {ρ : Type} (func : Container α → ρ) (c0 c : Container α) (hwf0 : c0.WF)
    (hwf : c.WF) (hform : SameForm c c0) (j : Nat) (a : α) :
    ∃ c', result c0 ((x0flat c).set j a) = some c' ∧ c'.WF ∧ SameForm c' c0 ∧
      x0flat c' = (x0flat c).set j a ∧
      objective func c0 ((x0flat c).set j a) = some (func c') := by
  have hlen : ((x0flat c).set j a).length = total (workShape c0) := by
    rw [List.length_set, total_workShape_eq c hwf, hform.1]
  obtain ⟨c', hc', hfl, hw, hf⟩ := x0flat_result c0 hwf0 _ hlen
  exact ⟨c', hc', hw, hf, hfl, by simp [objective, hc']⟩

/-- therefore: what scipy reports as a minimiser of the flat objective is returned as a
    minimiser of `func` among all containers of the form of `x0` -/
theorem C18_minimiser {ρ : Type} [Preorder ρ] (func : Container α → ρ) (c0 : Container α)
    (hwf0 : c0.WF) (v : List α) (hv : v.length = total (workShape c0))
    (hmin : ∀ w : List α, w.length = total (workShape c0) →
      ∀ a b, objective func c0 v = some a → objective func c0 w = some b → a ≤ b) :
    ∃ c, result c0 v = some c ∧ c.WF ∧ SameForm c c0 ∧
      ∀ c', c'.WF → SameForm c' c0 → func c ≤ func c' := by
  obtain ⟨c, hc, _, hcwf, hcf⟩ := x0flat_result c0 hwf0 v hv
  refine ⟨c, hc, hcwf, hcf, ?_⟩
  intro c' hc' hf'
  have hlen : (x0flat c').length = total (workShape c0) := by
    rw [total_workShape_eq c' hc', hf'.1]
  exact hmin (x0flat c') hlen (func c) (func c') (by simp [objective, hc])
    (by simp [objective, result_x0flat c' c0 hc' hf'])

/-- the result has the container kind (array / block array, real / complex) and the shape of `x0` -/
theorem C18_container (c0 : Container α) (hwf0 : c0.WF) (v : List α)
    (hv : v.length = total (workShape c0)) :
    ∃ c, result c0 v = some c ∧ c.WF ∧ workShape c = workShape c0 ∧
      (match c, c0 with
        | .real x, .real x0 => shapeOf x = shapeOf x0
        | .cplx _, .cplx _ => True
        | _, _ => False) := by
  obtain ⟨c, hc, _, hcwf, hcf⟩ := x0flat_result c0 hwf0 v hv
  refine ⟨c, hc, hcwf, hcf.1, ?_⟩
  cases c <;> cases c0 <;> first | exact hcf.2 | simpa [workShape, prepare] using hcf.1

/-- a complex container of the form of `x0` has the shape of `x0` (the split adds one leading axis) -/
theorem C18_container_cplx_shape (x x0 : Val (Cx α))
    (h : workShape (Container.cplx x) = workShape (Container.cplx x0)) : shapeOf x = shapeOf x0 := by
  cases x <;> cases x0 <;> simp [workShape, prepare, splitVal, shapeOf, splitArr] at h ⊢
  · exact h
  · rename_i bs cs
    have : ∀ (l1 l2 : List (Arr (Cx α))),
        List.map (Arr.shape ∘ fun a => (⟨2 :: a.shape, a.data.map Cx.re ++ a.data.map Cx.im⟩ : Arr α)) l1 =
        List.map (Arr.shape ∘ fun a => (⟨2 :: a.shape, a.data.map Cx.re ++ a.data.map Cx.im⟩ : Arr α)) l2 →
        List.map Arr.shape l1 = List.map Arr.shape l2 := by
      intro l1
      induction l1 with
      | nil => intro l2 h2; cases l2 <;> simp_all
      | cons a t ih =>
        intro l2 h2
        cases l2 with
        | nil => simp at h2
        | cons b t2 =>
          simp only [List.map_cons, List.cons.injEq, Function.comp] at h2 ⊢
          exact ⟨by simpa using h2.1, ih t2 h2.2⟩
    exact this bs cs h

/-- the result dtype is the dtype of `x0` -/
theorem C18_dtype (d : DT) : resultDType d = d := by cases d <;> rfl

/-- a vector of the wrong length is rejected, never silently re-cut -/
theorem C18_reject_length (v : List α) (s : List Nat) (h : v.length ≠ Wrap.sizeOf s) :
    unravel v (.flat s) = none := by
  simp [unravel, reshape, h]

/-- Keyword routing (statement about any generated table `t`; `Generated/Kwargs.lean` instantiates
    it for the current `solver.py` by `decide`): no accepted keyword is silently ignored, the
    pass-through keywords reach scipy verbatim, every keyword passed on exists in scipy. -/
theorem C18_no_silent_keyword (t : Kwargs.FnTable) (expected : List (String × String))
    (h : Kwargs.checkFn t expected = true) :
    (∀ k ∈ t.accepted, k ∈ t.forwarded ∨ k ∈ t.rejected) ∧
    (∀ p ∈ expected, p ∈ t.verbatim) ∧ (∀ k ∈ t.callKeywords, k ∈ t.scipyParams) :=
  Kwargs.checkFn_sound t expected h

/-- the jax gradient is requested exactly for scipy's gradient-based solvers, however the method
    name is capitalised (`lower` = Python's `str.lower`, which is also how scipy resolves the name) -/
theorem C18_gradient_methods (lower : String → String) (method : String)
    (h : lower method ∈ scipyMethods) :
    usesGrad lower method = !(scipyNoGradient.contains (lower method)) := by
  have key : ∀ m ∈ scipyMethods, usesGradLower m = !(scipyNoGradient.contains m) := by decide
  exact key _ h

/-! ### non-vacuity -/

section examples

def exC : Val (Cx Int) := .blk [⟨[2], [⟨1, 2⟩, ⟨3, 4⟩]⟩, ⟨[], [⟨5, 6⟩]⟩]

example : exC.WF := by
  intro b hb
  simp at hb
  rcases hb with rfl | rfl <;> rfl

-- a complex block array ((2,),()) is handed to scipy as [1,3,2,4,5,6] and comes back unchanged
example : x0flat (.cplx exC) = [1, 3, 2, 4, 5, 6] := by decide
example : result (.cplx exC) [1, 3, 2, 4, 5, 6] = some (.cplx exC) := by decide
example : result (.cplx exC) [0, 0, 0, 0, 0, 7] =
    some (.cplx (.blk [⟨[2], [⟨0, 0⟩, ⟨0, 0⟩]⟩, ⟨[], [⟨0, 7⟩]⟩])) := by decide
-- a real (2,3) array
example : unravel [1, 2, 3, 4, 5, 6] (.flat [2, 3]) = some (Val.arr ⟨[2, 3], [1, 2, 3, 4, 5, 6]⟩) := by decide
example : unravel [1, 2, 3, 4, 5] (.flat [2, 3]) = (none : Option (Val Int)) := by decide
-- hypotheses of C18_minimiser are satisfiable: the objective Σ(entries) over Nat is minimised by 0
example : total (workShape (Container.real (Val.arr (⟨[2], [5, 7]⟩ : Arr Nat)))) = 2 := by decide

end examples

end Scico.Props.C18
