/-
  Property C18 — the scipy.optimize wrappers are transparent to shape, dtype and options.
  ONLY property theorems (and their non-vacuity examples) here.

  Model: `Scico.Model.Wrap` (transcription of `_ravel`, `_unravel`, `_split_real_imag`,
  `_join_real_imag` and the prologue/epilogue of `solver.minimize`); specification side:
  `chunks`, `WF`, `SplitShaped`, `SameForm`, `total` of `Scico.Proofs.Wrap`; generated keyword
  tables: `Scico.Proofs.WrapKwargs` + `Scico/Generated/Kwargs.lean`.
  All statements hold for every scalar type `α`, every number, shape and size of blocks.
-/
import Scico.Proofs.WrapLayout
import Scico.Proofs.WrapKwargs
import Mathlib.Order.Basic

namespace Scico.Props.C18
open Scico.Wrap

variable {α : Type}

/-- `join (split x) = x` for arrays and block arrays … -/
theorem C18_split_join (x : Val (Cx α)) (h : x.WF) : joinVal (splitVal x) = some x :=
  joinVal_splitVal x h

/-- … and `split (join r) = r` for every real container with leading axes of length 2 -/
theorem C18_join_split (r : Val α) (h : SplitShaped r) :
    ∃ z, joinVal r = some z ∧ splitVal z = r ∧ z.WF :=
  splitVal_joinVal r h

/-- flatten then un-flatten is the identity (arrays of any shape, block arrays of any block shapes) -/
theorem C18_ravel_reshape (x : Val α) (h : x.WF) (hv : (shapeOf x).Valid) :
    unravel (ravel x) (shapeOf x) = some x :=
  unravel_ravel x h hv

/-- un-flatten then flatten is the identity: `_unravel` accepts exactly the vectors of the right
    length, gives the requested (nested) shape and keeps the order of the entries -/
theorem C18_reshape_ravel (v : List α) (sh : Shape) (hv : sh.Valid) (h : v.length = total sh) :
    ∃ x, unravel v sh = some x ∧ ravel x = v ∧ shapeOf x = sh ∧ x.WF :=
  ravel_unravel v sh hv h

/-- order: the flat vector is the concatenation of the blocks' row-major data in block order;
    for a complex start each block contributes its real parts followed by its imaginary parts -/
theorem C18_layout (bs : List (Arr α)) (cs : List (Arr (Cx α))) :
    x0flat (.real (.blk bs)) = (bs.map Arr.data).flatten ∧
    x0flat (.cplx (.blk cs)) = (cs.map (fun b => b.data.map Cx.re ++ b.data.map Cx.im)).flatten := by
  constructor
  · rfl
  · simp [x0flat, prepare, splitVal, ravel, splitArr, List.map_map, Function.comp_def]

/-- index form for a complex array with `m` entries: flat coordinate `p < m` is `Re z_p`, flat
    coordinate `m + p` is `Im z_p` (row-major order of the entries) -/
theorem C18_layout_array (a : Arr (Cx α)) (p : Nat) (hp : p < a.data.length) :
    (x0flat (.cplx (.arr a)))[p]? = some (a.data[p]).re ∧
    (x0flat (.cplx (.arr a)))[a.data.length + p]? = some (a.data[p]).im := by
  have e : x0flat (.cplx (.arr a)) = a.data.map Cx.re ++ a.data.map Cx.im := rfl
  rw [e]
  constructor
  · rw [List.getElem?_append_left (by simpa using hp)]
    simp [hp]
  · rw [List.getElem?_append_right (by simp)]
    simp [hp]

/-- the function handed to scipy is `func ∘ join ∘ reshape`: at the flattening of any container
    `c` of the form of `x0` it takes the value `func c` (in particular at `x0` itself) -/
theorem C18_objective {ρ : Type} (func : Container α → ρ) (c0 c : Container α) (hwf : c.WF)
    (hform : SameForm c c0) (hv0 : (workShape c0).Valid) :
    objective func c0 (x0flat c) = some (func c) := by
  simp [objective, result_x0flat c c0 hwf hform hv0]

/-- … and the extra arguments of `args=` reach `func` unchanged, after the container -/
theorem C18_objective_args {ρ A : Type} (func : Container α → A → ρ) (c0 c : Container α) (hwf : c.WF)
    (hform : SameForm c c0) (hv0 : (workShape c0).Valid) (args : A) :
    objectiveArgs func c0 (x0flat c) args = some (func c args) := by
  simp [objectiveArgs, result_x0flat c c0 hwf hform hv0]

/-- the flat real problem is *equivalent*: flattening is a bijection between containers of the
    form of `x0` and real vectors of length `total`, inverse to what `minimize` does with
    scipy's answer -/
theorem C18_bijection (c0 : Container α) (hwf0 : c0.WF) (hv0 : (workShape c0).Valid) :
    (∀ c, c.WF → SameForm c c0 →
        (x0flat c).length = total (workShape c0) ∧ result c0 (x0flat c) = some c) ∧
    (∀ v : List α, v.length = total (workShape c0) →
        ∃ c, result c0 v = some c ∧ x0flat c = v ∧ c.WF ∧ SameForm c c0) := by
  constructor
  · intro c hc hf
    refine ⟨?_, result_x0flat c c0 hc hf hv0⟩
    rw [total_workShape_eq c hc, hf.1]
  · intro v hv
    exact x0flat_result c0 hwf0 hv0 v hv

/-- changing one coordinate `j` of the flat vector changes the argument of `func` along the path of
    containers whose flattening differs in coordinate `j` only — by `C18_layout` that coordinate is the
    real or the imaginary part of one entry.  Hence the `j`-th partial derivative of the flat objective
    is the derivative of `func` with respect to that one real slot (`∂/∂re`, `∂/∂im`). -/
theorem C18_coordinate_path {ρ : Type} (func : Container α → ρ) (c0 c : Container α) (hwf0 : c0.WF)
    (hv0 : (workShape c0).Valid) (hwf : c.WF) (hform : SameForm c c0) (j : Nat) (a : α) :
    ∃ c', result c0 ((x0flat c).set j a) = some c' ∧ c'.WF ∧ SameForm c' c0 ∧
      x0flat c' = (x0flat c).set j a ∧
      objective func c0 ((x0flat c).set j a) = some (func c') := by
  have hlen : ((x0flat c).set j a).length = total (workShape c0) := by
    rw [List.length_set, total_workShape_eq c hwf, hform.1]
  obtain ⟨c', hc', hfl, hw, hf⟩ := x0flat_result c0 hwf0 hv0 _ hlen
  exact ⟨c', hc', hw, hf, hfl, by simp [objective, hc']⟩

/-- therefore: what scipy reports as a minimiser of the flat objective is returned as a
    minimiser of `func` among all containers of the form of `x0` -/
theorem C18_minimiser {ρ : Type} [Preorder ρ] (func : Container α → ρ) (c0 : Container α)
    (hwf0 : c0.WF) (hv0 : (workShape c0).Valid) (v : List α) (hv : v.length = total (workShape c0))
    (hmin : ∀ w : List α, w.length = total (workShape c0) →
      ∀ a b, objective func c0 v = some a → objective func c0 w = some b → a ≤ b) :
    ∃ c, result c0 v = some c ∧ c.WF ∧ SameForm c c0 ∧
      ∀ c', c'.WF → SameForm c' c0 → func c ≤ func c' := by
  obtain ⟨c, hc, _, hcwf, hcf⟩ := x0flat_result c0 hwf0 hv0 v hv
  refine ⟨c, hc, hcwf, hcf, ?_⟩
  intro c' hc' hf'
  have hlen : (x0flat c').length = total (workShape c0) := by
    rw [total_workShape_eq c' hc', hf'.1]
  exact hmin (x0flat c') hlen (func c) (func c') (by simp [objective, hc])
    (by simp [objective, result_x0flat c' c0 hc' hf' hv0])

/-- the result has the container kind (array / block array, real / complex) and the shape of `x0`
    (for a complex start: the shape without the leading re/im axis of the work array) -/
theorem C18_container (c0 : Container α) (hwf0 : c0.WF) (hv0 : (workShape c0).Valid) (v : List α)
    (hv : v.length = total (workShape c0)) :
    ∃ c, result c0 v = some c ∧ c.WF ∧ c.isCplx = c0.isCplx ∧ c.shape = c0.shape := by
  obtain ⟨c, hc, _, hcwf, hcf⟩ := x0flat_result c0 hwf0 hv0 v hv
  exact ⟨c, hc, hcwf, sameForm_shape c c0 hcf⟩

/-- the result dtype is the dtype of `x0` -/
theorem C18_dtype (d : DT) : resultDType d = d := by cases d <;> rfl

/-- integer and boolean starting points are outside: exactly the floating and complex dtypes are taken -/
theorem C18_start_dtypes (d : DT) : d.isInexact = true ↔ d = .f32 ∨ d = .f64 ∨ d = .c64 ∨ d = .c128 := by
  cases d <;> simp [DT.isInexact]

/-- a vector of the wrong length is rejected, never silently re-cut -/
theorem C18_reject_length (v : List α) (sh : Shape) (hv : sh.Valid) (h : v.length ≠ total sh) :
    unravel v sh = none :=
  unravel_none_of_length v sh hv h

/-- index form for block arrays: entry `p` of block `i` is flat coordinate `off + p`, where `off` is
    the number of scalars of the blocks before it; for a complex block array the real part of entry
    `p` of block `i` is coordinate `off + p` and its imaginary part `off + mᵢ + p`, `off` = twice the
    number of entries of the blocks before, `mᵢ` the number of entries of block `i` -/
theorem C18_layout_block (bs : List (Arr α)) (cs : List (Arr (Cx α))) :
    (∀ (i : Nat) (hi : i < bs.length) (p : Nat) (hp : p < bs[i].data.length),
      (x0flat (.real (.blk bs)))[((bs.take i).map (fun b => b.data.length)).sum + p]? = some bs[i].data[p]) ∧
    (∀ (i : Nat) (hi : i < cs.length) (p : Nat) (hp : p < cs[i].data.length),
      (x0flat (.cplx (.blk cs)))[((cs.take i).map (fun b => 2 * b.data.length)).sum + p]?
          = some (cs[i].data[p]).re ∧
      (x0flat (.cplx (.blk cs)))[((cs.take i).map (fun b => 2 * b.data.length)).sum + cs[i].data.length + p]?
          = some (cs[i].data[p]).im) := by
  constructor
  · intro i hi p hp
    have := getElem?_flatten_offset (bs.map Arr.data) i (by simpa using hi) p (by simpa using hp)
    simp only [List.getElem_map, ← List.map_take, List.map_map] at this
    simpa [x0flat, prepare, ravel, Function.comp_def, hp] using this
  · intro i hi p hp
    have e : x0flat (.cplx (.blk cs)) = (cs.map (fun b => b.data.map Cx.re ++ b.data.map Cx.im)).flatten := by
      simp [x0flat, prepare, splitVal, ravel, splitArr, List.map_map, Function.comp_def]
    have hoff : ((cs.take i).map (fun b => 2 * b.data.length)).sum =
        (((cs.map (fun b => b.data.map Cx.re ++ b.data.map Cx.im)).take i).map List.length).sum := by
      rw [← List.map_take, List.map_map]
      congr 1
      apply List.map_congr_left
      intro b _
      simp [Nat.two_mul]
    rw [e, hoff]
    constructor
    · have := getElem?_flatten_offset (cs.map (fun b => b.data.map Cx.re ++ b.data.map Cx.im)) i
        (by simpa using hi) p (by simp; omega)
      rw [this]
      simp only [List.getElem_map]
      rw [List.getElem?_append_left (by simpa using hp)]
      simp [hp]
    · have := getElem?_flatten_offset (cs.map (fun b => b.data.map Cx.re ++ b.data.map Cx.im)) i
        (by simpa using hi) (cs[i].data.length + p) (by simp; omega)
      rw [Nat.add_assoc, this]
      simp only [List.getElem_map]
      rw [List.getElem?_append_right (by simp)]
      simp [hp]

/-- bounds in container form: comparing two containers of one form entry by entry (real and imaginary
    parts separately) is comparing their flat vectors coordinate by coordinate.  Hence
    `bounds = Bounds(flat(L), flat(U))` (flattened as `minimize` flattens `x0`) restricts scipy to
    exactly the vectors whose container lies entrywise between `L` and `U`. -/
theorem C18_bounds_layout (R : α → α → Prop) (c0 L : Container α) (hwf0 : c0.WF) (hv0 : (workShape c0).Valid)
    (hL : L.WF) (hLf : SameForm L c0) (v : List α) (hv : v.length = total (workShape c0)) :
    ∃ c, result c0 v = some c ∧ (List.Forall₂ R (x0flat L) v ↔ Container.Rel R L c) := by
  obtain ⟨c, hc, hfl, hcwf, hcf⟩ := x0flat_result c0 hwf0 hv0 v hv
  refine ⟨c, hc, ?_⟩
  have hform : SameForm L c := by
    refine ⟨hLf.1.trans hcf.1.symm, ?_⟩
    cases L <;> cases c <;> cases c0 <;> simp_all [SameForm]
  rw [← hfl]
  exact x0flat_rel R L c hL hcwf hform

/-- the true gradient: let `G` be the container of partial derivatives of `func` at a point (what
    `jax.value_and_grad` returns for the work container: one real number per slot).  The vector handed
    to scipy is `flat G`, and it represents the same differential on the flat problem:
    `⟨flat G, flat H⟩ = Σ_slots G_slot · H_slot` for every direction `H` of the form of `x0` — so by
    `C18_bijection` (every flat direction is `flat H` for exactly one `H`) `flat G` is the gradient of
    the flat objective, coordinate `j` being the partial with respect to the slot `j` labels. -/
theorem C18_gradient_pairing {K : Type} [CommSemiring K] (G H : Container K) (hG : G.WF) (hH : H.WF)
    (hform : SameForm G H) : dotL (x0flat G) (x0flat H) = Container.pair G H :=
  x0flat_pair G H hG hH hform

/-- `minimize_scalar`: the wrapper hands scipy the value of a 0-d result and the single entry of a
    `(1,)` result of `func` -/
theorem C18_scalar_value (a : α) :
    scalarOf (⟨[], [a]⟩ : Arr α) = some a ∧ scalarOf (⟨[1], [a]⟩ : Arr α) = some a :=
  ⟨rfl, rfl⟩

/-- Keyword routing (statement about any generated table `t`; `Generated/Kwargs.lean` instantiates
    it for the current `solver.py` by `decide`): no accepted keyword is silently ignored, the
    pass-through keywords reach scipy verbatim, every keyword passed on exists in scipy. -/
theorem C18_no_silent_keyword (t : Kwargs.FnTable) (expected : List (String × String))
    (h : Kwargs.checkFn t expected = true) :
    (∀ k ∈ t.accepted, k ∈ t.forwarded ∨ k ∈ t.rejected) ∧
    (∀ p ∈ expected, p ∈ t.verbatim) ∧ (∀ k ∈ t.callKeywords, k ∈ t.scipyParams) :=
  Kwargs.checkFn_sound t expected h

/-- an omitted pass-through keyword means what it means in scipy: for any generated table passing
    `checkDefaults`, the wrapper's default of every pass-through parameter (outside the declared
    exceptions) is scipy's default.  `Generated/Kwargs.lean` proves the hypothesis for the current
    source (`minimizeDefaults_ok` with the one exception `minimize(method="L-BFGS-B")`,
    `minimizeScalarDefaults_ok` without exception). -/
theorem C18_defaults (t : Kwargs.FnTable) (allowed : List String)
    (h : Kwargs.checkDefaults t allowed = true) :
    ∀ kp ∈ t.verbatim, kp.2 ∉ allowed → t.defaults.lookup kp.2 = t.scipyDefaults.lookup kp.1 :=
  Kwargs.checkDefaults_sound t allowed h

/-- the jax gradient is requested exactly for scipy's gradient-based solvers, however the method
    name is capitalised (`lower` = Python's `str.lower`, which is also how scipy resolves the name) -/
theorem C18_gradient_methods (lower : String → String) (method : String)
    (h : lower method ∈ scipyMethods) :
    usesGrad lower method = !(scipyNoGradient.contains (lower method)) := by
  have key : ∀ m ∈ scipyMethods, usesGradLower m = !(scipyNoGradient.contains m) := by decide
  exact key _ h

/-- a user-supplied callable `method` is run without the jax gradient (`jac=False`), whatever it is -/
theorem C18_callable_method (lower : String → String) :
    usesGradM lower .callable = false ∧ ∀ m, usesGradM lower (.name m) = usesGrad lower m :=
  ⟨rfl, fun _ => rfl⟩

/-- the inner scipy call: every pass-through argument arrives as the caller's value, whatever it is
    (also falsy ones: `tol = 0.0`, `options = {}`, `bounds = []`), and `jac` is `True` exactly for the
    gradient-based solvers — per method of the installed scipy: `jac` is passed for `m` iff `m` is not
    one of Nelder-Mead, Powell, COBYLA, COBYQA -/
theorem C18_forwarding {V : Type} (lower : String → String) (m : Method) (a : MinArgs V) :
    let c := scipyCall lower m a
    c.args = a.args ∧ c.method = a.method ∧ c.hess = a.hess ∧ c.hessp = a.hessp ∧ c.bounds = a.bounds ∧
    c.constraints = a.constraints ∧ c.tol = a.tol ∧ c.callback = a.callback ∧ c.options = a.options ∧
    c.jac = usesGradM lower m ∧
    (∀ name, m = .name name → lower name ∈ scipyMethods →
      c.jac = !(scipyNoGradient.contains (lower name))) := by
  refine ⟨rfl, rfl, rfl, rfl, rfl, rfl, rfl, rfl, rfl, rfl, ?_⟩
  intro name hm hmem
  subst hm
  exact C18_gradient_methods lower name hmem

/-! ### non-vacuity -/

section examples

def exC : Val (Cx Int) := .blk [⟨[2], [⟨1, 2⟩, ⟨3, 4⟩]⟩, ⟨[], [⟨5, 6⟩]⟩]

example : exC.WF := by
  intro b hb
  simp at hb
  rcases hb with rfl | rfl <;> rfl

-- a complex block array ((2,),()) is handed to scipy as [1,3,2,4,5,6] and comes back unchanged
example : x0flat (.cplx exC) = [1, 3, 2, 4, 5, 6] := by decide
example : result (.cplx exC) [1, 3, 2, 4, 5, 6] = some (.cplx exC) := by decide
example : result (.cplx exC) [0, 0, 0, 0, 0, 7] =
    some (.cplx (.blk [⟨[2], [⟨0, 0⟩, ⟨0, 0⟩]⟩, ⟨[], [⟨0, 7⟩]⟩])) := by decide
-- a real (2,3) array
example : unravel [1, 2, 3, 4, 5, 6] (.flat [2, 3]) = some (Val.arr ⟨[2, 3], [1, 2, 3, 4, 5, 6]⟩) := by decide
example : unravel [1, 2, 3, 4, 5] (.flat [2, 3]) = (none : Option (Val Int)) := by decide
-- hypotheses of C18_minimiser are satisfiable: the objective Σ(entries) over Nat is minimised by 0
example : total (workShape (Container.real (Val.arr (⟨[2], [5, 7]⟩ : Arr Nat)))) = 2 := by decide

-- the hypotheses about shapes are satisfiable: `exC` has blocks, its work shape is ((2,2),(2,))
example : (workShape (.cplx exC)).Valid := by decide
example : workShape (.cplx exC) = .nested [[2, 2], [2]] := by decide
-- block 1 (one entry 5+6i) of `exC`: offset 2*2 = 4; Re at 4, Im at 4 + 1
example : (x0flat (.cplx exC))[4]? = some 5 ∧ (x0flat (.cplx exC))[5]? = some 6 := by decide
-- wrong lengths are rejected for nested shapes too; `()` is the 0-d shape
example : unravel [1, 2, 3, 4] (.nested [[2], [3]]) = (none : Option (Val Int)) := by decide
example : unravel [7] (.nested []) = some (Val.arr (⟨[], [7]⟩ : Arr Int)) := by decide
-- entrywise bounds: L = exC ≤ c  ⇔  flat(L) ≤ flat(c)
example : Container.Rel (· ≤ ·) (.cplx exC) (.cplx (.blk [⟨[2], [⟨1, 2⟩, ⟨3, 5⟩]⟩, ⟨[], [⟨5, 6⟩]⟩])) := by
  show List.Forall₂ _ _ _
  refine .cons ⟨rfl, ?_⟩ (.cons ⟨rfl, ?_⟩ .nil) <;> simp [CxRel]

-- pairing: G = exC (1+2i, 3+4i | 5+6i), H = (1, i | 2): 1·1 + 4·1 + 5·2 = 15, also on the flat vectors
example : Container.pair (.cplx exC) (.cplx (.blk [⟨[2], [⟨1, 0⟩, ⟨0, 1⟩]⟩, ⟨[], [⟨2, 0⟩]⟩])) = 15 := by decide
example : dotL (x0flat (.cplx exC)) (x0flat (.cplx (.blk [⟨[2], [⟨1, 0⟩, ⟨0, 1⟩]⟩, ⟨[], [⟨2, 0⟩]⟩]))) = (15 : Int) := by decide

-- the jac table of the installed solver set (lower-case names)
example : scipyMethods.map (fun m => (m, usesGradM id (.name m))) =
    [("nelder-mead", false), ("powell", false), ("cg", true), ("bfgs", true), ("newton-cg", true), ("l-bfgs-b", true),
     ("tnc", true), ("cobyla", false), ("cobyqa", false), ("slsqp", true), ("trust-constr", true), ("dogleg", true),
     ("trust-ncg", true), ("trust-exact", true), ("trust-krylov", true)] := by decide
-- a falsy tolerance is forwarded as it is (values = integers, 0 = the falsy one)
example : (scipyCall id (.name "bfgs") (⟨1, 2, 3, 4, 5, 6, 0, 8, 9⟩ : MinArgs Nat)).tol = 0 := rfl

end examples

end Scico.Props.C18
