/-
  Property C15 — solver driver, statistics, callbacks, resumption, NaN stop, interval timer.
  ONLY property theorems here (helper lemmas: `Scico/Proofs/Driver*.lean`; specifications:
  `Scico/Proofs/DriverSpec.lean`).
-/
import Scico.Proofs.DriverTrace
import Scico.Proofs.DriverSeq
import Scico.Proofs.DriverCtl
import Scico.Proofs.DriverMore
import Scico.Proofs.DriverDisp
import Scico.Proofs.DriverClock
import Scico.Proofs.DriverClockAdvance
import Scico.Proofs.DriverRaise
import Scico.Proofs.DriverBridge
import Scico.Proofs.DriverNan

namespace Scico.Props.C15
open Scico.Driver Scico.Driver.Spec

/-! ## NaN test -/

/-- `_working_vars_finite()` (every class: conjunction of `_all_finite` over the class's working
    variables) is false exactly when some entry of some block of some working variable is
    non-finite — plain and block arrays alike -/
theorem C15_working_vars_finite_iff {α : Type} (fin : α → Bool) (vars : List (Var α)) :
    workingVarsFinite fin vars = false ↔ hasNonFinite fin vars :=
  workingVarsFinite_eq_false_iff fin vars

example : workingVarsFinite id [Var.plain [true, true], Var.block [[true], [true, false]]] = false := by
  decide

/-! ## Interval timer -/

/-- **The interval timer reports the times of an ideal stop-watch.**  For every constructor
    configuration, every sequence of `start/stop/reset` calls with `None`, single-label, `all` or
    list arguments (a `KeyError` in the middle of a list leaves the earlier labels updated and the
    program carries on), every non-decreasing integer clock and every later query time, the value
    `Timer.elapsed(label, total)` returns — or the `KeyError` it raises — is what the
    history-based stop-watch `specElapsed` prescribes (`DriverSpec.lean`: number of ticks since the
    label's last reset during which its most recent event was a `start`; `total=False`: time since
    the first `start` of the trailing run of `start`s; 0 for an uninitialised default label;
    `KeyError` exactly for an explicitly named label that does not exist). -/
theorem C15_timer_refines_stopwatch {L : Type} [DecidableEq L] (c : Cfg L) (h : List (Call L))
    (now : Nat) (hm : Monotone h now) (label : Option L) (total : Bool) :
    ((Timer.init c.init c.dflt c.all).run h).elapsed label total now =
      specElapsed c h label total now :=
  timer_refines_stopwatch c h now hm label total

/-- **`KeyError` characterised.**  After any history, a call raises `KeyError` iff it is a
    `stop`/`reset` whose argument is an explicit label or list (not the `all` label) naming a
    label that was neither given to the constructor nor ever started.  `start` never raises. -/
theorem C15_timer_keyerror {L : Type} [DecidableEq L] (c : Cfg L) (h : List (Call L)) (k : Call L) :
    (((Timer.init c.init c.dflt c.all).run h).apply k).2 = false ↔
      (k.op ≠ .start ∧ ∃ ls, c.explicitTargets k.arg = some ls ∧ ∃ l ∈ ls, known c h l = false) := by
  have R : Represents c h ((Timer.init c.init c.dflt c.all).run h) := by
    simpa using represents_run [] h _ (represents_init c)
  rw [(represents_apply R k).2]
  unfold raisesKey
  cases hop : k.op with
  | start => simp
  | stop =>
    cases ht : c.explicitTargets k.arg with
    | none => simp
    | some ls => simp
  | reset =>
    cases ht : c.explicitTargets k.arg with
    | none => simp
    | some ls => simp

/-- **The set of labels** (`Timer.labels()`): a label is a key of the dictionary iff it was given
    to the constructor or named in an earlier `start` call. -/
theorem C15_timer_labels {L : Type} [DecidableEq L] (c : Cfg L) (h : List (Call L)) (l : L) :
    l ∈ ((Timer.init c.init c.dflt c.all).run h).store.keys ↔ known c h l = true := by
  have R : Represents c h ((Timer.init c.init c.dflt c.all).run h) := by
    simpa using represents_run [] h _ (represents_init c)
  rw [Store.mem_keys_iff, isSome_of_represents R l]

-- non-vacuity: a history with a restart, a reset, a `KeyError` in the middle of a list, the `all`
-- label and an unknown label; labels are numbers, default label 0, `all` label 9
example :
    let c : Cfg Nat := ⟨.one 1, 0, 9⟩
    let h : List (Call Nat) :=
      [⟨1, .start, .none⟩, ⟨3, .start, .many [1, 2]⟩, ⟨4, .stop, .many [1, 7, 2]⟩, ⟨6, .start, .one 1⟩,
       ⟨8, .stop, .one 9⟩, ⟨8, .reset, .one 2⟩, ⟨9, .start, .one 2⟩]
    Monotone h 12 ∧
      specElapsed c h none true 12 = some 7 ∧ specElapsed c h (some 1) true 12 = some 3 ∧
      specElapsed c h (some 2) true 12 = some 3 ∧ specElapsed c h (some 2) false 12 = some 3 ∧
      specElapsed c h (some 7) true 12 = none ∧
      ((Timer.init c.init c.dflt c.all).run h).elapsed (some 1) true 12 = some 3 := by
  refine ⟨⟨by decide, by decide⟩, by decide, by decide, by decide, by decide, by decide, by decide⟩


/-! ## `ContextTimer`, `Timer.__str__`, `history(transpose=True)`, statistics columns -/

/-- **`with ContextTimer(timer, label)`** (action `StartStop`; the label — `None` = default label —
    is not the `all` label; a start time of the label, if it is running, is not in the future):
    never raises; after the block the label is *stopped* and its total reading, at any later time,
    is its reading at entry plus the duration of the block — also when it was already running
    (the exit stops it: the context manager is not re-entrant, which is why it cannot replace the
    `stop(); callback(); start()` bracket of `solve`). -/
theorem C15_context_timer_startstop {L : Type} [DecidableEq L] (T : Timer L) (label : Option L)
    (t1 t2 : Nat) (h12 : t1 ≤ t2) (hall : ctxLabel T label ≠ T.all)
    (hwf : ∀ e, T.store.get (ctxLabel T label) = some e → ∀ s, e.t0 = some s → s ≤ t1) :
    let T1 := (ctxEnter T label .startStop t1).1
    let r := ctxExit T1 label .startStop t2
    r.2 = true ∧
      ∀ now, r.1.elapsed (some (ctxLabel T label)) true now =
          some (((T.elapsed (some (ctxLabel T label)) true t1).getD 0) + (t2 - t1)) ∧
        r.1.elapsed (some (ctxLabel T label)) false now = some 0 :=
  ctx_startStop T label t1 t2 h12 hall hwf

/-- **`with ContextTimer(timer, label, action="StopStart")`**: on an existing label the duration
    of the block is excluded and the label runs afterwards (whether or not it ran before); on a
    label that does not exist — e.g. the default label of a fresh `Timer()` — entry raises
    `KeyError` and nothing changes. -/
theorem C15_context_timer_stopstart {L : Type} [DecidableEq L] (T : Timer L) (label : Option L)
    (t1 t2 : Nat) (hall : ctxLabel T label ≠ T.all) :
    (∀ e, T.store.get (ctxLabel T label) = some e → (∀ s, e.t0 = some s → s ≤ t1) →
      let r1 := ctxEnter T label .stopStart t1
      let r := ctxExit r1.1 label .stopStart t2
      r1.2 = true ∧ r.2 = true ∧
        ∀ now, t2 ≤ now → r.1.elapsed (some (ctxLabel T label)) true now =
            some (((T.elapsed (some (ctxLabel T label)) true t1).getD 0) + (now - t2)) ∧
          r.1.elapsed (some (ctxLabel T label)) false now = some (now - t2)) ∧
    (T.store.get (ctxLabel T label) = none → ctxEnter T label .stopStart t1 = (T, false)) :=
  ⟨fun e hex hwf => ctx_stopStart T label t1 t2 hall e hex hwf,
   fun hex => ctx_stopStart_keyerror T label t1 hall hex⟩

-- non-vacuity: a label that is already running; the block lasts 5 ticks
example :
    let T : Timer Nat := (Timer.init (.one 3) 0 9).start (.one 3) 2
    ctxLabel T (some 3) ≠ T.all ∧ T.elapsed (some 3) true 4 = some 2 ∧
      ((ctxExit (ctxEnter T (some 3) .startStop 4).1 (some 3) .startStop 9).1.elapsed (some 3) true 20 = some 7) ∧
      ((ctxExit (ctxEnter T (some 3) .stopStart 4).1 (some 3) .stopStart 9).1.elapsed (some 3) true 20 = some 13) ∧
      (ctxEnter (Timer.init .none 0 9) none .stopStart 4).2 = false := by
  decide

/-- **The table `Timer.__str__` prints** (documented behaviour; before commit `2b46a8f` a
    `TypeError` was raised while any timer ran — finding `timer-str-running`): after any history on any
    configuration with a non-decreasing clock the rows are those of the existing labels, each
    exactly once, in sorted order; `Accum.` + `Current` is the ideal stop-watch's total, `Current`
    is the ideal stop-watch's `total=False` reading and reads `Stopped` iff the label's last event
    is not a `start`. -/
theorem C15_timer_str {L : Type} [DecidableEq L] (lt : L → L → Bool)
    (htot : ∀ a b, lt a b = false → lt b a = false → a = b)
    (htrans : ∀ a b c, lt a b = true → lt b c = true → lt a c = true) (hirr : ∀ a, lt a a = false)
    (c : Cfg L) (h : List (Call L)) (now : Nat) (hm : Monotone h now) :
    let rows := ((Timer.init c.init c.dflt c.all).run h).strRows lt now
    (∀ l, l ∈ rows.map (·.label) ↔ known c h l = true) ∧
      (rows.map (·.label)).Nodup ∧
      SortedBy lt (rows.map (·.label)) ∧
      ∀ r ∈ rows,
        r.accum + r.current.getD 0 = specTotal (labelHistory c h r.label) now ∧
        r.current = (trailingStarts (labelHistory c h r.label)).head?.map (fun ev => now - ev.1) ∧
        r.current.getD 0 = specCurrent (labelHistory c h r.label) now := by
  intro rows
  refine ⟨fun l => strRows_complete lt c h now l, ?_, ?_, ?_⟩
  · exact strRows_nodup lt c h now
  · show SortedBy lt ((((Timer.init c.init c.dflt c.all).run h).strRows lt now).map (·.label))
    rw [strRows_labels]
    exact sorted_sortLabels lt htot htrans hirr _
  · intro r hr
    exact (strRows_spec lt c h now hm r hr).2

-- non-vacuity: labels 1 (running since 6, 3 accumulated) and 2 (stopped, 1 accumulated), `<` on ℕ
example :
    let c : Cfg Nat := ⟨.none, 0, 9⟩
    let h : List (Call Nat) := [⟨1, .start, .many [2, 1]⟩, ⟨2, .stop, .one 2⟩, ⟨4, .stop, .one 1⟩, ⟨6, .start, .one 1⟩]
    Monotone h 10 ∧
      ((Timer.init c.init c.dflt c.all).run h).strRows (fun a b => decide (a < b)) 10 =
        [⟨1, 3, some 4⟩, ⟨2, 1, none⟩] := by
  refine ⟨⟨by decide, by decide⟩, by decide⟩

/-- **`history(transpose=True)`** of a non-empty history: one list per field of the first record,
    each as long as the history, and entry `m` of list `n` is field `n` of record `m`
    (the empty history is returned as it is: `historyTranspose [] = []`). -/
theorem C15_history_transpose {β : Type} (r0 : List β) (rest : List (List β)) :
    historyTranspose ([] : List (List β)) = [] ∧
      (historyTranspose (r0 :: rest)).length = r0.length ∧
      (∀ col ∈ historyTranspose (r0 :: rest), col.length = (r0 :: rest).length) ∧
      ∀ (m n : Nat) (r : List β) (x : β), (r0 :: rest)[m]? = some r → r[n]? = some x → n < r0.length →
        ((historyTranspose (r0 :: rest))[n]?.bind (·[m]?)) = some (some x) :=
  ⟨rfl, historyTranspose_spec r0 rest⟩

example : historyTranspose [[1, 2, 3], [4, 5, 6]] = [[some 1, some 4], [some 2, some 5], [some 3, some 6]] := by
  decide


/-- **What `IterationStats` prints** (`display`, `period ≥ 1`, `shift_cycles`, `overwrite`), for any
    number of insertions from any state: nothing at all with `display=False`; otherwise the
    header exactly once, before the first record printed after construction, and for the record at
    position `n` — with `overwrite` always, terminated by a line feed iff it ends a display cycle
    and by a carriage return otherwise; without `overwrite` only if it ends a cycle.  A record ends
    a cycle iff its position is `0, p, 2p, …` (`shift_cycles`) or `p-1, 2p-1, …` (otherwise);
    `end()` prints one bare line feed iff displaying, overwriting, `period > 1` and the last
    record did not end a cycle. -/
theorem C15_display (o : DisplayOpts) (hp : 0 < o.period) (k : Nat) (s : Disp) :
    (o.display = false → (dispInserts o k s).out = s.out ∧ (dispEnd o s).out = s.out) ∧
    (o.display = true → dispInserts o k s =
      ⟨s.len + k, s.hdrPending && decide (k = 0),
        s.out ++ (if s.hdrPending && decide (0 < k) then [.header] else []) ++
          (List.range k).flatMap (fun n => rowEvent o (s.len + n))⟩) ∧
    (∀ n, cycleEnd o (n + 1) = true ↔
      (if o.shiftCycles then n % o.period = 0 else (n + 1) % o.period = 0)) ∧
    ((dispEnd o s).out = s.out ++
      (if o.display && o.overwrite && decide (o.period > 1) && !(cycleEnd o s.len) then [.newline] else [])) := by
  refine ⟨fun h => ⟨by rw [dispInserts_off o h], by simp [dispEnd, h]⟩, fun h => dispInserts_on o h k s,
    fun n => cycleEnd_iff o hp n, ?_⟩
  unfold dispEnd
  split <;> simp

/-- **What remains visible after one `solve()`** on an ideal terminal (carriage return: the next
    output replaces the line; line feed: the line stays), `k ≥ 1` iterations on a fresh displaying
    object followed by `end()`: with `overwrite` the header, the records that end a cycle and the
    last record; without it the header and the records that end a cycle are all that is printed. -/
theorem C15_display_visible (o : DisplayOpts) (hd : o.display = true) (hp : 0 < o.period) (k : Nat)
    (hk : 0 < k) :
    (o.overwrite = true →
      ((Screen.mk [] none).run (dispEnd o (dispInserts o k (Disp.init o))).out).visible =
        Line.header :: ((List.range k).filter (fun n => cycleEnd o (n + 1) || decide (n + 1 = k))).map Line.row) ∧
    (o.overwrite = false →
      (dispEnd o (dispInserts o k (Disp.init o))).out =
        PrintEv.header :: ((List.range k).filter (fun n => cycleEnd o (n + 1))).map (fun n => PrintEv.row n true)) :=
  ⟨fun ho => visible_overwrite o hd ho hp k hk, fun ho => visible_plain o hd ho k hk⟩

/-- **What remains visible after any number of `solve()` calls** (overwrite mode, ideal terminal):
    call by call — the header before the first record ever printed, the records that end a display
    cycle, the last record of each call (committed by `end()`), and one blank line for a call that
    inserts nothing while the last record did not end a cycle (`callsLines`); the cursor is on a
    fresh line after every call. -/
theorem C15_display_visible_calls (o : DisplayOpts) (hd : o.display = true) (ho : o.overwrite = true)
    (hp : 0 < o.period) (ks : List Nat) :
    (Screen.mk [] none).run (dispCalls o ks (Disp.init o)).out = ⟨callsLines o 0 true ks, none⟩ := by
  have := screen_calls_overwrite o hd ho hp ks (Disp.init o) [] rfl
  simpa [Disp.init, hd] using this

-- period 3 with shift: calls of 2, 0 and 3 iterations; records 0 and 3 end cycles, records 1 and 4 are the
-- last ones of their calls, and the empty call leaves a blank line
example :
    let o : DisplayOpts := { display := true, period := 3, shiftCycles := true, overwrite := true }
    ((Screen.mk [] none).run (dispCalls o [2, 0, 3] (Disp.init o)).out).lines =
      [.header, .row 0, .row 1, .blank, .row 3, .row 4] := by decide

-- non-vacuity: period 3 without shift, overwrite: 7 records; records 2 and 5 end a cycle, record 6 is
-- committed by `end()`; everything else was overwritten
example :
    let o : DisplayOpts := { display := true, period := 3, shiftCycles := false, overwrite := true }
    (dispEnd o (dispInserts o 7 (Disp.init o))).out =
        [.header, .row 0 false, .row 1 false, .row 2 true, .row 3 false, .row 4 false, .row 5 true, .row 6 false, .newline] ∧
      ((Screen.mk [] none).run (dispEnd o (dispInserts o 7 (Disp.init o))).out).visible =
        [.header, .row 2, .row 5, .row 6] := by
  decide

/-- **Statistics options are read, never written** (`itstat_func_and_object`, for every options
    dictionary with distinct keys, `None` and `{}` included): the caller's `itstat_options` object
    is what it was; the insertion function is the caller's `"itstat_func"` if there is one and the
    generated default otherwise; `IterationStats` receives no `itstat_func` argument, the caller's
    `fields` / `display` if given and the defaults otherwise, and every other key of the caller
    verbatim.  Hence any number of optimisers built one after the other from the *same* options
    object get the same insertion function and the same `IterationStats` arguments. -/
theorem C15_itstat_options {β : Type} (fields func displayOff : β) (user : Option (List (String × β)))
    (hu : ∀ u, user = some u → (u.map (·.1)).Nodup) (n : Nat) :
    ((itstatSetup fields func displayOff user).userAfter = user ∧
      (itstatSetup fields func displayOff user).func = some ((userGet user "itstat_func").getD func) ∧
      dictGet (itstatSetup fields func displayOff user).kwargs "itstat_func" = none ∧
      dictGet (itstatSetup fields func displayOff user).kwargs "fields" = some ((userGet user "fields").getD fields) ∧
      dictGet (itstatSetup fields func displayOff user).kwargs "display" = some ((userGet user "display").getD displayOff) ∧
      ∀ k, k ≠ "itstat_func" → k ≠ "fields" → k ≠ "display" →
        dictGet (itstatSetup fields func displayOff user).kwargs k = userGet user k) ∧
    ((itstatSetups fields func displayOff n user).2 = user ∧
      ∀ s ∈ (itstatSetups fields func displayOff n user).1,
        s.func = (itstatSetup fields func displayOff user).func ∧
        s.kwargs = (itstatSetup fields func displayOff user).kwargs) :=
  ⟨itstatSetup_spec fields func displayOff user hu, itstatSetups_same fields func displayOff n user⟩

-- non-vacuity: custom fields (11) and function (12) with a display period; three optimisers from one object
example :
    let user : Option (List (String × Nat)) := some [("fields", 11), ("itstat_func", 12), ("period", 3)]
    ((itstatSetups 1 2 0 3 user).1.map (fun s => (s.func, s.kwargs))) =
      [(some 12, [("fields", 11), ("display", 0), ("period", 3)]), (some 12, [("fields", 11), ("display", 0), ("period", 3)]),
       (some 12, [("fields", 11), ("display", 0), ("period", 3)])] ∧
    (itstatSetup 1 2 0 (some ([] : List (String × Nat)))).func = some 2 := by
  decide

/-- **The `Objective` column**: present iff the optimiser's `_objective_evaluatable()` holds, and then
    it is the third column, evaluated by `objective()`; `_objective_evaluatable()` holds iff every
    functional that is present can be evaluated (ADMM also without `f`). -/
theorem C15_objective_column (c : OptClass) (sv : AdmmSolver) (fGiven fHas : Bool) (gs : List Bool) :
    let obj := objectiveEvaluable c fGiven fHas gs
    ("Objective" ∈ fieldNames c sv obj ↔ obj = true) ∧
      (obj = true → (fieldSpecs c sv obj)[2]? = some ⟨"Objective", "%9.3e", "objective()"⟩) ∧
      (obj = true ↔ ((c = .admm ∧ fGiven = false) ∨ fHas = true) ∧ ∀ g ∈ gs, g = true) := by
  intro obj
  refine ⟨?_, ?_, ?_⟩
  · cases c <;> cases sv <;> cases obj <;> decide
  · intro h; rw [h]; cases c <;> cases sv <;> decide
  · show objectiveEvaluable c fGiven fHas gs = true ↔ _
    cases c <;> cases fGiven <;> cases fHas <;> simp [objectiveEvaluable]

example : objectiveEvaluable .admm false false [true, true] = true ∧ objectiveEvaluable .pdhg true true [false] = false := by
  decide

/-- **Statistics columns**: for every optimiser class, sub-problem solver and objective flag the
    column names are pairwise distinct and so are the attribute expressions (one value per column,
    `namedtuple` accepts the names), the record starts with `Iter` (`itnum`) and `Time`
    (`timer.elapsed()`), and the source of the generated statistics function reads exactly the
    attribute expressions in column order.  (That these tables are the ones in the source is the
    generated obligation `Scico.Generated.DriverFields.tables_ok`, re-checked on every run.) -/
theorem C15_field_tables (c : OptClass) (sv : AdmmSolver) (obj : Bool) :
    (fieldNames c sv obj).Nodup ∧ ((fieldSpecs c sv obj).map (·.attrib)).Nodup ∧
      (fieldSpecs c sv obj).take 2 = [⟨"Iter", "%d", "itnum"⟩, ⟨"Time", "%8.2e", "timer.elapsed()"⟩] ∧
      (fieldSpecs c sv obj).length = (fieldNames c sv obj).length := by
  cases c <;> cases sv <;> cases obj <;> decide

example : itstatFuncSource ((fieldSpecs .pgm .other true).map (·.attrib)) =
    "def itstat_func(obj): return(obj.itnum, obj.timer.elapsed(), obj.objective(), obj.L, obj.norm_residual())" := by
  decide


/-- **The interval timer over an arbitrary clock.**  With clock values in ANY additive commutative
    group `τ` (ℤ, ℚ, ℝ — the idealisation of the floats `timeit.default_timer()` returns), for every
    configuration and every sequence of `start/stop/reset` calls (all argument forms, `KeyError`s
    with partial mutation), `Timer.elapsed(label, total)` is what the history-based stop-watch
    `Clock.specElapsed` prescribes: the sum of the lengths of the gaps — between consecutive events
    the label received since its last reset, and from the last event to the query time — that begin
    with a `start`; `total=False`: the time since the first `start` of the trailing run of
    `start`s; a call raises `KeyError` exactly when the specification says so.  No hypothesis on
    the order of the clock values is needed for the equality; on a non-decreasing ordered clock
    every gap is a duration and the reading is never negative. -/
theorem C15_timer_refines_stopwatch_clock {L τ : Type} [DecidableEq L] [AddCommGroup τ]
    (c : Cfg L) (h : List (Clock.Call L τ)) (now : τ) (label : Option L) (total : Bool) (k : Clock.Call L τ) :
    ((Clock.Timer.init c.init c.dflt c.all).run h).elapsed label total now =
        Clock.specElapsed c h label total now ∧
      (((Clock.Timer.init c.init c.dflt c.all).run h).apply k).2 = !(Clock.raisesKey c h k) :=
  ⟨Clock.timer_refines_stopwatch c h now label total, Clock.timer_keyerror c h k⟩

theorem C15_timer_clock_nonneg {L τ : Type} [DecidableEq L] [AddCommGroup τ] [LinearOrder τ]
    [IsOrderedAddMonoid τ] (c : Cfg L) (h : List (Clock.Call L τ)) (now : τ) (hm : Clock.Monotone h now) (l : L) :
    0 ≤ Clock.specTotal (Clock.labelHistory c h l) now :=
  Clock.specTotal_nonneg c h now hm l

-- non-vacuity at τ = ℤ with a clock that starts below zero: label 1 runs over [-5,-2] and from 4 on, is
-- reset at 1 (so only the second interval counts); label 2 never existed
example :
    let c : Cfg Nat := ⟨.one 1, 0, 9⟩
    let h : List (Clock.Call Nat Int) :=
      [⟨-5, .start, .one 1⟩, ⟨-2, .stop, .many [1, 7]⟩, ⟨1, .reset, .one 9⟩, ⟨4, .start, .many [1, 0]⟩, ⟨6, .start, .one 1⟩]
    Clock.specElapsed c h (some 1) true 10 = some 6 ∧ Clock.specElapsed c h (some 1) false 10 = some 6 ∧
      Clock.specElapsed c h none true 10 = some 6 ∧ Clock.specElapsed c h (some 2) true 10 = none ∧
      Clock.specTotal (Clock.labelHistory c (h.take 2) 1) 0 = 3 ∧
      ((Clock.Timer.init c.init c.dflt c.all).run h).elapsed (some 1) true 10 = some 6 := by
  decide

/-- **Between two calls the timer is an ideal stop-watch.**  For every configuration, every call
    history (any argument forms, `KeyError`s included) over any additive commutative group of clock
    values, and two query times `now`, `now'` with no call in between: `Timer.elapsed(l, total=True)`
    of a known label advances by exactly `now' - now` when the last event the label received since
    its last reset is a `start`, and does not change at all otherwise (stopped, reset, never
    started).  With an ordered clock the reading is therefore non-decreasing in the query time. -/
theorem C15_timer_advance {L τ : Type} [DecidableEq L] [AddCommGroup τ]
    (c : Cfg L) (h : List (Clock.Call L τ)) (now now' : τ) (l : L) (hk : Clock.known c h l = true) :
    ∃ a b, ((Clock.Timer.init c.init c.dflt c.all).run h).elapsed (some l) true now = some a ∧
      ((Clock.Timer.init c.init c.dflt c.all).run h).elapsed (some l) true now' = some b ∧
      b - a = if Clock.running (Clock.labelHistory c h l) then now' - now else 0 := by
  refine ⟨Clock.specTotal (Clock.labelHistory c h l) now, Clock.specTotal (Clock.labelHistory c h l) now', ?_, ?_,
    Clock.specTotal_advance _ now now'⟩
  · rw [Clock.timer_refines_stopwatch]; simp [Clock.specElapsed, hk]
  · rw [Clock.timer_refines_stopwatch]; simp [Clock.specElapsed, hk]

theorem C15_timer_mono {L τ : Type} [DecidableEq L] [AddCommGroup τ] [LinearOrder τ] [IsOrderedAddMonoid τ]
    (c : Cfg L) (h : List (Clock.Call L τ)) {now now' : τ} (hn : now ≤ now') (l : L) :
    Clock.specTotal (Clock.labelHistory c h l) now ≤ Clock.specTotal (Clock.labelHistory c h l) now' :=
  Clock.specTotal_mono _ hn

-- non-vacuity: label 1 is running after the history (last event a start at 6): reading 6 at 10, 11 at 15;
-- label 3 (started at -1, stopped at 0 by stop-all) is stopped: reading 1 at both times
example :
    let c : Cfg Nat := ⟨.one 1, 0, 9⟩
    let h : List (Clock.Call Nat Int) :=
      [⟨-5, .start, .one 1⟩, ⟨-2, .stop, .many [1, 7]⟩, ⟨-1, .start, .one 3⟩, ⟨0, .stop, .one 9⟩, ⟨1, .reset, .one 1⟩,
       ⟨4, .start, .many [1, 0]⟩, ⟨6, .start, .one 1⟩]
    Clock.known c h 1 = true ∧ Clock.running (Clock.labelHistory c h 1) = true ∧
      ((Clock.Timer.init c.init c.dflt c.all).run h).elapsed (some 1) true 10 = some 6 ∧
      ((Clock.Timer.init c.init c.dflt c.all).run h).elapsed (some 1) true 15 = some 11 ∧
      Clock.known c h 3 = true ∧ Clock.running (Clock.labelHistory c h 3) = false ∧
      ((Clock.Timer.init c.init c.dflt c.all).run h).elapsed (some 3) true 10 = some 1 ∧
      ((Clock.Timer.init c.init c.dflt c.all).run h).elapsed (some 3) true 15 = some 1 := by
  decide

/-- **One timer, two transcriptions.**  On every non-decreasing integer-tick history the `Nat`
    transcription of `Timer` (used by the `solve` model) returns, cast to ℤ, exactly what the
    generic-clock transcription returns on the same history — values and `KeyError`s — and
    therefore the tick-counting stop-watch (`specElapsed`) and the gap-summing one
    (`Clock.specElapsed`) agree there. -/
theorem C15_timer_nat_is_clock {L : Type} [DecidableEq L] (c : Cfg L) (h : List (Call L)) (now : Nat)
    (hm : Monotone h now) (label : Option L) (total : Bool) :
    (((Timer.init c.init c.dflt c.all).run h).elapsed label total now).map (fun v => (v : Int)) =
        ((Clock.Timer.init c.init c.dflt c.all : Clock.Timer L Int).run (h.map castCall)).elapsed label total (now : Int) ∧
      (specElapsed c h label total now).map (fun v => (v : Int)) =
        Clock.specElapsed c (h.map castCall) label total (now : Int) :=
  ⟨timer_nat_is_clock c h now hm label total, specElapsed_tick_eq_gap c h now hm label total⟩

/-- **Constructor options** (`Optimizer.__init__`; the table `optionDefaults` is compared with the
    `kwargs.pop` calls of the source by the generated obligation `DriverSource.optionDefaults_ok`):
    without keywords `iter0 = 0`, `maxiter = 100`, `nanstop = False`, no statistics options; a keyword
    list is rejected (`TypeError`) iff it names something that is not in the table. -/
theorem C15_option_defaults (kw : List (String × Int)) :
    parseKwargs [] = some { iter0 := 0, maxiter := 100, nanstop := false, itstatGiven := false } ∧
      (parseKwargs kw = none ↔ ∃ p ∈ kw, p.1 ∉ ["iter0", "maxiter", "nanstop", "itstat_options"]) := by
  refine ⟨by decide, ?_⟩
  have hk : optionDefaults.map (·.1) = ["iter0", "maxiter", "nanstop", "itstat_options"] := by decide
  unfold parseKwargs
  simp only [hk]
  constructor
  · intro h
    simp at h
    obtain ⟨a, ⟨b, hb⟩, hne⟩ := h
    exact ⟨(a, b), hb, by simpa using hne⟩
  · rintro ⟨p, hp, hn⟩
    simp
    exact ⟨p.1, ⟨p.2, hp⟩, by simpa using hn⟩

example : parseKwargs [("maxiter", 7), ("nanstop", 1)] = some { iter0 := 0, maxiter := 7, nanstop := true, itstatGiven := false } ∧
    parseKwargs [("maxiters", 7)] = none := by decide

/-! ## `solve()` -/

section Solve
variable {ω ρ ξ α L : Type} [DecidableEq L]

/-- **Iteration count.**  A `solve()` that the NaN stop does not interrupt performs exactly
    `m = max(maxiter, 0)` iterations: the final state is `m`-fold application of "`step()`, then
    the callback"; `m` records and (with a callback) `m` callback invocations are added. -/
theorem C15_solve_count (E : Env ω ρ ξ α) (cb : Option (Callback ω)) (d : Drv ω ρ L)
    (hr : Ready d) (hn : NoTrip E cb d) :
    (solve E cb d).2 = .ok ∧
      (solve E cb d).1.world = worldAt E cb d.world d.maxiter.toNat ∧
      (solve E cb d).1.rows.length = d.rows.length + d.maxiter.toNat ∧
      (solve E cb d).1.cblog.length = d.cblog.length + (if cb.isSome then d.maxiter.toNat else 0) ∧
      solveReturn E cb d = E.minimizer (worldAt E cb d.world d.maxiter.toNat) := by
  obtain ⟨ok, S⟩ := solve_clean E cb d hr.labels hr.past (noTrip_tripsB hn)
  refine ⟨ok, S.world, by simp [S.rows], ?_, by simp [solveReturn, S.world]⟩
  rw [S.cblog]
  cases cb <;> simp

/-- **Numbering.**  The records of the call are numbered consecutively from the counter value
    at the call, and the counter ends at `itnum + m` — so a later call continues the numbering. -/
theorem C15_numbering (E : Env ω ρ ξ α) (cb : Option (Callback ω)) (d : Drv ω ρ L)
    (hr : Ready d) (hn : NoTrip E cb d) :
    (solve E cb d).1.rows.map (·.iter) =
        d.rows.map (·.iter) ++ (List.range d.maxiter.toNat).map (fun (k : Nat) => d.itnum + (k : Int)) ∧
      (solve E cb d).1.itnum = d.itnum + (d.maxiter.toNat : Int) := by
  obtain ⟨_, S⟩ := solve_clean E cb d hr.labels hr.past (noTrip_tripsB hn)
  refine ⟨?_, S.itnum⟩
  rw [S.rows, List.map_append, List.map_map]
  rfl

/-- **Records.**  One record per performed iteration, in order; record `k` carries the number
    `itnum + k`, the accessor values `E.fields` of the state right after the `step()` of iteration
    `k` (before the callback), and the time `specRow` prescribes. -/
theorem C15_records (E : Env ω ρ ξ α) (cb : Option (Callback ω)) (d : Drv ω ρ L)
    (hr : Ready d) (hn : NoTrip E cb d) :
    (solve E cb d).1.rows =
      d.rows ++ (List.range d.maxiter.toNat).map
        (specRow E cb d.world d.itnum (d.timer.elapsedDefault true d.clock)) ∧
    ∀ k, (specRow E cb d.world d.itnum (d.timer.elapsedDefault true d.clock) k).fields =
      E.fields (E.step (worldAt E cb d.world k)) :=
  ⟨(solve_clean E cb d hr.labels hr.past (noTrip_tripsB hn)).2.rows, fun _ => rfl⟩

/-- **Callback exactly once per iteration**, after the step and the record of that iteration and
    before the next step, seeing the counter value of that iteration; no invocation without a
    callback. -/
theorem C15_callback_once (E : Env ω ρ ξ α) (cb : Option (Callback ω)) (d : Drv ω ρ L)
    (hr : Ready d) (hn : NoTrip E cb d) :
    (solve E cb d).1.cblog =
      d.cblog ++ (if cb.isSome then
        (List.range d.maxiter.toNat).map (specCb E cb d.world d.itnum d.clock) else []) ∧
    ∀ k, (specCb E cb d.world d.itnum d.clock k).itnum = d.itnum + (k : Int) ∧
      (specCb E cb d.world d.itnum d.clock k).world = E.step (worldAt E cb d.world k) :=
  ⟨(solve_clean E cb d hr.labels hr.past (noTrip_tripsB hn)).2.cblog, fun _ => ⟨rfl, rfl⟩⟩

/-- **The reported time excludes the callbacks.**  The `Time` of record `k` is the reading of the
    default timer when `solve` was called plus the durations of the `step()` calls of iterations
    `0..k` — whatever the callbacks' durations: two callbacks with the same effect on the state
    but different durations give identical records. -/
theorem C15_time_excludes_callback (E : Env ω ρ ξ α) (d : Drv ω ρ L) (hr : Ready d)
    (c c' : Callback ω) (hsame : c.run = c'.run)
    (hn : NoTrip E (some c) d) (hn' : NoTrip E (some c') d) :
    (∀ k, (specRow E (some c) d.world d.itnum (d.timer.elapsedDefault true d.clock) k).time =
        d.timer.elapsedDefault true d.clock + stepTime E (some c) d.world (k + 1)) ∧
      (solve E (some c) d).1.rows = (solve E (some c') d).1.rows ∧
      (solve E (some c) d).1.timer.elapsedDefault true (solve E (some c) d).1.clock =
        d.timer.elapsedDefault true d.clock + stepTime E (some c) d.world d.maxiter.toNat := by
  obtain ⟨_, S⟩ := solve_clean E (some c) d hr.labels hr.past (noTrip_tripsB hn)
  obtain ⟨_, S'⟩ := solve_clean E (some c') d hr.labels hr.past (noTrip_tripsB hn')
  have hw : ∀ k, worldAt E (some c) d.world k = worldAt E (some c') d.world k := by
    intro k
    induction k with
    | zero => rfl
    | succ k ih => simp [worldAt, iterWorld, cbRun, ih, hsame]
  refine ⟨fun _ => rfl, ?_, S.timer.read _⟩
  rw [S.rows, S'.rows]
  congr 1
  apply List.map_congr_left
  intro k _
  simp only [specRow, stepTime, afterStep, hw]

/-- **Resumption.**  `solve()` with `m₁` iterations, any pause of `g` ticks, then `solve()` with
    `m₂` iterations ends in the same state, records (numbers, times, fields) and timer as one
    `solve()` with `m₁ + m₂` iterations; the clock differs by the pause, and without a pause the
    callback logs agree as well. -/
theorem C15_resume (E : Env ω ρ ξ α) (cb : Option (Callback ω)) (d : Drv ω ρ L) (m1 m2 g : Nat)
    (hr : Ready d) (hn : NoTrip E cb (d.setMaxiter ((m1 + m2 : Nat) : Int))) :
    let r1 := solve E cb (d.setMaxiter m1)
    let r2 := solve E cb ((r1.1.tick g).setMaxiter m2)
    let r := solve E cb (d.setMaxiter ((m1 + m2 : Nat) : Int))
    r1.2 = .ok ∧ r2.2 = .ok ∧ r.2 = .ok ∧ r2.1.world = r.1.world ∧ r2.1.itnum = r.1.itnum ∧
      r2.1.rows = r.1.rows ∧ r2.1.timer = r.1.timer ∧ r2.1.clock = r.1.clock + g ∧
      (g = 0 → r2.1.cblog = r.1.cblog) := by
  apply solve_resume E cb d m1 m2 g hr.labels hr.past
  have := noTrip_tripsB hn
  simp only [setMaxiter_maxiter, Int.toNat_natCast, setMaxiter_nanstop, setMaxiter_world] at this
  exact this

/-- **Resumption, interrupted.**  If the NaN stop trips in (globally counted) iteration
    `j ≥ m₁` — i.e. during the second call — the two-call run and the single long run raise the
    same exception with the same state, counter and records. -/
theorem C15_resume_nanstop (E : Env ω ρ ξ α) (cb : Option (Callback ω)) (d : Drv ω ρ L) (m1 m2 g : Nat)
    (hr : Ready d) (j : Nat) (hj1 : m1 ≤ j) (hj2 : j < m1 + m2)
    (hbefore : ∀ k < j, ¬ tripsAt E cb d.world d.nanstop k) (hat : tripsAt E cb d.world d.nanstop j) :
    let r1 := solve E cb (d.setMaxiter m1)
    let r2 := solve E cb ((r1.1.tick g).setMaxiter m2)
    let r := solve E cb (d.setMaxiter ((m1 + m2 : Nat) : Int))
    r1.2 = .ok ∧ r2.2 = .nan ∧ r.2 = .nan ∧ r2.1.world = r.1.world ∧ r2.1.itnum = r.1.itnum ∧
      r2.1.rows = r.1.rows ∧ r2.1.clock = r.1.clock + g := by
  apply solve_resume_trip E cb d m1 m2 g hr.labels hr.past j hj1 hj2
  · intro k hk
    have := hbefore k hk
    rw [← tripsB_iff] at this
    simpa using this
  · exact (tripsB_iff E cb d.world d.nanstop j).mpr hat

/-- **NaN stop.**  If `j` is the first iteration (0-based) after whose `step()` some entry of some
    block of some working variable is non-finite (with `nanstop` on), `solve()` raises in that
    iteration: the counter shows `itnum + j`, exactly the records and callbacks of the `j` earlier
    iterations exist, the state is the one right after that step. -/
theorem C15_nanstop (E : Env ω ρ ξ α) (cb : Option (Callback ω)) (d : Drv ω ρ L) (hr : Ready d)
    (j : Nat) (hj : j < d.maxiter.toNat) (hbefore : ∀ k < j, ¬ tripsAt E cb d.world d.nanstop k)
    (hat : tripsAt E cb d.world d.nanstop j) :
    (solve E cb d).2 = .nan ∧ (solve E cb d).1.itnum = d.itnum + (j : Int) ∧
      (solve E cb d).1.world = E.step (worldAt E cb d.world j) ∧
      (solve E cb d).1.rows = d.rows ++ (List.range j).map
        (specRow E cb d.world d.itnum (d.timer.elapsedDefault true d.clock)) ∧
      (solve E cb d).1.cblog.length = d.cblog.length + (if cb.isSome then j else 0) := by
  have hb : ∀ k < j, tripsB E d.nanstop (afterStep E cb d.world k) = false := by
    intro k hk
    have := hbefore k hk
    rw [← tripsB_iff] at this
    simpa using this
  obtain ⟨o, S⟩ := solve_trip E cb d hr.labels hr.past j hj hb ((tripsB_iff E cb d.world d.nanstop j).mpr hat)
  refine ⟨o, S.itnum, S.world, S.rows, ?_⟩
  rw [S.cblog]
  cases cb <;> simp

/-- **Carrying on after a NaN stop.**  If the call raised in iteration `j`, then after any pause of
    `g` ticks the object again satisfies `Ready` — so every theorem above applies to the next
    `solve()` and to the whole remaining history.  The counter stays at the number of the failed
    iteration (no record carries it, so the record numbers stay consecutive), and the stop-watch
    is left *running*: the time of the failed step and the pause are on it when the next call starts. -/
theorem C15_after_nanstop (E : Env ω ρ ξ α) (cb : Option (Callback ω)) (d : Drv ω ρ L) (hr : Ready d)
    (j : Nat) (hj : j < d.maxiter.toNat) (hbefore : ∀ k < j, ¬ tripsAt E cb d.world d.nanstop k)
    (hat : tripsAt E cb d.world d.nanstop j) (g : Nat) :
    let r := (solve E cb d).1.tick g
    Ready r ∧ r.itnum = d.itnum + (j : Int) ∧
      r.timer.elapsedDefault true r.clock =
        d.timer.elapsedDefault true d.clock + stepTime E cb d.world (j + 1) + g := by
  have hb : ∀ k < j, tripsB E d.nanstop (afterStep E cb d.world k) = false := by
    intro k hk
    have := hbefore k hk
    rw [← tripsB_iff] at this
    simpa using this
  have ht := (tripsB_iff E cb d.world d.nanstop j).mpr hat
  obtain ⟨_, S⟩ := solve_trip E cb d hr.labels hr.past j hj hb ht
  have hrun := solve_trip_timer E cb d hr.labels hr.past j hj hb ht
  have hadv := hrun.advance ((solve E cb d).1.clock + g) (by omega)
  refine ⟨⟨?_, hadv.wf⟩, S.itnum, ?_⟩
  · show (solve E cb d).1.timer.dflt ≠ (solve E cb d).1.timer.all
    rw [hrun.1, hrun.2.1]
    exact hr.labels
  · have := hrun.read ((solve E cb d).1.clock + g) (by omega)
    simp only [tick_timer, tick_clock, this]
    omega

/-- **A callback that raises.**  If the callback raises an exception during its invocation in
    iteration `j` of the call (having changed the state by an arbitrary `pr` and taken `pt` ticks),
    and no earlier iteration nor iteration `j` trips the NaN stop: the exception leaves `solve`
    with the counter at `itnum + j`, the records of iterations `0..j` (the record of iteration `j`
    was made before the callback), `j + 1` callback invocations, and the stop-watch **stopped**
    — it reads the time at the call plus the durations of the steps `0..j` at every later moment:
    neither the time spent in the failing callback nor any pause afterwards is counted (unlike
    after a NaN stop, `C15_after_nanstop`) — and the object is `Ready` for the next call. -/
theorem C15_callback_raises (E : Env ω ρ ξ α) (c : Callback ω) (pr : ω → ω) (pt : ω → Nat) (d : Drv ω ρ L)
    (hr : Ready d) (j : Nat) (hj : j < d.maxiter.toNat)
    (hn : ∀ k ≤ j, ¬ tripsAt E (some c) d.world d.nanstop k) (g : Nat) :
    let r := (solveRaise E c pr pt d j).1
    (solveRaise E c pr pt d j).2 = none ∧ r.world = pr (afterStep E (some c) d.world j) ∧
      r.itnum = d.itnum + (j : Int) ∧
      r.rows = d.rows ++ (List.range (j + 1)).map
        (specRow E (some c) d.world d.itnum (d.timer.elapsedDefault true d.clock)) ∧
      r.cblog.length = d.cblog.length + (j + 1) ∧
      (r.tick g).timer.elapsedDefault true (r.tick g).clock =
        d.timer.elapsedDefault true d.clock + stepTime E (some c) d.world (j + 1) ∧
      Ready (r.tick g) := by
  have hb : ∀ k ≤ j, tripsB E d.nanstop (afterStep E (some c) d.world k) = false := by
    intro k hk
    have := hn k hk
    rw [← tripsB_iff] at this
    simpa using this
  obtain ⟨h1, h2, h3, h4, h5, _, h7⟩ := solveRaise_spec E c pr pt d hr.labels hr.past j hj hb
  refine ⟨h1, h2, h3, h4, h5, h7.read _, ⟨?_, h7.wf _⟩⟩
  show (solveRaise E c pr pt d j).1.timer.dflt ≠ (solveRaise E c pr pt d j).1.timer.all
  rw [h7.1, h7.2.1]
  exact hr.labels

/-- **`period = 0`** (accepted by `IterationStats.__init__`).  Without `display` the period is never
    looked at: nothing is printed by any number of insertions and `end()` does nothing.  With
    `display`, `end()` still never evaluates the modulo, but the first `insert` raises
    `ZeroDivisionError` *after* the record is stored and the header printed; so a `solve()` with
    `maxiter > 0` whose first step does not trip the NaN stop ends in that exception with exactly one
    new record (number `itnum`, time = reading at the call + the step's duration, fields of the
    state after the step), the counter unchanged, no callback invocation, the stop-watch left
    running, and the object `Ready` for whatever follows. -/
theorem C15_period_zero (o : DisplayOpts) (hp0 : o.period = 0) (k : Nat) (s : Disp)
    (E : Env ω ρ ξ α) (cb : Option (Callback ω)) (d : Drv ω ρ L) (hr : Ready d) (hm : 0 < d.maxiter.toNat)
    (hn : ¬ tripsAt E cb d.world d.nanstop 0) (g : Nat) :
    (insertRaises o = o.display) ∧
      (o.display = false → (dispInserts o k s).out = s.out) ∧ (dispEnd o s = s) ∧
      (dispInsertRaise s).len = s.len + 1 ∧
      (let r := (solveInsertRaise E cb d).1
       (solveInsertRaise E cb d).2 = none ∧ r.itnum = d.itnum ∧ r.world = E.step d.world ∧
        r.rows = d.rows ++ [⟨d.itnum, d.timer.elapsedDefault true d.clock + E.stepTicks d.world,
          E.fields (E.step d.world)⟩] ∧
        r.cblog = d.cblog ∧
        (r.tick g).timer.elapsedDefault true (r.tick g).clock =
          d.timer.elapsedDefault true d.clock + E.stepTicks d.world + g ∧
        Ready (r.tick g)) := by
  have hb : tripsB E d.nanstop (E.step d.world) = false := by
    have := hn
    rw [← tripsB_iff] at this
    simpa [afterStep, worldAt] using this
  obtain ⟨h1, h2, h3, h4, h5, _, h7⟩ := solveInsertRaise_spec E cb d hr.past hm hb
  refine ⟨by simp [insertRaises, hp0], fun hd => by rw [dispInserts_off o hd], by simp [dispEnd, hp0], rfl, ?_⟩
  have hadv := h7.advance ((solveInsertRaise E cb d).1.clock + g) (by omega)
  refine ⟨h1, h3, h2, h4, h5, ?_, ⟨?_, hadv.wf⟩⟩
  · have := h7.read ((solveInsertRaise E cb d).1.clock + g) (by omega)
    simp only [tick_timer, tick_clock, this]; omega
  · show (solveInsertRaise E cb d).1.timer.dflt ≠ (solveInsertRaise E cb d).1.timer.all
    rw [h7.1, h7.2.1]; exact hr.labels

/-- **…and not before, and never otherwise.**  `solve()` raises the NaN-stop exception iff some
    iteration of the call trips the test; it never ends in any other exception (in particular the
    timer calls inside `solve` cannot raise `KeyError`). -/
theorem C15_nanstop_iff (E : Env ω ρ ξ α) (cb : Option (Callback ω)) (d : Drv ω ρ L) (hr : Ready d) :
    ((solve E cb d).2 = .nan ↔ ∃ j < d.maxiter.toNat, tripsAt E cb d.world d.nanstop j) ∧
      (solve E cb d).2 ≠ .key := by
  rcases first_trip (fun k => tripsB E d.nanstop (afterStep E cb d.world k)) d.maxiter.toNat with
    h | ⟨j, hj, hc, ht⟩
  · obtain ⟨ok, _⟩ := solve_clean E cb d hr.labels hr.past h
    refine ⟨⟨fun hn => (by rw [ok] at hn; cases hn), ?_⟩, (by rw [ok]; simp)⟩
    rintro ⟨j, hj, hat⟩
    have := (tripsB_iff E cb d.world d.nanstop j).mpr hat
    rw [h j hj] at this
    cases this
  · obtain ⟨o, _⟩ := solve_trip E cb d hr.labels hr.past j hj hc ht
    exact ⟨⟨fun _ => ⟨j, hj, (tripsB_iff E cb d.world d.nanstop j).mp ht⟩, fun _ => o⟩, (by rw [o]; simp)⟩

/-- **Callbacks that assign `optimizer.nanstop`.**  `solve` reads the attribute afresh in every
    iteration, so what counts for iteration `j` is the value the callbacks of the earlier iterations
    left (`nanAt`; the value at the call for `j = 0`).  `solveN` — the transcription with such a
    callback — is exactly `solve` of an optimiser that carries the attribute in its state
    (`solveN_rel`), hence: the exception is raised iff in some iteration `j` the attribute is on
    *at that moment* and a working variable is non-finite after the step; no other exception occurs;
    and it is raised in the FIRST such iteration, with the counter at `itnum + j` and exactly the
    `j` earlier records. -/
theorem C15_callback_nanstop (E : Env ω ρ ξ α) (c : CallbackN ω) (d : Drv ω ρ L) (hr : Ready d) :
    let trips := fun j => nanAt E c d.world d.nanstop j = true ∧
      hasNonFinite E.fin (E.vars (afterStep E (some c.toCallback) d.world j))
    ((solveN E c d).2 = .nan ↔ ∃ j < d.maxiter.toNat, trips j) ∧ (solveN E c d).2 ≠ .key ∧
      ∀ j < d.maxiter.toNat, (∀ k < j, ¬ trips k) → trips j →
        (solveN E c d).1.itnum = d.itnum + (j : Int) ∧ (solveN E c d).1.rows.length = d.rows.length + j := by
  intro trips
  have hr' : Ready (liftN d) := ⟨hr.labels, hr.past⟩
  obtain ⟨ho, hs⟩ := solveN_rel E c d
  obtain ⟨hiff, hkey⟩ := C15_nanstop_iff (envN E) (some (cbN c)) (liftN d) hr'
  have htr : ∀ j, tripsAt (envN E) (some (cbN c)) (liftN d).world (liftN d).nanstop j ↔ trips j :=
    fun j => tripsAtN E c d.world d.nanstop j
  refine ⟨?_, by rw [← ho]; exact hkey, ?_⟩
  · rw [← ho, hiff]
    constructor
    · rintro ⟨j, hj, h⟩; exact ⟨j, hj, (htr j).mp h⟩
    · rintro ⟨j, hj, h⟩; exact ⟨j, hj, (htr j).mpr h⟩
  · intro j hj hbefore hat
    obtain ⟨_, hi, _, hrows, _⟩ := C15_nanstop (envN E) (some (cbN c)) (liftN d) hr' j hj
      (fun k hk h => hbefore k hk ((htr k).mp h)) ((htr j).mpr hat)
    refine ⟨by rw [← hs.itnum, hi]; rfl, ?_⟩
    rw [← hs.rows, hrows]
    simp [liftN]

/-- **`maxiter = 0`** (or negative): no step, no record, no callback, the counter and the clock
    are unchanged, the timer reads what it read (the defect of the pinned tree — the counter was
    incremented — is repaired by commit 4b50827). -/
theorem C15_maxiter_zero (E : Env ω ρ ξ α) (cb : Option (Callback ω)) (d : Drv ω ρ L)
    (hr : Ready d) (hm : d.maxiter ≤ 0) :
    (solve E cb d).2 = .ok ∧ (solve E cb d).1.world = d.world ∧ (solve E cb d).1.itnum = d.itnum ∧
      (solve E cb d).1.rows = d.rows ∧ (solve E cb d).1.cblog = d.cblog ∧
      (solve E cb d).1.clock = d.clock ∧
      (solve E cb d).1.timer.elapsedDefault true d.clock = d.timer.elapsedDefault true d.clock := by
  have hz : d.maxiter.toNat = 0 := by omega
  obtain ⟨ok, S⟩ := solve_clean E cb d hr.labels hr.past (by rw [hz]; intro k hk; omega)
  have Sw := S.world; have Si := S.itnum; have Sr := S.rows; have Sb := S.cblog
  have Sc := S.clock; have St := S.timer
  rw [hz] at Sw Si Sr Sb Sc St
  refine ⟨ok, Sw, by simpa using Si, by simpa using Sr, ?_, by simpa [stepTime, cbTime] using Sc, ?_⟩
  · rw [Sb]; cases cb <;> simp
  · rw [St.read]; simp [stepTime]

/-- **The reported time, through the stop-watch refinement.**  Let the optimiser's timer be a
    `Timer()` on which exactly the logged calls were made (`Logged`; true of a fresh optimiser and
    kept by every `solve`).  The `Time` of record `k` of a `solve(callback)` call equals the ideal
    stop-watch reading — number of counted ticks — over the timer calls issued so far
    (`logAt`: the earlier log, the `start()` of this call, and a `stop()`/`start()` pair around each
    earlier callback) at the moment the record is made; and no tick lying inside the callback of an
    earlier iteration of the call is counted. -/
theorem C15_time_is_stopwatch (E : Env ω ρ ξ α) (c : Callback ω) (cfg : Cfg L) (d : Drv ω ρ L)
    (hl : Logged cfg d) (hr : Ready d) (hn : NoTrip E (some c) d) (k : Nat) (hk : k < d.maxiter.toNat) :
    (specRow E (some c) d.world d.itnum (d.timer.elapsedDefault true d.clock) k).time =
        specTotal (labelHistory cfg (logAt E (some c) d k) cfg.dflt) (recordClock E (some c) d k) ∧
      ∀ j < k, ∀ s, (specCb E (some c) d.world d.itnum d.clock j).enter ≤ s →
        s < (specCb E (some c) d.world d.itnum d.clock j).leave →
        counted (labelHistory cfg (logAt E (some c) d k) cfg.dflt) s = false := by
  have hclean : ∀ j < k, tripsB E d.nanstop (afterStep E (some c) d.world j) = false :=
    fun j hj => noTrip_tripsB hn j (by omega)
  refine ⟨(row_time_is_stopwatch E c cfg d hl hr.labels hr.past k hclean).2, ?_⟩
  intro j hj s hs1 hs2
  exact callback_ticks_not_counted E c cfg d hl hr.labels hr.past k hclean j hj s hs1 hs2

/-- `Logged` holds of a freshly constructed optimiser and is kept by `solve` (with or without
    callback, interrupted or not), so it holds along every sequence of `solve` calls. -/
theorem C15_logged_invariant (E : Env ω ρ ξ α) (cb : Option (Callback ω)) (cfg : Cfg L)
    (hc : cfg.init = .none) (w : ω) (o : Options) (c0 : Nat) :
    Logged cfg (Drv.init (ρ := ρ) w o cfg.dflt cfg.all c0) ∧
      ∀ d : Drv ω ρ L, Logged cfg d → Logged cfg (solve E cb d).1 :=
  ⟨logged_init w o cfg hc c0, fun _ hl => logged_solve E cb hl⟩

/-- **Any sequence of `solve()` calls.**  For every list of calls `solver.maxiter = mᵢ;
    solver.solve(cbᵢ)` (any length, any iteration counts, with or without callbacks) none of which
    is interrupted: the counter ends at `itnum + Σ max(mᵢ,0)` and the records of all the calls
    together are numbered consecutively `itnum, itnum+1, …` — calling `solve()` again continues the
    numbering, and `maxiter = 0` calls in between change nothing. -/
theorem C15_history (E : Env ω ρ ξ α) (calls : List (Int × Option (Callback ω))) (d : Drv ω ρ L)
    (hr : Ready d) (hok : AllOk E calls d) :
    (runSolves E calls d).itnum = d.itnum + (totalIters calls : Int) ∧
      (runSolves E calls d).rows.map (·.iter) =
        d.rows.map (·.iter) ++ (List.range (totalIters calls)).map (fun (k : Nat) => d.itnum + (k : Int)) :=
  ⟨(runSolves_numbering E calls d hr hok).1, (runSolves_numbering E calls d hr hok).2.1⟩

/-- **Any number of calls ≡ one longer run.**  `solver.maxiter = m₀; solve(cb)` followed by any
    list of "pause of `g` ticks; `solver.maxiter = m; solve(cb)`" ends in the same state, counter,
    records (numbers, times, fields) and timer object as ONE `solve(cb)` with
    `maxiter = m₀ + Σ m`; the clock differs by the pauses.  (`C15_resume` is the case of one later
    call; here the list is arbitrary, zero-iteration calls included.) -/
theorem C15_history_equiv (E : Env ω ρ ξ α) (cb : Option (Callback ω)) (d : Drv ω ρ L) (m0 : Nat)
    (rest : List (Nat × Nat)) (hr : Ready d)
    (hn : NoTrip E cb (d.setMaxiter ((m0 + seqIters rest : Nat) : Int))) :
    let r := runSeq E cb d m0 rest
    let s := solve E cb (d.setMaxiter ((m0 + seqIters rest : Nat) : Int))
    s.2 = .ok ∧ r.world = s.1.world ∧ r.itnum = s.1.itnum ∧ r.rows = s.1.rows ∧ r.timer = s.1.timer ∧
      r.clock = s.1.clock + seqPause rest := by
  have h := noTrip_tripsB hn
  simp only [setMaxiter_maxiter, Int.toNat_natCast, setMaxiter_nanstop, setMaxiter_world] at h
  obtain ⟨a, b, c, e, f, g, _⟩ := solve_sequence E cb rest d m0 hr.labels hr.past h
  exact ⟨a, b, c, e, f, g⟩

/-- **Callbacks that assign `optimizer.itnum` / `optimizer.maxiter`** (`CallbackX`: arbitrary
    `ctl`), for the tree before commit `1b5db51` (`late = true`) and since it (`late = false`).
    Unconditionally — also when the NaN stop trips — the call has the same outcome and leaves the
    same state, records (numbers included), callback log, clock and timer as with the plain
    callback: the number of iterations and the numbering are fixed when the call starts and no
    assignment by a callback can change them. -/
theorem C15_callback_assigns (late : Bool) (E : Env ω ρ ξ α) (cbx : Option (CallbackX ω)) (d : Drv ω ρ L) :
    (solveX late E cbx d).2 = (solve E (plainCb cbx) d).2 ∧
      (solveX late E cbx d).1.world = (solve E (plainCb cbx) d).1.world ∧
      (solveX late E cbx d).1.rows = (solve E (plainCb cbx) d).1.rows ∧
      (solveX late E cbx d).1.cblog = (solve E (plainCb cbx) d).1.cblog ∧
      (solveX late E cbx d).1.clock = (solve E (plainCb cbx) d).1.clock ∧
      (solveX late E cbx d).1.timer = (solve E (plainCb cbx) d).1.timer := by
  obtain ⟨ho, hs⟩ := solveX_sim late E cbx d
  exact ⟨ho, hs.world, hs.rows, hs.cblog, hs.clock, hs.timer⟩

/-- **…and what they do to the counter.**  After an uninterrupted call, `maxiter` is what the last
    callback left (`ctlAt`: the loop assigns `itnum = i₀ + k` at the start of iteration `k`, so
    only the *last* callback's assignment to `itnum` survives; assignments to `maxiter`
    accumulate).  The counter is what the last callback left, plus one iff
    * `late = true` (before `1b5db51`): the `maxiter` *left by the callbacks* is positive — a callback
      that sets `maxiter ≤ 0` leaves the counter one short, and the next call repeats an iteration
      number (finding `callback-maxiter-counter`);
    * `late = false` (since `1b5db51`): the `maxiter` of the call was positive.
    With callbacks that assign nothing both are `itnum + max(maxiter,0)`. -/
theorem C15_callback_counter (late : Bool) (E : Env ω ρ ξ α) (cbx : Option (CallbackX ω)) (d : Drv ω ρ L)
    (hr : Ready d) (hn : NoTrip E (plainCb cbx) d) :
    let a := ctlAt E cbx d.world d.itnum d.maxiter d.maxiter.toNat
    (solveX late E cbx d).1.maxiter = a.2 ∧
      (solveX late E cbx d).1.itnum = (if (if late then a.2 else d.maxiter) > 0 then a.1 + 1 else a.1) ∧
      ((∀ c, cbx = some c → c.neutral) →
        (solveX late E cbx d).1.maxiter = d.maxiter ∧
        (solveX late E cbx d).1.itnum = d.itnum + (d.maxiter.toNat : Int)) := by
  intro a
  obtain ⟨h1, h2⟩ := solveX_attrs late E cbx d hr.labels hr.past (noTrip_tripsB hn)
  refine ⟨h1, h2, ?_⟩
  intro hneu
  have ha : ctlAt E cbx d.world d.itnum d.maxiter d.maxiter.toNat =
      (if d.maxiter.toNat = 0 then d.itnum else d.itnum + ((d.maxiter.toNat : Int) - 1), d.maxiter) :=
    ctlAt_neutral E cbx d.world d.itnum d.maxiter hneu _
  rw [h1, h2, ha]
  refine ⟨rfl, ?_⟩
  simp only [ite_self]
  by_cases hp : d.maxiter > 0
  · have : d.maxiter.toNat ≠ 0 := by omega
    simp only [hp, if_true, this, if_false]; omega
  · have : d.maxiter.toNat = 0 := by omega
    simp [hp, this]

end Solve

/-! ### non-vacuity: a concrete optimiser satisfying every hypothesis above -/

/-- state = number of steps taken; a step takes `w + 1` ticks; one block-array working variable
    whose second block becomes non-finite from the 4th step on -/
def exEnv : Env Nat Nat Nat Bool :=
  { step := fun w => w + 1, stepTicks := fun w => w + 1,
    vars := fun w => [Var.plain [true], Var.block [[true], [decide (w < 4)]]], fin := id,
    fields := fun w => 10 * w, minimizer := id }

def exCb : Callback Nat := { run := id, ticks := fun _ => 100 }

/-- `Optimizer(iter0=2, maxiter=3, nanstop=True)` at clock 7; labels 0 = "main", 1 = "all" -/
def exDrv : Drv Nat Nat Nat := Drv.init 0 { iter0 := 2, maxiter := 3, nanstop := true } 0 1 7

example : Ready exDrv := ready_init 0 _ 0 1 7 (by decide)
example : Logged ⟨.none, 0, 1⟩ exDrv := logged_init 0 _ ⟨.none, 0, 1⟩ rfl 7
-- record 2 of the example: 6 counted ticks among the 213 that have passed (two callbacks of 100)
example : recordClock exEnv (some exCb) exDrv 2 = 7 + 6 + 200 ∧
    specTotal (labelHistory (⟨.none, 0, 1⟩ : Cfg Nat) (logAt exEnv (some exCb) exDrv 2) 0) 213 = 6 := by
  decide

example : NoTrip exEnv (some exCb) exDrv := by
  intro k hk
  have hk' : k < 3 := hk
  rw [← tripsB_iff]
  have : k = 0 ∨ k = 1 ∨ k = 2 := by omega
  rcases this with rfl | rfl | rfl <;> decide

-- three records numbered 2,3,4; times 1, 1+2, 1+2+3 although each callback takes 100 ticks
example : (solve exEnv (some exCb) exDrv).1.rows.map (fun r => (r.iter, r.time, r.fields)) =
    [(2, 1, 10), (3, 3, 20), (4, 6, 30)] := by decide
example : (solve exEnv (some exCb) exDrv).1.itnum = 5 ∧ (solve exEnv (some exCb) exDrv).1.clock = 313 := by
  decide
-- resuming for three more iterations trips the NaN stop in the iteration numbered 5 (4th step)
example : (solve exEnv none (solve exEnv (some exCb) exDrv).1).2 = .nan ∧
    (solve exEnv none (solve exEnv (some exCb) exDrv).1).1.itnum = 5 := by decide
-- three calls (2 iterations with callback, 0 iterations, 1 iteration): none raises, numbering 2,3,4
example : AllOk exEnv [(2, some exCb), (0, none), (1, none)] exDrv := by
  refine ⟨by decide, by decide, by decide, trivial⟩
example : (runSolves exEnv [(2, some exCb), (0, none), (1, none)] exDrv).rows.map (·.iter) = [2, 3, 4] := by
  decide
example : tripsAt exEnv none 3 true 0 := by
  refine ⟨rfl, Var.block [[true], [false]], by simp [exEnv, afterStep, worldAt], ?_⟩
  exact ⟨[false], by simp, false, by simp, rfl⟩

-- after the NaN stop of the resumed run (iteration numbered 5) and a pause of 9 ticks: counter 5, and the
-- stop-watch shows the 6 ticks of the first call + the 4 of the failed step + the pause
example :
    let d1 := (solve exEnv (some exCb) exDrv).1
    let r := (solve exEnv none d1).1.tick 9
    r.itnum = 5 ∧ r.timer.elapsedDefault true r.clock = 6 + 4 + 9 := by decide

-- the callback raises in the second iteration (j = 1) after 40 of its ticks: records 2 and 3 exist, the
-- counter shows 3, and 50 ticks later the stop-watch still reads the 1 + 2 ticks of the two steps
example :
    let r := solveRaise exEnv exCb id (fun _ => 40) exDrv 1
    r.2 = none ∧ r.1.rows.map (·.iter) = [2, 3] ∧ r.1.itnum = 3 ∧
      (r.1.tick 50).timer.elapsedDefault true (r.1.tick 50).clock = 3 := by decide

-- display with period 0: the first insert raises; one record (number 2, time 1) is stored, the counter stays 2
example :
    let r := solveInsertRaise exEnv (some exCb) exDrv
    r.2 = none ∧ r.1.rows.map (fun x => (x.iter, x.time)) = [(2, 1)] ∧ r.1.itnum = 2 ∧
      insertRaises { display := true, period := 0 } = true := by decide
-- the NaN stop in the LAST iteration of a call: `maxiter = 4` from the fresh example object trips in its 4th step
example : (solve exEnv none (exDrv.setMaxiter 4)).2 = .nan ∧ (solve exEnv none (exDrv.setMaxiter 4)).1.itnum = 5 ∧
    (solve exEnv none (exDrv.setMaxiter 4)).1.rows.length = 3 ∧ (solve exEnv none (exDrv.setMaxiter 3)).2 = .ok := by decide

/-- a callback that switches the NaN stop off in the iteration numbered 3 (second iteration of the example) -/
def exCbNanOff : CallbackN Nat := { run := id, ticks := fun _ => 1, setNan := fun w => if w = 2 then some false else none }

-- from the example object (nanstop on, 4th step non-finite) six iterations complete: the test of the 4th
-- iteration finds the attribute off; with a callback that assigns nothing the same call stops there
example : (solveN exEnv exCbNanOff (exDrv.setMaxiter 6)).2 = .ok ∧
    (solveN exEnv exCbNanOff (exDrv.setMaxiter 6)).1.rows.length = 6 ∧
    (solveN exEnv { run := id, ticks := fun _ => 1, setNan := fun _ => none } (exDrv.setMaxiter 6)).2 = .nan ∧
    nanAt exEnv exCbNanOff 0 true 3 = false := by decide

/-- a callback that asks for "no further iterations" by `optimizer.maxiter = 0` -/
def exCbStop : CallbackX Nat := { run := id, ticks := fun _ => 1, ctl := fun _ i _ => (i, 0) }

-- before 1b5db51: three iterations 2,3,4 are performed and recorded, but the counter ends at 4, so the
-- next call would number its first iteration 4 again; since then: 5
example : (solveX true exEnv (some exCbStop) exDrv).1.rows.map (·.iter) = [2, 3, 4] ∧
    (solveX true exEnv (some exCbStop) exDrv).1.itnum = 4 ∧
    (solveX false exEnv (some exCbStop) exDrv).1.itnum = 5 := by decide
-- four calls with pauses against one call with the total
example : (runSeq exEnv (some exCb) exDrv 1 [(5, 0), (2, 2)]).rows.map (fun r => (r.iter, r.time, r.fields)) =
    (solve exEnv (some exCb) (exDrv.setMaxiter 3)).1.rows.map (fun r => (r.iter, r.time, r.fields)) ∧
    seqIters [(5, 0), (2, 2)] = 2 ∧ seqPause [(5, 0), (2, 2)] = 7 := by decide

end Scico.Props.C15
