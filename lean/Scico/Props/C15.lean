/-
  Property C15 — solver driver, statistics, callbacks, resumption, NaN stop, interval timer.
  ONLY property theorems here (helper lemmas: `Scico/Proofs/Driver*.lean`; specifications:
  `Scico/Proofs/DriverSpec.lean`).
-/
import Scico.Proofs.DriverTimer

namespace Scico.Props.C15
open Scico.Driver Scico.Driver.Spec

/-- `_working_vars_finite` is false exactly when some entry of some block of some working
    variable is non-finite -/
theorem C15_working_vars_finite_iff {α : Type} (fin : α → Bool) (vars : List (Var α)) :
    workingVarsFinite fin vars = false ↔ hasNonFinite fin vars := by
  unfold workingVarsFinite hasNonFinite allFinite
  rw [List.all_eq_false]
  constructor
  · rintro ⟨v, hv, hb⟩
    refine ⟨v, hv, ?_⟩
    cases v with
    | plain xs => simpa [Var.any] using hb
    | block bs => simpa [Var.any] using hb
  · rintro ⟨v, hv, hb⟩
    refine ⟨v, hv, ?_⟩
    cases v with
    | plain xs => simpa [Var.any] using hb
    | block bs => simpa [Var.any] using hb

/-! ## Interval timer -/

/-- **The interval timer reports the times of an ideal stop-watch.**  For every constructor
    configuration, every sequence of `start/stop/reset` calls with `None`, single-label, `all` or
    list arguments (a `KeyError` in the middle of a list leaves the earlier labels updated and the
    program carries on), every non-decreasing integer clock and every later query time, the value
    `Timer.elapsed(label, total)` returns — or the `KeyError` it raises — is what the
    history-based stop-watch `specElapsed` prescribes (`DriverSpec.lean`: number of ticks since the
    label's last reset during which its most recent event was a `start`; `total=False`: time since
    the first `start` of the trailing run of `start`s; 0 for an uninitialised default label;
    `KeyError` exactly for an explicitly named label that does not exist). -/
theorem C15_timer_refines_stopwatch {L : Type} [DecidableEq L] (c : Cfg L) (h : List (Call L))
    (now : Nat) (hm : Monotone h now) (label : Option L) (total : Bool) :
    ((Timer.init c.init c.dflt c.all).run h).elapsed label total now =
      specElapsed c h label total now := by
  have R : Represents c h ((Timer.init c.init c.dflt c.all).run h) := by
    simpa using represents_run [] h _ (represents_init c)
  have hread : ∀ l, known c h l = true →
      elapsedEntry (machFold (labelHistory c h l)) total now =
        if total then specTotal (labelHistory c h l) now else specCurrent (labelHistory c h l) now := by
    intro l _
    apply elapsedEntry_machFold
    · exact labelHistoryFrom_sorted c l [] h hm.1
    · intro ev hev
      obtain ⟨k, hk, ht⟩ := labelHistoryFrom_times c l [] h ev hev
      rw [← ht]; exact hm.2 k hk
  cases label with
  | none =>
    simp only [Timer.elapsed, Timer.elapsedDefault, specElapsed, Option.getD_none, R.dflt,
      R.get c.dflt, Option.isNone_none, if_true]
    cases hk : known c h c.dflt with
    | true => simp [hread c.dflt hk]
    | false => simp
  | some l =>
    simp only [Timer.elapsed, specElapsed, Option.getD_some, R.get l, Option.isNone_some]
    cases hk : known c h l with
    | true => simp [hread l hk]
    | false => simp

/-- **`KeyError` characterised.**  After any history, a call raises `KeyError` iff it is a
    `stop`/`reset` whose argument is an explicit label or list (not the `all` label) naming a
    label that was neither given to the constructor nor ever started.  `start` never raises. -/
theorem C15_timer_keyerror {L : Type} [DecidableEq L] (c : Cfg L) (h : List (Call L)) (k : Call L) :
    (((Timer.init c.init c.dflt c.all).run h).apply k).2 = false ↔
      (k.op ≠ .start ∧ ∃ ls, c.explicitTargets k.arg = some ls ∧ ∃ l ∈ ls, known c h l = false) := by
  have R : Represents c h ((Timer.init c.init c.dflt c.all).run h) := by
    simpa using represents_run [] h _ (represents_init c)
  rw [(represents_apply R k).2]
  unfold raisesKey
  cases hop : k.op with
  | start => simp
  | stop =>
    cases ht : c.explicitTargets k.arg with
    | none => simp
    | some ls => simp
  | reset =>
    cases ht : c.explicitTargets k.arg with
    | none => simp
    | some ls => simp

/-- **The set of labels** (`Timer.labels()`): a label is a key of the dictionary iff it was given
    to the constructor or named in an earlier `start` call. -/
theorem C15_timer_labels {L : Type} [DecidableEq L] (c : Cfg L) (h : List (Call L)) (l : L) :
    l ∈ ((Timer.init c.init c.dflt c.all).run h).store.keys ↔ known c h l = true := by
  have R : Represents c h ((Timer.init c.init c.dflt c.all).run h) := by
    simpa using represents_run [] h _ (represents_init c)
  rw [Store.mem_keys_iff, isSome_of_represents R l]

-- non-vacuity: a history with a restart, a reset, a `KeyError` in the middle of a list, the `all`
-- label and an unknown label; labels are numbers, default label 0, `all` label 9
example :
    let c : Cfg Nat := ⟨.one 1, 0, 9⟩
    let h : List (Call Nat) :=
      [⟨1, .start, .none⟩, ⟨3, .start, .many [1, 2]⟩, ⟨4, .stop, .many [1, 7, 2]⟩, ⟨6, .start, .one 1⟩,
       ⟨8, .stop, .one 9⟩, ⟨8, .reset, .one 2⟩, ⟨9, .start, .one 2⟩]
    Monotone h 12 ∧
      specElapsed c h none true 12 = some 7 ∧ specElapsed c h (some 1) true 12 = some 3 ∧
      specElapsed c h (some 2) true 12 = some 3 ∧ specElapsed c h (some 2) false 12 = some 3 ∧
      specElapsed c h (some 7) true 12 = none ∧
      ((Timer.init c.init c.dflt c.all).run h).elapsed (some 1) true 12 = some 3 := by
  refine ⟨⟨by decide, by decide⟩, by decide, by decide, by decide, by decide, by decide, by decide⟩

end Scico.Props.C15
