/-
  Property C15 — solver driver, statistics, callbacks, resumption, NaN stop, interval timer.
  ONLY property theorems here (helper lemmas: `Scico/Proofs/Driver*.lean`; specifications:
  `Scico/Proofs/DriverSpec.lean`).
-/
import Scico.Proofs.DriverTrace

namespace Scico.Props.C15
open Scico.Driver Scico.Driver.Spec

/-! ## NaN test -/

/-- `_working_vars_finite()` (every class: conjunction of `_all_finite` over the class's working
    variables) is false exactly when some entry of some block of some working variable is
    non-finite — plain and block arrays alike -/
theorem C15_working_vars_finite_iff {α : Type} (fin : α → Bool) (vars : List (Var α)) :
    workingVarsFinite fin vars = false ↔ hasNonFinite fin vars :=
  workingVarsFinite_eq_false_iff fin vars

example : workingVarsFinite id [Var.plain [true, true], Var.block [[true], [true, false]]] = false := by
  decide

/-! ## Interval timer -/

/-- **The interval timer reports the times of an ideal stop-watch.**  For every constructor
    configuration, every sequence of `start/stop/reset` calls with `None`, single-label, `all` or
    list arguments (a `KeyError` in the middle of a list leaves the earlier labels updated and the
    program carries on), every non-decreasing integer clock and every later query time, the value
    `Timer.elapsed(label, total)` returns — or the `KeyError` it raises — is what the
    history-based stop-watch `specElapsed` prescribes (`DriverSpec.lean`: number of ticks since the
    label's last reset during which its most recent event was a `start`; `total=False`: time since
    the first `start` of the trailing run of `start`s; 0 for an uninitialised default label;
    `KeyError` exactly for an explicitly named label that does not exist). -/
theorem C15_timer_refines_stopwatch {L : Type} [DecidableEq L] (c : Cfg L) (h : List (Call L))
    (now : Nat) (hm : Monotone h now) (label : Option L) (total : Bool) :
    ((Timer.init c.init c.dflt c.all).run h).elapsed label total now =
      specElapsed c h label total now :=
  timer_refines_stopwatch c h now hm label total

/-- **`KeyError` characterised.**  After any history, a call raises `KeyError` iff it is a
    `stop`/`reset` whose argument is an explicit label or list (not the `all` label) naming a
    label that was neither given to the constructor nor ever started.  `start` never raises. -/
theorem C15_timer_keyerror {L : Type} [DecidableEq L] (c : Cfg L) (h : List (Call L)) (k : Call L) :
    (((Timer.init c.init c.dflt c.all).run h).apply k).2 = false ↔
      (k.op ≠ .start ∧ ∃ ls, c.explicitTargets k.arg = some ls ∧ ∃ l ∈ ls, known c h l = false) := by
  have R : Represents c h ((Timer.init c.init c.dflt c.all).run h) := by
    simpa using represents_run [] h _ (represents_init c)
  rw [(represents_apply R k).2]
  unfold raisesKey
  cases hop : k.op with
  | start => simp
  | stop =>
    cases ht : c.explicitTargets k.arg with
    | none => simp
    | some ls => simp
  | reset =>
    cases ht : c.explicitTargets k.arg with
    | none => simp
    | some ls => simp

/-- **The set of labels** (`Timer.labels()`): a label is a key of the dictionary iff it was given
    to the constructor or named in an earlier `start` call. -/
theorem C15_timer_labels {L : Type} [DecidableEq L] (c : Cfg L) (h : List (Call L)) (l : L) :
    l ∈ ((Timer.init c.init c.dflt c.all).run h).store.keys ↔ known c h l = true := by
  have R : Represents c h ((Timer.init c.init c.dflt c.all).run h) := by
    simpa using represents_run [] h _ (represents_init c)
  rw [Store.mem_keys_iff, isSome_of_represents R l]

-- non-vacuity: a history with a restart, a reset, a `KeyError` in the middle of a list, the `all`
-- label and an unknown label; labels are numbers, default label 0, `all` label 9
example :
    let c : Cfg Nat := ⟨.one 1, 0, 9⟩
    let h : List (Call Nat) :=
      [⟨1, .start, .none⟩, ⟨3, .start, .many [1, 2]⟩, ⟨4, .stop, .many [1, 7, 2]⟩, ⟨6, .start, .one 1⟩,
       ⟨8, .stop, .one 9⟩, ⟨8, .reset, .one 2⟩, ⟨9, .start, .one 2⟩]
    Monotone h 12 ∧
      specElapsed c h none true 12 = some 7 ∧ specElapsed c h (some 1) true 12 = some 3 ∧
      specElapsed c h (some 2) true 12 = some 3 ∧ specElapsed c h (some 2) false 12 = some 3 ∧
      specElapsed c h (some 7) true 12 = none ∧
      ((Timer.init c.init c.dflt c.all).run h).elapsed (some 1) true 12 = some 3 := by
  refine ⟨⟨by decide, by decide⟩, by decide, by decide, by decide, by decide, by decide, by decide⟩

/-! ## `solve()` -/

section Solve
variable {ω ρ ξ α L : Type} [DecidableEq L]

/-- **Iteration count.**  A `solve()` that the NaN stop does not interrupt performs exactly
    `m = max(maxiter, 0)` iterations: the final state is `m`-fold application of "`step()`, then
    the callback"; `m` records and (with a callback) `m` callback invocations are added. -/
theorem C15_solve_count (E : Env ω ρ ξ α) (cb : Option (Callback ω)) (d : Drv ω ρ L)
    (hr : Ready d) (hn : NoTrip E cb d) :
    (solve E cb d).2 = .ok ∧
      (solve E cb d).1.world = worldAt E cb d.world d.maxiter.toNat ∧
      (solve E cb d).1.rows.length = d.rows.length + d.maxiter.toNat ∧
      (solve E cb d).1.cblog.length = d.cblog.length + (if cb.isSome then d.maxiter.toNat else 0) ∧
      solveReturn E cb d = E.minimizer (worldAt E cb d.world d.maxiter.toNat) := by
  obtain ⟨ok, S⟩ := solve_clean E cb d hr.labels hr.past (noTrip_tripsB hn)
  refine ⟨ok, S.world, by simp [S.rows], ?_, by simp [solveReturn, S.world]⟩
  rw [S.cblog]
  cases cb <;> simp

/-- **Numbering.**  The records of the call are numbered consecutively from the counter value
    at the call, and the counter ends at `itnum + m` — so a later call continues the numbering. -/
theorem C15_numbering (E : Env ω ρ ξ α) (cb : Option (Callback ω)) (d : Drv ω ρ L)
    (hr : Ready d) (hn : NoTrip E cb d) :
    (solve E cb d).1.rows.map (·.iter) =
        d.rows.map (·.iter) ++ (List.range d.maxiter.toNat).map (fun (k : Nat) => d.itnum + (k : Int)) ∧
      (solve E cb d).1.itnum = d.itnum + (d.maxiter.toNat : Int) := by
  obtain ⟨_, S⟩ := solve_clean E cb d hr.labels hr.past (noTrip_tripsB hn)
  refine ⟨?_, S.itnum⟩
  rw [S.rows, List.map_append, List.map_map]
  rfl

/-- **Records.**  One record per performed iteration, in order; record `k` carries the number
    `itnum + k`, the accessor values `E.fields` of the state right after the `step()` of iteration
    `k` (before the callback), and the time `specRow` prescribes. -/
theorem C15_records (E : Env ω ρ ξ α) (cb : Option (Callback ω)) (d : Drv ω ρ L)
    (hr : Ready d) (hn : NoTrip E cb d) :
    (solve E cb d).1.rows =
      d.rows ++ (List.range d.maxiter.toNat).map
        (specRow E cb d.world d.itnum (d.timer.elapsedDefault true d.clock)) ∧
    ∀ k, (specRow E cb d.world d.itnum (d.timer.elapsedDefault true d.clock) k).fields =
      E.fields (E.step (worldAt E cb d.world k)) :=
  ⟨(solve_clean E cb d hr.labels hr.past (noTrip_tripsB hn)).2.rows, fun _ => rfl⟩

/-- **Callback exactly once per iteration**, after the step and the record of that iteration and
    before the next step, seeing the counter value of that iteration; no invocation without a
    callback. -/
theorem C15_callback_once (E : Env ω ρ ξ α) (cb : Option (Callback ω)) (d : Drv ω ρ L)
    (hr : Ready d) (hn : NoTrip E cb d) :
    (solve E cb d).1.cblog =
      d.cblog ++ (if cb.isSome then
        (List.range d.maxiter.toNat).map (specCb E cb d.world d.itnum d.clock) else []) ∧
    ∀ k, (specCb E cb d.world d.itnum d.clock k).itnum = d.itnum + (k : Int) ∧
      (specCb E cb d.world d.itnum d.clock k).world = E.step (worldAt E cb d.world k) :=
  ⟨(solve_clean E cb d hr.labels hr.past (noTrip_tripsB hn)).2.cblog, fun _ => ⟨rfl, rfl⟩⟩

/-- **The reported time excludes the callbacks.**  The `Time` of record `k` is the reading of the
    default timer when `solve` was called plus the durations of the `step()` calls of iterations
    `0..k` — whatever the callbacks' durations: two callbacks with the same effect on the state
    but different durations give identical records. -/
theorem C15_time_excludes_callback (E : Env ω ρ ξ α) (d : Drv ω ρ L) (hr : Ready d)
    (c c' : Callback ω) (hsame : c.run = c'.run)
    (hn : NoTrip E (some c) d) (hn' : NoTrip E (some c') d) :
    (∀ k, (specRow E (some c) d.world d.itnum (d.timer.elapsedDefault true d.clock) k).time =
        d.timer.elapsedDefault true d.clock + stepTime E (some c) d.world (k + 1)) ∧
      (solve E (some c) d).1.rows = (solve E (some c') d).1.rows ∧
      (solve E (some c) d).1.timer.elapsedDefault true (solve E (some c) d).1.clock =
        d.timer.elapsedDefault true d.clock + stepTime E (some c) d.world d.maxiter.toNat := by
  obtain ⟨_, S⟩ := solve_clean E (some c) d hr.labels hr.past (noTrip_tripsB hn)
  obtain ⟨_, S'⟩ := solve_clean E (some c') d hr.labels hr.past (noTrip_tripsB hn')
  have hw : ∀ k, worldAt E (some c) d.world k = worldAt E (some c') d.world k := by
    intro k
    induction k with
    | zero => rfl
    | succ k ih => simp [worldAt, iterWorld, cbRun, ih, hsame]
  refine ⟨fun _ => rfl, ?_, S.timer.read _⟩
  rw [S.rows, S'.rows]
  congr 1
  apply List.map_congr_left
  intro k _
  simp only [specRow, stepTime, afterStep, hw]

/-- **Resumption.**  `solve()` with `m₁` iterations, any pause of `g` ticks, then `solve()` with
    `m₂` iterations ends in the same state, records (numbers, times, fields) and timer as one
    `solve()` with `m₁ + m₂` iterations; the clock differs by the pause, and without a pause the
    callback logs agree as well. -/
theorem C15_resume (E : Env ω ρ ξ α) (cb : Option (Callback ω)) (d : Drv ω ρ L) (m1 m2 g : Nat)
    (hr : Ready d) (hn : NoTrip E cb (d.setMaxiter ((m1 + m2 : Nat) : Int))) :
    let r1 := solve E cb (d.setMaxiter m1)
    let r2 := solve E cb ((r1.1.tick g).setMaxiter m2)
    let r := solve E cb (d.setMaxiter ((m1 + m2 : Nat) : Int))
    r1.2 = .ok ∧ r2.2 = .ok ∧ r.2 = .ok ∧ r2.1.world = r.1.world ∧ r2.1.itnum = r.1.itnum ∧
      r2.1.rows = r.1.rows ∧ r2.1.timer = r.1.timer ∧ r2.1.clock = r.1.clock + g ∧
      (g = 0 → r2.1.cblog = r.1.cblog) := by
  apply solve_resume E cb d m1 m2 g hr.labels hr.past
  have := noTrip_tripsB hn
  simp only [setMaxiter_maxiter, Int.toNat_natCast, setMaxiter_nanstop, setMaxiter_world] at this
  exact this

/-- **Resumption, interrupted.**  If the NaN stop trips in (globally counted) iteration
    `j ≥ m₁` — i.e. during the second call — the two-call run and the single long run raise the
    same exception with the same state, counter and records. -/
theorem C15_resume_nanstop (E : Env ω ρ ξ α) (cb : Option (Callback ω)) (d : Drv ω ρ L) (m1 m2 g : Nat)
    (hr : Ready d) (j : Nat) (hj1 : m1 ≤ j) (hj2 : j < m1 + m2)
    (hbefore : ∀ k < j, ¬ tripsAt E cb d.world d.nanstop k) (hat : tripsAt E cb d.world d.nanstop j) :
    let r1 := solve E cb (d.setMaxiter m1)
    let r2 := solve E cb ((r1.1.tick g).setMaxiter m2)
    let r := solve E cb (d.setMaxiter ((m1 + m2 : Nat) : Int))
    r1.2 = .ok ∧ r2.2 = .nan ∧ r.2 = .nan ∧ r2.1.world = r.1.world ∧ r2.1.itnum = r.1.itnum ∧
      r2.1.rows = r.1.rows ∧ r2.1.clock = r.1.clock + g := by
  apply solve_resume_trip E cb d m1 m2 g hr.labels hr.past j hj1 hj2
  · intro k hk
    have := hbefore k hk
    rw [← tripsB_iff] at this
    simpa using this
  · exact (tripsB_iff E cb d.world d.nanstop j).mpr hat

/-- **NaN stop.**  If `j` is the first iteration (0-based) after whose `step()` some entry of some
    block of some working variable is non-finite (with `nanstop` on), `solve()` raises in that
    iteration: the counter shows `itnum + j`, exactly the records and callbacks of the `j` earlier
    iterations exist, the state is the one right after that step. -/
theorem C15_nanstop (E : Env ω ρ ξ α) (cb : Option (Callback ω)) (d : Drv ω ρ L) (hr : Ready d)
    (j : Nat) (hj : j < d.maxiter.toNat) (hbefore : ∀ k < j, ¬ tripsAt E cb d.world d.nanstop k)
    (hat : tripsAt E cb d.world d.nanstop j) :
    (solve E cb d).2 = .nan ∧ (solve E cb d).1.itnum = d.itnum + (j : Int) ∧
      (solve E cb d).1.world = E.step (worldAt E cb d.world j) ∧
      (solve E cb d).1.rows = d.rows ++ (List.range j).map
        (specRow E cb d.world d.itnum (d.timer.elapsedDefault true d.clock)) ∧
      (solve E cb d).1.cblog.length = d.cblog.length + (if cb.isSome then j else 0) := by
  have hb : ∀ k < j, tripsB E d.nanstop (afterStep E cb d.world k) = false := by
    intro k hk
    have := hbefore k hk
    rw [← tripsB_iff] at this
    simpa using this
  obtain ⟨o, S⟩ := solve_trip E cb d hr.labels hr.past j hj hb ((tripsB_iff E cb d.world d.nanstop j).mpr hat)
  refine ⟨o, S.itnum, S.world, S.rows, ?_⟩
  rw [S.cblog]
  cases cb <;> simp

/-- **…and not before, and never otherwise.**  `solve()` raises the NaN-stop exception iff some
    iteration of the call trips the test; it never ends in any other exception (in particular the
    timer calls inside `solve` cannot raise `KeyError`). -/
theorem C15_nanstop_iff (E : Env ω ρ ξ α) (cb : Option (Callback ω)) (d : Drv ω ρ L) (hr : Ready d) :
    ((solve E cb d).2 = .nan ↔ ∃ j < d.maxiter.toNat, tripsAt E cb d.world d.nanstop j) ∧
      (solve E cb d).2 ≠ .key := by
  rcases first_trip (fun k => tripsB E d.nanstop (afterStep E cb d.world k)) d.maxiter.toNat with
    h | ⟨j, hj, hc, ht⟩
  · obtain ⟨ok, _⟩ := solve_clean E cb d hr.labels hr.past h
    refine ⟨⟨fun hn => (by rw [ok] at hn; cases hn), ?_⟩, (by rw [ok]; simp)⟩
    rintro ⟨j, hj, hat⟩
    have := (tripsB_iff E cb d.world d.nanstop j).mpr hat
    rw [h j hj] at this
    cases this
  · obtain ⟨o, _⟩ := solve_trip E cb d hr.labels hr.past j hj hc ht
    exact ⟨⟨fun _ => ⟨j, hj, (tripsB_iff E cb d.world d.nanstop j).mp ht⟩, fun _ => o⟩, (by rw [o]; simp)⟩

/-- **`maxiter = 0`** (or negative): no step, no record, no callback, the counter and the clock
    are unchanged, the timer reads what it read (the defect of the pinned tree — the counter was
    incremented — is repaired by commit 4b50827). -/
theorem C15_maxiter_zero (E : Env ω ρ ξ α) (cb : Option (Callback ω)) (d : Drv ω ρ L)
    (hr : Ready d) (hm : d.maxiter ≤ 0) :
    (solve E cb d).2 = .ok ∧ (solve E cb d).1.world = d.world ∧ (solve E cb d).1.itnum = d.itnum ∧
      (solve E cb d).1.rows = d.rows ∧ (solve E cb d).1.cblog = d.cblog ∧
      (solve E cb d).1.clock = d.clock ∧
      (solve E cb d).1.timer.elapsedDefault true d.clock = d.timer.elapsedDefault true d.clock := by
  have hz : d.maxiter.toNat = 0 := by omega
  obtain ⟨ok, S⟩ := solve_clean E cb d hr.labels hr.past (by rw [hz]; intro k hk; omega)
  have Sw := S.world; have Si := S.itnum; have Sr := S.rows; have Sb := S.cblog
  have Sc := S.clock; have St := S.timer
  rw [hz] at Sw Si Sr Sb Sc St
  refine ⟨ok, Sw, by simpa using Si, by simpa using Sr, ?_, by simpa [stepTime, cbTime] using Sc, ?_⟩
  · rw [Sb]; cases cb <;> simp
  · rw [St.read]; simp [stepTime]

/-- **The reported time, through the stop-watch refinement.**  Let the optimiser's timer be a
    `Timer()` on which exactly the logged calls were made (`Logged`; true of a fresh optimiser and
    kept by every `solve`).  The `Time` of record `k` of a `solve(callback)` call equals the ideal
    stop-watch reading — number of counted ticks — over the timer calls issued so far
    (`logAt`: the earlier log, the `start()` of this call, and a `stop()`/`start()` pair around each
    earlier callback) at the moment the record is made; and no tick lying inside the callback of an
    earlier iteration of the call is counted. -/
theorem C15_time_is_stopwatch (E : Env ω ρ ξ α) (c : Callback ω) (cfg : Cfg L) (d : Drv ω ρ L)
    (hl : Logged cfg d) (hr : Ready d) (hn : NoTrip E (some c) d) (k : Nat) (hk : k < d.maxiter.toNat) :
    (specRow E (some c) d.world d.itnum (d.timer.elapsedDefault true d.clock) k).time =
        specTotal (labelHistory cfg (logAt E (some c) d k) cfg.dflt) (recordClock E (some c) d k) ∧
      ∀ j < k, ∀ s, (specCb E (some c) d.world d.itnum d.clock j).enter ≤ s →
        s < (specCb E (some c) d.world d.itnum d.clock j).leave →
        counted (labelHistory cfg (logAt E (some c) d k) cfg.dflt) s = false := by
  have hclean : ∀ j < k, tripsB E d.nanstop (afterStep E (some c) d.world j) = false :=
    fun j hj => noTrip_tripsB hn j (by omega)
  refine ⟨(row_time_is_stopwatch E c cfg d hl hr.labels hr.past k hclean).2, ?_⟩
  intro j hj s hs1 hs2
  exact callback_ticks_not_counted E c cfg d hl hr.labels hr.past k hclean j hj s hs1 hs2

/-- `Logged` holds of a freshly constructed optimiser and is kept by `solve` (with or without
    callback, interrupted or not), so it holds along every sequence of `solve` calls. -/
theorem C15_logged_invariant (E : Env ω ρ ξ α) (cb : Option (Callback ω)) (cfg : Cfg L)
    (hc : cfg.init = .none) (w : ω) (o : Options) (c0 : Nat) :
    Logged cfg (Drv.init (ρ := ρ) w o cfg.dflt cfg.all c0) ∧
      ∀ d : Drv ω ρ L, Logged cfg d → Logged cfg (solve E cb d).1 :=
  ⟨logged_init w o cfg hc c0, fun _ hl => logged_solve E cb hl⟩

/-- **Any sequence of `solve()` calls.**  For every list of calls `solver.maxiter = mᵢ;
    solver.solve(cbᵢ)` (any length, any iteration counts, with or without callbacks) none of which
    is interrupted: the counter ends at `itnum + Σ max(mᵢ,0)` and the records of all the calls
    together are numbered consecutively `itnum, itnum+1, …` — calling `solve()` again continues the
    numbering, and `maxiter = 0` calls in between change nothing. -/
theorem C15_history (E : Env ω ρ ξ α) (calls : List (Int × Option (Callback ω))) (d : Drv ω ρ L)
    (hr : Ready d) (hok : AllOk E calls d) :
    (runSolves E calls d).itnum = d.itnum + (totalIters calls : Int) ∧
      (runSolves E calls d).rows.map (·.iter) =
        d.rows.map (·.iter) ++ (List.range (totalIters calls)).map (fun (k : Nat) => d.itnum + (k : Int)) :=
  ⟨(runSolves_numbering E calls d hr hok).1, (runSolves_numbering E calls d hr hok).2.1⟩

end Solve

/-! ### non-vacuity: a concrete optimiser satisfying every hypothesis above -/

/-- state = number of steps taken; a step takes `w + 1` ticks; one block-array working variable
    whose second block becomes non-finite from the 4th step on -/
def exEnv : Env Nat Nat Nat Bool :=
  { step := fun w => w + 1, stepTicks := fun w => w + 1,
    vars := fun w => [Var.plain [true], Var.block [[true], [decide (w < 4)]]], fin := id,
    fields := fun w => 10 * w, minimizer := id }

def exCb : Callback Nat := { run := id, ticks := fun _ => 100 }

/-- `Optimizer(iter0=2, maxiter=3, nanstop=True)` at clock 7; labels 0 = "main", 1 = "all" -/
def exDrv : Drv Nat Nat Nat := Drv.init 0 { iter0 := 2, maxiter := 3, nanstop := true } 0 1 7

example : Ready exDrv := ready_init 0 _ 0 1 7 (by decide)
example : Logged ⟨.none, 0, 1⟩ exDrv := logged_init 0 _ ⟨.none, 0, 1⟩ rfl 7
-- record 2 of the example: 6 counted ticks among the 213 that have passed (two callbacks of 100)
example : recordClock exEnv (some exCb) exDrv 2 = 7 + 6 + 200 ∧
    specTotal (labelHistory (⟨.none, 0, 1⟩ : Cfg Nat) (logAt exEnv (some exCb) exDrv 2) 0) 213 = 6 := by
  decide

example : NoTrip exEnv (some exCb) exDrv := by
  intro k hk
  have hk' : k < 3 := hk
  rw [← tripsB_iff]
  have : k = 0 ∨ k = 1 ∨ k = 2 := by omega
  rcases this with rfl | rfl | rfl <;> decide

-- three records numbered 2,3,4; times 1, 1+2, 1+2+3 although each callback takes 100 ticks
example : (solve exEnv (some exCb) exDrv).1.rows.map (fun r => (r.iter, r.time, r.fields)) =
    [(2, 1, 10), (3, 3, 20), (4, 6, 30)] := by decide
example : (solve exEnv (some exCb) exDrv).1.itnum = 5 ∧ (solve exEnv (some exCb) exDrv).1.clock = 313 := by
  decide
-- resuming for three more iterations trips the NaN stop in the iteration numbered 5 (4th step)
example : (solve exEnv none (solve exEnv (some exCb) exDrv).1).2 = .nan ∧
    (solve exEnv none (solve exEnv (some exCb) exDrv).1).1.itnum = 5 := by decide
-- three calls (2 iterations with callback, 0 iterations, 1 iteration): none raises, numbering 2,3,4
example : AllOk exEnv [(2, some exCb), (0, none), (1, none)] exDrv := by
  refine ⟨by decide, by decide, by decide, trivial⟩
example : (runSolves exEnv [(2, some exCb), (0, none), (1, none)] exDrv).rows.map (·.iter) = [2, 3, 4] := by
  decide
example : tripsAt exEnv none 3 true 0 := by
  refine ⟨rfl, Var.block [[true], [false]], by simp [exEnv, afterStep, worldAt], ?_⟩
  exact ⟨[false], by simp, false, by simp, rfl⟩

end Scico.Props.C15
