/-
  Property C15 — solver driver, statistics, callbacks, resumption, NaN stop, interval timer.
  ONLY property theorems here (helper lemmas: `Scico/Proofs/Driver*.lean`; specifications:
  `Scico/Proofs/DriverSpec.lean`).
-/
import Scico.Proofs.DriverSpec

namespace Scico.Props.C15
open Scico.Driver Scico.Driver.Spec

/-- `_working_vars_finite` is false exactly when some entry of some block of some working
    variable is non-finite -/
theorem C15_working_vars_finite_iff {α : Type} (fin : α → Bool) (vars : List (Var α)) :
    workingVarsFinite fin vars = false ↔ hasNonFinite fin vars := by
  unfold workingVarsFinite hasNonFinite allFinite
  rw [List.all_eq_false]
  constructor
  · rintro ⟨v, hv, hb⟩
    refine ⟨v, hv, ?_⟩
    cases v with
    | plain xs => simpa [Var.any] using hb
    | block bs => simpa [Var.any] using hb
  · rintro ⟨v, hv, hb⟩
    refine ⟨v, hv, ?_⟩
    cases v with
    | plain xs => simpa [Var.any] using hb
    | block bs => simpa [Var.any] using hb

end Scico.Props.C15
