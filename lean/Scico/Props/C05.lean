/-
  Property C05 — the operator calculus denotes the pointwise / matrix construction.
  ONLY property theorems here (proved in Scico/Proofs/OpAlg*.lean).

  `K` is any field with an involution (ℝ with the trivial one, ℂ with conjugation); `infer e` is
  what scico declares, `run e` the closures it builds (following the class-directed dispatch and
  every closed-form override of the repaired tree), `den e` the dense matrix obtained by the same
  construction on the operands' matrices.
-/
import Scico.Proofs.OpAlgReject
import Scico.Proofs.OpAlgStackTree
import Scico.Proofs.OpAlgPlain
import Scico.Proofs.OpAlgNonlin
import Scico.Proofs.OpAlgFreeze
import Scico.Proofs.OpAlgRep
import Scico.Proofs.OpAlgConv
import Scico.Proofs.OpAlgTables

namespace Scico.Props.C05
open Scico.OpAlg Scico.DType
attribute [local instance] starConj

section
variable {K : Type} [Field K] [StarRing K] [HasRe K]

/-- **Forward map.**  For every linear expression tree that scico accepts, the closure it builds
    (generic or closed-form, whatever the classes of the operands and their order) computes
    `x ↦ den e · x`, an array of the declared output size.
    (`PlainDiagProducts` only restricts `Diagonal @ Diagonal` products on *BlockArray* shapes; for
    trees over plain shapes it holds automatically, see `C05_run_eq_den_plain`.) -/
theorem C05_run_eq_den (e : LExpr K) (m : Meta) (hm : infer e = .ok m) (hl : Lin e)
    (hp : PlainDiagProducts e) (hK : RealK K ∨ AllC e) (x : Vc K) :
    (∀ i, ((run e).eval x).get i
        = if i < m.outShape.size then mulVec m.inShape.size (den e) x.get i else 0)
    ∧ ((run e).eval x).size = m.outShape.size := by
  obtain ⟨o, hb, hmd, hr⟩ := of_infer hm
  obtain ⟨hS, _, _⟩ := build_sound e o hl hp hK hb
  subst hmd
  rw [hr]
  exact ⟨fun i => hS.ev x i, hS.evSz x⟩

/-- **Adjoint map.**  The adjoint closure (hand-written, derived, or created by transposition)
    computes `y ↦ (den e)ᴴ · y`. -/
theorem C05_adj_eq_denH (e : LExpr K) (m : Meta) (hm : infer e = .ok m) (hl : Lin e)
    (hp : PlainDiagProducts e) (hK : RealK K ∨ AllC e) (y : Vc K) :
    (∀ j, ((run e).adj y).get j
        = if j < m.inShape.size then mulVecH m.outShape.size (den e) y.get j else 0)
    ∧ ((run e).adj y).size = m.inShape.size := by
  obtain ⟨o, hb, hmd, hr⟩ := of_infer hm
  obtain ⟨hS, _, _⟩ := build_sound e o hl hp hK hb
  subst hmd
  rw [hr]
  exact ⟨fun j => hS.ad y j, hS.adSz y⟩

/-- **Plain (non-block) shapes: no side condition.**  For every accepted linear expression whose leaves
    have plain shapes — including `Diagonal @ Diagonal` with arbitrary numpy broadcasting between the two
    diagonal arrays and non-square broadcasting diagonals — forward and adjoint closures are
    `den e · x` and `(den e)ᴴ · y`, and `matrix_shape = dims e`.  The hypotheses are syntactic. -/
theorem C05_run_eq_den_plain (e : LExpr K) (m : Meta) (hm : infer e = .ok m) (hl : Lin e)
    (hs : PlainShapes e) (hK : RealK K ∨ AllC e) (x y : Vc K) :
    (∀ i, ((run e).eval x).get i
        = if i < m.outShape.size then mulVec m.inShape.size (den e) x.get i else 0)
    ∧ (∀ j, ((run e).adj y).get j
        = if j < m.inShape.size then mulVecH m.outShape.size (den e) y.get j else 0)
    ∧ m.matrixShape = dims e := by
  have hp := plainShapes_products e hs
  obtain ⟨o, hb, hmd, hr⟩ := of_infer hm
  obtain ⟨hS, h1, h2⟩ := build_sound e o hl hp hK hb
  subst hmd
  rw [hr]
  exact ⟨fun i => hS.ev x i, fun j => hS.ad y j, Prod.ext h1 h2⟩

/-- **Arbitrary trees (linear or not): the pointwise construction.**  For every accepted expression —
    including non-linear `Operator` leaves anywhere — the closure scico builds evaluates `denF e`:
    `(A ± B)(x) = A(x) ± B(x)`, `(c·A)(x) = c·A(x)`, `(A/c)(x) = A(x)/c`, `(−A)(x) = −A(x)`,
    `(A(B))(x) = (A @ B)(x) = A(B(x))`, linear sub-expressions acting through their dense matrix
    (whatever closed-form or generic branch the class-directed dispatch takes, reflected methods of
    `MatrixOperator` / `Identity` included); `matrix_shape = dims e`; and the result is a plain
    `Operator` exactly when the expression has a non-linear leaf. -/
theorem C05_run_eq_denF (e : LExpr K) (m : Meta) (hm : infer e = .ok m)
    (hp : PlainDiagProducts e) (hK : RealK K ∨ AllC e) (x : Vc K) :
    (∀ i, ((run e).eval x).get i = if i < m.outShape.size then denF e x.get i else 0)
    ∧ m.matrixShape = dims e ∧ (m.cls = .op ↔ ¬ Lin e) := by
  obtain ⟨o, hb, hmd, hr⟩ := of_infer hm
  have hI := build_denF e o hp hK hb
  subst hmd
  rw [hr]
  refine ⟨fun i => hI.ef.ev x i, Prod.ext hI.hm hI.hn, ⟨fun hc hl => ?_, hI.nl⟩⟩
  exact (build_sound e o hl hp hK hb).1.lin hc

/-- **Freezing a block argument / fixing parameters of a `Function`.**  `F.freeze(argnum, val)` evaluates
    `F` on the block array obtained from its argument by inserting `val` as block `p` (`p` = `argnum`
    normalised: a negative index counts from the end), entry by entry as stated; `Fn.slice(index, *fix)`
    evaluates the function with the free argument at parameter position `p`; `Fn.join()` evaluates it on
    the blocks of its BlockArray argument. -/
theorem C05_freeze_slice_join (o : Obj K) (k : Int) (valSh : Shape) (valDt : DT) (val : Vc K)
    (f : Fn K) (fixArgs : List (Vc K)) (fixDts : List DT) :
    (∀ r bs p, o.md.inShape = .nested bs → normIdx bs.length k = some p →
        freeze o k valSh valDt val = .ok r → ∀ x,
          r.eval x = o.eval (vinsert o.n (offsetOf bs p) (prodL (bs.getD p [])) val x)
          ∧ ∀ j, (vinsert o.n (offsetOf bs p) (prodL (bs.getD p [])) val x).get j
              = if j < o.n then
                  (if j < offsetOf bs p then x.get j
                   else if j < offsetOf bs p + prodL (bs.getD p []) then val.get (j - offsetOf bs p)
                   else x.get (j - prodL (bs.getD p [])))
                else 0)
    ∧ (∀ p, normIdx f.inShapes.length k = some p → ∃ r, f.slice k fixArgs fixDts = .ok r
        ∧ ∀ x, r.eval x = f.eval (fixArgs.take p ++ x :: fixArgs.drop p))
    ∧ (∀ r, f.join = .ok r → ∀ x, r.eval x = f.eval (splitBlocks (f.inShapes.map Shape.size) 0 x)) := by
  refine ⟨fun r bs p hsh hp h x => ?_, fun p hp => ?_, fun r hr x => ?_⟩
  · obtain ⟨_, _, _, _, _, _, _, hev, _⟩ := freeze_spec o k valSh valDt val r bs p hsh hp h
    exact ⟨hev x, fun j => vinsert_get _ _ _ _ _ j⟩
  · obtain ⟨r, hr, _, _, _, _, _, hev⟩ := (slice_spec f k fixArgs fixDts).1 p hp
    exact ⟨r, hr, hev⟩
  · cases hd : f.inDts with
    | nil => simp [Fn.join, hd] at hr
    | cons d0 ds =>
      obtain ⟨_, _, _, _, _, hev⟩ := (join_spec f d0 ds hd).2 r hr
      exact hev x

/-- **Replicated stacking: the documented block formula `H(x)_k = A(x_k)`.**  For an accepted
    `DiagonalReplicated(op, N, input_axis, output_axis)` (axes at positions `a`, `b`; `P_in`, `P_out` the
    numbers of elements behind them) and every replicate `k < N`: entry `r` of replicate `k` of `H(x)` —
    flat index `joinIdx N P_out k r` — is entry `r` of `op` applied to replicate `k` of `x`, whose entry
    `j` is `x[joinIdx N P_in k j]`; every flat index of the output is of this form; and (linear case) the
    adjoint is the same construction with `op.adj` and the two axes exchanged. -/
theorem C05_drep_blocks (lin : Bool) (o : Obj K) (N : Nat) (ia : Int) (oa : Option Int) (r : Obj K)
    (h : drep lin o N ia oa = .ok r) (hm : 0 < o.m) (hn : 0 < o.n) :
    ∃ pin pout, 0 < pin ∧ 0 < pout
      ∧ (∀ (x : Vc K) k i, k < N → i < o.m →
          (r.eval x).get (joinIdx N pout k i) = (o.eval (vtake o.n N pin k x)).get i)
      ∧ (∀ (x : Vc K) k j, j < o.n → (vtake o.n N pin k x).get j = x.get (joinIdx N pin k j))
      ∧ (∀ t, 0 < N → joinIdx N pout (repK N pout t) (repRest N pout t) = t)
      ∧ (lin = true → ∀ (y : Vc K) k j, k < N → j < o.n →
          (r.adj y).get (joinIdx N pin k j) = (o.adj (vtake o.m N pout k y)).get j) := by
  obtain ⟨din, dout, a, b, h1, h2, _, _, _, _, _, _, _, _, hev, had⟩ := drep_spec lin o N ia oa r h
  have hmA : o.m = prodL (dout.take b) * prodL (dout.drop b) := by
    simp only [Obj.m, h2, Shape.size]; exact (prodL_take_drop dout b).symm
  have hnA : o.n = prodL (din.take a) * prodL (din.drop a) := by
    simp only [Obj.n, h1, Shape.size]; exact (prodL_take_drop din a).symm
  have hpout : 0 < prodL (dout.drop b) := by
    rcases Nat.eq_zero_or_pos (prodL (dout.drop b)) with h0 | h0
    · rw [h0, Nat.mul_zero] at hmA; omega
    · exact h0
  have hpin : 0 < prodL (din.drop a) := by
    rcases Nat.eq_zero_or_pos (prodL (din.drop a)) with h0 | h0
    · rw [h0, Nat.mul_zero] at hnA; omega
    · exact h0
  refine ⟨prodL (din.drop a), prodL (dout.drop b), hpin, hpout, ?_, ?_, ?_, ?_⟩
  · intro x k i hk hi
    rw [hev x]
    exact vgather_block N _ _ o.m hmA hpout _ k i hk hi
  · intro x k j hj
    rw [vtake_get]; simp [hj]
  · intro t hN
    exact joinIdx_repK_repRest N _ t hpout hN
  · intro hl y k j hk hj
    rw [had hl y]
    exact vgather_block N _ _ o.n hnA hpin _ k j hk hj

/-- **`Convolve` closed forms (operands of the same class).**  `A ± B` is accepted iff input length,
    output length, mode and filter length agree, and then convolves with `h_A ± h_B` — which is the
    pointwise `A(x) ± B(x)`; `c·A` / `A/c` are accepted iff `c` is scalar-equivalent and convolve with
    `h·c` / `h/c` — which is `c·A(x)` / `A(x)/c`; declared dtypes by `result_type`.  (`convEval` is the model
    of `jax.scipy.signal.convolve` of engine LinOps, all three modes.) -/
theorem C05_convolve_arith (a b : ConvOp K) (c : Scal K) (sub : Bool) :
    (((∃ r, ConvOp.addSub sub a b = .ok r) ↔ (a.n = b.n ∧ a.outLen = b.outLen ∧ a.mode = b.mode ∧ a.k = b.k))
      ∧ ∀ r, ConvOp.addSub sub a b = .ok r → r.n = a.n ∧ r.k = a.k ∧ r.mode = a.mode
          ∧ r.inDt = resultType a.inDt b.inDt ∧ r.hDt = resultType a.hDt b.hDt
          ∧ ∀ x i, r.eval x i = pm sub (a.eval x i) (b.eval x i))
    ∧ ((∃ r, a.smul c = .ok r) ↔ c.kind.isScalarEquiv = true)
    ∧ ((∃ r, a.sdiv c = .ok r) ↔ c.kind.isScalarEquiv = true)
    ∧ (∀ r, a.smul c = .ok r → r.inDt = resultTypeS a.inDt c.kind.sk ∧ ∀ x i, r.eval x i = c.val * a.eval x i)
    ∧ (∀ r, a.sdiv c = .ok r → r.inDt = resultTypeS a.inDt c.kind.sk ∧ ∀ x i, r.eval x i = a.eval x i / c.val) := by
  obtain ⟨h1, h2⟩ := ConvOp.addSub_spec sub a b
  obtain ⟨s1, s2, s3, s4⟩ := ConvOp.scal_spec a c
  refine ⟨⟨h1, fun r hr => ?_⟩, s1, s2, fun r hr => ?_, fun r hr => ?_⟩
  · obtain ⟨q1, q2, q3, _, q5, q6, q7⟩ := h2 r hr
    exact ⟨q1, q2, q3, q5, q6, q7⟩
  · obtain ⟨_, _, _, q4, _, q6⟩ := s3 r hr
    exact ⟨q4, q6⟩
  · obtain ⟨_, _, _, q4, _, q6⟩ := s4 r hr
    exact ⟨q4, q6⟩

/-- **`CircularConvolve` closed forms.**  `CircularConvolve` evaluates `ifftn(h_dft · fftn(x))`
    (`circNdSpecEval`, any number of axes, any spectrum); the operators built from the spectra
    `H_A ± H_B`, `H·c`, `H/c` are `A ± B`, `c·A`, `A/c`. -/
theorem C05_circconv_arith (dims : List Nat) (ws wis : List K) (s c : K) (HA HB x : Scico.LinOps.V K) (p : Nat) :
    Scico.LinOps.circNdSpecEval dims ws wis s (fun f => HA f + HB f) x p
        = Scico.LinOps.circNdSpecEval dims ws wis s HA x p + Scico.LinOps.circNdSpecEval dims ws wis s HB x p
    ∧ Scico.LinOps.circNdSpecEval dims ws wis s (fun f => HA f - HB f) x p
        = Scico.LinOps.circNdSpecEval dims ws wis s HA x p - Scico.LinOps.circNdSpecEval dims ws wis s HB x p
    ∧ Scico.LinOps.circNdSpecEval dims ws wis s (fun f => HA f * c) x p
        = c * Scico.LinOps.circNdSpecEval dims ws wis s HA x p
    ∧ Scico.LinOps.circNdSpecEval dims ws wis s (fun f => HA f / c) x p
        = Scico.LinOps.circNdSpecEval dims ws wis s HA x p / c := by
  have L := fun c1 c2 H2 => circNdSpec_lin dims ws wis s c1 c2 HA H2 x p
  refine ⟨?_, ?_, ?_, ?_⟩
  · have := L 1 1 HB; simp only [one_mul] at this; exact this
  · have := L 1 (-1) HB
    simp only [one_mul, neg_one_mul, ← sub_eq_add_neg] at this; exact this
  · have := L c 0 HA
    simp only [zero_mul, add_zero] at this
    rw [← this]; congr 1; funext f; ring
  · have := L c⁻¹ 0 HA
    simp only [zero_mul, add_zero] at this
    rw [div_eq_mul_inv, mul_comm, ← this]; congr 1; funext f; rw [div_eq_mul_inv, mul_comm]

/-- **Derived objects inside further arithmetic (stacks of stacks, arithmetic on stacks, …).**  The
    invariant "`o` denotes the matrix `D`" (`Sound o D`: eval = `D·x`, adj = `Dᴴ·y`, class payload = `D`,
    declared sizes) is closed under every node of the calculus, whatever built the operands — an
    expression (`build_sound`), a `VerticalStack` / `DiagonalStack` (`vstack_sound`, `dstack_sound`, whose
    operands may themselves be stacks), or any combination: `a ± b`, `−a`, `c·a`, `a/c`, `a(b)`, `a @ b`,
    `.T`, `.H`, `.conj()`, `gram_op` of such objects denote the same construction on their matrices, and
    stacking such objects denotes the block matrix of their matrices. -/
theorem C05_sound_closed (a b : Obj K) (Da Db : Mx K) (ha : Sound a Da) (hb : Sound b Db) (c : Scal K) :
    (∀ sub o, addSub Cfg.fixed sub a b = .ok o → Sound o (fun i j => pm sub (Da i j) (Db i j)))
    ∧ (∀ o, neg Cfg.fixed a = .ok o → Sound o (fun i j => - Da i j))
    ∧ (∀ o, smul Cfg.fixed a c = .ok o → Sound o (fun i j => c.val * Da i j))
    ∧ (∀ o, sdiv Cfg.fixed a c = .ok o → Sound o (fun i j => Da i j / c.val))
    ∧ (∀ o, call Cfg.fixed a b = .ok o → Sound o (matMul a.n Da Db))
    ∧ (∀ o, matmul Cfg.fixed a b = .ok o → MatmulPlain a b → Sound o (matMul a.n Da Db))
    ∧ (∀ o, opT Cfg.fixed a = .ok o → Sound o (matT Da))
    ∧ (∀ o, opH Cfg.fixed a = .ok o → Sound o (matH Da))
    ∧ (∀ o, opConj Cfg.fixed a = .ok o → Sound o (matConj Da))
    ∧ (∀ o, opGram Cfg.fixed a = .ok o → Sound o (matMul a.m (matH Da) Da))
    ∧ (∀ collapse o, vstack true [a, b] collapse = .ok o → Sound o (vcatMx [a, b] [Da, Db]))
    ∧ (∀ ci co o, dstack true [a, b] ci co = .ok o → Sound o (bdiagMx [a, b] [Da, Db])) :=
  ⟨fun sub _ h => (addSub_sound sub ha hb h).1, fun _ h => (neg_sound ha h).1,
   fun _ h => (smul_sound c ha h).1, fun _ h => (sdiv_sound c ha h).1,
   fun _ h => (call_sound ha hb h).1, fun _ h hp => (matmul_sound ha hb hp h).1,
   fun _ h => (opT_sound ha h).1, fun _ h => (opH_sound ha h).1, fun _ h => (opConj_sound ha h).1,
   fun _ h => (opGram_sound ha h).1,
   fun collapse _ h => (vstack_sound collapse (.cons ha (.cons hb .nil)) h).1,
   fun ci co _ h => (dstack_sound ci co (.cons ha (.cons hb .nil)) h).1⟩

/-- **The dispatch of the model is derived from the source tables.**  With `Tables.model` = the override table read from
    the scico sources (kept equal to the working tree by the generated obligation `Scico.Generated.OpAlgTables.tables_ok`):
    `Cls.isSub` is reachability along the base classes; `Cls.arith c` is the first class of the MRO of `c` defining
    `__add__` (and `__sub__`, `__mul__`, `__truediv__`); the decorator found there selects the branch of `a ± b`; the
    class owning `T / H / conj / gram_op` selects the branch of the four views. -/
theorem C05_dispatch_from_source (cfg : Cfg) (sub : Bool) (a b : Obj K) :
    (∀ c ∈ Tables.allCls, ∀ d ∈ Tables.allCls,
        ((Tables.mro Tables.model 8 (Tables.tagOf c)).contains (Tables.tagOf d)) = c.isSub d)
    ∧ (∀ c ∈ Tables.allCls, Tables.owner Tables.model (Tables.tagOf c) "__add__" = some (Tables.tagOf c.arith)
        ∧ Tables.decoratorOf Tables.model (Tables.tagOf c.arith) "__add__" = some (Tables.addWrapper c)
        ∧ Tables.decoratorOf Tables.model (Tables.tagOf c.arith) "__mul__" = some (Tables.mulWrapper c))
    ∧ (¬ (b.cls = .matrix ∧ (a.cls = .op ∨ a.cls = .linop)) →
        addSub cfg sub a b = (if Tables.addWrapper a.cls = "" then opAddSub sub a b
          else if Tables.addWrapper a.cls = "_wrap_add_sub" then wrapAddSub cfg sub a b else matAddSub sub a b))
    ∧ (∀ c ∈ Tables.allCls, ∀ meth ∈ ["T", "H", "conj", "gram_op"],
        Tables.owner Tables.model (Tables.tagOf c) meth = (Tables.viewOwner meth c).map Tables.tagOf)
    ∧ opT cfg a = (match Tables.viewOwner "T" a.cls with
        | none => .error .other | some .matrix => .ok (matTop a) | some .diag => .ok (diagT cfg a) | some _ => .ok (linT a))
    ∧ opH cfg a = (match Tables.viewOwner "H" a.cls with
        | none => .error .other | some .matrix => .ok (matHop a) | some .diag => diagH cfg a | some _ => .ok (linH a)) :=
  ⟨Tables.isSub_from_table,
   fun c hc => ⟨(Tables.arith_from_table c hc).1, (Tables.wrappers_from_table c hc).1, (Tables.wrappers_from_table c hc).2.1⟩,
   Tables.addSub_branch cfg sub a b, Tables.views_from_table, Tables.opT_branch cfg a, Tables.opH_branch cfg a⟩

/-- the declared `matrix_shape` is the shape of the denoted matrix, and a linear expression is
    always built as a `LinearOperator` -/
theorem C05_matrix_shape (e : LExpr K) (m : Meta) (hm : infer e = .ok m) (hl : Lin e)
    (hp : PlainDiagProducts e) (hK : RealK K ∨ AllC e) :
    m.matrixShape = dims e ∧ m.cls ≠ .op := by
  obtain ⟨o, hb, hmd, _⟩ := of_infer hm
  obtain ⟨hS, h1, h2⟩ := build_sound e o hl hp hK hb
  subst hmd
  refine ⟨?_, hS.lin⟩
  simp only [Meta.matrixShape]
  exact Prod.ext h1 h2

/-- **Rejection: non-scalar factor.**  `a * c`, `c * a`, `a / c` with `c` not scalar-equivalent
    raise for every operand class. -/
theorem C05_reject_nonscalar (e : LExpr K) (c : Scal K) (hc : c.kind.isScalarEquiv = false) :
    (∃ k, build (.smulR e c) = .error k) ∧ (∃ k, build (.smulL c e) = .error k)
    ∧ (∃ k, build (.sdiv e c) = .error k) := by
  simp only [build, buildC]
  cases hb : buildC Cfg.fixed e with
  | error k => exact ⟨⟨k, rfl⟩, ⟨k, rfl⟩, ⟨k, rfl⟩⟩
  | ok o =>
    simp only [bind, Except.bind]
    have h1 := smul_reject_nonscalar Cfg.fixed o c hc
    have h2 := sdiv_reject_nonscalar Cfg.fixed o c hc
    refine ⟨?_, ?_, ?_⟩
    · rcases h1 with h | ⟨_, _, h⟩ <;> exact ⟨_, h⟩
    · rcases h1 with h | ⟨_, _, h⟩ <;> exact ⟨_, h⟩
    · rcases h2 with h | ⟨_, _, h⟩ <;> exact ⟨_, h⟩

/-- **Rejection: shape mismatch in a sum.**  Two accepted linear operands whose matrices have
    different shapes cannot be added or subtracted. -/
theorem C05_reject_sum_mismatch (a b : LExpr K) (oa ob : Obj K) (ha : build a = .ok oa)
    (hb : build b = .ok ob) (hla : Lin a) (hlb : Lin b) (hpa : PlainDiagProducts a)
    (hpb : PlainDiagProducts b) (hK : RealK K ∨ (AllC a ∧ AllC b)) (hd : dims a ≠ dims b) :
    (∃ k, build (.add a b) = .error k) ∧ (∃ k, build (.sub a b) = .error k) := by
  obtain ⟨hSa, ham, han⟩ := build_sound a oa hla hpa (hK.imp id (·.1)) ha
  obtain ⟨hSb, hbm, hbn⟩ := build_sound b ob hlb hpb (hK.imp id (·.2)) hb
  have key : ∀ sub, ∃ k, addSub Cfg.fixed sub oa ob = .error k := by
    intro sub
    cases h : addSub Cfg.fixed sub oa ob with
    | error k => exact ⟨k, rfl⟩
    | ok o =>
      exfalso
      obtain ⟨h1, h2⟩ := addSub_ok_sameShape sub hSa hSb h
      apply hd
      apply Prod.ext
      · rw [← ham, ← hbm]; simp only [Obj.m, h2]
      · rw [← han, ← hbn]; simp only [Obj.n, h1]
  unfold build at ha hb
  simp only [build, buildC, ha, hb, bind, Except.bind]
  exact ⟨key false, key true⟩

/-- **Rejection: non-conforming product.**  `a(b)` and `a @ b` … are rejected when the number of
    columns of `a` differs from the number of rows of `b`. -/
theorem C05_reject_product_mismatch (a b : LExpr K) (oa ob : Obj K) (ha : build a = .ok oa)
    (hb : build b = .ok ob) (hla : Lin a) (hlb : Lin b) (hpa : PlainDiagProducts a)
    (hpb : PlainDiagProducts b) (hK : RealK K ∨ (AllC a ∧ AllC b))
    (hd : (dims a).2 ≠ (dims b).1) : ∃ k, build (.comp a b) = .error k := by
  obtain ⟨hSa, _, han⟩ := build_sound a oa hla hpa (hK.imp id (·.1)) ha
  obtain ⟨hSb, hbm, _⟩ := build_sound b ob hlb hpb (hK.imp id (·.2)) hb
  unfold build at ha hb
  simp only [build, buildC, ha, hb, bind, Except.bind]
  cases h : call Cfg.fixed oa ob with
  | error k => exact ⟨k, rfl⟩
  | ok o =>
    exfalso
    have := call_ok_conform hSa hSb h
    apply hd
    rw [← han, ← hbm]; simp only [Obj.n, Obj.m, this]

/-- **Valid combinations are not rejected** (generic classes): two `LinearOperator`s /
    compositions of equal shape add to the generic sum; a composition of two generic operators
    is accepted exactly when the shapes conform and the dtypes chain. -/
theorem C05_accepts_valid (a b : Obj K) :
    ((a.cls = .linop ∨ a.cls = .composed) → (b.cls = .linop ∨ b.cls = .composed) →
        a.sameShape b = true → ∀ sub, addSub Cfg.fixed sub a b = .ok (linAddSub sub a b))
    ∧ ((∃ o, linComp a b = .ok o) ↔ (a.md.inShape = b.md.outShape ∧ a.md.inDt = b.md.outDt)) :=
  ⟨fun h1 h2 hs sub => addSub_accepts_generic sub a b h1 h2 hs, linComp_ok_iff a b⟩

/-- **Non-linear operators: pointwise construction.**  `Operator.__add__/__sub__`, scalar `*` and `/`
    and `Operator.__call__(Operator)` build exactly `x ↦ A(x) ± B(x)`, `c·A(x)`, `A(x)/c`,
    `A(B(x))` (for arbitrary closures `A`, `B`), and whenever the right operand of `+`/`-` is a plain
    `Operator` every class of left operand dispatches to that generic sum (or rejects a shape
    mismatch). -/
theorem C05_operator_pointwise (a b : Obj K) (c : Scal K) (x : Vc K) :
    (∀ sub o, opAddSub sub a b = .ok o →
        ∀ i, (o.eval x).get i = if i < a.m then pm sub ((a.eval x).get i) ((b.eval x).get i) else 0)
    ∧ (∀ o, opMul a c = .ok o → ∀ i, (o.eval x).get i = if i < a.m then c.val * (a.eval x).get i else 0)
    ∧ (∀ o, opDiv a c = .ok o → ∀ i, (o.eval x).get i = if i < a.m then (a.eval x).get i / c.val else 0)
    ∧ (∀ cfg o, opComp cfg a b = .ok o → o.eval x = a.eval (b.eval x))
    ∧ (b.cls = .op → ∀ sub, addSub Cfg.fixed sub a b
          = (if a.sameShape b then opAddSub sub a b else .error .shape)) :=
  ⟨fun sub o h i => (opAddSub_pointwise sub h x i).2.2.2,
   fun o h i => opMul_pointwise c h x i,
   fun o h i => opDiv_pointwise c h x i,
   fun cfg o h => (opComp_pointwise cfg h x).1,
   fun hb sub => addSub_with_operator sub a b hb⟩

/-- **Vertical stack.**  `VerticalStack([e₁, …, e_N], collapse_output)` of linear expressions (any
    classes, any depth, any number of operands, collapsed to `(N, *S)` or left as a block array) computes
    `x ↦ [den e₁; …; den e_N] · x`; its adjoint `y ↦ Σ_k (den e_k)ᴴ y_k` is the conjugate transpose of that
    concatenation; its output size is the sum of the operands' and all operands share its input size. -/
theorem C05_vstack_eq_den (es : List (LExpr K)) (collapse : Bool) (o : Obj K) (hin : AllIn es)
    (h : buildVStack true es collapse = .ok o) (x y : Vc K) :
    (∀ i, (o.eval x).get i = if i < rowsOf es then mulVec o.n (vcatDen es) x.get i else 0)
    ∧ (∀ j, (o.adj y).get j = if j < o.n then mulVecH (rowsOf es) (vcatDen es) y.get j else 0)
    ∧ o.md.outShape.size = rowsOf es ∧ (∀ e ∈ es, (dims e).2 = o.md.inShape.size) := by
  obtain ⟨hS, hm, hn⟩ := buildVStack_sound es collapse o hin h
  refine ⟨fun i => ?_, fun j => ?_, hm, hn⟩
  · rw [hS.ev x i, hm]
  · rw [hS.ad y j, hm]

/-- **Diagonal stack.**  `DiagonalStack([e₁, …, e_N], collapse_input, collapse_output)` computes
    `x ↦ diag(den e₁, …, den e_N) · x` on the stacked / block input; the adjoint is the conjugate
    transpose; sizes are the sums of the operands' sizes. -/
theorem C05_dstack_eq_den (es : List (LExpr K)) (cIn cOut : Bool) (o : Obj K) (hin : AllIn es)
    (h : buildDStack true es cIn cOut = .ok o) (x y : Vc K) :
    (∀ i, (o.eval x).get i = if i < rowsOf es then mulVec (colsOf es) (bdiagDen es) x.get i else 0)
    ∧ (∀ j, (o.adj y).get j = if j < colsOf es then mulVecH (rowsOf es) (bdiagDen es) y.get j else 0)
    ∧ o.md.outShape.size = rowsOf es ∧ o.md.inShape.size = colsOf es := by
  obtain ⟨hS, hm, hn⟩ := buildDStack_sound es cIn cOut o hin h
  refine ⟨fun i => ?_, fun j => ?_, hm, hn⟩
  · rw [hS.ev x i, hm, hn]
  · rw [hS.ad y j, hm, hn]

end

/-! ### non-vacuity: the hypotheses are satisfiable on concrete trees over ℚ -/
section examples

instance : StarRing ℚ := starRingOfComm
instance : HasRe ℚ := ⟨id⟩

example : RealK ℚ := fun _ => ⟨rfl, rfl⟩

/-- `(2·I − D) @ M.H + M.gram_op` on ℚ³ -/
def exM : LExpr ℚ := .mat 3 3 .f64 (fun i j => (i : ℚ) + 2 * j)
def exD : LExpr ℚ := .diag (.plain [3]) .f64 none none (fun i => (i : ℚ) - 1)
def exE : LExpr ℚ :=
  .add (.matmul (.sub (.smulL ⟨2, .pyFloat⟩ (.ident (.plain [3]) .f64)) exD) (.H exM)) (.gram exM)

example : Lin exE := by simp [exE, exM, exD, Lin]
example : PlainDiagProducts exE := by
  simp only [exE, exM, exD, PlainDiagProducts, and_true, true_and]
  intro oa ob ha hb hc _
  -- the left factor `2·I − D` is built by `Diagonal.__sub__`; the right factor is a MatrixOperator
  exfalso
  simp only [build, buildC, bind, Except.bind] at hb
  injection hb with hb
  rename_i hfam
  subst hb
  rcases hfam with h | h | h <;> simp [opH, matHop, rematrix, mkMat, Obj.cls] at h

/-- scico accepts the expression (so `C05_run_eq_den` applies to it, ℚ being real) -/
example : ∃ m, infer exE = .ok m := ⟨_, rfl⟩
/-- a shape mismatch: `M (3×3) + Identity((2,))` -/
example : dims exM ≠ dims (LExpr.ident (.plain [2]) .f64 : LExpr ℚ) := by decide

/-- a vertical and a diagonal stack of `M` (3×3) and `Identity((3,))`: accepted, inside the regime -/
example : AllIn [exM, LExpr.ident (.plain [3]) .f64] := by
  intro e he
  simp only [List.mem_cons, List.mem_nil_iff, or_false] at he
  rcases he with rfl | rfl
  · exact ⟨by simp [exM, Lin], by simp [exM, PlainDiagProducts], Or.inl (fun _ => ⟨rfl, rfl⟩)⟩
  · exact ⟨by simp [Lin], by simp [PlainDiagProducts], Or.inl (fun _ => ⟨rfl, rfl⟩)⟩
example : ∃ o, buildVStack true [exM, LExpr.ident (.plain [3]) .f64] true = .ok o
    ∧ o.md.outShape = .plain [2, 3] := ⟨_, rfl, rfl⟩
example : ∃ o, buildVStack true [exM, LExpr.ident (.plain [3]) .f64] false = .ok o
    ∧ o.md.outShape = .nested [[3], [3]] := ⟨_, rfl, rfl⟩
example : ∃ o, buildDStack true [exM, LExpr.ident (.plain [3]) .f64] true false = .ok o
    ∧ o.md.inShape = .plain [2, 3] ∧ o.md.outShape = .nested [[3], [3]] := ⟨_, rfl, rfl, rfl⟩

/-- `Diagonal(d₁ of shape (2,3)) @ Diagonal(d₂ of shape (3,), input_shape=(2,3))`: the two diagonal arrays
    broadcast against each other (outside the former side condition, inside `C05_run_eq_den_plain`) -/
def exBD : LExpr ℚ :=
  .matmul (.diag (.plain [2, 3]) .f64 none none (fun i => (i : ℚ) + 1))
          (.diag (.plain [3]) .f64 (some (.plain [2, 3])) none (fun i => 2 * (i : ℚ) - 1))
example : PlainShapes exBD ∧ Lin exBD := by simp [exBD, PlainShapes, Lin, Shape.isPlain]
example : ∃ m, infer exBD = .ok m ∧ m.cls = .diag ∧ m.datShape = .plain [2, 3] := ⟨_, rfl, rfl, rfl⟩
example : PlainShapes exE := by simp [exE, exM, exD, PlainShapes, Shape.isPlain]

/-- a non-linear tree: `(N + M)(D) / 2` with `N(x) = (G x)²` -/
def exN : LExpr ℚ :=
  .sdiv (.comp (.add (.nonlin (.plain [3]) (.plain [3]) .f64 .f64 (fun i j => (i : ℚ) - j)) exM) exD) ⟨2, .pyInt⟩
example : ¬ Lin exN := by simp [exN, Lin]
example : PlainDiagProducts exN := by simp [exN, exM, exD, PlainDiagProducts]
example : ∃ m, infer exN = .ok m ∧ m.cls = .op := ⟨_, rfl, rfl⟩

/-- two `Convolve` operators with filters of length 2 on inputs of length 3 can be added in every mode;
    different modes are rejected -/
def cvA : ConvOp ℚ := ⟨fun m => [1, 2].getD m 0, 2, 3, .full, .f64, .f64⟩
def cvB : ConvOp ℚ := ⟨fun m => [3, -1].getD m 0, 2, 3, .full, .f64, .f64⟩
example : ∃ r, ConvOp.addSub false cvA cvB = .ok r := ⟨_, rfl⟩
example : ∃ e, ConvOp.addSub false cvA { cvB with mode := .same, n := 4 } = .error e := ⟨_, rfl⟩

/-- a stack of a stack and a matrix, then `.H` of it: accepted (so `C05_sound_closed` applies twice) -/
example : ∃ v w h, buildVStack true [exM, LExpr.ident (.plain [3]) .f64] true = .ok v
    ∧ vstack true [v, mkMat 2 3 .f64 (fun _ _ => (1 : ℚ))] false = .ok w ∧ opH Cfg.fixed w = .ok h
    ∧ h.md.inShape = .nested [[2, 3], [2]] := ⟨_, _, _, rfl, rfl, rfl, rfl⟩

end examples

end Scico.Props.C05
