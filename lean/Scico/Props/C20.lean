/-
  Property C20 — learned-model support: application, data iteration and persistence are faithful.
  ONLY property theorems and their non-vacuity examples here (helpers: Proofs/Flax*.lean).

  Model: `Scico.Model.Flax` (FlaxMap.__call__, save/load_variables, IterateData, checkpoint manager,
  trainer loop).  Contracts assumed (explicit hypotheses): `jax.random.permutation key n` is a
  permutation of `range n`; msgpack restore ∘ serialize = id; orbax save/restore of one step is atomic
  and returns the saved tree.
-/
import Scico.Proofs.FlaxMap
import Scico.Proofs.FlaxIter
import Scico.Proofs.FlaxCkpt
import Scico.Proofs.FlaxTrain
import Scico.Proofs.FlaxDir
import Scico.Proofs.FlaxLoop

namespace Scico.Props.C20
open Scico.Flax

/-! ### FlaxMap -/

/-- For rank 2, 3, 4 input and ANY rank-preserving network, the wrapper as coded applies the network to
    the canonical `(K,H,W,C)` array and removes exactly the axes it added (error iff one of them is no
    longer a singleton) — i.e. it equals the separately written specification. -/
theorem C20_flaxmap_axes {α : Type} (net : Arr α → Arr α) (x : Arr α)
    (hx : x.shape.length = 2 ∨ x.shape.length = 3 ∨ x.shape.length = 4)
    (hy : (net (canon x)).shape.length = 4) : flaxMap net x = specFlaxMap net x :=
  flaxMap_eq_spec net x hx hy

/-- Channel/batch-changing networks characterised: `(H,W)` input succeeds iff the network returns one
    batch entry and one channel; `(H,W,C)` input iff one batch entry (any channel count). -/
theorem C20_flaxmap_channels {α : Type} (net : Arr α → Arr α) (d : List α) (h w c k h' w' c' : Nat) :
    ((net ⟨[1, h, w, 1], d⟩).shape = [k, h', w', c'] →
      flaxMap net ⟨[h, w], d⟩ =
        if k = 1 ∧ c' = 1 then .ok ⟨[h', w'], (net ⟨[1, h, w, 1], d⟩).data⟩ else .error .shape) ∧
    ((net ⟨[1, h, w, c], d⟩).shape = [k, h', w', c'] →
      flaxMap net ⟨[h, w, c], d⟩ =
        if k = 1 then .ok ⟨[h', w', c'], (net ⟨[1, h, w, c], d⟩).data⟩ else .error .shape) := by
  constructor
  · intro hs
    have hy : (net (canon ⟨[h, w], d⟩)).shape.length = 4 := by rw [canon_rank2, hs]; rfl
    rw [flaxMap_eq_spec net _ (Or.inl rfl) hy]
    simp only [specFlaxMap, canon_rank2, hs]
    by_cases hk : k = 1 <;> by_cases hc : c' = 1 <;> simp [addedAxes, removeAxes, hk, hc]
  · intro hs
    have hy : (net (canon ⟨[h, w, c], d⟩)).shape.length = 4 := by rw [canon_rank3, hs]; rfl
    rw [flaxMap_eq_spec net _ (Or.inr (Or.inl rfl)) hy]
    simp only [specFlaxMap, canon_rank3, hs]
    by_cases hk : k = 1 <;> simp [addedAxes, removeAxes, hk]

/-- The axes removed are exactly the axes added: a shape-preserving network gives a result of the
    input's own shape, carrying the network's output data unchanged, for rank 2, 3 and 4. -/
theorem C20_flaxmap_roundtrip {α : Type} (net : Arr α → Arr α) (x : Arr α)
    (hx : x.shape.length = 2 ∨ x.shape.length = 3 ∨ x.shape.length = 4)
    (hnet : (net (canon x)).shape = (canon x).shape) :
    flaxMap net x = .ok ⟨x.shape, (net (canon x)).data⟩ := by
  have h4 : (canon x).shape.length = 4 := by
    obtain ⟨xs, xd⟩ := x
    rcases hx with h | h | h
    · obtain ⟨a, b, rfl⟩ := len2 h; rw [canon_rank2]; rfl
    · obtain ⟨a, b, c, rfl⟩ := len3 h; rw [canon_rank3]; rfl
    · rw [canon_rank4 _ h]; exact h
  rw [flaxMap_eq_spec net x hx (by rw [hnet]; exact h4)]
  simp only [specFlaxMap, hnet]
  obtain ⟨xs, xd⟩ := x
  rcases hx with h | h | h
  · obtain ⟨a, b, rfl⟩ := len2 h
    simp [canon, addedAxes, insertAxes, removeAxes, List.insertIdx]
  · obtain ⟨a, b, c, rfl⟩ := len3 h
    simp [canon, addedAxes, insertAxes, removeAxes]
  · simp only at h
    simp [canon, addedAxes, h, insertAxes, removeAxes]

-- non-vacuity: identity network on a 2×3 image; a 2-channel network on the same image is rejected
example : flaxMap (fun a => a) (⟨[2, 3], [1, 2, 3, 4, 5, 6]⟩ : Arr Nat) = .ok ⟨[2, 3], [1, 2, 3, 4, 5, 6]⟩ := by
  decide
example : flaxMap (fun a => ⟨[1, 2, 3, 2], a.data ++ a.data⟩) (⟨[2, 3], [1, 2, 3, 4, 5, 6]⟩ : Arr Nat)
    = .error .shape := by decide
example : flaxMap (fun a => ⟨[1, 2, 3, 2], a.data ++ a.data⟩) (⟨[2, 3, 1], [1, 2, 3, 4, 5, 6]⟩ : Arr Nat)
    = .ok ⟨[2, 3, 2], [1, 2, 3, 4, 5, 6, 1, 2, 3, 4, 5, 6]⟩ := by decide

/-! ### save_variables / load_variables -/

/-- Given the serialisation contract (`de (ser v) = v`), re-loading saved variables returns exactly the
    saved `params` and `batch_stats` sub-trees; a tree lacking one of them is rejected (`KeyError`). -/
theorem C20_variables_roundtrip {τ β : Type} (ser : VarTree τ → β) (de : β → VarTree τ)
    (hser : ∀ v, de (ser v) = v) (v : VarTree τ) :
    (∀ p b, lookup v "params" = some p → lookup v "batch_stats" = some b →
      loadVars de (saveVars ser v) = .ok [("params", p), ("batch_stats", b)]) ∧
    ((lookup v "params" = none ∨ lookup v "batch_stats" = none) →
      loadVars de (saveVars ser v) = .error .key) := by
  constructor
  · intro p b hp hb
    simp [loadVars, saveVars, hser, hp, hb]
  · intro h
    rcases h with h | h
    · simp only [loadVars, saveVars, hser, h]
    · simp only [loadVars, saveVars, hser, h]
      cases lookup v "params" <;> rfl

example : loadVars (fun v => v) (saveVars (fun v => v) [("params", 1), ("batch_stats", 2)])
    = .ok [("params", 1), ("batch_stats", 2)] := by decide

/-! ### IterateData -/

/-- One epoch (the index array built by `reset`): GIVEN that `jax.random.permutation` returns a
    permutation of `range n`, there are `⌊n/b⌋` batches of exactly `b` rows, they are pairwise disjoint
    and drawn without replacement (the concatenation has no duplicate), every row index is valid,
    exactly `⌊n/b⌋·b` distinct samples are covered, and they are the first `⌊n/b⌋·b` entries of the
    permutation.  For all `n`, `b` and both modes. -/
theorem C20_epoch_batches {κ : Type} (K : KeyOps κ) (it : Iter κ) (hspe : it.spe = it.n / it.b)
    (hperm : it.train = true → (K.permutation (K.split it.key).2 it.n).Perm (List.range it.n)) :
    let rows := (Iter.reset K it).perms
    let p := if it.train then K.permutation (K.split it.key).2 it.n else List.range it.n
    rows.length = it.n / it.b ∧ (∀ r ∈ rows, r.length = it.b) ∧ rows.flatten = p.take (it.n / it.b * it.b) ∧
      rows.flatten.Nodup ∧ (∀ i ∈ rows.flatten, i < it.n) ∧ rows.flatten.length = it.n / it.b * it.b ∧
      rows.Pairwise List.Disjoint := by
  intro rows p
  have hp : p.Perm (List.range it.n) := by
    cases ht : it.train with
    | false => simp [p, ht]
    | true => simpa [p, ht] using hperm ht
  have hrows : rows = reshapeRows p (it.n / it.b) it.b := by
    cases ht : it.train with
    | false =>
      simp only [rows, p, Iter.reset, hspe, ht, Bool.false_eq_true, if_false]
      exact reshapeRows_take _ _ _
    | true =>
      simp only [rows, p, Iter.reset, hspe, ht, if_true]
      exact reshapeRows_take _ _ _
  rw [hrows]
  exact rows_of_perm p it.n it.b hp

/-- Pairing: every entry of the data dictionary is indexed by the same row list — entry `i` of each
    key's batch is that key's array at row `rows[i]`, and the keys are those of the dictionary. -/
theorem C20_pairing {ρ : Type} (dt : List (String × (Nat → ρ))) (rows : List Nat) :
    (gather dt rows).map (·.1) = dt.map (·.1) ∧
    ∀ kv ∈ dt, (kv.1, rows.map kv.2) ∈ gather dt rows ∧
      ∀ i (hi : i < rows.length), (rows.map kv.2)[i]? = some (kv.2 rows[i]) := by
  refine ⟨by simp [gather], ?_⟩
  intro kv hkv
  refine ⟨List.mem_map.mpr ⟨kv, hkv, rfl⟩, ?_⟩
  intro i hi
  simp [hi]

/-- Any number of `next` calls (any number of epochs, reset on exhaustion): the `t`-th batch produced by
    the state machine is batch `t mod ⌊n/b⌋` of epoch `t div ⌊n/b⌋`, whose sample order is the
    permutation drawn with the `t div ⌊n/b⌋`-th sub-key of the split chain — a function of
    `(key, n, b, mode, t)` only.  For all `1 ≤ b ≤ n`, all `t`. -/
theorem C20_epochs {κ : Type} (K : KeyOps κ) (key : κ) (n b : Nat) (train : Bool) (t : Nat)
    (hb : 1 ≤ b) (hbn : b ≤ n) :
    ∃ it0 itT, Iter.init K n b train key = .ok it0 ∧
      Iter.run K t it0 = .ok (itT, (List.range t).map (specBatch K key n b train)) := by
  obtain ⟨it0, hinit, hinv⟩ := init_inv K key n b train (by omega)
  have hspe : 0 < n / b := Nat.div_pos hbn hb
  obtain ⟨itT, hrun⟩ := run_spec K key n b train hspe t 0 0 it0 hinv
  refine ⟨it0, itT, hinit, ?_⟩
  rw [hrun, List.range_eq_range']
  simp

/-- Evaluation iterator: dataset order is preserved — the `t`-th batch is rows
    `(t mod ⌊n/b⌋)·b, …, +b−1` in order, cycling after `⌊n/b⌋` batches; the key is never used. -/
theorem C20_eval_order {κ : Type} (K : KeyOps κ) (key : κ) (n b : Nat) (t : Nat) (hb : 1 ≤ b) (hbn : b ≤ n) :
    specBatch K key n b false t = List.range' ((t % (n / b)) * b) b := by
  have hspe : 0 < n / b := Nat.div_pos hbn hb
  have hk : t % (n / b) < n / b := Nat.mod_lt _ hspe
  have h1 : (t % (n / b) + 1) * b ≤ n / b * b := Nat.mul_le_mul_right b hk
  have h2 : n / b * b ≤ n := Nat.div_mul_le_self n b
  rw [Nat.succ_mul] at h1
  simp only [specBatch, epochPerm_eval]
  exact eval_batch n b _ (by omega)

/-- Rejections: `batch_size = 0` fails at construction; `batch_size > n` (no complete batch) constructs
    but the first `next` raises `IndexError`, in both modes. -/
theorem C20_iter_errors {κ : Type} (K : KeyOps κ) (key : κ) (n b : Nat) (train : Bool) :
    (b = 0 → Iter.init K n b train key = .error .other) ∧
    (n < b → ∃ it0, Iter.init K n b train key = .ok it0 ∧ Iter.next K it0 = .error .index) := by
  constructor
  · intro h; simp [Iter.init, h]
  · intro h
    obtain ⟨it0, hinit, hinv⟩ := init_inv K key n b train (by omega)
    exact ⟨it0, hinit, next_spe_zero K key n b train 0 it0 hinv (Nat.div_eq_of_lt h)⟩

-- non-vacuity: n = 7, b = 3, a concrete "key" (epoch counter) with rotating permutations
def exK : KeyOps Nat := ⟨fun k => (k + 1, k), fun k n => (List.range n).rotate (k + 2)⟩
example : (exK.permutation 0 7).Perm (List.range 7) := by decide
example : (do let it ← Iter.init exK 7 3 true 0; let r ← Iter.run exK 5 it; pure r.2 : Except Err _)
    = .ok [[2, 3, 4], [5, 6, 0], [3, 4, 5], [6, 0, 1], [4, 5, 6]] := by decide
example : (do let it ← Iter.init exK 7 3 false 0; let r ← Iter.run exK 3 it; pure r.2 : Except Err _)
    = .ok [[0, 1, 2], [3, 4, 5], [0, 1, 2]] := by decide

/-! ### checkpoints -/

/-- Any sequence of saves, in any order, with repetitions, onto any existing directory: the saves that
    take effect are exactly the strict running maxima of the step sequence (a step not larger than the
    latest one present is skipped), and the directory holds the last `max_to_keep` of everything accepted. -/
theorem C20_save_any_order {σ : Type} (k : Nat) (hk : 1 ≤ k) (l : List (Nat × σ)) (ps : List (Nat × σ)) :
    saveAll k (some l) ps = some (lastK k (l ++ records (latest l) ps)) ∨
      (saveAll k (some l) ps = some l ∧ records (latest l) ps = []) :=
  saveAll_eq k hk ps l

/-- Saves at strictly increasing steps into a fresh (missing or empty) directory: the `max_to_keep`
    most recent are kept and `checkpoint_restore` returns the state of the most recent save, whatever
    the passed-in state and the `ok_no_ckpt` flag. -/
theorem C20_restore_latest {σ : Type} (k : Nat) (hk : 1 ≤ k) (ps : List (Nat × σ)) (hne : ps ≠ [])
    (hinc : ps.Pairwise (fun a b => a.1 < b.1)) (d0 : Dir σ) (hd0 : d0 = none ∨ d0 = some [])
    (cur : σ) (ok : Bool) :
    saveAll k d0 ps = some (ps.drop (ps.length - k)) ∧
      restore (saveAll k d0 ps) cur ok = .ok (ps.getLast hne).2 := by
  have hsave : saveAll k d0 ps = some (lastK k ps) := by
    have h0 : saveAll k d0 ps = saveAll k (some []) ps := by
      rcases hd0 with rfl | rfl
      · exact saveAll_none k ps hne
      · rfl
    rw [h0]
    have hrec : records (latest ([] : List (Nat × σ))) ps = ps :=
      records_increasing ps hinc _ (by intro k hk; simp [latest] at hk)
    rcases saveAll_eq k hk ps [] with h | ⟨_, h2⟩
    · rw [h, hrec]; rfl
    · rw [hrec] at h2; exact absurd h2 hne
  refine ⟨hsave, ?_⟩
  rw [hsave]
  have hne' := lastK_ne_nil k hk ps hne
  obtain ⟨hlat, hfind⟩ := find_latest_sorted (lastK k ps) (lastK_pairwise k ps hinc) hne'
  rw [lastK_getLast k hk ps hne] at hlat hfind
  simp only [restore, hlat, hfind]

/-- ANY sequence of saves (any order, repetitions, any states) onto any well-formed directory (steps increasing, at most
    `max_to_keep` entries — in particular the empty one), any `max_to_keep ≥ 1`: the directory stays well formed, and if it is not
    empty `checkpoint_restore` returns exactly the state stored LAST in it, which is the one with the largest step —
    whatever the passed-in state and flag. -/
theorem C20_dir_invariant {σ : Type} (k : Nat) (hk : 1 ≤ k) (l : List (Nat × σ)) (hl : DirOk k l) (ps : List (Nat × σ))
    (cur : σ) (ok : Bool) :
    ∃ l', saveAll k (some l) ps = some l' ∧ l'.Pairwise (fun a b => a.1 < b.1) ∧ l'.length ≤ k ∧
      ∀ hne : l' ≠ [], restore (some l') cur ok = .ok (l'.getLast hne).2 ∧ ∀ p ∈ l', p.1 ≤ (l'.getLast hne).1 := by
  obtain ⟨l', hs, hok⟩ := dirOk_saveAll k hk ps l hl
  refine ⟨l', hs, hok.1, hok.2, ?_⟩
  intro hne
  obtain ⟨hlat, hfind⟩ := find_latest_sorted l' hok.1 hne
  refine ⟨by simp only [restore, hlat, hfind], ?_⟩
  intro p hp
  exact ((latest_eq_some l' _).mp hlat).2 p hp

example : DirOk 3 ([] : List (Nat × String)) := ⟨List.Pairwise.nil, by decide⟩
example : saveAll 3 (some []) [(5, "a"), (2, "b"), (7, "c"), (9, "d"), (9, "e"), (12, "f"), (3, "g")]
    = some [(7, "c"), (9, "d"), (12, "f")] := by decide

/-- Missing checkpoint handled as documented: no directory, or a directory without any checkpoint,
    returns the passed-in state when `ok_no_ckpt`, and is an error otherwise. -/
theorem C20_restore_missing {σ : Type} (cur : σ) (d : Dir σ) (hd : d = none ∨ d = some []) :
    restore d cur true = .ok cur ∧ restore d cur false = .error .other := by
  rcases hd with rfl | rfl <;> exact ⟨rfl, rfl⟩

/-- Resume offset (any `max_to_keep ≥ 1`; the code uses 3): a `train()` against a directory whose latest checkpoint is step `s ≤ N₁` executes
    exactly steps `s … N₁−1` and leaves `N₁` as latest step; a later `train()` with `N₂ ≥ N₁` executes
    exactly `N₁ … N₂−1`.  Together they execute every step of the uninterrupted run once, none twice. -/
theorem C20_resume_offset (k : Nat) (hk : 1 ≤ k) (d : Dir Nat) (hc : Coh d) (N₁ N₂ spc : Nat) (hspc : 1 ≤ spc)
    (hs : stepOf (latestD d) ≤ N₁) (h12 : N₁ ≤ N₂) :
    ∃ d₁ d₂ d₂', let s := stepOf (latestD d)
      trainRun k d N₁ spc = .ok (List.range' s (N₁ - s), d₁) ∧
      restore d₁ 0 true = .ok N₁ ∧
      trainRun k d₁ N₂ spc = .ok (List.range' N₁ (N₂ - N₁), d₂) ∧
      trainRun k d N₂ spc = .ok (List.range' s (N₂ - s), d₂') ∧
      List.range' s (N₁ - s) ++ List.range' N₁ (N₂ - N₁) = List.range' s (N₂ - s) ∧
      restore d₂ 0 true = .ok N₂ ∧ restore d₂' 0 true = .ok N₂ := by
  have _ := hspc
  have run : ∀ (d : Dir Nat), Coh d → ∀ N, stepOf (latestD d) ≤ N →
      ∃ d', trainRun k d N spc = .ok (List.range' (stepOf (latestD d)) (N - stepOf (latestD d)), d') ∧
        Coh d' ∧ latestD d' = some N := by
    intro d hc N hs
    refine ⟨saveAll k d ((trainSaves (stepOf (latestD d)) N spc).map (fun s => (s, s))), ?_,
      coh_saveAll k _ d hc, ?_⟩
    · unfold trainRun
      rw [restore_coh d hc]
      simp only [trainLoop_steps]
    · rw [latestD_saveAll k hk]
      rw [List.foldl_map]
      have := foldl_omax_last _ (latestD d) (max (stepOf (latestD d)) N) (Nat.le_max_left _ _)
        (trainSaves_le (stepOf (latestD d)) N spc)
      unfold trainSaves
      rw [Nat.max_eq_right hs] at this ⊢
      exact this
  obtain ⟨d₁, h1, hc1, hl1⟩ := run d hc N₁ hs
  have hs1 : stepOf (latestD d₁) = N₁ := by rw [hl1]; rfl
  obtain ⟨d₂, h2, hc2, hl2⟩ := run d₁ hc1 N₂ (by rw [hs1]; exact h12)
  obtain ⟨d₂', h2', hc2', hl2'⟩ := run d hc N₂ (Nat.le_trans hs h12)
  rw [hs1] at h2
  refine ⟨d₁, d₂, d₂', h1, ?_, h2, h2', ?_, ?_, ?_⟩
  · rw [restore_coh d₁ hc1, hl1]; rfl
  · have : N₂ - stepOf (latestD d) = (N₁ - stepOf (latestD d)) + (N₂ - N₁) := by omega
    rw [this, ← List.range'_append_1]
    congr 2
    omega
  · rw [restore_coh d₂ hc2, hl2]; rfl
  · rw [restore_coh d₂' hc2', hl2']; rfl

/-! ### trainer bookkeeping (`BasicFlaxTrainer`: derived counters, sessions, chains of sessions) -/

/-- ANY chain of trainer runs sharing one checkpoint directory (any number of runs, any targets `Nᵢ =
    ⌊len/b⌋·epochs` in any order — also smaller than what was already reached —, any checkpoint period,
    any `max_to_keep ≥ 1`): run `i` executes exactly the steps from the largest target reached so far up to
    `Nᵢ−1` (nothing if `Nᵢ` was already reached); concatenated, every step from the initial latest step to the
    largest target is executed exactly once, in order; the directory's latest step is that largest target. -/
theorem C20_resume_chain (k : Nat) (hk : 1 ≤ k) (cs : List TrainCfg) (hcs : ∀ c ∈ cs, c.Resuming)
    (d : Dir Nat) (hd : Coh d) :
    ∃ outs d', let s₀ := stepOf (latestD d); let Ns := cs.map (·.numSteps)
      trainChain k d cs = .ok (outs, d') ∧ outs = specChain s₀ Ns ∧
      outs.flatten = List.range' s₀ (Ns.foldl max s₀ - s₀) ∧ outs.flatten.Nodup ∧
      restore d' 0 true = .ok (Ns.foldl max s₀) := by
  obtain ⟨d', hch, hcoh, hlat⟩ := trainChain_spec k hk cs hcs d hd
  refine ⟨_, d', hch, rfl, specChain_flatten _ _, ?_, ?_⟩
  · rw [specChain_flatten]; exact List.nodup_range'
  · rw [restore_coh d' hcoh, hlat]

/-- One run that resumes (checkpointing on, no `variables0`): it starts at the latest step `s` of the
    directory, executes `s … N−1` with `N = ⌊len_train/b⌋·epochs`, step `s+i` consuming batch `i` of the run's own
    (re-started) training iterator; with logging on, the evaluation iterator is advanced by exactly
    `steps_per_eval · (⌊max(s,N)/L⌋ − ⌊s/L⌋)` batches (`L = log_every_steps`), and a second `train()` on the same
    object (`self.state` is not written back) repeats the same steps — on the NEXT `N−s` batches of the same iterator —
    without changing the directory (its saves are all skipped). -/
theorem C20_train_session (k : Nat) (hk : 1 ≤ k) (c : TrainCfg) (hc : c.Resuming) (d : Dir Nat) (hd : Coh d) :
    ∃ o o', let s := stepOf (latestD d)
      trainSession k c d = .ok o ∧ o.offset = s ∧
      o.events.map (·.step) = List.range' s (c.numSteps - s) ∧
      o.events.map (·.batch) = List.range (c.numSteps - s) ∧
      (c.logflag = true → o.evalBatches = c.stepsPerEval * (max s c.numSteps / c.logEvery - s / c.logEvery)) ∧
      restore o.dir 0 true = .ok (max s c.numSteps) ∧
      trainAgain k c o = .ok o' ∧ o'.events.map (·.step) = o.events.map (·.step) ∧
      o'.events.map (·.batch) = List.range' (c.numSteps - s) (c.numSteps - s) ∧ o'.dir = o.dir := by
  obtain ⟨o, o', ho, hagain, hev, hdir⟩ := trainAgain_spec k hk c hc d hd
  obtain ⟨o₂, ho₂, hoff, hsteps, hlog, hcoh, hlat⟩ := trainSession_spec k hk c hc d hd
  rw [ho] at ho₂; cases ho₂
  have hb : c.batchSize ≠ 0 := by have := hc.bs; omega
  obtain ⟨evs, hloop, _, _, _⟩ := sessionLoop_ok c (stepOf (latestD d)) (Or.inl ⟨hc.lg, hc.sp⟩)
  have hoffs : sessionOffset c d = .ok (stepOf (latestD d)) := by
    simp only [sessionOffset, hc.ck, hc.nv, Bool.not_false, Bool.and_self, if_true]
    exact restore_coh d hd
  have hcond : ¬ (stepOf (latestD d) < c.numSteps ∧ (c.logEvery = 0 ∨ c.spc = 0)) := by
    have := hc.lg; have := hc.sp; omega
  have hform : trainSession k c d = .ok o := ho
  simp only [trainSession, hb, if_false, hoffs, sessionLoop, hcond, hc.ck, if_true] at hform
  have hbatch : o.events.map (·.batch) = List.range (c.numSteps - stepOf (latestD d)) := by
    cases hform
    simp only [List.map_map, Function.comp_def]
    apply List.ext_getElem <;> simp
  have hlen : o.events.length = c.numSteps - stepOf (latestD d) := by
    have := congrArg List.length hbatch
    simpa using this
  refine ⟨o, o', ho, hoff, by rw [hoff] at hsteps; exact hsteps, hbatch, ?_, ?_, hagain, ?_, ?_, hdir⟩
  · intro hlf
    have hcnt := count_periodic c.logEvery hc.lg (stepOf (latestD d)) (c.numSteps - stepOf (latestD d))
    have hmax : stepOf (latestD d) + (c.numSteps - stepOf (latestD d)) = max (stepOf (latestD d)) c.numSteps := by omega
    rw [hmax] at hcnt
    rw [hoff] at hlog
    cases hform
    simp only [hlf, if_true]
    simp only at hlog
    rw [hlog, hcnt]
  · rw [restore_coh o.dir hcoh, hlat, hoff]; rfl
  · rw [hev]; simp [List.map_map, Function.comp_def]
  · rw [hev, List.map_map]
    have : (fun e : StepEv => e.batch + o.events.length) = (fun m => m + o.events.length) ∘ (fun e : StepEv => e.batch) := rfl
    simp only [Function.comp_def]
    rw [show (List.map (fun e : StepEv => e.batch + o.events.length) o.events) =
        (o.events.map (·.batch)).map (· + o.events.length) by simp [List.map_map, Function.comp_def]]
    rw [hbatch, hlen, List.range_eq_range']
    apply List.ext_getElem
    · simp
    · intro i h1 h2
      simp
      omega

/-- No resume when it is not asked for: without checkpointing, or with `variables0` given, a run starts at
    step 0 whatever the directory holds; without checkpointing the directory is left untouched. -/
theorem C20_train_fresh_start (k : Nat) (c : TrainCfg) (d : Dir Nat) (hb : 0 < c.batchSize)
    (h : c.checkpointing = false ∨ c.hasVars0 = true) (hz : (1 ≤ c.logEvery ∧ 1 ≤ c.spc) ∨ c.numSteps = 0) :
    ∃ o, trainSession k c d = .ok o ∧ o.offset = 0 ∧ o.events.map (·.step) = List.range c.numSteps ∧
      (c.checkpointing = false → o.dir = d) := by
  have hb' : c.batchSize ≠ 0 := by omega
  have hoffs : sessionOffset c d = .ok 0 := by
    rcases h with h | h <;> simp [sessionOffset, h]
  obtain ⟨evs, hloop, hsteps, _, _⟩ := sessionLoop_ok c 0 (by rcases hz with hz | hz; exact Or.inl hz; exact Or.inr (by omega))
  have hform : trainSession k c d = .ok ⟨0, evs,
      if c.logflag then c.stepsPerEval * (evs.filter (fun e : StepEv => e.logged)).length else 0,
      if c.checkpointing then saveAll k d ((((evs.filter (fun e : StepEv => e.ckpt)).map (fun e : StepEv => e.step + 1)) ++
        [max 0 c.numSteps]).map (fun s => (s, s))) else d⟩ := by
    simp only [trainSession, hb', if_false, hoffs, hloop]
  refine ⟨_, hform, rfl, ?_, ?_⟩
  · simp only [hsteps, Nat.sub_zero, List.range_eq_range']
  · intro hck; simp [hck]

/-- The rejections are real (nothing is totalised): `batch_size = 0` fails in `configure_steps`
    (`len_train // batch_size`); a checkpoint period or log period of 0 fails in the first loop iteration
    (`ZeroDivisionError`) — unless the loop is empty. -/
theorem C20_train_errors (k : Nat) (c : TrainCfg) (d : Dir Nat) :
    (c.batchSize = 0 → trainSession k c d = .error .other) ∧
    (∀ offset, offset < c.numSteps → (c.logEvery = 0 ∨ c.spc = 0) → sessionLoop c offset = .error .other) ∧
    (∀ offset, c.numSteps ≤ offset → sessionLoop c offset = .ok []) := by
  refine ⟨fun h => by simp [trainSession, h], fun offset h1 h2 => by simp [sessionLoop, h1, h2], ?_⟩
  intro offset h
  have hcond : ¬ (offset < c.numSteps ∧ (c.logEvery = 0 ∨ c.spc = 0)) := by omega
  simp only [sessionLoop, hcond, if_false, Nat.sub_eq_zero_of_le h]
  rfl

def exCfg0 (ep : Nat) : TrainCfg :=
  { lenTrain := 6, lenTest := 6, batchSize := 2, numEpochs := ep, spcOpt := some 2, logOpt := some 4, evalOpt := none,
    checkpointing := true, hasVars0 := false, logflag := true }

/-- The loop of `train()` run one iteration at a time (`loopStep`: append to `train_metrics`, test the log period, hand the list
    to `update_metrics` and empty it, test the checkpoint condition) against the closed form, for every configuration with
    periods ≥ 1 and every start offset: the recorded events are exactly those of `sessionLoop`; `update_metrics` is called at
    exactly the steps `s` with `L ∣ s+1`, and the list it receives at step `s` has `min(L, s+1−offset)` entries — a full window
    of `L` steps except for the first call of a resumed run, never empty; what is left in `train_metrics` at the end. -/
theorem C20_train_loop (c : TrainCfg) (hL : 1 ≤ c.logEvery) (hS : 1 ≤ c.spc) (offset : Nat) :
    let st := loopRun c offset
    let steps := List.range' offset (c.numSteps - offset)
    sessionLoop c offset = .ok st.evs ∧
    st.windows.map (·.1) = steps.filter (fun s => (s + 1) % c.logEvery == 0) ∧
    (∀ w ∈ st.windows, w.2 = min c.logEvery (w.1 + 1 - offset) ∧ 1 ≤ w.2) ∧
    st.metrics = min (c.numSteps - offset) ((offset + (c.numSteps - offset)) % c.logEvery) := by
  intro st steps
  have hspec : st = _ := loopRunN_spec c hL offset (c.numSteps - offset)
  have hcond : ¬ (offset < c.numSteps ∧ (c.logEvery = 0 ∨ c.spc = 0)) := by omega
  refine ⟨?_, ?_, ?_, ?_⟩
  · simp only [sessionLoop, hcond, if_false, hspec]; rfl
  · rw [hspec]; simp [List.map_map, Function.comp_def, steps]
  · intro w hw
    rw [hspec] at hw
    simp only [List.mem_map, List.mem_filter, List.mem_range'_1] at hw
    obtain ⟨s, ⟨hs, _⟩, rfl⟩ := hw
    exact ⟨rfl, by simp only; omega⟩
  · rw [hspec]

-- non-vacuity: resumed at step 3 of 9, log every 4: update_metrics at steps 3 and 7 with 1 and 4 entries; 1 entry left over
example : (loopRun (exCfg0 3) 3).windows = [(3, 1), (7, 4)] ∧ (loopRun (exCfg0 3) 3).metrics = 1 := by decide

/-- Data order of a resumed run: step `s+i` of a run that resumes at step `s` is trained on the rows the run's own
    iterator state machine (§3, started from the run's key) produces as its `i`-th batch, i.e. `specBatch … i` — the
    uninterrupted run would use `specBatch … (s+i)` for the same step.  For all sizes `1 ≤ b ≤ n`, all keys. -/
theorem C20_resume_data_order {κ : Type} (K : KeyOps κ) (key : κ) (k : Nat) (hk : 1 ≤ k) (c : TrainCfg) (hc : c.Resuming)
    (hb : 1 ≤ c.batchSize) (hbn : c.batchSize ≤ c.lenTrain) (d : Dir Nat) (hd : Coh d) :
    ∃ o it0 itT, let s := stepOf (latestD d)
      trainSession k c d = .ok o ∧ Iter.init K c.lenTrain c.batchSize true key = .ok it0 ∧
      Iter.run K (c.numSteps - s) it0 = .ok (itT, (sessionRows K key c.lenTrain c.batchSize o.events).map (·.2)) ∧
      (sessionRows K key c.lenTrain c.batchSize o.events).map (·.1) = List.range' s (c.numSteps - s) := by
  obtain ⟨o, _, ho, _, hsteps, hbatch, _, _, _, _, _, _⟩ := C20_train_session k hk c hc d hd
  obtain ⟨it0, itT, hinit, hrun⟩ := C20_epochs K key c.lenTrain c.batchSize true (c.numSteps - stepOf (latestD d)) hb hbn
  refine ⟨o, it0, itT, ho, hinit, ?_, ?_⟩
  · rw [hrun]
    simp only [sessionRows, List.map_map, Function.comp_def]
    rw [show (List.map (fun e : StepEv => specBatch K key c.lenTrain c.batchSize true e.batch) o.events) =
        (o.events.map (·.batch)).map (specBatch K key c.lenTrain c.batchSize true) by simp [List.map_map, Function.comp_def]]
    rw [hbatch]
  · simp only [sessionRows, List.map_map, Function.comp_def]
    exact hsteps

-- non-vacuity: the chain run on the real trainer (n=6, b=2 → 3 steps/epoch; epochs 1, 3, 3, 2; checkpoint every 2)
def exCfg (ep : Nat) : TrainCfg :=
  { lenTrain := 6, lenTest := 6, batchSize := 2, numEpochs := ep, spcOpt := some 2, logOpt := some 4, evalOpt := none,
    checkpointing := true, hasVars0 := false, logflag := true }
example : (exCfg 3).Resuming := ⟨by decide, rfl, rfl, by decide, by decide⟩
example : trainChain 3 none [exCfg 1, exCfg 3, exCfg 3, exCfg 2] =
    .ok ([[0, 1, 2], [3, 4, 5, 6, 7, 8], [], []], some [(6, 6), (8, 8), (9, 9)]) := by decide
example : (trainSession 3 (exCfg 3) (some [(2, 2), (3, 3)])).map (·.evalBatches) = .ok (3 * (9 / 4 - 3 / 4)) := by decide
example : (trainSession 3 { exCfg 3 with spcOpt := some 0 } none).map (·.offset) = .error .other := by decide
-- non-vacuity / the restart is visible: n = 7, b = 3 (2 steps per epoch), resumed at step 1 of 4: step 1 is trained on
-- batch 0 of the new iterator, [2,3,4]; the uninterrupted run trains step 1 on batch 1, [5,6,0]
example : (trainSession 3 { exCfg 2 with lenTrain := 7, batchSize := 3 } (some [(1, 1)])).map
    (fun o => sessionRows exK 0 7 3 o.events) = .ok [(1, [2, 3, 4]), (2, [5, 6, 0]), (3, [3, 4, 5])] := by decide
example : (trainSession 3 { exCfg 2 with lenTrain := 7, batchSize := 3 } none).map
    (fun o => sessionRows exK 0 7 3 o.events) = .ok [(0, [2, 3, 4]), (1, [5, 6, 0]), (2, [3, 4, 5]), (3, [6, 0, 1])] := by decide


-- non-vacuity: the sequence observed on the real trainer (n=6, b=2: 3 steps/epoch, checkpoint every 2)
example : trainRun 3 none 3 2 = .ok ([0, 1, 2], some [(2, 2), (3, 3)]) := by decide
example : trainRun 3 (some [(2, 2), (3, 3)]) 9 2 = .ok ([3, 4, 5, 6, 7, 8], some [(6, 6), (8, 8), (9, 9)]) := by
  decide
example : Coh none ∧ stepOf (latestD (none : Dir Nat)) ≤ 3 := ⟨fun l h => (by cases h), (by decide)⟩
example : restore (saveAll 3 none [(5, "a"), (2, "b"), (7, "c"), (9, "d"), (9, "e"), (12, "f")]) "" false
    = .ok "f" := by decide
example : saveAll 3 none [(5, "a"), (2, "b"), (7, "c"), (9, "d"), (9, "e"), (12, "f")]
    = some [(7, "c"), (9, "d"), (12, "f")] := by decide

end Scico.Props.C20
