import Scico.Common.Wire
import Scico.Model.Cache
open Lean Scico.Wire Scico.Cache

/-- descriptor of an array: (shape, dtype code) -/
abbrev Desc := List Nat × Nat

def getDesc? (j : Json) : Option Desc := do
  let s ← fNats? j "shape"
  let d ← fNat? j "dtype"
  some (s, d)

/-- the operators of the driver are their descriptors, tagged with the number of the build that made them
    (so that "rebuilt" is observable) — the spec is the current code: key = (shape, dtype) -/
def tvSpec (shapeOnly : Bool) : TVSpec Desc Desc Desc Desc :=
  if shapeOnly then ⟨fun i => (i.1, 0), fun w => (w.1, 0), fun w => (w.1, 0), id, id⟩
  else ⟨id, id, id, id, id⟩

def jDesc (d : Desc) : Json := jObj [("shape", jNs d.1), ("dtype", jN d.2)]

def jOptDesc : Option Desc → Json
  | none => Json.null
  | some d => jDesc d

def tvRun (S : TVSpec Desc Desc Desc Desc) : List Json → TV Desc Desc → List Json → Option (List Json)
  | [], _, acc => some acc.reverse
  | o :: os, s, acc => do
    let kind ← fStr? o "k"
    let i ← getDesc? o
    let op ← match kind with
      | "call" => some (TVOp.call i)
      | "prox" => some (TVOp.prox i)
      | _ => none
    let (s', used) := TV.step S s op
    let rebuilt := match op with
      | .call _ => (match s.G with | none => true | some w => decide (S.gKey w ≠ S.keyOf i))
      | .prox _ => (match s.P with | none => true | some w => decide (S.pKey w ≠ S.keyOf i))
    let u := match used with | .inl w => w | .inr w => w
    tvRun S os s' (jObj [("used", jDesc u), ("rebuilt", jB rebuilt), ("G", jOptDesc s'.G), ("P", jOptDesc s'.P)] :: acc)


def ctxRun (concrete : Bool) : List Json → Option (Built Desc) → List Json → Option (List Json)
  | [], _, acc => some acc.reverse
  | o :: os, slot, acc => do
    let i ← getDesc? o
    let t ← fInt? o "c"
    let c : ExecCtx := if t < 0 then .eager else .trace t.toNat
    let (slot', r) := queryCtx concrete (fun w : Desc => w) (fun i : Desc => i) (fun i => i) slot c i
    let res := match r with | .ok _ => "ok" | .error _ => "leak"
    ctxRun concrete os slot' (jS res :: acc)

def lossOp? (o : Json) : Option (LossOp Float) := do
  let kind ← fStr? o "k"
  match kind with
  | "new" => some (.new (← fFloat? o "s"))
  | "mul" => some (.mul (← fNat? o "i") (← fFloat? o "c"))
  | "div" => some (.div (← fNat? o "i") (← fFloat? o "c"))
  | "set" => some (.setScale (← fNat? o "i") (← fFloat? o "s"))
  | _ => none

def jOptN : Option Nat → Json
  | none => Json.null
  | some n => jN n

def handler : Handler := fun op j =>
  match op with
  | "tv" => do
    let shapeOnly := (fBool? j "shape_only").getD false
    let S := tvSpec shapeOnly
    let pre : Option Desc := (field? j "pre").bind getDesc?
    let ops ← fList? j "ops"
    (tvRun S ops (TV.init S pre) []).map (fun rs => ok (jArr rs))
  | "ctx" => do
    let concrete ← fBool? j "concrete"
    let ops ← fList? j "ops"
    (ctxRun concrete ops none []).map (fun rs => ok (jArr rs))
  | "loss" => do
    let ops ← (fList? j "ops").bind (fun l => l.mapM lossOp?)
    let h := Heap.run ([] : Heap Float) ops
    some (ok (jObj [("scales", jFs (h.map (·.scale))), ("gradOf", jNs (h.map (·.gradOf))),
      ("spec", jFs (specScales [] ops))]))
  | "attach" => do
    let ss ← fNats? j "helpers"
    let w := World.run World.empty ss
    some (ok (jArr ((List.range ss.length).map (fun a => jOptN (w.readsFrom a)))))
  | "rng" => do
    -- keys and seeds travel as integers; a "key" is here an opaque integer handle chosen by the harness
    let numParams ← fNat? j "num_params"
    let nargs ← fNat? j "nargs"
    let oi (k : String) : Option (Option Int) := match field? j k with
      | none => none | some .null => some none | some v => (getInt? v).map some
    let posKey ← oi "pos_key"
    let posSeed ← oi "pos_seed"
    let kwKey ← oi "kw_key"
    let kwSeed ← oi "kw_seed"
    -- symbolic ops: keys ≥ 0 are handles of explicit keys, seeds map to handle -(seed+1)… kept symbolic:
    -- result reports which source the draw uses
    let R : RngOps (String × Int) Unit Unit := ⟨fun s => ("seed", s), fun k => ((k.1 ++ "+adv", k.2), k), fun _ _ => ()⟩
    let toK (o : Option Int) : Option (String × Int) := o.map (fun v => ("key", v))
    match rngCall R numParams nargs (toK posKey) posSeed (toK kwKey) kwSeed (fun k => k) with
    | .error _ => some (err "value")
    | .ok (used, ret) => some (ok (jObj [("src", jS used.1), ("val", jI used.2), ("ret_src", jS ret.1), ("ret_val", jI ret.2)]))
  | "opts" => do
    -- constructor options / shared defaults: values are integers
    let pat ← match (← fStr? j "pattern") with
      | "byRef" => some OptPattern.byRef | "copyUpdate" => some OptPattern.copyUpdate
      | "classUpdate" => some OptPattern.classUpdate | _ => none
    let getDict (v : Json) : Option (Dict Int) := (getListOf? (fun kv => do
        let a ← getListOf? some kv
        match a with
        | [k, x] => some ((← getStr? k), (← getInt? x))
        | _ => none) v)
    let lit ← (field? j "lit").bind getDict
    let ops ← (fList? j "ops").bind (fun l => l.mapM (fun o => do
      match (← fStr? o "k") with
      | "dict" => some (OptOp.userDict (← (field? o "d").bind getDict))
      | "ctor" => match field? o "arg" with
        | none => some (OptOp.ctor none) | some .null => some (OptOp.ctor none)
        | some v => (getNat? v).map (fun a => OptOp.ctor (some a))
      | "mut" => some (OptOp.mutate (← fNat? o "id") (← fStr? o "key") (← fInt? o "val"))
      | _ => none))
    let jDict (d : Dict Int) : Json := jArr (d.map (fun kv => jArr [jS kv.1, jI kv.2]))
    -- the state after every operation (so that the harness can compare step by step)
    let step (acc : OptWorld Int × List Json) (o : OptOp Int) : OptWorld Int × List Json :=
      let w := acc.1.apply pat lit o
      (w, jObj [("insts", jNs w.insts), ("dicts", jArr (w.dicts.map jDict))] :: acc.2)
    let r := ops.foldl step (OptWorld.init lit, [])
    some (ok (jArr r.2.reverse))
  | "jit" => do
    let v ← match (← fStr? j "variant") with
      | "adjFn" => some LinOpVariant.adjFn | "classAdj" => some LinOpVariant.classAdj | "plain" => some LinOpVariant.plain | _ => none
    let jitOpt ← fBool? j "jit"
    let ops ← (field? j "ops").bind (getListOf? (fun o => do
      match (← getStr? o) with
      | "jit" => some LinOpOp.jit | "call" => some LinOpOp.call | "adj" => some LinOpOp.adj
      | "gram" => some LinOpOp.gram | "gramOp" => some LinOpOp.gramOp | _ => none))
    let jSrc : AdjSrc → Json
      | .given => jS "given" | .classMethod => jS "classMethod" | .derived => jS "derived"
    let jSt (s : LinOpState) : Json := jObj [("eval", jN s.evalDepth),
      ("adj", match s.adj with | none => Json.null | some a => jArr [jSrc a.1, jN a.2]),
      ("gram", match s.gram with | none => Json.null | some g => jN g)]
    let step (acc : LinOpState × List Json) (o : LinOpOp) : LinOpState × List Json :=
      let s := acc.1.step o
      (s, jSt s :: acc.2)
    let own := (fBool? j "own").getD false     -- MatrixOperator: own adj / gram / gram_op
    let step := if own then (fun (acc : LinOpState × List Json) (o : LinOpOp) =>
      let s := acc.1.stepOwn o; (s, jSt s :: acc.2)) else step
    let s0 := LinOpState.init v jitOpt
    let r := ops.foldl step (s0, [jSt s0])
    some (ok (jArr r.2.reverse))
  | "trace" => do
    -- cached traces: which value of each attribute a call with signature `probe` computes with
    let traced ← (field? j "traced").bind (getListOf? getStr?)
    let names ← (field? j "names").bind (getListOf? getStr?)
    let init ← fInt? j "init"
    let probe ← fNat? j "probe"
    let ops ← (fList? j "ops").bind (fun l => l.mapM (fun o => do
      match (← fStr? o "k") with
      | "set" => some (TraceOp.set (← fStr? o "a") (← fInt? o "v"))
      | "call" => some (TraceOp.call (← fNat? o "sig"))
      | _ => none))
    let o := TracedObj.run (⟨fun _ => init, []⟩ : TracedObj Int) ops
    let eff := o.effective (fun a => traced.contains a) probe
    some (ok (jArr (names.map (fun a => jI (eff a)))))
  | _ => none

def main : IO Unit := mainLoop handler
