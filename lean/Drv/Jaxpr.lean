import Scico.Common.Wire
import Scico.Model.Jaxpr
open Lean Scico.Wire Scico.Jaxpr

/-!
  Driver of the Jaxpr engine (C06).

  * `check` : `{nin, eqns:[[cls, prim, [params], [args]]…], outs}` → verdict of `Scico.Jaxpr.check`, the tag of every
              variable, index of the first equation tagged `bad`.  Classes travel as strings
              `lit0 | lit1 | linAll | bilinear | divLike | realPart | conj | nonlin` (`lit1` = literal known to be zero).
  * `run`   : the same program executed by `Scico.Jaxpr.run` at `Float` under the scalar interpretation below, on the
              given input leaves (`x`: list of bit patterns) with the literal table `consts` → output leaves.

  * `applydesc` : `{rows: [[[operand, entry, coefficient]…]…], xs: [[…]…]}` → `Scico.Jaxpr.applyDescG` (the row-finite
              sparse matrix family proved linear in `Proofs/JaxprArray.lean`) evaluated at `Float` on the operand
              arrays `xs`, entries `0 … rows.length-1` (harness/jaxpr_family.py compares with the JAX primitive).

  * `runfam` : `{nin, eqns, outs, tabs, x, sizes}` → `Scico.Jaxpr.run` of the program under the family interpretation
              `famDen` (Model/Jaxpr.lean; at ℂ `Fam.famInterp`, proved sound for every table) at complex floats: equation `k`
              carries primitive id `k` and `tabs[k]` is its table (sparse rows / bilinear rows / quotient index pairs /
              real-part rows / literal values), `x` the input leaves as `[re, im]` pairs, `sizes` the output sizes.

  scalar interpretation (`V = Float`):
    lit1 _ = 0, lit0 k = consts[k];  linAll 0 = Σ args, 1 = −a, 2 = a (copy), 3 = where(p ≠ 0, a, 0), 4 = a − b;
    bilinear _ = a·b;  divLike _ = a/b;  realPart _ = a;  conj _ = a;  nonlin 0 = |a|, 1 = max(a,b), 2 = a², _ = a·|a|
-/

def clsOfString : String → Option PClass
  | "lit0" => some (.lit false)
  | "lit1" => some (.lit true)
  | "linAll" => some .linAll
  | "bilinear" => some .bilinear
  | "divLike" => some .divLike
  | "realPart" => some .realPart
  | "conj" => some .conj
  | "nonlin" => some .nonlin
  | _ => none

def eqnOfJson (j : Json) : Option Eqn :=
  match getList? j with
  | some [c, p, ps, as] => do
    let cls ← (getStr? c).bind clsOfString
    some ⟨cls, ← getNat? p, ← getNats? ps, ← getNats? as⟩
  | _ => none

def progOfJson (j : Json) : Option Prog := do
  let nin ← fNat? j "nin"
  let eqns ← (← fList? j "eqns").mapM eqnOfJson
  let outs ← fNats? j "outs"
  some ⟨nin, eqns, outs⟩

def tagToString : Tag → String
  | .const true => "const(zero)"
  | .const false => "const(nonzero)"
  | .linC => "linC"
  | .antiC => "antiC"
  | .linR => "linR"
  | .bad => "bad"

def firstBad (tags : List Tag) (nin : Nat) : Option Nat :=
  (tags.drop nin).findIdx? (· == .bad)

def fabs (a : Float) : Float := if a < 0 then -a else a

def scalarInterp (consts : List Float) : Interp Float where
  den cls prim ps xs :=
    let a := xs.headD 0
    let b := (xs.drop 1).headD 0
    match cls, prim with
    | .lit true, _ => 0
    | .lit false, k => consts.getD k 0
    | .linAll, 0 => xs.foldl (· + ·) 0
    | .linAll, 1 => -a
    | .linAll, 2 => a
    | .linAll, 3 => if (ps.headD 0) < 0 || 0 < (ps.headD 0) then a else 0
    | .linAll, 4 => a - b
    | .linAll, _ => 0
    | .bilinear, _ => a * b
    | .divLike, _ => a / b
    | .realPart, _ => a
    | .conj, _ => a
    | .nonlin, 0 => fabs a
    | .nonlin, 1 => if a < b then b else a
    | .nonlin, 2 => a * a
    | .nonlin, _ => a * fabs a

instance : Zero Float := ⟨0.0⟩

/-! complex floats: the scalar type at which the family (`famDen`) is run against JAX -/

structure CF where
  re : Float
  im : Float

instance : Zero CF := ⟨⟨0, 0⟩⟩
instance : Add CF := ⟨fun a b => ⟨a.re + b.re, a.im + b.im⟩⟩
instance : Mul CF := ⟨fun a b => ⟨a.re * b.re - a.im * b.im, a.re * b.im + a.im * b.re⟩⟩
instance : Div CF := ⟨fun a b =>
  if b.im < 0 || 0 < b.im then
    let d := b.re * b.re + b.im * b.im
    ⟨(a.re * b.re + a.im * b.im) / d, (a.im * b.re - a.re * b.im) / d⟩
  else ⟨a.re / b.re, a.im / b.re⟩⟩
instance : Zero (Nat → CF) := ⟨fun _ => 0⟩

def cfOfJson (j : Json) : Option CF :=
  match getList? j with
  | some [a, b] => do some ⟨← getFloat? a, ← getFloat? b⟩
  | _ => none

def cfsOfJson (j : Json) : Option (Array CF) := (getList? j).bind fun l => (l.mapM cfOfJson).map List.toArray

def jCF (z : CF) : Json := jArr [jF z.re, jF z.im]

/-- one equation's table: `["lin", rows] | ["bil", rows] | ["div", pairs] | ["re", rows] | ["lit", values] | ["none"]` -/
inductive Tab where
  | lin (rows : Array (List (Term CF)))
  | bil (rows : Array (List (Nat × Nat × CF)))
  | dv (pairs : Array (Nat × Nat))
  | rp (rows : Array (List (Nat × CF)))
  | lit (vals : Array CF)
  | none

def term3 (j : Json) : Option (Nat × Nat × CF) :=
  match getList? j with
  | some [a, b, c] => do some (← getNat? a, ← getNat? b, ← cfOfJson c)
  | _ => Option.none

def term2 (j : Json) : Option (Nat × CF) :=
  match getList? j with
  | some [a, c] => do some (← getNat? a, ← cfOfJson c)
  | _ => Option.none

def pair2 (j : Json) : Option (Nat × Nat) :=
  match getList? j with
  | some [a, b] => do some (← getNat? a, ← getNat? b)
  | _ => Option.none

def rowsOf {β} (f : Json → Option β) (j : Json) : Option (Array (List β)) :=
  (getList? j).bind fun l => (l.mapM fun r => (getList? r).bind (·.mapM f)).map List.toArray

def tabOfJson (j : Json) : Option Tab :=
  match getList? j with
  | some [k, v] =>
    match getStr? k with
    | some "lin" => (rowsOf term3 v).map Tab.lin
    | some "bil" => (rowsOf term3 v).map Tab.bil
    | some "div" => ((getList? v).bind fun l => (l.mapM pair2).map List.toArray).map Tab.dv
    | some "re" => (rowsOf term2 v).map Tab.rp
    | some "lit" => (cfsOfJson v).map Tab.lit
    | _ => Option.none
  | some [_] => some Tab.none
  | _ => Option.none

def famTables (tabs : Array Tab) : FamTables CF where
  lin p _ i := match tabs.getD p .none with | .lin r => r.getD i [] | _ => []
  bil p i := match tabs.getD p .none with | .bil r => r.getD i [] | _ => []
  dv p i := match tabs.getD p .none with | .dv r => r.getD i (0, 0) | _ => (0, 0)
  rp p i := match tabs.getD p .none with | .rp r => r.getD i [] | _ => []
  lit p i := match tabs.getD p .none with | .lit r => r.getD i 0 | _ => 0

def termOfJson (j : Json) : Option (Term Float) :=
  match getList? j with
  | some [k, e, c] => do some (← getNat? k, ← getNat? e, ← getFloat? c)
  | _ => none

def handler : Handler := fun op j =>
  match op with
  | "check" => do
    let p ← progOfJson j
    let tags := progTags p
    some (ok (jObj [("tag", jS (tagToString (check p))),
                    ("fast", jS (tagToString (checkFast p))),
                    ("tags", jArr (tags.map (fun t => jS (tagToString t)))),
                    ("first_bad", match firstBad tags p.nin with | some k => jN k | none => Json.null)]))
  | "run" => do
    let p ← progOfJson j
    let consts ← fFloats? j "consts"
    let x ← fFloats? j "x"
    if x.length = p.nin then
      let xv : Fin p.nin → Float := fun i => x.getD i.val 0
      let y := run (scalarInterp consts) p xv
      some (ok (jFs (List.ofFn y)))
    else some (err "shape")
  | "applydesc" => do
    let rows ← (← fList? j "rows").mapM (fun r => (getList? r).bind (·.mapM termOfJson))
    let xs ← (← fList? j "xs").mapM getFloats?
    let rowsA := rows.toArray
    let xsF : List (Nat → Float) := xs.map fun l => let a := l.toArray; fun i => a.getD i 0
    let y := applyDescG (fun i => rowsA.getD i []) xsF
    some (ok (jFs ((List.range rows.length).map y)))
  | "combinekind" => do
    -- the model's dispatch rule of the operator calculus (Model/Jaxpr.lean: combineKind)
    let k? : String → Option OpKind := fun s => if s = "linear" then some .linear else if s = "nonlinear" then some .nonlinear else none
    let a ← (fStr? j "a").bind k?
    let b ← (fStr? j "b").bind k?
    some (ok (jS (match combineKind a b with | .linear => "linear" | .nonlinear => "nonlinear")))
  | "runfam" => do
    -- the model's `run` under the family interpretation `famDen` (proved sound at ℂ for every table) at complex floats
    let p ← progOfJson j
    let tabs ← (← fList? j "tabs").mapM tabOfJson
    let xs ← (← fList? j "x").mapM cfsOfJson
    let sizes ← fNats? j "sizes"
    if xs.length = p.nin then
      let F := famTables tabs.toArray
      let I : Interp (Nat → CF) := ⟨famDen (fun z => ⟨z.re, 0⟩) (fun z => ⟨z.re, -z.im⟩) (fun _ _ _ => 0) F⟩
      let xv : Fin p.nin → (Nat → CF) := fun i => let a := xs.getD i.val #[]; fun k => a.getD k 0
      let y := run I p xv
      let outs := (List.ofFn y).zip sizes
      some (ok (jArr (outs.map fun (f, n) => jArr ((List.range n).map fun k => jCF (f k)))))
    else some (err "shape")
  | _ => none

def main : IO Unit := mainLoop handler
