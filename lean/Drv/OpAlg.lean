/-
  Driver of the OpAlg engine (C05, C12 part 2): expression trees over `Cx Float`.

  request  {"op":"expr","cfg":"fixed"|"legacy"|[6 bools],"e":<tree>,"xs":[[re,im,...]...],"ys":[...]}
  reply    ok {meta…, "eval":[…], "adj":[…], "den":[[…]], "evalDt":…, "adjDt":…}  |  err <kind>
-/
import Scico.Common.Wire
import Scico.Model.OpAlg
open Lean Scico.Wire Scico.OpAlg Scico.DType

abbrev C := Cx Float

def getCx? (j : Json) : Option C := do
  let l ← getList? j
  match l with
  | [a, b] => some ⟨← getFloat? a, ← getFloat? b⟩
  | _ => none

def jCx (z : C) : Json := jArr [jF z.re, jF z.im]

def getCxs? (j : Json) : Option (Array C) := do
  let l ← getList? j
  let xs ← l.mapM getCx?
  some xs.toArray

def vecOf (a : Array C) : V C := fun i => a.getD i 0
def vcOf (a : Array C) : Vc C := ⟨a.size, vecOf a⟩

def matOf (n : Nat) (a : Array C) : Mx C := fun i j => if j < n then a.getD (i * n + j) 0 else 0

def getShape? (j : Json) : Option Shape := do
  let l ← getList? j
  match l with
  | [] => some (.plain [])
  | x :: _ =>
    match x with
    | .arr _ => do
      let bs ← l.mapM getNats?
      some (.nested bs)
    | _ => do
      let d ← l.mapM getNat?
      some (.plain d)

def jShape : Shape → Json
  | .plain d => jNs d
  | .nested bs => jArr (bs.map jNs)

def getDT? (j : Json) : Option DT := (getStr? j).bind DT.ofName?
def fDT? (j : Json) (k : String) : Option DT := (field? j k).bind getDT?
def fShape? (j : Json) (k : String) : Option Shape := (field? j k).bind getShape?

def optField? {β} (j : Json) (k : String) (f : Json → Option β) : Option (Option β) :=
  match field? j k with
  | none => some none
  | some .null => some none
  | some v => (f v).map some

def getKind? (j : Json) : Option ScalKind := do
  let s ← fStr? j "kind"
  match s with
  | "int" => some .pyInt
  | "float" => some .pyFloat
  | "complex" => some .pyComplex
  | "np" => do some (.np (← fDT? j "dt"))
  | "jx" => do some (.jx (← fDT? j "dt"))
  | "arr" => some .arr
  | "str" => some .str
  | _ => none

def getScal? (j : Json) : Option (Scal C) := do
  let v ← (field? j "v").bind getCx?
  some ⟨v, ← getKind? j⟩

partial def getExpr? (j : Json) : Option (LExpr C) := do
  let t ← fStr? j "t"
  let sub (k : String) : Option (LExpr C) := (field? j k).bind getExpr?
  match t with
  | "mat" => do
    let m ← fNat? j "m"; let n ← fNat? j "n"
    let a ← (field? j "A").bind getCxs?
    some (.mat m n (← fDT? j "dt") (matOf n a))
  | "diag" => do
    let d ← (field? j "d").bind getCxs?
    some (.diag (← fShape? j "dsh") (← fDT? j "ddt") (← optField? j "insh" getShape?)
      (← optField? j "indt" getDT?) (vecOf d))
  | "sid" => do
    let c ← getScal? (← field? j "c")
    some (.scaledId c.val c.kind (← fShape? j "sh") (← fDT? j "dt"))
  | "ident" => do some (.ident (← fShape? j "sh") (← fDT? j "dt"))
  | "lin" => do
    let insh ← fShape? j "insh"; let outsh ← fShape? j "outsh"
    let g ← (field? j "G").bind getCxs?
    some (.lin insh outsh (← fDT? j "indt") (← fDT? j "gdt") (← fBool? j "hasadj") (matOf insh.size g))
  | "nonlin" => do
    let insh ← fShape? j "insh"; let outsh ← fShape? j "outsh"
    let g ← (field? j "G").bind getCxs?
    some (.nonlin insh outsh (← fDT? j "indt") (← fDT? j "gdt") (matOf insh.size g))
  | "add" => do some (.add (← sub "a") (← sub "b"))
  | "sub" => do some (.sub (← sub "a") (← sub "b"))
  | "neg" => do some (.neg (← sub "a"))
  | "smulL" => do some (.smulL (← getScal? (← field? j "c")) (← sub "a"))
  | "smulR" => do some (.smulR (← sub "a") (← getScal? (← field? j "c")))
  | "sdiv" => do some (.sdiv (← sub "a") (← getScal? (← field? j "c")))
  | "rdiv" => do some (.rdiv (← getScal? (← field? j "c")) (← sub "a"))
  | "addS" => do
    some (.addS (← fBool? j "sub") (← fBool? j "rev") (← sub "a") (← getScal? (← field? j "c")))
  | "had" => do some (.had (← fBool? j "div") (← sub "a") (← sub "b"))
  | "comp" => do some (.comp (← sub "a") (← sub "b"))
  | "matmul" => do some (.matmul (← sub "a") (← sub "b"))
  | "T" => do some (.T (← sub "a"))
  | "H" => do some (.H (← sub "a"))
  | "conj" => do some (.conj (← sub "a"))
  | "gram" => do some (.gram (← sub "a"))
  | _ => none

def getCfg? (j : Json) : Option Cfg :=
  match field? j "cfg" with
  | none => some Cfg.fixed
  | some (.str "fixed") => some Cfg.fixed
  | some (.str "legacy") => some Cfg.legacy
  | some v => do
    let l ← getListOf? getBool? v
    match l with
    | [a, b, c, d, e, f] => some ⟨a, b, c, d, e, f⟩
    | _ => none

def jDtRes : Except Err DT → Json
  | .ok d => jS d.name
  | .error e => jS ("err:" ++ e.name)

def vecOut (n : Nat) (v : V C) : Json := jArr ((List.range n).map (fun i => jCx (v i)))

def handler : Handler := fun op j =>
  match op with
  | "expr" => do
    let cfg ← getCfg? j
    let e ← getExpr? (← field? j "e")
    let xs ← (optField? j "xs" (getListOf? getCxs?))
    let ys ← (optField? j "ys" (getListOf? getCxs?))
    let wantDen := (fBool? j "den").getD false
    match buildC cfg e with
    | .error k => some (err k.name)
    | .ok o =>
      let md := o.md
      let n := md.inShape.size
      let m := md.outShape.size
      let evs := (xs.getD []).map (fun x => vecOut m (o.eval (vcOf x)).get)
      let ads := (ys.getD []).map (fun y => vecOut n (o.adj (vcOf y)).get)
      let d := den e
      let denJ := if wantDen then
          jArr ((List.range m).map (fun i => jArr ((List.range n).map (fun k => jCx (d i k)))))
        else Json.null
      let dm := dims e
      some (ok (jObj [
        ("cls", jS md.cls.name), ("in_shape", jShape md.inShape), ("out_shape", jShape md.outShape),
        ("in_dtype", jS md.inDt.name), ("out_dtype", jS md.outDt.name),
        ("matrix_shape", jNs [md.matrixShape.1, md.matrixShape.2]),
        ("dims", jNs [dm.1, dm.2]),
        ("eval", jArr evs), ("adj", jArr ads), ("den", denJ),
        ("eval_dt", jDtRes (o.evalDt md.inDt)),
        ("adj_dt", jDtRes (o.adjCallDt md.outDt)),
        ("call_arr", match (optField? j "probe_xsh" getShape?) with
            | some (some sh) => (match o.callArr sh zeroV with
                | .ok _ => jS "ok"
                | .error k => jS ("err:" ++ k.name))
            | _ => Json.null),
        ("adj_arr", match (optField? j "probe_ysh" getShape?), (optField? j "probe_ydt" getDT?) with
            | some (some sh), some (some dt) => (match o.adjArr sh dt zeroV with
                | .ok _ => jDtRes (o.adjDt dt)
                | .error k => jS ("err:" ++ k.name))
            | _, _ => Json.null),
        ("adj_dt_actual", jDtRes (match o.evalDt md.inDt with
            | .ok d => o.adjCallDt d
            | .error e => .error e))]))
  | "stack" => do
    let es ← (field? j "es").bind (getListOf? getExpr?)
    let kind ← fStr? j "kind"
    let lin := (fBool? j "lin").getD true
    let cIn := (fBool? j "cin").getD true
    let cOut := (fBool? j "cout").getD true
    let xs ← (optField? j "xs" (getListOf? getCxs?))
    let ys ← (optField? j "ys" (getListOf? getCxs?))
    let r := if kind == "v" then buildVStack lin es cOut else buildDStack lin es cIn cOut
    match r with
    | .error k => some (err k.name)
    | .ok o =>
      let md := o.md
      let n := md.inShape.size
      let m := md.outShape.size
      let evs := (xs.getD []).map (fun x => vecOut m (o.eval (vcOf x)).get)
      let ads := if lin then (ys.getD []).map (fun y => vecOut n (o.adj (vcOf y)).get) else []
      some (ok (jObj [
        ("cls", jS md.cls.name), ("in_shape", jShape md.inShape), ("out_shape", jShape md.outShape),
        ("in_dtype", jS md.inDt.name), ("out_dtype", jS md.outDt.name),
        ("matrix_shape", jNs [md.matrixShape.1, md.matrixShape.2]),
        ("eval", jArr evs), ("adj", jArr ads),
        ("eval_dt", jDtRes (o.evalDt md.inDt)),
        ("adj_dt", if lin then jDtRes (o.adjCallDt md.outDt) else Json.null)]))
  | "freeze" => do
    let e ← getExpr? (← field? j "e")
    let k ← fInt? j "k"
    let vsh ← fShape? j "vsh"
    let vdt ← fDT? j "vdt"
    let val ← (field? j "val").bind getCxs?
    let xs ← (optField? j "xs" (getListOf? getCxs?))
    match build e with
    | .error kd => some (err kd.name)
    | .ok o =>
      match freeze o k vsh vdt (vcOf val) with
      | .error kd => some (err kd.name)
      | .ok r =>
        let md := r.md
        let m := md.outShape.size
        some (ok (jObj [
          ("cls", jS md.cls.name), ("in_shape", jShape md.inShape), ("out_shape", jShape md.outShape),
          ("in_dtype", jS md.inDt.name), ("out_dtype", jS md.outDt.name),
          ("matrix_shape", jNs [md.matrixShape.1, md.matrixShape.2]),
          ("eval", jArr ((xs.getD []).map (fun x => vecOut m (r.eval (vcOf x)).get))),
          ("eval_dt", jDtRes (r.evalDt md.inDt))]))
  | "fn" => do
    -- Function((S_1..S_N), output (m,), eval = Σ_p G_p · a_p) : slice / join
    let shapes ← (field? j "shapes").bind (getListOf? getShape?)
    let dts ← (field? j "dts").bind (getListOf? getDT?)
    let gdt ← fDT? j "gdt"
    let m ← fNat? j "m"
    let gs ← (field? j "Gs").bind (getListOf? getCxs?)
    let mode ← fStr? j "mode"
    let xs ← (optField? j "xs" (getListOf? getCxs?))
    let sizes := shapes.map Shape.size
    let evalF : List (Vc C) → Vc C := fun args =>
      trunc m (fun i =>
        ((gs.zip (sizes.zip args)).map (fun (g, (n, a)) =>
          sumTo n (fun q => (matOf n g) i q * a.get q))).foldl (· + ·) 0)
    let outDt := dts.foldl resultType gdt
    let f : Fn C := { inShapes := shapes, inDts := dts, outShape := .plain [m], outDt := outDt,
                      eval := evalF, evalDt := fun ds => .ok (ds.foldl resultType gdt) }
    let r := if mode == "slice" then do
        let k ← fInt? j "k"
        let fix ← (field? j "fix").bind (getListOf? getCxs?)
        let fixdts ← (field? j "fixdts").bind (getListOf? getDT?)
        some (f.slice k (fix.map vcOf) fixdts)
      else some f.join
    match ← r with
    | .error kd => some (err kd.name)
    | .ok o =>
      let md := o.md
      some (ok (jObj [
        ("cls", jS md.cls.name), ("in_shape", jShape md.inShape), ("out_shape", jShape md.outShape),
        ("in_dtype", jS md.inDt.name), ("out_dtype", jS md.outDt.name),
        ("matrix_shape", jNs [md.matrixShape.1, md.matrixShape.2]),
        ("eval", jArr ((xs.getD []).map (fun x => vecOut m (o.eval (vcOf x)).get))),
        ("eval_dt", jDtRes (o.evalDt md.inDt))]))
  | "drep" => do
    let e ← getExpr? (← field? j "e")
    let lin := (fBool? j "lin").getD true
    let nrep ← fNat? j "N"
    let ia ← fInt? j "ia"
    let oa ← optField? j "oa" getInt?
    let xs ← (optField? j "xs" (getListOf? getCxs?))
    let ys ← (optField? j "ys" (getListOf? getCxs?))
    match build e with
    | .error kd => some (err kd.name)
    | .ok o =>
      match drep lin o nrep ia oa with
      | .error kd => some (err kd.name)
      | .ok r =>
        let md := r.md
        let n := md.inShape.size
        let m := md.outShape.size
        some (ok (jObj [
          ("cls", jS md.cls.name), ("in_shape", jShape md.inShape), ("out_shape", jShape md.outShape),
          ("in_dtype", jS md.inDt.name), ("out_dtype", jS md.outDt.name),
          ("matrix_shape", jNs [md.matrixShape.1, md.matrixShape.2]),
          ("eval", jArr ((xs.getD []).map (fun x => vecOut m (r.eval (vcOf x)).get))),
          ("adj", jArr (if lin then (ys.getD []).map (fun y => vecOut n (r.adj (vcOf y)).get) else [])),
          ("eval_dt", jDtRes (r.evalDt md.inDt)),
          ("adj_dt", if lin then jDtRes (r.adjCallDt md.outDt) else Json.null)]))
  | "conv" => do
    -- Convolve(h_a,(n,),mode_a) (+|-) Convolve(h_b,...)  |  c*A  |  A/c   (1-d, same-class closed forms)
    let mk (pre : String) : Option (ConvOp C) := do
      let h ← (field? j (pre ++ "h")).bind getCxs?
      let md ← fStr? j (pre ++ "mode")
      let mode ← (match md with
        | "full" => some Scico.LinOps.ConvMode.full
        | "valid" => some Scico.LinOps.ConvMode.valid
        | "same" => some Scico.LinOps.ConvMode.same
        | _ => none)
      some ⟨vecOf h, h.size, ← fNat? j (pre ++ "n"), mode, ← fDT? j (pre ++ "indt"), ← fDT? j (pre ++ "hdt")⟩
    let a ← mk "a_"
    let what ← fStr? j "what"
    let xs ← (optField? j "xs" (getListOf? getCxs?))
    let r : Option (Except Err (ConvOp C)) :=
      match what with
      | "add" => (mk "b_").map (ConvOp.addSub false a)
      | "sub" => (mk "b_").map (ConvOp.addSub true a)
      | "mul" => ((field? j "c").bind getScal?).map a.smul
      | "div" => ((field? j "c").bind getScal?).map a.sdiv
      | _ => none
    match ← r with
    | .error kd => some (err kd.name)
    | .ok o =>
      some (ok (jObj [
        ("in_shape", jNs [o.n]), ("out_shape", jNs [o.outLen]), ("in_dtype", jS o.inDt.name),
        ("out_dtype", jS o.outDt.name), ("h_dtype", jS o.hDt.name),
        ("h", vecOut o.k o.h),
        ("eval", jArr ((xs.getD []).map (fun x => vecOut o.outLen (o.eval (vecOf x)))))]))
  | "stackx" => do
    -- a stack used inside further constructions: inner stack, optionally stacked again with further
    -- expressions, optionally followed by a unary view / scalar multiple / sum with itself
    let getStack (jj : Json) : Option (String × List (LExpr C) × Bool × Bool) := do
      some (← fStr? jj "kind", ← (field? jj "es").bind (getListOf? getExpr?), (fBool? jj "cin").getD true, (fBool? jj "cout").getD true)
    let (k1, es1, ci1, co1) ← getStack (← field? j "inner")
    let outer ← optField? j "outer" getStack
    let post ← optField? j "post" getStr?
    let xs ← (optField? j "xs" (getListOf? getCxs?))
    let ys ← (optField? j "ys" (getListOf? getCxs?))
    let r : Except Err (Obj C) := do
      let s1 ← (if k1 == "v" then buildVStack true es1 co1 else buildDStack true es1 ci1 co1)
      let s2 ← (match outer with
        | none => pure s1
        | some (k2, es2, ci2, co2) => do
          let os ← buildAll Cfg.fixed es2
          if k2 == "v" then vstack true (s1 :: os) co2 else dstack true (s1 :: os) ci2 co2)
      match post with
      | some "T" => opT Cfg.fixed s2
      | some "H" => opH Cfg.fixed s2
      | some "conj" => opConj Cfg.fixed s2
      | some "gram" => opGram Cfg.fixed s2
      | some "neg" => neg Cfg.fixed s2
      | some "twice" => addSub Cfg.fixed false s2 s2
      | some "half" => sdiv Cfg.fixed s2 ⟨⟨2, 0⟩, .pyFloat⟩
      | _ => pure s2
    match r with
    | .error kd => some (err kd.name)
    | .ok o =>
      let md := o.md
      let n := md.inShape.size
      let m := md.outShape.size
      some (ok (jObj [
        ("in_shape", jShape md.inShape), ("out_shape", jShape md.outShape),
        ("in_dtype", jS md.inDt.name), ("out_dtype", jS md.outDt.name),
        ("matrix_shape", jNs [md.matrixShape.1, md.matrixShape.2]),
        ("eval", jArr ((xs.getD []).map (fun x => vecOut m (o.eval (vcOf x)).get))),
        ("adj", jArr ((ys.getD []).map (fun y => vecOut n (o.adj (vcOf y)).get))),
        ("eval_dt", jDtRes (o.evalDt md.inDt)), ("adj_dt", jDtRes (o.adjCallDt md.outDt))]))
  | "result_type" => do
    let a ← fDT? j "a"
    let k ← getKind? j
    some (ok (jS (resultTypeS a k.sk).name))
  | "bshape" => do
    let a ← fNats? j "a"; let b ← fNats? j "b"
    match bshape a b with
    | some r => some (ok (jNs r))
    | none => some (err "shape")
  | _ => none

def main : IO Unit := mainLoop handler
