/-
  Driver of the `Prox` engine (C02): the executable model of `Scico/Model/Prox.lean` at `Float`
  over the JSON line protocol.  Real vectors: `"v": [bits…]`; complex vectors: `"vre"`, `"vim"`.
  Every reply is `{"out": […]}` or `{"re": […], "im": […]}`, plus `"margin"` for the
  discontinuous maps (distance of the input from the nearest branch boundary of the model).
-/
import Scico.Common.Wire
import Scico.Model.Prox
import Scico.Proofs.ProxTables
open Lean Scico Scico.Wire Scico.Prox

def vecOf (l : List Float) (n : Nat) : Vec Float n := Vec.memo (Vec.ofListN l n)
def cvecOf (re im : List Float) (n : Nat) : Vec (Float × Float) n :=
  let a := vecOf re n
  let b := vecOf im n
  Vec.memo (fun i => (a i, b i))

def outR {n} (v : Vec Float n) : Json := jObj [("out", jFs (Vec.toList v))]
def outRm {n} (v : Vec Float n) (m : Float) : Json := jObj [("out", jFs (Vec.toList v)), ("margin", jF m)]
def outC {n} (v : Vec (Float × Float) n) : Json :=
  jObj [("re", jFs ((Vec.toList v).map Prod.fst)), ("im", jFs ((Vec.toList v).map Prod.snd))]
def outCm {n} (v : Vec (Float × Float) n) (m : Float) : Json :=
  jObj [("re", jFs ((Vec.toList v).map Prod.fst)), ("im", jFs ((Vec.toList v).map Prod.snd)), ("margin", jF m)]

/-- the transcendental primitives of `_cbrt` / the complex power at `Float` (libm) -/
instance : HasTrig Float := ⟨Float.cos, Float.sin, Float.atan2, Float.cbrt, 3.141592653589793⟩

/-- which regime of `_dep_cubic_root` an entry falls into -/
def cubicBranch (cubicEps p q : Float) : String :=
  if p.abs ≤ cubicEps then (if p == 0 then "p=0" else "band") else
  let d := q * q / 4 + p * p * p / 27
  if d < 0 then "delta<0" else if d == 0 then "delta=0" else "delta>0"

/-- which `where` branch `L1MinusL2Norm.prox` takes -/
def l1l2Branch (vamx lam b : Float) : String :=
  if 0 < vamx then
    if lam < vamx then "shrink-rescale" else if vamx < (1 - b) * lam then "zero" else "one-sparse"
  else "v=0"

def matOf (l : List Float) (r c : Nat) : Fin r → Fin c → Float :=
  let a := l.toArray
  fun i j => a.getD (i.val * c + j.val) 0

def big : Float := 1.0e300
def minL (l : List Float) : Float := l.foldl (fun a b => if b < a then b else a) big

/-- all lists have the length of the first -/
def sameLen (n : Nat) (ls : List (List Float)) : Bool := ls.all (fun l => l.length == n)

/-- gap between the largest and the second largest entry (`big` if fewer than two) -/
def topGap (l : List Float) : Float :=
  match l.toArray.qsort (fun a b => b < a) |>.toList with
  | a :: b :: _ => a - b
  | _ => big

/-- prox of the functional wrapped by a generic `Loss` (real data) -/
def innerProx (name : String) (j : Json) (n : Nat) : Option (Vec Float n → Float → Vec Float n) :=
  match name with
  | "l0" => some l0Prox
  | "l1" => some l1Prox
  | "l2" => some l2Prox
  | "sql2" => some sqL2Prox
  | "zero" => some (fun v _ => zeroProx v)
  | "nonneg" => some (fun v _ => nonnegProx v)
  | "hubersep" => do let d ← fFloat? j "delta"; some (huberSepProx d)
  | "hubernonsep" => do let d ← fFloat? j "delta"; some (huberNonsepProx d)
  | "l2ball" => do let r ← fFloat? j "radius"; some (fun v _ => l2ballProx r v)
  | "l1l2" => do let b ← fFloat? j "beta"; some (l1l2Prox b)
  | _ => none

def scaleOp? (j : Json) : Option (ScaleOp Float) := do
  let l ← getList? j
  match l with
  | [k, c] => do
    let k ← getStr? k
    let c ← getFloat? c
    match k with
    | "mul" => some (.mul c)
    | "div" => some (.div c)
    | "set" => some (.set c)
    | _ => none
  | _ => none

def wArg? : String → Option WArg
  | "none" => some .none
  | "diag_nonneg" => some .diagNonneg
  | "diag_negative" => some .diagNegative
  | "not_diagonal" => some .notDiagonal
  | _ => none

def aArg? : String → Option AArg
  | "none" => some .none
  | "identity" => some .identity
  | "diagonal" => some .diagonal
  | "other_linop" => some .otherLinop
  | "nonlinear" => some .nonlinear
  | _ => none

def guardOf? (cls : String) (w : WArg) (a : AArg) (yn : Bool) : Option Guard :=
  match cls with
  | "sql2loss" => some (sqL2LossGuard w a)
  | "sql2abs" => some (absLossGuard w a yn)
  | "sql2sqabs" => some (absLossGuard w a yn)
  | _ => none

def guardStr : Guard → String
  | .hasProxClosed => "has_prox_closed"
  | .hasProxCG => "has_prox_cg"
  | .noProx => "no_prox"
  | .valueError => "value"
  | .typeError => "type"

def handler : Handler := fun op j =>
  match op with
  | "scale_after" => do
    let s0 ← fFloat? j "scale0"
    let ops ← (← fList? j "ops").mapM scaleOp?
    some (ok (jObj [("scale", jF (scaleAfter s0 ops)), ("orig", jF (scaleOfOriginal s0 ops))]))
  | "lossgen" => do
    let v ← fFloats? j "v"; let y ← fFloats? j "y"; let lam ← fFloat? j "lam"; let sc ← fFloat? j "scale"
    let inner ← fStr? j "inner"
    let n := v.length
    if !sameLen n [y] then none else
    let fp ← innerProx inner j n
    some (ok (outR (lossTranslateProx fp sc (vecOf y n) (vecOf v n) lam)))
  | "l0" => do
    let v ← fFloats? j "v"; let lam ← fFloat? j "lam"
    let n := v.length
    some (ok (outRm (l0Prox (vecOf v n) lam) (minL (v.map fun x => (x.abs - lam).abs))))
  | "l0x" => do
    -- NaN-faithful transcription of `where(|v| >= lam, v, 0)` (non-finite stream)
    let v ← fFloats? j "v"; let lam ← fFloat? j "lam"
    some (ok (jObj [("out", jFs (v.map fun x => l0Prox1X x lam))]))
  | "l0c" => do
    let re ← fFloats? j "vre"; let im ← fFloats? j "vim"; let lam ← fFloat? j "lam"
    let n := re.length
    if !sameLen n [im] then none else
    let z := cvecOf re im n
    some (ok (outCm (l0ProxC z lam) (minL ((Vec.toList z).map fun x => (cabs x - lam).abs))))
  | "l1" => do
    let v ← fFloats? j "v"; let lam ← fFloat? j "lam"
    some (ok (outR (l1Prox (vecOf v v.length) lam)))
  | "l1c" => do
    let re ← fFloats? j "vre"; let im ← fFloats? j "vim"; let lam ← fFloat? j "lam"
    let n := re.length
    if !sameLen n [im] then none else
    some (ok (outC (l1ProxC (cvecOf re im n) lam)))
  | "sql2" => do
    let v ← fFloats? j "v"; let lam ← fFloat? j "lam"
    some (ok (outR (sqL2Prox (vecOf v v.length) lam)))
  | "l2" => do
    let v ← fFloats? j "v"; let lam ← fFloat? j "lam"
    some (ok (outR (l2Prox (vecOf v v.length) lam)))
  | "l21" => do
    -- groups: explicit labels `grp`, or (`shape`, `axes` | `axes_none`) of an N-d array, or `blocks` (sizes) of a block array
    -- with `l2_axis=None`; for complex data the stacked vector (re.., im..) repeats the labelling (`twice`)
    let v ← fFloats? j "v"; let lam ← fFloat? j "lam"
    let n := v.length
    let twice := (fBool? j "twice").getD false
    let base := if twice then n / 2 else n
    let lab : Option (Nat → Nat) :=
      match fNats? j "grp" with
      | some g => if g.length != n then none else let ga := g.toArray; some (fun i => ga.getD i 0)
      | none =>
        match fNats? j "blocks" with
        | some sizes => some (fun i => blockGroup sizes (i % base))
        | none =>
          match fNats? j "shape" with
          | none => none
          | some shape =>
            let axes := normAxes shape.length (if (fBool? j "axes_none").getD false then none else fInts? j "axes")
            some (fun i => axisGroup shape axes (i % base))
    let lab ← lab
    let la := (List.range n).map lab |>.toArray
    some (ok (jObj [("out", jFs (Vec.toList (l21Prox (fun i => la.getD i.val 0) (vecOf v n) lam))), ("groups", jNs la.toList)]))
  | "hubersep" => do
    let v ← fFloats? j "v"; let lam ← fFloat? j "lam"; let d ← fFloat? j "delta"
    some (ok (outR (huberSepProx d (vecOf v v.length) lam)))
  | "hubersepc" => do
    let re ← fFloats? j "vre"; let im ← fFloats? j "vim"; let lam ← fFloat? j "lam"; let d ← fFloat? j "delta"
    let n := re.length
    if !sameLen n [im] then none else
    some (ok (outC (huberSepProxC d (cvecOf re im n) lam)))
  | "hubernonsep" => do
    let v ← fFloats? j "v"; let lam ← fFloat? j "lam"; let d ← fFloat? j "delta"
    some (ok (outR (huberNonsepProx d (vecOf v v.length) lam)))
  | "l1l2" => do
    let v ← fFloats? j "v"; let lam ← fFloat? j "lam"; let b ← fFloat? j "beta"
    let n := v.length
    let va := v.map Float.abs
    let vamx := va.foldl maxP 0
    -- branch boundaries: vamx = 0, vamx = lam, vamx = (1-beta) lam, and (one-sparse branch) ties of the arg-max
    let tie := if lam < vamx then big else if vamx < (1 - b) * lam then big else topGap va
    let m := minL [vamx, (vamx - lam).abs, (vamx - (1 - b) * lam).abs, tie]
    some (ok (jObj [("out", jFs (Vec.toList (l1l2Prox b (vecOf v n) lam))), ("margin", jF m),
      ("branch", Json.str (l1l2Branch vamx lam b))]))
  | "l1l2c" => do
    let re ← fFloats? j "vre"; let im ← fFloats? j "vim"; let lam ← fFloat? j "lam"; let b ← fFloat? j "beta"
    let n := re.length
    if !sameLen n [im] then none else
    let z := cvecOf re im n
    let va := (Vec.toList z).map cabs
    let vamx := va.foldl maxP 0
    let tie := if lam < vamx then big else if vamx < (1 - b) * lam then big else topGap va
    let m := minL [vamx, (vamx - lam).abs, (vamx - (1 - b) * lam).abs, tie]
    some (ok (outCm (l1l2ProxC b z lam) m))
  | "nuclear_sv" => do
    let v ← fFloats? j "v"; let lam ← fFloat? j "lam"
    some (ok (outR (nuclearSvProx (vecOf v v.length) lam)))
  | "nonneg" => do
    let v ← fFloats? j "v"
    some (ok (outR (nonnegProx (vecOf v v.length))))
  | "zero" => do
    let v ← fFloats? j "v"
    some (ok (outR (zeroProx (vecOf v v.length))))
  | "l2ball" => do
    let v ← fFloats? j "v"; let r ← fFloat? j "radius"
    some (ok (outR (l2ballProx r (vecOf v v.length))))
  | "l2ball_pinned" => do
    let v ← fFloats? j "v"; let r ← fFloat? j "radius"
    some (ok (outR (l2ballProxPinned r (vecOf v v.length))))
  | "setdist" => do
    let v ← fFloats? j "v"; let y ← fFloats? j "y"; let lam ← fFloat? j "lam"
    let n := v.length
    if !sameLen n [y] then none else
    some (ok (outR (setDistProx (vecOf v n) (vecOf y n) lam)))
  | "sqsetdist" => do
    let v ← fFloats? j "v"; let y ← fFloats? j "y"; let lam ← fFloat? j "lam"
    let n := v.length
    if !sameLen n [y] then none else
    some (ok (outR (sqSetDistProx (vecOf v n) (vecOf y n) lam)))
  | "sql2loss" => do
    let v ← fFloats? j "v"; let y ← fFloats? j "y"; let a ← fFloats? j "a"; let w ← fFloats? j "w"
    let lam ← fFloat? j "lam"; let sc ← fFloat? j "scale"
    let n := v.length
    if !sameLen n [y, a, w] then none else
    some (ok (outR (sqL2LossDiagProx sc (vecOf w n) (vecOf a n) (vecOf y n) (vecOf v n) lam)))
  | "sql2lossc" => do
    let vre ← fFloats? j "vre"; let vim ← fFloats? j "vim"
    let yre ← fFloats? j "yre"; let yim ← fFloats? j "yim"
    let are ← fFloats? j "are"; let aim ← fFloats? j "aim"
    let w ← fFloats? j "w"; let lam ← fFloat? j "lam"; let sc ← fFloat? j "scale"
    let n := vre.length
    if !sameLen n [vim, yre, yim, are, aim, w] then none else
    some (ok (outC (sqL2LossDiagProxC sc (vecOf w n) (cvecOf are aim n) (cvecOf yre yim n) (cvecOf vre vim n) lam)))
  | "sql2abs" => do
    let v ← fFloats? j "v"; let y ← fFloats? j "y"; let w ← fFloats? j "w"
    let lam ← fFloat? j "lam"; let sc ← fFloat? j "scale"
    let n := v.length
    if !sameLen n [y, w] then none else
    some (ok (outR (sqL2AbsProx sc (vecOf w n) (vecOf y n) (vecOf v n) lam)))
  | "sql2absc" => do
    let vre ← fFloats? j "vre"; let vim ← fFloats? j "vim"; let y ← fFloats? j "y"; let w ← fFloats? j "w"
    let lam ← fFloat? j "lam"; let sc ← fFloat? j "scale"
    let n := vre.length
    if !sameLen n [vim, y, w] then none else
    some (ok (outC (sqL2AbsProxC sc (vecOf w n) (vecOf y n) (cvecOf vre vim n) lam)))
  | "cubic_pq" => do
    -- coefficients handed to `_dep_cubic_root`; `absv` = |v|
    let absv ← fFloats? j "absv"; let y ← fFloats? j "y"; let w ← fFloats? j "w"
    let lam ← fFloat? j "lam"; let sc ← fFloat? j "scale"
    let n := absv.length
    if !sameLen n [y, w] then none else
    let wv := vecOf w n; let yv := vecOf y n; let av := vecOf absv n
    let p : Vec Float n := fun i => depCubicP sc (wv i) (yv i) lam
    let q : Vec Float n := fun i => depCubicQ sc (wv i) (av i) lam
    some (ok (jObj [("p", jFs (Vec.toList p)), ("q", jFs (Vec.toList q))]))
  | "sql2sqabs" => do
    let v ← fFloats? j "v"; let w ← fFloats? j "w"; let r ← fFloats? j "r"
    let lam ← fFloat? j "lam"; let sc ← fFloat? j "scale"
    let n := v.length
    if !sameLen n [w, r] then none else
    some (ok (outR (sqL2SqAbsProx sc (vecOf w n) (vecOf v n) lam (vecOf r n))))
  | "sql2sqabsc" => do
    let vre ← fFloats? j "vre"; let vim ← fFloats? j "vim"; let w ← fFloats? j "w"; let r ← fFloats? j "r"
    let lam ← fFloat? j "lam"; let sc ← fFloat? j "scale"
    let n := vre.length
    if !sameLen n [vim, w, r] then none else
    some (ok (outC (sqL2SqAbsProxC sc (vecOf w n) (cvecOf vre vim n) lam (vecOf r n))))
  | "guard" => do
    -- has_prox / rejection logic of the three specific losses
    let cls ← fStr? j "cls"; let w ← fStr? j "w"; let a ← fStr? j "a"; let yn ← fNat? j "ynonneg"
    let w ← wArg? w
    let a ← aArg? a
    let g ← guardOf? cls w a (yn != 0)
    some (ok (jObj [("guard", Json.str (guardStr g))]))
  | "nuclear_fullc" => do
    -- complex factors (row-major re / im lists)
    let m ← fNat? j "m"; let n ← fNat? j "n"; let k ← fNat? j "k"
    let ure ← fFloats? j "ure"; let uim ← fFloats? j "uim"; let sv ← fFloats? j "s"
    let vre ← fFloats? j "vhre"; let vim ← fFloats? j "vhim"; let lam ← fFloat? j "lam"
    if ure.length != m * k || uim.length != m * k || sv.length != k || vre.length != k * n || vim.length != k * n then none else
    let Ur := matOf ure m k; let Ui := matOf uim m k; let Vr := matOf vre k n; let Vi := matOf vim k n
    let U : Fin m → Fin k → Float × Float := fun i l => (Ur i l, Ui i l)
    let Vh : Fin k → Fin n → Float × Float := fun l jj => (Vr l jj, Vi l jj)
    let s := vecOf sv k
    let P := nuclearProxC U s Vh lam
    let M := usvMatC U s Vh
    let flat (A : Fin m → Fin n → Float × Float) : List (Float × Float) :=
      (List.finRange m).flatMap fun i => (List.finRange n).map fun jj => A i jj
    some (ok (jObj [("re", jFs ((flat P).map Prod.fst)), ("im", jFs ((flat P).map Prod.snd)),
      ("usvre", jFs ((flat M).map Prod.fst)), ("usvim", jFs ((flat M).map Prod.snd))]))
  | "sql2loss_sys" => do
    -- residual of the system `SquaredL2Loss.prox` hands to cg (dense real A, row-major m×n) at the point x
    let m ← fNat? j "m"; let n ← fNat? j "n"
    let a ← fFloats? j "a"; let w ← fFloats? j "w"; let y ← fFloats? j "y"; let v ← fFloats? j "v"; let x ← fFloats? j "x"
    let lam ← fFloat? j "lam"; let sc ← fFloat? j "scale"
    if a.length != m * n || w.length != m || y.length != m || v.length != n || x.length != n then none else
    some (ok (outR (sqL2LossSysResidual sc (vecOf w m) (matOf a m n) (vecOf y m) (vecOf v n) (vecOf x n) lam)))
  | "defaults" =>
    -- the default arguments recorded in `Scico.ProxTables.expectedDefaults` (checked against the source by the generated obligations):
    -- the band literal of `_dep_cubic_root`, `tol`/`maxiter` of the CG path, constructor defaults
    some (ok (jObj [("defaults", jArr (Scico.ProxTables.expectedDefaults.map fun r => jArr [jS r.1, jS r.2.1, jS r.2.2])),
      ("covered", jArr (Scico.ProxTables.covered.map jS)),
      ("flags", jArr (Scico.ProxTables.expectedFlags.map fun r => jArr [jS r.1, jS r.2.1, jS r.2.2.1, jS r.2.2.2.1, jS r.2.2.2.2])),
      ("dispatch", jArr (Scico.ProxTables.expectedDispatch.map fun r => jArr [jS r.1, jS r.2.1, jArr (r.2.2.map jS)])),
      ("bases", jArr (Scico.ProxTables.expectedBases.map fun r => jArr [jS r.1, jS r.2])),
      ("relevant", jArr (Scico.ProxTables.relevantCallables.map jS)),
      ("helpers", jArr (Scico.ProxTables.expectedHelpers.map fun r => jArr [jS r.1, jS r.2]))]))
  | "param_after" => do
    let p0 ← fFloat? j "p0"; let l ← fFloats? j "assigns"
    some (ok (jObj [("p", jF (paramAfter p0 l))]))
  | "accepts" => do
    -- argument checks of `NuclearNorm.prox` (`ndim`) and `L21Norm.prox` (`block`, `axis_none`): ok / ValueError
    let kind ← fStr? j "kind"
    match kind with
    | "nuclear" => do
      let nd ← fNat? j "ndim"
      some (if nuclearAccepts nd then ok (jObj [("accepted", jB true)]) else err "value")
    | "l21" => do
      let b ← fBool? j "block"; let a ← fBool? j "axis_none"
      some (if l21Accepts b a then ok (jObj [("accepted", jB true)]) else err "value")
    | _ => none
  | "cubic_root" => do
    -- the model of `loss._dep_cubic_root` on arrays p, q
    let p ← fFloats? j "p"; let q ← fFloats? j "q"
    if p.length != q.length then none else
    let eps ← fFloat? j "eps"
    let r := List.zipWith (fun a b => depCubicRoot eps a b) p q
    let br := List.zipWith (cubicBranch eps) p q
    some (ok (jObj [("r", jFs r), ("branch", Json.arr (br.map Json.str).toArray)]))
  | "sql2sqabs_full" => do
    let v ← fFloats? j "v"; let y ← fFloats? j "y"; let w ← fFloats? j "w"
    let lam ← fFloat? j "lam"; let sc ← fFloat? j "scale"
    let n := v.length
    if !sameLen n [y, w] then none else
    let eps ← fFloat? j "eps"
    some (ok (outR (sqL2SqAbsProxFull eps sc (vecOf w n) (vecOf y n) (vecOf v n) lam)))
  | "sql2sqabs_fullc" => do
    let vre ← fFloats? j "vre"; let vim ← fFloats? j "vim"; let y ← fFloats? j "y"; let w ← fFloats? j "w"
    let lam ← fFloat? j "lam"; let sc ← fFloat? j "scale"
    let n := vre.length
    if !sameLen n [vim, y, w] then none else
    let eps ← fFloat? j "eps"
    some (ok (outC (sqL2SqAbsProxFullC eps sc (vecOf w n) (vecOf y n) (cvecOf vre vim n) lam)))
  | "nuclear_full" => do
    -- `svdU @ diag(maximum(0, svdS - lam)) @ svdV` from the SVD factors (row-major), and `U diag(s) Vh` itself
    let m ← fNat? j "m"; let n ← fNat? j "n"; let k ← fNat? j "k"
    let u ← fFloats? j "u"; let sv ← fFloats? j "s"; let vh ← fFloats? j "vh"; let lam ← fFloat? j "lam"
    if u.length != m * k || sv.length != k || vh.length != k * n then none else
    let U := matOf u m k; let Vh := matOf vh k n; let s := vecOf sv k
    let P := nuclearProx U s Vh lam
    let M := usvMat U s Vh
    let flat (A : Fin m → Fin n → Float) : List Float := (List.finRange m).flatMap fun i => (List.finRange n).map fun jj => A i jj
    some (ok (jObj [("out", jFs (flat P)), ("usv", jFs (flat M))]))
  | _ => none

def main : IO Unit := mainLoop handler
