import Scico.Common.Wire
import Scico.Model.Adjoint
open Lean Scico.Wire Scico.Adjoint

abbrev C := Cx Float

def cOf (re im : Float) : C := ⟨re, im⟩

/-- complex array from two float lists (materialised once; the accessors below only index into it) -/
def carr (re im : List Float) : Array C := ((re.zip im).map (fun (p : Float × Float) => (⟨p.1, p.2⟩ : C))).toArray

/-- vector view of an array (zero beyond its size) -/
def vecOf (a : Array C) : V C := fun i => a.getD i 0

/-- row-major matrix view with `n` columns -/
def matOf (n : Nat) (a : Array C) : Nat → Nat → C := fun i j => if j < n then a.getD (i * n + j) 0 else 0

def jC (z : C) : Json := jArr [jF z.re, jF z.im]

def cfield? (j : Json) (k : String) : Option C := do
  let l ← fFloats? j k
  match l with
  | [r, m] => some ⟨r, m⟩
  | _ => none

/-- one leaf of the environment -/
def parseLeaf (j : Json) : Option (Op C) := do
  let t ← fStr? j "t"
  match t with
  | "pq" =>
    let nin ← fNat? j "nin"
    let nout ← fNat? j "nout"
    let ePa := carr (← fFloats? j "ePr") (← fFloats? j "ePi")
    let eQa := carr (← fFloats? j "eQr") (← fFloats? j "eQi")
    let aPa := carr (← fFloats? j "aPr") (← fFloats? j "aPi")
    let aQa := carr (← fFloats? j "aQr") (← fFloats? j "aQi")
    let eP := matOf nin ePa
    let eQ := matOf nin eQa
    let aP := matOf nout aPa
    let aQ := matOf nout aQa
    some { nin := nin, nout := nout,
           eval := Op.pqMap nin eP eQ,
           adj := Op.pqMap nout aP aQ }
  | "mat" =>
    let m ← fNat? j "m"
    let n ← fNat? j "n"
    let Ma := carr (← fFloats? j "Mr") (← fFloats? j "Mi")
    some (Op.mat m n (matOf n Ma))
  | "circ" =>
    let k ← fNat? j "k"
    let n ← fNat? j "n"
    let ha := carr (← fFloats? j "hr") (← fFloats? j "hi")
    some (Op.circBatch k n (vecOf ha))
  | "scat" =>
    -- one scatter term of the 2-D projector: raw (possibly negative) indices, `fixIdx` as the code does
    let np ← fNat? j "np"
    let ny ← fNat? j "ny"
    let idx := (← fInts? j "I").toArray
    let off ← fInt? j "off"
    let wa := carr (← fFloats? j "w") ((← fFloats? j "w").map (fun _ => 0.0))
    let w := vecOf wa
    let I : Nat → Nat := fun p => match idx[p]? with
      | some v => fixIdx ny v + off.toNat
      | none => ny
    let exact ← fBool? j "exact"
    some (if exact then Op.scatFill np ny I w else Op.scatClamp np ny I w)
  | "scat2" =>
    -- one scatter term of the 3-D projector on a (d0,d1) detector: negative corner indices are replaced by
    -- max(d0,d1) (`jnp.where(ul_ind < 0, max(output_shape), ul_ind)`), then the offsets (da,db) are added
    let np ← fNat? j "np"
    let d0 ← fNat? j "d0"
    let d1 ← fNat? j "d1"
    let ia := (← fInts? j "a").toArray
    let ib := (← fInts? j "b").toArray
    let da ← fNat? j "da"
    let db ← fNat? j "db"
    let big := max d0 d1
    let wa := carr (← fFloats? j "w") ((← fFloats? j "w").map (fun _ => 0.0))
    let w := vecOf wa
    let fa : Nat → Nat := fun p => match ia[p]? with
      | some v => fixIdx big v + da
      | none => big
    let fb : Nat → Nat := fun p => match ib[p]? with
      | some v => fixIdx big v + db
      | none => big
    let exact ← fBool? j "exact"
    let ev := scatterAddDrop np (d0 * d1) (fun p => flat2 d0 d1 (fa p) (fb p)) w
    some (if exact then
        ({ nin := np, nout := d0 * d1, eval := ev,
           adj := gatherFill0 (d0 * d1) (fun p => flat2 d0 d1 (fa p) (fb p)) w } : Op C)
      else
        ({ nin := np, nout := d0 * d1, eval := ev,
           adj := gatherAt (fun p => clamp2 d0 d1 (fa p) (fb p)) w } : Op C))
  | _ => none

partial def parseExpr (j : Json) : Option (Expr C) := do
  let k ← fStr? j "k"
  let sub (name : String) : Option (Expr C) := (field? j name).bind parseExpr
  match k with
  | "leaf" => some (.leaf (← fNat? j "i"))
  | "add" => some (.add (← sub "a") (← sub "b"))
  | "sub" => some (.sub (← sub "a") (← sub "b"))
  | "neg" => some (.neg (← sub "a"))
  | "smul" => some (.smul (← cfield? j "c") (← sub "a"))
  | "sdiv" => some (.sdiv (← cfield? j "c") (← sub "a"))
  | "comp" => some (.comp (← sub "a") (← sub "b"))
  | "T" => some (.tr (← fBool? j "cplx") (← sub "a"))
  | "H" => some (.herm (← sub "a"))
  | "conj" => some (.cj (← sub "a"))
  | "gram" => some (.gram (← sub "a"))
  | "vstack" =>
    let ops ← (← fList? j "ops").mapM parseExpr
    let n ← fNat? j "nin"
    some (ops.foldr (fun a s => .vcons a s) (.vnil n))
  | "dstack" =>
    let ops ← (← fList? j "ops").mapM parseExpr
    some (ops.foldr (fun a s => .dcons a s) .dnil)
  | "drep" => some (.drep (← fNat? j "rep") (← fNat? j "qi") (← fNat? j "qo") (← sub "a"))
  | _ => none

/-- columns `f(e_j)` and `f(i·e_j)`, `j < n`, each cut to `m` entries, as (re list, im list) -/
def probe (f : V C → V C) (n m : Nat) : Json :=
  let cols (ph : C) : List Json :=
    (List.range n).map (fun j =>
      let v := f (fun i => if i = j then ph else 0)
      jArr ((List.range m).map (fun i => jC (v i))))
  jObj [("one", jArr (cols ⟨1, 0⟩)), ("i", jArr (cols ⟨0, 1⟩))]

def handler : Handler := fun op j =>
  match op with
  | "derive" => do
    let leaves ← (← fList? j "leaves").mapM parseLeaf
    let arr := leaves.toArray
    let env : Nat → Op C := fun i => arr.getD i (Op.vnil 0)
    let e ← (field? j "tree").bind parseExpr
    if !(wf env e) then some (err "shape")
    else
      let A := run env e
      some (ok (jObj [("nin", jN A.nin), ("nout", jN A.nout),
        ("eval", probe A.eval A.nin A.nout), ("adj", probe A.adj A.nout A.nin)]))
  | "ip" => do
    -- the pairing itself (tie of `ip` with `snp.sum(y.conj() * u)` of valid_adjoint)
    let n ← fNat? j "n"
    let ua := carr (← fFloats? j "ur") (← fFloats? j "ui")
    let wa := carr (← fFloats? j "wr") (← fFloats? j "wi")
    some (ok (jC (ip n (vecOf ua) (vecOf wa))))
  | _ => none

def main : IO Unit := mainLoop handler
