import Scico.Common.Wire
import Scico.Model.Adjoint
import Scico.Model.AdjointTy
open Lean Scico.Wire Scico.Adjoint

abbrev C := Cx Float

def cOf (re im : Float) : C := ⟨re, im⟩

/-- complex array from two float lists (materialised once; the accessors below only index into it) -/
def carr (re im : List Float) : Array C := ((re.zip im).map (fun (p : Float × Float) => (⟨p.1, p.2⟩ : C))).toArray

/-- vector view of an array (zero beyond its size) -/
def vecOf (a : Array C) : V C := fun i => a.getD i 0

/-- row-major matrix view with `n` columns -/
def matOf (n : Nat) (a : Array C) : Nat → Nat → C := fun i j => if j < n then a.getD (i * n + j) 0 else 0

def jC (z : C) : Json := jArr [jF z.re, jF z.im]

def cfield? (j : Json) (k : String) : Option C := do
  let l ← fFloats? j k
  match l with
  | [r, m] => some ⟨r, m⟩
  | _ => none

/-- `Π_a exp(sign·2πi·(j_a f_a mod d_a)/d_a)` over the digits of `f`, `j` w.r.t. `dims` (row-major): entry of the N-d DFT matrix -/
def kronRoot : List Nat → Nat → Nat → Float → C
  | [], _, _, _ => ⟨1.0, 0.0⟩
  | d :: ds, f, jx, sign =>
    let r := ds.foldl (· * ·) 1
    let k := ((jx / r % d) * (f / r % d)) % d
    let t := sign * 2.0 * 3.141592653589793 * k.toFloat / d.toFloat
    (⟨Float.cos t, Float.sin t⟩ : C) * kronRoot ds (f % r) (jx % r) sign

/-- one leaf of the environment -/
def parseLeaf (j : Json) : Option (Op C) := do
  let t ← fStr? j "t"
  match t with
  | "pq" =>
    let nin ← fNat? j "nin"
    let nout ← fNat? j "nout"
    let ePa := carr (← fFloats? j "ePr") (← fFloats? j "ePi")
    let eQa := carr (← fFloats? j "eQr") (← fFloats? j "eQi")
    let aPa := carr (← fFloats? j "aPr") (← fFloats? j "aPi")
    let aQa := carr (← fFloats? j "aQr") (← fFloats? j "aQi")
    let eP := matOf nin ePa
    let eQ := matOf nin eQa
    let aP := matOf nout aPa
    let aQ := matOf nout aQa
    some { nin := nin, nout := nout,
           eval := Op.pqMap nin eP eQ,
           adj := Op.pqMap nout aP aQ }
  | "mat" =>
    let m ← fNat? j "m"
    let n ← fNat? j "n"
    let Ma := carr (← fFloats? j "Mr") (← fFloats? j "Mi")
    some (Op.mat m n (matOf n Ma))
  | "diag" =>
    let n ← fNat? j "n"
    let da := carr (← fFloats? j "dr") (← fFloats? j "di")
    some (Op.diag n (vecOf da))
  | "jac" =>
    -- linop.jacobian: eval = measured push-forward, adj = conjFun of the measured RAW pull-back of jax.vjp
    let m ← fNat? j "m"
    let n ← fNat? j "n"
    let eP := matOf n (carr (← fFloats? j "ePr") (← fFloats? j "ePi"))
    let eQ := matOf n (carr (← fFloats? j "eQr") (← fFloats? j "eQi"))
    let gP := matOf m (carr (← fFloats? j "aPr") (← fFloats? j "aPi"))
    let gQ := matOf m (carr (← fFloats? j "aQr") (← fFloats? j "aQi"))
    some (Op.jacobian m n (Op.pqMap n eP eQ) (Op.pqMap m gP gQ))
  | "imap" =>
    -- index map read off the real operator on one probe vector; `gather`: eval reads along phi, `scatter`: eval adds along phi
    let n ← fNat? j "n"
    let m ← fNat? j "m"
    let phi := (← fNats? j "phi").toArray
    let kind ← fStr? j "kind"
    let one : V C := fun _ => ⟨1.0, 0.0⟩
    if kind == "gather" then some (Op.imap n m (fun i => phi.getD i n))
    else some (Op.scatFill n m (fun p => phi.getD p m) one)
  | "circ" =>
    let k ← fNat? j "k"
    let n ← fNat? j "n"
    let ha := carr (← fFloats? j "hr") (← fFloats? j "hi")
    some (Op.circBatch k n (vecOf ha))
  | "spec" =>
    -- CircularConvolve as coded (transform domain): F = fftn matrix over the convolution axes `dims` (Kronecker product
    -- of the 1-D transforms), G = ifftn matrix, D = the object's own h_dft (one batch entry, flattened)
    let dims ← fNats? j "dims"
    let n := dims.foldl (· * ·) 1
    let Da := carr (← fFloats? j "Dr") (← fFloats? j "Di")
    let wrap ← fStr? j "wrap"
    let F : Nat → Nat → C := fun f jx => kronRoot dims f jx (-1.0)
    let G : Nat → Nat → C := fun i f => let z := kronRoot dims i f 1.0; ⟨z.re / n.toFloat, z.im / n.toFloat⟩
    let A := Op.spectral n F G (vecOf Da)
    let re : C → C := fun z => ⟨z.re, 0.0⟩
    some (match wrap with
      | "rr" => Op.wrapRR re A
      | "rc" => Op.wrapRC re A
      | _ => A)
  | "scat" =>
    -- one scatter term of the 2-D projector: raw (possibly negative) indices; the bin offset is added FIRST, then
    -- `fixIdx` (per bin, repo e359064); `exact` = fill-0 gather (the code), otherwise the clamped gather of the pinned tree
    let np ← fNat? j "np"
    let ny ← fNat? j "ny"
    let idx := (← fInts? j "I").toArray
    let off ← fInt? j "off"
    let wa := carr (← fFloats? j "w") ((← fFloats? j "w").map (fun _ => 0.0))
    let w := vecOf wa
    let I : Nat → Nat := fun p => match idx[p]? with
      | some v => fixIdx ny (v + off)
      | none => ny
    let exact ← fBool? j "exact"
    some (if exact then Op.scatFill np ny I w else Op.scatClamp np ny I w)
  | "scat2" =>
    -- one scatter term of the 3-D projector on a (d0,d1) detector: the offsets (da,db) are added to the raw corner
    -- indices, then negative values are replaced by max(d0,d1) (`off(i)`, per bin, repo e359064)
    let np ← fNat? j "np"
    let d0 ← fNat? j "d0"
    let d1 ← fNat? j "d1"
    let ia := (← fInts? j "a").toArray
    let ib := (← fInts? j "b").toArray
    let da ← fNat? j "da"
    let db ← fNat? j "db"
    let big := max d0 d1
    let wa := carr (← fFloats? j "w") ((← fFloats? j "w").map (fun _ => 0.0))
    let w := vecOf wa
    let fa : Nat → Nat := fun p => match ia[p]? with
      | some v => fixIdx big (v + (da : Int))
      | none => big
    let fb : Nat → Nat := fun p => match ib[p]? with
      | some v => fixIdx big (v + (db : Int))
      | none => big
    let exact ← fBool? j "exact"
    let ev := scatterAddDrop np (d0 * d1) (fun p => flat2 d0 d1 (fa p) (fb p)) w
    -- slab loop of the code (`MAX_SLICE_LEN`): `B` voxels per slab
    match fNat? j "B", fNat? j "nslab" with
    | some B, some nslab =>
      let If : Nat → Nat := fun p => flat2 d0 d1 (fa p) (fb p)
      let Jc : Nat → Nat := fun p => clamp2 d0 d1 (fa p) (fb p)
      let nooff := (fBool? j "nooffset").getD false
      return (if exact then
          (if nooff then Op.scatSlabFillNoOffset B nslab np (d0 * d1) If w else Op.scatSlabFill B nslab np (d0 * d1) If w)
        else
          (if nooff then Op.scatSlabNoOffset B nslab np (d0 * d1) If Jc w else Op.scatSlab B nslab np (d0 * d1) If Jc w))
    | _, _ => pure ()
    some (if exact then
        ({ nin := np, nout := d0 * d1, eval := ev,
           adj := gatherFill0 (d0 * d1) (fun p => flat2 d0 d1 (fa p) (fb p)) w } : Op C)
      else
        ({ nin := np, nout := d0 * d1, eval := ev,
           adj := gatherAt (fun p => clamp2 d0 d1 (fa p) (fb p)) w } : Op C))
  | _ => none

partial def parseExpr (j : Json) : Option (Expr C) := do
  let k ← fStr? j "k"
  let sub (name : String) : Option (Expr C) := (field? j name).bind parseExpr
  match k with
  | "leaf" => some (.leaf (← fNat? j "i"))
  | "add" => some (.add (← sub "a") (← sub "b"))
  | "sub" => some (.sub (← sub "a") (← sub "b"))
  | "neg" => some (.neg (← sub "a"))
  | "smul" => some (.smul (← cfield? j "c") (← sub "a"))
  | "sdiv" => some (.sdiv (← cfield? j "c") (← sub "a"))
  | "comp" => some (.comp (← sub "a") (← sub "b"))
  | "T" => some (.tr (← fBool? j "cplx") (← sub "a"))
  | "H" => some (.herm (← sub "a"))
  | "conj" => some (.cj (← sub "a"))
  | "gram" => some (.gram (← sub "a"))
  | "vstack" =>
    let ops ← (← fList? j "ops").mapM parseExpr
    let n ← fNat? j "nin"
    some (ops.foldr (fun a s => .vcons a s) (.vnil n))
  | "dstack" =>
    let ops ← (← fList? j "ops").mapM parseExpr
    some (ops.foldr (fun a s => .dcons a s) .dnil)
  | "drep" => some (.drep (← fNat? j "rep") (← fNat? j "qi") (← fNat? j "qo") (← sub "a"))
  | _ => none

/-- columns `f(e_j)` and `f(i·e_j)`, `j < n`, each cut to `m` entries, as (re list, im list) -/
def probe (f : V C → V C) (n m : Nat) : Json :=
  let cols (ph : C) : List Json :=
    (List.range n).map (fun j =>
      let v := f (fun i => if i = j then ph else 0)
      jArr ((List.range m).map (fun i => jC (v i))))
  jObj [("one", jArr (cols ⟨1, 0⟩)), ("i", jArr (cols ⟨0, 1⟩))]


/-! ### dtype / shape layer (`Scico/Model/AdjointTy.lean`) -/

def dtOf? : String → Option DT
  | "float32" => some .f32
  | "float64" => some .f64
  | "complex64" => some .c64
  | "complex128" => some .c128
  | _ => none

def dtName : DT → String
  | .f32 => "float32"
  | .f64 => "float64"
  | .c64 => "complex64"
  | .c128 => "complex128"

def shpOf? (j : Json) : Option Shp :=
  match fNats? j "arr" with
  | some d => some (.arr d)
  | none => (field? j "blk").bind (getListOf? getNats?) |>.map .blk

def jShp : Shp → Json
  | .arr d => jObj [("arr", jNs d)]
  | .blk bs => jObj [("blk", jArr (bs.map jNs))]
  | .het bs => jObj [("het", jArr (bs.map jNs))]

def tyOf? (j : Json) : Option Ty := do
  let dt ← (fStr? j "dt").bind dtOf?
  let sh ← (field? j "sh").bind shpOf?
  some ⟨dt, sh⟩

def jTy (t : Ty) : Json := jObj [("dt", jS (dtName t.dt)), ("sh", jShp t.sh)]

def rOf? (j : Json) : Option R :=
  match field? j "ok" with
  | some t => (tyOf? t).map .ok
  | none =>
    match fStr? j "err" with
    | some "dtype" => some (.error .dtype)
    | some "shape" => some (.error .shape)
    | some _ => some (.error .other)
    | none => none

def jR : R → Json
  | .ok t => jObj [("ok", jTy t)]
  | .error .dtype => jObj [("err", jS "dtype")]
  | .error .shape => jObj [("err", jS "shape")]
  | .error .other => jObj [("err", jS "other")]

def tabOf? (j : Json) (k : String) : Option (List (Ty × R)) := do
  let l ← fList? j k
  l.mapM (fun e => do
    let x ← (field? e "x").bind tyOf?
    let r ← (field? e "r").bind rOf?
    some (x, r))

def parseTLeaf (j : Json) : Option TOp := do
  let ish ← (field? j "ish").bind shpOf?
  let osh ← (field? j "osh").bind shpOf?
  let idt ← (fStr? j "idt").bind dtOf?
  let odt ← (fStr? j "odt").bind dtOf?
  let g ← fBool? j "guard"
  let et ← tabOf? j "eval"
  let at_ ← tabOf? j "adj"
  some { ish := ish, osh := osh, idt := idt, odt := odt, guard := g, evalT := tableFn et, adjT := tableFn at_ }

def skOf? (j : Json) : Option SK :=
  match fStr? j "sk" with
  | some "wreal" => some .wreal
  | some "wcplx" => some .wcplx
  | some s => (dtOf? s).map .strong
  | none => none

partial def parseTExpr (j : Json) : Option TExpr := do
  let k ← fStr? j "k"
  let sub (name : String) : Option TExpr := (field? j name).bind parseTExpr
  match k with
  | "leaf" => some (.leaf (← fNat? j "i"))
  | "add" => some (.add (← sub "a") (← sub "b"))
  | "sub" => some (.sub (← sub "a") (← sub "b"))
  | "neg" => some (.neg (← sub "a"))
  | "smul" => some (.smul (← skOf? j) (← sub "a"))
  | "sdiv" => some (.sdiv (← skOf? j) (← sub "a"))
  | "comp" => some (.comp (← sub "a") (← sub "b"))
  | "T" => some (.tr (← sub "a"))
  | "H" => some (.herm (← sub "a"))
  | "conj" => some (.cj (← sub "a"))
  | "gram" => some (.gram (← sub "a"))
  | "vstack" =>
    let ops ← (← fList? j "ops").mapM parseTExpr
    let co ← fBool? j "co"
    match ops.reverse with
    | [] => none
    | last :: rest =>
      let chain := rest.foldl (fun s a => TExpr.vcons a s) (.vone last)
      some (if co then .vfin chain else chain)
  | "dstack" =>
    let ops ← (← fList? j "ops").mapM parseTExpr
    let ci ← fBool? j "ci"
    let co ← fBool? j "co"
    match ops.reverse with
    | [] => none
    | last :: rest =>
      let chain := rest.foldl (fun s a => TExpr.dcons a s) (.done last)
      some (if ci || co then .dfin ci co chain else chain)
  | "drep" => some (.drep (← fNat? j "rep") (← fNat? j "ia") (← fNat? j "oa") (← sub "a"))
  | _ => none

def typesHandler (j : Json) : Option Json := do
  let leaves ← (← fList? j "leaves").mapM parseTLeaf
  let arr := leaves.toArray
  let dflt : TOp := { ish := .arr [], osh := .arr [], idt := .f32, odt := .f32, guard := true,
                      evalT := fun _ => .error .other, adjT := fun _ => .error .other }
  let env : Nat → TOp := fun i => arr.getD i dflt
  let t ← (field? j "tree").bind parseTExpr
  let coded ← fBool? j "coded"
  let px ← (← fList? j "probe_x").mapM tyOf?
  let py ← (← fList? j "probe_y").mapM tyOf?
  let A := runT coded env t
  some (ok (jObj [("wf", jB (wfT coded env t)), ("homog", jB (homog coded env t)),
    ("ish", jShp A.ish), ("osh", jShp A.osh), ("idt", jS (dtName A.idt)), ("odt", jS (dtName A.odt)),
    ("call", jArr (px.map (fun x => jR (A.call x)))), ("adj", jArr (py.map (fun y => jR (A.adjC y))))]))

/-- right-hand sides of the theorems `C01_diagonal_overrides` / `C01_matrix_overrides`: the operator a class-specific
    override builds, from the operand data -/
def closedOp (j : Json) : Option (Op C) := do
  let cls ← fStr? j "cls"
  let form ← fStr? j "form"
  let c := (cfield? j "c").getD ⟨1.0, 0.0⟩
  match cls with
  | "diag" =>
    let n ← fNat? j "n"
    let d := vecOf (carr (← fFloats? j "dr") (← fFloats? j "di"))
    let e := vecOf (carr ((fFloats? j "er").getD []) ((fFloats? j "ei").getD []))
    match form with
    | "conj" | "H" => some (Op.diag n (vconj d))
    | "T" => some (Op.diag n d)
    | "gram" => some (Op.diag n (fun i => conj (d i) * d i))
    | "add" => some (Op.diag n (vadd d e))
    | "sub" => some (Op.diag n (vsub d e))
    | "smul" => some (Op.diag n (vsmul c d))
    | "sdiv" => some (Op.diag n (vsdiv d c))
    | "comp" => some (Op.diag n (fun i => d i * e i))
    | _ => none
  | "mat" =>
    let m ← fNat? j "m"
    let n ← fNat? j "n"
    let A := matOf n (carr (← fFloats? j "Ar") (← fFloats? j "Ai"))
    let bm := (fNat? j "bm").getD m
    let bn := (fNat? j "bn").getD n
    let B := matOf bn (carr ((fFloats? j "Br").getD []) ((fFloats? j "Bi").getD []))
    match form with
    | "H" => some (Op.mat n m (fun jx i => conj (A i jx)))
    | "conj" => some (Op.mat m n (fun i jx => conj (A i jx)))
    | "T" => some (Op.mat n m (fun jx i => A i jx))
    | "gram" => some (Op.mat n n (matMul m (fun jx i => conj (A i jx)) A))
    | "add" => some (Op.mat m n (fun i jx => A i jx + B i jx))
    | "sub" => some (Op.mat m n (fun i jx => A i jx - B i jx))
    | "smul" => some (Op.mat m n (fun i jx => c * A i jx))
    | "sdiv" => some (Op.mat m n (fun i jx => A i jx / c))
    | "comp" => if n == bm then some (Op.mat m bn (matMul n A B)) else none
    | _ => none
  | _ => none

def handler : Handler := fun op j =>
  match op with
  | "derive" => do
    let leaves ← (← fList? j "leaves").mapM parseLeaf
    let arr := leaves.toArray
    let env : Nat → Op C := fun i => arr.getD i (Op.vnil 0)
    let e ← (field? j "tree").bind parseExpr
    if !(wf env e) then some (err "shape")
    else
      let A := run env e
      some (ok (jObj [("nin", jN A.nin), ("nout", jN A.nout),
        ("eval", probe A.eval A.nin A.nout), ("adj", probe A.adj A.nout A.nin)]))
  | "types" => typesHandler j
  | "closed" => do
    let A ← closedOp j
    some (ok (jObj [("nin", jN A.nin), ("nout", jN A.nout),
      ("eval", probe A.eval A.nin A.nout), ("adj", probe A.adj A.nout A.nin)]))
  | "smulre" => do
    -- complex scalar times an operator with a real output space: `Op.smulRe` on one measured leaf
    let leaves ← (← fList? j "leaves").mapM parseLeaf
    let A0 ← leaves.head?
    let c ← cfield? j "c"
    let A := Op.smulRe (fun z => (⟨z.re, 0⟩ : C)) c A0
    some (ok (jObj [("nin", jN A.nin), ("nout", jN A.nout),
      ("eval", probe A.eval A.nin A.nout), ("adj", probe A.adj A.nout A.nin)]))
  | "ip" => do
    -- the pairing itself (tie of `ip` with `snp.sum(y.conj() * u)` of valid_adjoint)
    let n ← fNat? j "n"
    let ua := carr (← fFloats? j "ur") (← fFloats? j "ui")
    let wa := carr (← fFloats? j "wr") (← fFloats? j "wi")
    some (ok (jC (ip n (vecOf ua) (vecOf wa))))
  | _ => none

def main : IO Unit := mainLoop handler
