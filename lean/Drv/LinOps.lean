/-
  Driver of the LinOps engine (property C04): executes the definitions of `Scico.Model.LinOps` at
  `Float` and returns the *documented* matrices (`…Matrix`) and the code-shaped evaluations (`…Eval`).
  Matrices travel as {"r": rows, "c": cols, "d": row-major list of IEEE bit patterns}.
-/
import Scico.Common.Wire
import Scico.Model.LinOps
open Lean Scico.Wire Scico.LinOps Scico.Shape

def vecOf (l : List Float) : V Float :=
  let a := l.toArray
  fun i => a.getD i 0.0

def denseOf (A : M Float) (r c : Nat) : List Float :=
  (List.range r).flatMap (fun i => (List.range c).map (A i))

def jMat (A : M Float) (r c : Nat) : Json :=
  jObj [("r", jN r), ("c", jN c), ("d", jFs (denseOf A r c))]

def evalTo (y : V Float) (r : Nat) : List Float := (List.range r).map y

def jYs (f : V Float → V Float) (r : Nat) (xs : List (List Float)) : Json :=
  jArr (xs.map (fun x => jFs (evalTo (f (vecOf x)) r)))

def optInt? (j : Json) (k : String) : Option (Option Int) :=
  match field? j k with
  | none => some none
  | some .null => some none
  | some v => (getInt? v).map some

def ext? (j : Json) (k : String) : Option Ext :=
  match optInt? j k with
  | some none => some .no
  | some (some 0) => some .b0
  | some (some 1) => some .b1
  | _ => none

def mode? (j : Json) : Option ConvMode :=
  match fStr? j "mode" with
  | some "full" => some .full
  | some "valid" => some .valid
  | some "same" => some .same
  | _ => none

def xsOf (j : Json) : List (List Float) := (fFloatss? j "xs").getD []

/-- a 1-d linear map: input length, output length, documented matrix, code-shaped evaluation -/
structure Op1 where
  n : Nat
  m : Nat
  mat : M Float
  eval : V Float → V Float

def op1? (j : Json) : Option (Except String Op1) := do
  let kind ← fStr? j "kind"
  match kind with
  | "fd" =>
    let n ← fNat? j "n"
    let c : FDCfg := ⟨← ext? j "prepend", ← ext? j "append", ← fBool? j "circular"⟩
    if !c.valid then some (.error "value") else
    some (.ok ⟨n, fdOutLen c n, fdMatrix c n, fdEval c n⟩)
  | "pad" =>
    let n ← fNat? j "n"; let lo ← fNat? j "lo"; let hi ← fNat? j "hi"
    some (.ok ⟨n, lo + n + hi, padMatrix lo, padEval lo n⟩)
  | "crop" =>
    let p ← fNat? j "n"; let lo ← fNat? j "lo"; let hi ← fNat? j "hi"
    let m := cropOutLen p lo hi
    if m < 0 then some (.error "shape") else
    some (.ok ⟨p, m.toNat, cropMatrix lo, cropEval lo⟩)
  | "slice" =>
    let n ← fNat? j "n"
    let sl : PySlice := ⟨← optInt? j "start", ← optInt? j "stop", ← optInt? j "step"⟩
    match pyIndices n sl with
    | none => some (.error "value")
    | some (a, b, s) => some (.ok ⟨n, (rangeLen a b s).toNat, sliceMatrix a s, sliceEval a s⟩)
  | "fsum" =>
    let n ← fNat? j "n"
    some (.ok ⟨n, n, fsumMatrix n, fsumEval n⟩)
  | "sum" =>
    let n ← fNat? j "n"
    some (.ok ⟨n, 1, fun _ _ => 1.0, fun x _ => sumTo n x⟩)
  | "circ" =>
    let n ← fNat? j "n"; let c ← fNat? j "c"
    let hl ← fFloats? j "h"
    let k := hl.length
    if k > n then some (.error "shape") else
    some (.ok ⟨n, n, circMatrix (vecOf hl) k n c, circEval (vecOf hl) k n c⟩)
  | "conv" =>
    let n ← fNat? j "n"; let mode ← mode? j
    let hl ← fFloats? j "h"
    let k := hl.length
    some (.ok ⟨n, convLen mode n k, convMatrix mode (vecOf hl) k n, fun x => convEval mode (vecOf hl) k x n⟩)
  | "convbyx" =>
    let n ← fNat? j "n"; let mode ← mode? j
    let xl ← fFloats? j "h"
    let k := xl.length
    some (.ok ⟨n, convLen mode k n, convByXMatrix mode (vecOf xl) k n,
      fun h => fun i => convFullEval (vecOf xl) k h n (i + convStart mode k n)⟩)
  | _ => none

structure Cx where
  re : Float
  im : Float

instance : Add Cx := ⟨fun a b => ⟨a.re + b.re, a.im + b.im⟩⟩
instance : Mul Cx := ⟨fun a b => ⟨a.re * b.re - a.im * b.im, a.re * b.im + a.im * b.re⟩⟩
instance : Zero Cx := ⟨⟨0.0, 0.0⟩⟩
instance : One Cx := ⟨⟨1.0, 0.0⟩⟩

def pi : Float := 3.141592653589793

def jCMat (A : Nat → Nat → Cx) (r c : Nat) : Json :=
  let es := (List.range r).flatMap (fun i => (List.range c).map (A i))
  jObj [("r", jN r), ("c", jN c), ("re", jFs (es.map (·.re))), ("im", jFs (es.map (·.im)))]

def blocks? (j : Json) (k : String) : Option (List (M Float × Nat × Nat)) := do
  let l ← fList? j k
  l.mapM (fun b => do
    let r ← fNat? b "r"; let c ← fNat? b "c"; let d ← fFloats? b "d"
    let a := d.toArray
    some ((fun i jx => a.getD (i * c + jx) 0.0), r, c))

/-- `_calc_weights` of XRayTransform2D for one angle, operation by operation (Float) -/
def calcWeights (x0a x0b dxa dxb : Float) (nx0 nx1 : Nat) (angle y0 : Float) :
    List Int × List Float × Float :=
  let u0 := Float.cos angle
  let u1 := Float.sin angle
  let px0 := x0a * u0 + x0b * u1 - y0
  let pdx0 := dxa * u0
  let pdx1 := dxb * u1
  let pxmin := min (min px0 (px0 + pdx0)) (min (px0 + pdx1) (px0 + pdx0 + pdx1))
  let diag1 := Float.abs (pdx0 + pdx1)
  let diag2 := Float.abs (pdx0 - pdx1)
  let w := max diag1 diag2
  let f := min diag1 diag2
  let width := (w + f) / 2
  let cells := (List.range nx0).flatMap (fun i => (List.range nx1).map (fun jx => (i, jx)))
  let pxs := cells.map (fun (i, jx) => pxmin + pdx0 * i.toFloat + pdx1 * jx.toFloat)
  let inds := pxs.map (fun p => (Float.floor p).toInt64.toInt)
  let wts := pxs.map (fun p => (min (1 - (p - Float.floor p)) width) / width)
  let margin := pxs.foldl (fun acc p => min acc (Float.abs (p - Float.round p))) 1.0
  (inds, wts, margin)

def handler : Handler := fun op j =>
  match op with
  | "op1" => do
    let spec ← field? j "spec"
    match ← op1? spec with
    | .error e => some (err e)
    | .ok o => some (ok (jObj [("n", jN o.n), ("m", jN o.m), ("mat", jMat o.mat o.m o.n), ("ys", jYs o.eval o.m (xsOf j))]))
  | "lift" => do
    let spec ← field? j "spec"
    let outer ← fNat? j "outer"; let inner ← fNat? j "inner"
    match ← op1? spec with
    | .error e => some (err e)
    | .ok o =>
      let rows := outer * o.m * inner
      let cols := outer * o.n * inner
      some (ok (jObj [("r", jN rows), ("c", jN cols), ("mat", jMat (kronAxis o.n o.m inner o.mat) rows cols),
        ("ys", jYs (alongAxis o.n o.m inner o.eval) rows (xsOf j))]))
  | "fdnd" => do
    let shape ← fNats? j "shape"; let axes ← fNats? j "axes"
    let c : FDCfg := ⟨← ext? j "prepend", ← ext? j "append", ← fBool? j "circular"⟩
    if !c.valid then some (err "value") else
    if axes.any (fun a => a ≥ shape.length) then some (err "value") else
    let specs := axes.map (fun a => (prodL (shape.take a), shape.getD a 1, prodL (shape.drop (a + 1))))
    let rows := fdNdRows c specs
    let cols := prodL shape
    some (ok (jObj [("r", jN rows), ("c", jN cols), ("mat", jMat (fdNdMatrix c specs) rows cols),
      ("ys", jYs (fdNdEval c specs) rows (xsOf j)),
      ("outlens", jNs (axes.map (fun a => fdOutLen c (shape.getD a 1))))]))
  | "sumaxis" => do
    let outer ← fNat? j "outer"; let n ← fNat? j "n"; let inner ← fNat? j "inner"
    let rows := outer * inner
    let cols := outer * n * inner
    some (ok (jObj [("mat", jMat (sumAxisMatrix n inner) rows cols), ("ys", jYs (sumAxisEval n inner) rows (xsOf j))]))
  | "vstack" => do
    let bs ← blocks? j "blocks"
    let n ← fNat? j "n"
    let ops := bs.map (fun (A, r, _) => (A, r))
    let rows := totalRows ops
    some (ok (jObj [("mat", jMat (vstackMatrix ops) rows n), ("ys", jYs (vstackEval ops n) rows (xsOf j))]))
  | "dstack" => do
    let bs ← blocks? j "blocks"
    let rows := dRows bs
    let cols := dCols bs
    some (ok (jObj [("mat", jMat (dstackMatrix bs) rows cols), ("ys", jYs (dstackEval bs) rows (xsOf j))]))
  | "transpose" => do
    let dims ← fNats? j "dims"; let perm ← fNats? j "perm"
    let src : V Nat := transposeEval dims perm (fun k => k)
    some (ok (jObj [("src", jNs ((List.range (prodL dims)).map src)),
      ("oshape", jNs (perm.map (fun a => dims.getD a 1)))]))
  | "swapaxes" => do
    let a ← fNat? j "a"; let b ← fNat? j "b"; let inner ← fNat? j "inner"; let outer ← fNat? j "outer"
    let src : V Nat := swapAxesEval a b inner (fun k => k)
    some (ok (jNs ((List.range (outer * a * b * inner)).map src)))
  | "unravel" => do
    let dims ← fNats? j "dims"; let k ← fNat? j "k"
    let idx := unravel dims k
    some (ok (jObj [("idx", jNs idx), ("back", jN (ravel dims idx))]))
  | "xray" => do
    let ny ← fNat? j "ny"
    let I ← fInts? j "I"; let w ← fFloats? j "w"; let x ← fFloats? j "x"
    let np := I.length
    let Ia := I.toArray
    let If : Nat → Int := fun p => Ia.getD p 0
    let wv := vecOf w
    let basis (q : Nat) : V Float := fun p => if p = q then 1.0 else 0.0
    let mat : M Float := fun b p => xrayProject np If wv (basis p) ny b
    let y := xrayProject np If wv (vecOf x) ny
    let allOn := (List.range np).all (fun p => decide (0 ≤ If p ∧ If p + 1 < (ny : Int)))
    some (ok (jObj [("mat", jMat mat ny np), ("doc", jMat (xrayMatrix If wv) ny np), ("y", jFs (evalTo y ny)),
      ("mass_out", jF (sumTo ny y)), ("mass_in", jF (sumTo np (vecOf x))), ("all_on", jB allOn)]))
  | "xrayw" => do
    let x0 ← fFloats? j "x0"; let dx ← fFloats? j "dx"
    let nx ← fNats? j "nx"; let angle ← fFloat? j "angle"; let y0 ← fFloat? j "y0"
    let (inds, wts, margin) := calcWeights (x0.getD 0 0.0) (x0.getD 1 0.0) (dx.getD 0 0.0) (dx.getD 1 0.0)
      (nx.getD 0 0) (nx.getD 1 0) angle y0
    some (ok (jObj [("inds", jIs inds), ("weights", jFs wts), ("margin", jF margin)]))
  | "dftinit" => do
    let shape ← fNats? j "shape"
    let axes := fNats? j "axes"
    let ash := fNats? j "axes_shape"
    match dftInit ⟨shape, axes, ash⟩ with
    | none => some (err "value")
    | some (ax, out, inv) =>
      let jo (o : Option (List Nat)) : Json := match o with | none => Json.null | some l => jNs l
      some (ok (jObj [("axes", jo ax), ("output_shape", jNs out), ("inv_axes_shape", jo inv),
        ("inv_shape", jNs (dftInvShape ax out inv))]))
  | "dft1" => do
    let n ← fNat? j "n"; let m ← fNat? j "m"
    let norm ← fStr? j "norm"
    let inv ← fBool? j "inv"
    let basis (q : Nat) : V Cx := fun p => if p = q then 1 else 0
    if !inv then
      let s : Float := match norm with | "ortho" => 1.0 / Float.sqrt m.toFloat | "forward" => 1.0 / m.toFloat | _ => 1.0
      let th := 2.0 * pi / m.toFloat
      let ω : Cx := ⟨Float.cos th, -(Float.sin th)⟩
      some (ok (jCMat (fun k q => dftEval ω ⟨s, 0.0⟩ n m (basis q) k) m n))
    else
      -- `inv` as coded: spectrum of length m cropped / padded to n, n-point inverse
      let s : Float := match norm with | "ortho" => 1.0 / Float.sqrt n.toFloat | "forward" => 1.0 | _ => 1.0 / n.toFloat
      let th := 2.0 * pi / n.toFloat
      let ω : Cx := ⟨Float.cos th, Float.sin th⟩
      some (ok (jCMat (fun jx q => dftInvEval ω ⟨s, 0.0⟩ n m (basis q) jx) n m))
  | "freq" => do
    let n ← fNat? j "n"; let d ← fFloat? j "d"
    some (ok (jObj [("fftfreq", jFs ((List.range n).map (fftfreq n d))), ("signed", jFs ((List.range n).map (signedFreq n d)))]))
  | "kp" => do
    let n0 ← fNat? j "n0"; let n1 ← fNat? j "n1"; let d0 ← fFloat? j "d0"; let d1 ← fFloat? j "d1"
    let g (f : Nat → Nat → Float) : M Float := fun a b => 2.0 * pi * Float.sqrt (f a b)
    some (ok (jObj [("doc", jMat (g (kpSqDoc n0 n1 d0 d1)) n0 n1),
      ("pinned", jMat (g (kpSqPinned n0 n1 d0 d1)) n1 n0)]))
  | _ => none

def main : IO Unit := mainLoop handler
