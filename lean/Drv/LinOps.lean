/-
  Driver of the LinOps engine (property C04): executes the definitions of `Scico.Model.LinOps` at
  `Float` and returns the *documented* matrices (`…Matrix`) and the code-shaped evaluations (`…Eval`).
  Matrices travel as {"r": rows, "c": cols, "d": row-major list of IEEE bit patterns}.
-/
import Scico.Common.Wire
import Scico.Model.LinOps
open Lean Scico.Wire Scico.LinOps Scico.Shape

def vecOf (l : List Float) : V Float :=
  let a := l.toArray
  fun i => a.getD i 0.0

def denseOf (A : M Float) (r c : Nat) : List Float :=
  (List.range r).flatMap (fun i => (List.range c).map (A i))

def jMat (A : M Float) (r c : Nat) : Json :=
  jObj [("r", jN r), ("c", jN c), ("d", jFs (denseOf A r c))]

def evalTo (y : V Float) (r : Nat) : List Float := (List.range r).map y

def jYs (f : V Float → V Float) (r : Nat) (xs : List (List Float)) : Json :=
  jArr (xs.map (fun x => jFs (evalTo (f (vecOf x)) r)))

def optInt? (j : Json) (k : String) : Option (Option Int) :=
  match field? j k with
  | none => some none
  | some .null => some none
  | some v => (getInt? v).map some

def ext? (j : Json) (k : String) : Option Ext :=
  match optInt? j k with
  | some none => some .no
  | some (some 0) => some .b0
  | some (some 1) => some .b1
  | _ => none

def mode? (j : Json) : Option ConvMode :=
  match fStr? j "mode" with
  | some "full" => some .full
  | some "valid" => some .valid
  | some "same" => some .same
  | _ => none

def xsOf (j : Json) : List (List Float) := (fFloatss? j "xs").getD []

/-- a 1-d linear map: input length, output length, documented matrix, code-shaped evaluation -/
structure Op1 where
  n : Nat
  m : Nat
  mat : M Float
  eval : V Float → V Float

def op1? (j : Json) : Option (Except String Op1) := do
  let kind ← fStr? j "kind"
  match kind with
  | "fd" =>
    let n ← fNat? j "n"
    let c : FDCfg := ⟨← ext? j "prepend", ← ext? j "append", ← fBool? j "circular"⟩
    if !c.valid then some (.error "value") else
    some (.ok ⟨n, fdOutLen c n, fdMatrix c n, fdEval c n⟩)
  | "pad" =>
    let n ← fNat? j "n"; let lo ← fNat? j "lo"; let hi ← fNat? j "hi"
    some (.ok ⟨n, lo + n + hi, padMatrix lo, padEval lo n⟩)
  | "crop" =>
    let p ← fNat? j "n"; let lo ← fNat? j "lo"; let hi ← fNat? j "hi"
    let m := cropOutLen p lo hi
    if m < 0 then some (.error "shape") else
    some (.ok ⟨p, m.toNat, cropMatrix lo, cropEval lo⟩)
  | "slice" =>
    let n ← fNat? j "n"
    let sl : PySlice := ⟨← optInt? j "start", ← optInt? j "stop", ← optInt? j "step"⟩
    match pyIndices n sl with
    | none => some (.error "value")
    | some (a, b, s) => some (.ok ⟨n, (rangeLen a b s).toNat, sliceMatrix a s, sliceEval a s⟩)
  | "fsum" =>
    let n ← fNat? j "n"
    some (.ok ⟨n, n, fsumMatrix n, fsumEval n⟩)
  | "sum" =>
    let n ← fNat? j "n"
    some (.ok ⟨n, 1, fun _ _ => 1.0, fun x _ => sumTo n x⟩)
  | "circ" =>
    let n ← fNat? j "n"; let c ← fNat? j "c"
    let hl ← fFloats? j "h"
    let k := hl.length
    -- a filter longer than the axis is cropped by `fftn(h, s=n)`
    some (.ok ⟨n, n, circMatrix (vecOf hl) k n c, circEval (vecOf hl) (min k n) n c⟩)
  | "padmode" =>
    let n ← fNat? j "n"; let lo ← fNat? j "lo"; let hi ← fNat? j "hi"
    let mode ← match fStr? j "mode" with
      | some "edge" => some PadMode.edge | some "wrap" => some PadMode.wrap
      | some "reflect" => some PadMode.reflect | some "symmetric" => some PadMode.symmetric | _ => none
    if n = 0 then some (.error "value") else
    some (.ok ⟨n, lo + n + hi, padModeMatrix mode lo n, padModeEval mode lo n⟩)
  | "padmean" =>
    let n ← fNat? j "n"; let lo ← fNat? j "lo"; let hi ← fNat? j "hi"
    some (.ok ⟨n, lo + n + hi, padMeanMatrix Nat.toFloat lo n, padMeanEval Nat.toFloat lo n⟩)
  | "cdiff" =>
    let n ← fNat? j "n"
    if n < 2 then some (.error "value") else
    some (.ok ⟨n, n, cdiffMatrix 2.0 n, cdiffEval 2.0 n⟩)
  | "conv" =>
    let n ← fNat? j "n"; let mode ← mode? j
    let hl ← fFloats? j "h"
    let k := hl.length
    some (.ok ⟨n, convLen mode n k, convMatrix mode (vecOf hl) k n, fun x => convEval mode (vecOf hl) k x n⟩)
  | "convbyx" =>
    let n ← fNat? j "n"; let mode ← mode? j
    let xl ← fFloats? j "h"
    let k := xl.length
    some (.ok ⟨n, convLen mode k n, convByXMatrix mode (vecOf xl) k n,
      fun h => fun i => convFullEval (vecOf xl) k h n (i + convStart mode k n)⟩)
  | _ => none

structure Cx where
  re : Float
  im : Float

instance : Add Cx := ⟨fun a b => ⟨a.re + b.re, a.im + b.im⟩⟩
instance : Mul Cx := ⟨fun a b => ⟨a.re * b.re - a.im * b.im, a.re * b.im + a.im * b.re⟩⟩
instance : Zero Cx := ⟨⟨0.0, 0.0⟩⟩
instance : One Cx := ⟨⟨1.0, 0.0⟩⟩

def pi : Float := 3.141592653589793

def cvecOf (re im : List Float) : V Cx :=
  let a := re.toArray
  let b := im.toArray
  fun i => ⟨a.getD i 0.0, b.getD i 0.0⟩

/-- tabulate the first `n` entries (bind the result with `let` so that repeated reads do not recompute) -/
def ctab (n : Nat) (v : V Cx) : Array Cx := ((List.range n).map v).toArray
def cget (a : Array Cx) : V Cx := fun i => a.getD i 0

def expC (t : Float) : Cx := ⟨Float.cos (2.0 * pi * t), Float.sin (2.0 * pi * t)⟩
def cosC (t : Float) : Cx := ⟨Float.cos (2.0 * pi * t), 0.0⟩
def rootC (n : Nat) (inv : Bool) : Cx :=
  let th := 2.0 * pi / n.toFloat
  ⟨Float.cos th, if inv then Float.sin th else -(Float.sin th)⟩
def cscale (s : Float) : Cx := ⟨s, 0.0⟩

/-- the filter spectrum `h_dft` the constructor builds over the axes `dims`: `fftn(h, s=dims)` times the shift
    phases of the (possibly fractional) centres -/
def hdftNd (dims ks : List Nat) (cen : List Float) (h : V Cx) : Array Cx :=
  let ws := dims.map (fun n => rootC n false)
  let H0 := ctab (prodL dims) (dftNd dims ws (padNd ks dims h))
  -- the constructor's phases: `shiftPhaseNd` with offset `−h_center`
  ctab (prodL dims) (fun f => cget H0 f * shiftPhaseNd expC cosC Nat.toFloat (cen.map (fun c => -c)) dims f)

def jCMat (A : Nat → Nat → Cx) (r c : Nat) : Json :=
  let es := (List.range r).flatMap (fun i => (List.range c).map (A i))
  jObj [("r", jN r), ("c", jN c), ("re", jFs (es.map (·.re))), ("im", jFs (es.map (·.im)))]

def blocks? (j : Json) (k : String) : Option (List (M Float × Nat × Nat)) := do
  let l ← fList? j k
  l.mapM (fun b => do
    let r ← fNat? b "r"; let c ← fNat? b "c"; let d ← fFloats? b "d"
    let a := d.toArray
    some ((fun i jx => a.getD (i * c + jx) 0.0), r, c))

def dt? (s : String) : Option DT :=
  match s with
  | "float32" => some .f32 | "float64" => some .f64 | "complex64" => some .c64 | "complex128" => some .c128 | _ => none

def dtName : DT → String
  | .f32 => "float32" | .f64 => "float64" | .c64 => "complex64" | .c128 => "complex128"

def handler : Handler := fun op j =>
  match op with
  | "op1" => do
    let spec ← field? j "spec"
    match ← op1? spec with
    | .error e => some (err e)
    | .ok o => some (ok (jObj [("n", jN o.n), ("m", jN o.m), ("mat", jMat o.mat o.m o.n), ("ys", jYs o.eval o.m (xsOf j))]))
  | "lift" => do
    let spec ← field? j "spec"
    let outer ← fNat? j "outer"; let inner ← fNat? j "inner"
    match ← op1? spec with
    | .error e => some (err e)
    | .ok o =>
      let rows := outer * o.m * inner
      let cols := outer * o.n * inner
      some (ok (jObj [("r", jN rows), ("c", jN cols), ("mat", jMat (kronAxis o.n o.m inner o.mat) rows cols),
        ("ys", jYs (alongAxis o.n o.m inner o.eval) rows (xsOf j))]))
  | "fdnd" => do
    let shape ← fNats? j "shape"; let axes ← fNats? j "axes"
    let c : FDCfg := ⟨← ext? j "prepend", ← ext? j "append", ← fBool? j "circular"⟩
    if !c.valid then some (err "value") else
    if axes.any (fun a => a ≥ shape.length) then some (err "value") else
    let specs := axes.map (fun a => (prodL (shape.take a), shape.getD a 1, prodL (shape.drop (a + 1))))
    let rows := fdNdRows c specs
    let cols := prodL shape
    some (ok (jObj [("r", jN rows), ("c", jN cols), ("mat", jMat (fdNdMatrix c specs) rows cols),
      ("ys", jYs (fdNdEval c specs) rows (xsOf j)),
      ("outlens", jNs (axes.map (fun a => fdOutLen c (shape.getD a 1))))]))
  | "sumaxis" => do
    let outer ← fNat? j "outer"; let n ← fNat? j "n"; let inner ← fNat? j "inner"
    let rows := outer * inner
    let cols := outer * n * inner
    some (ok (jObj [("mat", jMat (sumAxisMatrix n inner) rows cols), ("ys", jYs (sumAxisEval n inner) rows (xsOf j))]))
  | "vstack" => do
    let bs ← blocks? j "blocks"
    let n ← fNat? j "n"
    let ops := bs.map (fun (A, r, _) => (A, r))
    let rows := totalRows ops
    some (ok (jObj [("mat", jMat (vstackMatrix ops) rows n), ("ys", jYs (vstackEval ops n) rows (xsOf j))]))
  | "dstack" => do
    let bs ← blocks? j "blocks"
    let rows := dRows bs
    let cols := dCols bs
    some (ok (jObj [("mat", jMat (dstackMatrix bs) rows cols), ("ys", jYs (dstackEval bs) rows (xsOf j))]))
  | "transpose" => do
    let dims ← fNats? j "dims"; let perm ← fNats? j "perm"
    let src : V Nat := transposeEval dims perm (fun k => k)
    some (ok (jObj [("src", jNs ((List.range (prodL dims)).map src)),
      ("oshape", jNs (perm.map (fun a => dims.getD a 1)))]))
  | "swapaxes" => do
    let a ← fNat? j "a"; let b ← fNat? j "b"; let inner ← fNat? j "inner"; let outer ← fNat? j "outer"
    let src : V Nat := swapAxesEval a b inner (fun k => k)
    some (ok (jNs ((List.range (outer * a * b * inner)).map src)))
  | "unravel" => do
    let dims ← fNats? j "dims"; let k ← fNat? j "k"
    let idx := unravel dims k
    some (ok (jObj [("idx", jNs idx), ("back", jN (ravel dims idx))]))
  | "xray" => do
    let ny ← fNat? j "ny"
    let I ← fInts? j "I"; let w ← fFloats? j "w"; let x ← fFloats? j "x"
    let np := I.length
    let Ia := I.toArray
    let If : Nat → Int := fun p => Ia.getD p 0
    let wv := vecOf w
    let basis (q : Nat) : V Float := fun p => if p = q then 1.0 else 0.0
    let mat : M Float := fun b p => xrayProject np If wv (basis p) ny b
    let y := xrayProject np If wv (vecOf x) ny
    let allOn := (List.range np).all (fun p => decide (0 ≤ If p ∧ If p + 1 < (ny : Int)))
    some (ok (jObj [("mat", jMat mat ny np), ("doc", jMat (xrayMatrix If wv) ny np), ("y", jFs (evalTo y ny)),
      ("mass_out", jF (sumTo ny y)), ("mass_in", jF (sumTo np (vecOf x))), ("all_on", jB allOn)]))
  | "xrayw" => do
    let x0 ← fFloats? j "x0"; let dx ← fFloats? j "dx"
    let nx ← fNats? j "nx"; let angle ← fFloat? j "angle"; let y0 ← fFloat? j "y0"
    let g : XGeom Float := ⟨x0.getD 0 0.0, x0.getD 1 0.0, dx.getD 0 0.0, dx.getD 1 0.0, y0, Float.cos angle, Float.sin angle⟩
    let fl : Float → Int := fun p => (Float.floor p).toInt64.toInt
    let cells := (List.range (nx.getD 0 0)).flatMap (fun i => (List.range (nx.getD 1 0)).map (fun jx => (i, jx)))
    let inds := cells.map (fun (i, jx) => g.ind fl i jx)
    let wts := cells.map (fun (i, jx) => g.wt fl Float.ofInt i jx)
    let margin := cells.foldl (fun acc (i, jx) => let p := g.px i jx; min acc (Float.abs (p - Float.round p))) 1.0
    some (ok (jObj [("inds", jIs inds), ("weights", jFs wts), ("margin", jF margin)]))
  | "circspec" => do
    -- DFT-domain path of CircularConvolve over the axes `dims` (any ndims): spectrum from the filter and the
    -- (fractional) centres, or given directly (`h_is_dft`); dense matrix of `ifftn(H · fftn(x))`
    let dims ← fNats? j "dims"
    let N := prodL dims
    let ws := dims.map (fun n => rootC n false)
    let wis := dims.map (fun n => rootC n true)
    let Ha : Array Cx ← match fBool? j "h_is_dft" with
      | some true => do
          let re ← fFloats? j "hre"; let im ← fFloats? j "him"
          some (ctab N (cvecOf re im))
      | _ => do
          let ks ← fNats? j "ks"
          let re ← fFloats? j "hre"; let im ← fFloats? j "him"
          let cen ← fFloats? j "center"
          some (hdftNd dims ks cen (cvecOf re im))
    let H : V Cx := cget Ha
    let basis (q : Nat) : V Cx := fun p => if p = q then 1 else 0
    -- columns: `circNdSpecEval` with the spectrum of the basis vector tabulated once (common subexpression)
    let sN := cscale (1.0 / N.toFloat)
    let cols : Array (Array Cx) := ((List.range N).map (fun q =>
      let xh := ctab N (dftNd dims ws (basis q))
      ctab N (fun p => sN * dftNd dims wis (fun f => H f * cget xh f) p))).toArray
    -- the model definition itself on the given inputs
    let ys := (xsOf j).map (fun x => let xv := vecOf x
      (List.range N).map (fun p => circNdSpecEval dims ws wis sN H (fun i => ⟨xv i, 0.0⟩) p))
    some (ok (jObj [("mat", jCMat (fun p q => cget (cols.getD q #[]) p) N N),
      ("hdft", jCMat (fun _ f => H f) 1 N),
      ("ys", jArr (ys.map (fun y => jObj [("re", jFs (y.map (·.re))), ("im", jFs (y.map (·.im)))])))]))
  | "circnd" => do
    -- signal-domain N-d circular convolution with integer centres: documented circulant and tap-sum evaluation
    let dims ← fNats? j "dims"; let ks ← fNats? j "ks"; let cs ← fNats? j "cs"
    let re ← fFloats? j "hre"; let im ← fFloats? j "him"
    if ks.length ≠ dims.length ∨ cs.length ≠ dims.length then some (err "shape") else
    let N := prodL dims
    let h := cvecOf re im
    -- a filter longer than an axis is cropped by `fftn(h, s=dims)`: `minShape`, `cropFilter` (C04_circ_nd_fft_crop)
    let ks' := minShape ks dims
    let hc : V Cx := cropFilter ks dims h
    let basis (q : Nat) : V Cx := fun p => if p = q then 1 else 0
    some (ok (jObj [("mat", jCMat (circMatrixNd ks' dims cs hc) N N),
      ("eval", jCMat (fun p q => circNd ks' dims cs hc (basis q) p) N N)]))
  | "convnd" => do
    let dims ← fNats? j "dims"; let ks ← fNats? j "ks"; let mode ← mode? j
    let byx ← fBool? j "byx"
    let hl ← fFloats? j "h"
    if ks.length ≠ dims.length then some (err "shape") else
    -- Convolve: convolve(x, h): windows from (dims, ks); ConvolveByX: convolve(xfix, h): windows from (ks, dims)
    let ss := if byx then convStarts mode ks dims else convStarts mode dims ks
    let os := if byx then convLens mode ks dims else convLens mode dims ks
    let rows := prodL os
    let cols := prodL dims
    some (ok (jObj [("r", jN rows), ("c", jN cols), ("oshape", jNs os),
      ("mat", jMat (convMatrixNdW ss os ks dims (vecOf hl)) rows cols),
      ("ys", jYs (convNdW ss os ks dims (vecOf hl)) rows (xsOf j))]))
  | "proj" => do
    -- one local axis of ProjectedGradient: coordinate fields c_m and gradient matrices G_m
    let cs ← fFloatss? j "coords"
    let bs ← blocks? j "grads"
    let n ← fNat? j "n"
    if cs.length ≠ bs.length then some (err "shape") else
    let l : List (V Float × M Float) := (cs.zip bs).map (fun (c, (G, _, _)) => (vecOf c, G))
    let rows := match bs with | (_, r, _) :: _ => r | [] => 0
    some (ok (jObj [("mat", jMat (projMatrix l) rows n),
      ("ys", jYs (fun x => projEval (l.map (fun cG => (cG.1, mulVec cG.2 n x)))) rows (xsOf j))]))
  | "dftnd" => do
    let dims ← fNats? j "dims"; let norm ← fStr? j "norm"; let inv ← fBool? j "inv"
    let N := prodL dims
    let ws := dims.map (fun n => rootC n inv)
    let s : Float := match norm, inv with
      | "ortho", _ => 1.0 / Float.sqrt N.toFloat
      | "forward", false => 1.0 / N.toFloat
      | "forward", true => 1.0
      | _, false => 1.0
      | _, true => 1.0 / N.toFloat
    let basis (q : Nat) : V Cx := fun p => if p = q then 1 else 0
    some (ok (jCMat (fun p q => cscale s * dftNd dims ws (basis q) p) N N))
  | "normaxes" => do
    let nd ← fNat? j "nd"
    match normAxes nd (fInts? j "axes") with
    | none => some (err "value")
    | some l => some (ok (jNs l))
  | "dftaxes" => do
    -- N-d DFT over a subset of the axes (no padding), the definition of C04_dft_axes_inv
    let dims ← fNats? j "dims"; let axes ← fNats? j "axes"; let norm ← fStr? j "norm"; let inv ← fBool? j "inv"
    let N := prodL dims
    let ws : List (Option Cx) := (List.range dims.length).map (fun a => if axes.contains a then some (rootC (dims.getD a 1) inv) else none)
    let T := dftAxesSize dims ws
    let s : Float := match norm, inv with
      | "ortho", _ => 1.0 / Float.sqrt T.toFloat
      | "forward", false => 1.0 / T.toFloat
      | "forward", true => 1.0
      | _, false => 1.0
      | _, true => 1.0 / T.toFloat
    let basis (q : Nat) : V Cx := fun p => if p = q then 1 else 0
    some (ok (jCMat (fun p q => cscale s * dftAxes dims ws (basis q) p) N N))
  | "x3split" => do
    -- 1-d factor of the 3-D X-ray footprint for a list of left edges: first bin, coded and documented share
    let les ← fFloats? j "le"; let w ← fFloat? j "w"
    let fl : Float → Int := fun p => (Float.floor p).toInt64.toInt
    let cl : Float → Int := fun p => (Float.ceil p).toInt64.toInt
    some (ok (jObj [("ind", jIs (les.map fl)),
      ("coded", jFs (les.map (x3ToNext fl Float.ofInt 1.0 w))),
      ("doc", jFs (les.map (x3Overlap fl Float.ofInt 1.0 w))),
      ("ceil", jFs (les.map (x3ToNextCeil cl Float.ofInt w)))]))
  | "xray3" => do
    -- one view of XRayTransform3D from the left edges of the voxel footprints: indices and shares by the model's
    -- `floor` / `x3ToNext`, four-pixel scatter (`xray3Project`), documented area-fraction matrix (`xray3Matrix`)
    let le0 ← fFloats? j "le0"; let le1 ← fFloats? j "le1"; let w ← fFloat? j "w"
    let d0 ← fNat? j "d0"; let d1 ← fNat? j "d1"; let x ← fFloats? j "x"
    let nv := le0.length
    let fl : Float → Int := fun p => (Float.floor p).toInt64.toInt
    let a0 := le0.toArray; let a1 := le1.toArray
    let I0 : Nat → Int := fun p => fl (a0.getD p 0.0)
    let I1 : Nat → Int := fun p => fl (a1.getD p 0.0)
    let t0a := (le0.map (x3ToNext fl Float.ofInt 1.0 w)).toArray
    let t1a := (le1.map (x3ToNext fl Float.ofInt 1.0 w)).toArray
    let t0 : V Float := fun p => t0a.getD p 0.0
    let t1 : V Float := fun p => t1a.getD p 0.0
    let basis (q : Nat) : V Float := fun p => if p = q then 1.0 else 0.0
    let y := xray3Project nv I0 I1 t0 t1 w (vecOf x) d0 d1
    let covered := (List.range nv).all (fun p =>
      decide (0.0 ≤ a0.getD p 0.0 ∧ a0.getD p 0.0 + w ≤ d0.toFloat ∧ 0.0 ≤ a1.getD p 0.0 ∧ a1.getD p 0.0 + w ≤ d1.toFloat))
    some (ok (jObj [("mat", jMat (fun q p => xray3Project nv I0 I1 t0 t1 w (basis p) d0 d1 q) (d0 * d1) nv),
      ("doc", jMat (xray3Matrix I0 I1 t0 t1 w d1) (d0 * d1) nv),
      ("mass_out", jF (sumTo (d0 * d1) y)), ("mass_in", jF (sumTo nv (vecOf x))), ("covered", jB covered)]))
  | "dftpad" => do
    -- N-d DFT with transform shape `ms` (zero padding / truncation) over the axes `axes`: forward map (`dftFwdPad`),
    -- inverse as coded (`dftInvCodedNd`), documented inverse (`dftInvDocNd`)
    let ns ← fNats? j "ns"; let ms ← fNats? j "ms"; let axes ← fNats? j "axes"; let norm ← fStr? j "norm"
    let Nin := prodL ns
    let Nout := prodL ms
    let mk (dims : List Nat) (inv : Bool) : List (Option Cx) :=
      (List.range dims.length).map (fun a => if axes.contains a then some (rootC (dims.getD a 1) inv) else none)
    let Tm := dftAxesSize ms (mk ms false)
    let Tn := dftAxesSize ns (mk ns false)
    let sc (T : Nat) (inv : Bool) : Float := match norm, inv with
      | "ortho", _ => 1.0 / Float.sqrt T.toFloat
      | "forward", false => 1.0 / T.toFloat
      | "forward", true => 1.0
      | _, false => 1.0
      | _, true => 1.0 / T.toFloat
    let basis (q : Nat) : V Cx := fun p => if p = q then 1 else 0
    some (ok (jObj [
      ("fwd", jCMat (fun f q => dftFwdPad ns ms (mk ms false) (cscale (sc Tm false)) (basis q) f) Nout Nin),
      ("inv_coded", jCMat (fun p q => dftInvCodedNd ns ms (mk ns true) (cscale (sc Tn true)) (basis q) p) Nin Nout),
      ("inv_doc", jCMat (fun p q => dftInvDocNd ns ms (mk ms true) (cscale (sc Tm true)) (basis q) p) Nin Nout)]))
  | "abel" => do
    -- quadrant assembly of the Abel transform with the single-quadrant matrix P (mc × mc) given
    let n ← fNat? j "n"; let m ← fNat? j "m"
    let bs ← blocks? j "P"
    match bs with
    | [(P, _, _)] =>
      let nc := n / 2 + n % 2
      let mc := m / 2 + m % 2
      let basis (q : Nat) : V Float := fun p => if p = q then 1.0 else 0.0
      some (ok (jObj [("mat", jMat (fun p q => abelEval P n m nc mc (basis q) p) (n * m) (n * m)),
        ("doc", jMat (kronAxis m m 1 (abelRowMatrix P m mc)) (n * m) (n * m)),
        ("ys", jYs (abelEval P n m nc mc) (n * m) (xsOf j))]))
    | _ => none
  | "circinit" => do
    let hs ← fNats? j "hshape"; let is ← fNats? j "shape"
    let nd := fNat? j "ndims"
    let hd ← fBool? j "h_is_dft"; let hc ← fBool? j "has_center"
    let a ← (fStr? j "hdtype").bind dt?; let b ← (fStr? j "dtype").bind dt?
    match circInit hs is nd hd hc a b with
    | none => some (err "value")
    | some (out, odt, real) => some (ok (jObj [("output_shape", jNs out), ("output_dtype", jS (dtName odt)), ("real", jB real)]))
  | "convinit" => do
    let hn ← fNat? j "hndim"; let n ← fNat? j "ndim"; let mode ← fStr? j "mode"
    let a ← (fStr? j "hdtype").bind dt?; let b ← (fStr? j "dtype").bind dt?
    match convInit hn n mode a b with
    | none => some (err "value")
    | some odt => some (ok (jS (dtName odt)))
  | "prop" => do
    -- Propagator._eval = F.inv(D @ F @ x), F = DFT(ns, axes_shape = ms) over all axes, default norm: the code as it is
    -- (`propEval`, coded inverse) and the documented operator (`propEvalDoc`)
    let ns ← fNats? j "ns"; let ms ← fNats? j "ms"
    let re ← fFloats? j "dre"; let im ← fFloats? j "dim"
    let Nin := prodL ns
    let Nout := prodL ms
    let Da := ctab Nout (cvecOf re im)
    let D : V Cx := cget Da
    let mk (dims : List Nat) (inv : Bool) : List (Option Cx) := dims.map (fun n => some (rootC n inv))
    let basis (q : Nat) : V Cx := fun p => if p = q then 1 else 0
    some (ok (jObj [
      ("coded", jCMat (fun p q => propEval ns ms (mk ms false) (mk ns true) 1 (cscale (1.0 / Nin.toFloat)) D (basis q) p) Nin Nin),
      ("doc", jCMat (fun p q => propEvalDoc ns ms (mk ms false) (mk ms true) 1 (cscale (1.0 / Nout.toFloat)) D (basis q) p) Nin Nin)]))
  | "euler" => do
    -- homogeneous projection matrix of one view from the rotation matrix (scipy), spacings and shapes
    let bs ← blocks? j "R"
    let vs ← fFloats? j "vs"; let ds ← fFloats? j "ds"
    let hin ← fFloats? j "half_in"; let hout ← fFloats? j "half_out"
    match bs with
    | [(R, _, _)] =>
      let Mm := eulerM R (vecOf vs) (vecOf ds)
      let t := eulerT R (vecOf vs) (vecOf ds) (vecOf hin) (vecOf hout)
      some (ok (jFs ((List.range 2).flatMap (fun i => (List.range 3).map (Mm i) ++ [t i]))))
    | _ => none
  | "dftinit" => do
    let shape ← fNats? j "shape"
    let axes := fInts? j "axes"
    let ash := fNats? j "axes_shape"
    match dftInit ⟨shape, axes, ash⟩ with
    | none => some (err "value")
    | some (ax, out, inv) =>
      let jo (o : Option (List Nat)) : Json := match o with | none => Json.null | some l => jNs l
      let joi (o : Option (List Int)) : Json := match o with | none => Json.null | some l => jIs l
      some (ok (jObj [("axes", joi ax), ("output_shape", jNs out), ("inv_axes_shape", jo inv),
        ("inv_shape", jNs (dftInvShape ax out inv))]))
  | "dft1" => do
    let n ← fNat? j "n"; let m ← fNat? j "m"
    let norm ← fStr? j "norm"
    let inv ← fBool? j "inv"
    let basis (q : Nat) : V Cx := fun p => if p = q then 1 else 0
    if !inv then
      let s : Float := match norm with | "ortho" => 1.0 / Float.sqrt m.toFloat | "forward" => 1.0 / m.toFloat | _ => 1.0
      let th := 2.0 * pi / m.toFloat
      let ω : Cx := ⟨Float.cos th, -(Float.sin th)⟩
      some (ok (jCMat (fun k q => dftEval ω ⟨s, 0.0⟩ n m (basis q) k) m n))
    else
      -- `inv` as coded: spectrum of length m cropped / padded to n, n-point inverse
      let s : Float := match norm with | "ortho" => 1.0 / Float.sqrt n.toFloat | "forward" => 1.0 | _ => 1.0 / n.toFloat
      let th := 2.0 * pi / n.toFloat
      let ω : Cx := ⟨Float.cos th, Float.sin th⟩
      some (ok (jCMat (fun jx q => dftInvEval ω ⟨s, 0.0⟩ n m (basis q) jx) n m))
  | "freq" => do
    let n ← fNat? j "n"; let d ← fFloat? j "d"
    some (ok (jObj [("fftfreq", jFs ((List.range n).map (fftfreq n d))), ("signed", jFs ((List.range n).map (signedFreq n d)))]))
  | "kp" => do
    let n0 ← fNat? j "n0"; let n1 ← fNat? j "n1"; let d0 ← fFloat? j "d0"; let d1 ← fFloat? j "d1"
    let g (f : Nat → Nat → Float) : M Float := fun a b => 2.0 * pi * Float.sqrt (f a b)
    some (ok (jObj [("doc", jMat (g (kpSqDoc n0 n1 d0 d1)) n0 n1),
      ("pinned", jMat (g (kpSqPinned n0 n1 d0 d1)) n1 n0)]))
  | _ => none

def main : IO Unit := mainLoop handler
