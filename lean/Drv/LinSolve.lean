/-
  Driver of the LinSolve engine (C14, C10) over the JSON line protocol.

  Real data travel as lists of binary64 bit patterns, complex data as interleaved (re, im) lists;
  `"dt"` is `"r"` or `"c"`.  Matrices are flattened row-major.  The driver instantiates the generic
  models of `Scico.Model.LinSolve` at `Float` / `Cx Float`; the only code here that is not in the
  model is transport and a small Gaussian elimination that plays the role of `lu_solve`
  (the *contract* of the factorisation, checked on every call through the returned residual).
-/
import Scico.Common.Wire
import Scico.Model.LinSolve
open Lean Scico Scico.Wire Scico.LinSolve

/-- everything the driver needs of a scalar type -/
class Sc (α : Type) extends Add α, Sub α, Mul α, Div α, Neg α, Zero α, One α, HasConj α, HasIsZero α, Inhabited α where
  dec : List Float → Option (List α)
  enc : List α → List Float
  absSq : α → Float
  gtReal : α → Float → Bool
  sqrtRe : α → Float
  ofFloat : Float → α
  reOf : α → Float

instance : Sc Float where
  dec l := some l
  enc l := l
  absSq x := x * x
  gtReal s t := decide (t < s)
  sqrtRe s := Float.sqrt s
  ofFloat x := x
  reOf x := x
  isZ x := x == 0

def decCx : List Float → Option (List (Cx Float))
  | [] => some []
  | [_] => none
  | a :: b :: t => (decCx t).map (⟨a, b⟩ :: ·)

instance : Inhabited (Cx Float) := ⟨⟨0, 0⟩⟩

instance : Sc (Cx Float) where
  dec := decCx
  enc l := l.flatMap fun z => [z.re, z.im]
  absSq z := z.re * z.re + z.im * z.im
  -- jnp compares complex numbers lexicographically
  gtReal s t := decide (t < s.re) || (!(decide (s.re < t)) && !(decide (t < s.re)) && decide (0 < s.im))
  -- real part of the principal square root
  sqrtRe z := Float.sqrt ((Float.sqrt (z.re * z.re + z.im * z.im) + z.re) / 2)
  ofFloat x := ⟨x, 0⟩
  reOf z := z.re
  isZ z := z.re == 0 && z.im == 0

section generic
variable {α : Type} [Sc α]

def fnorm (v : FVec α) : Float := Float.sqrt (v.d.foldl (fun s x => s + Sc.absSq x) 0)
def lnorm (l : List α) : Float := Float.sqrt (l.foldl (fun s x => s + Sc.absSq x) 0)

def fops : CGOps α Float (FVec α) :=
  { inner := FVec.inner, norm := fnorm, gtReal := Sc.gtReal, sqrtRe := Sc.sqrtRe, isZero := HasIsZero.isZ }

def jV (l : List α) : Json := jFs (Sc.enc l)

def vecField? (j : Json) (k : String) : Option (List α) := (fFloats? j k).bind Sc.dec

/-- optional field: absent / null → `some none` -/
def optVec? (j : Json) (k : String) : Option (Option (List α)) :=
  match field? j k with
  | none => some none
  | some .null => some none
  | some v => ((getFloats? v).bind Sc.dec).map some

def rowsOf (l : List α) (m n : Nat) : Array (Array α) :=
  let a := l.toArray
  Array.ofFn (n := m) fun i => Array.ofFn (n := n) fun j => a.getD (i.val * n + j.val) default

def matOf (l : List α) (m n : Nat) : Mat α m n :=
  let a := l.toArray
  fun i j => a.getD (i.val * n + j.val) default

def matToList {m n : Nat} (A : Mat α m n) : List α :=
  (List.ofFn fun i : Fin m => List.ofFn fun j : Fin n => A i j).flatten

def vecOf (l : List α) (n : Nat) : Vec α n :=
  let a := l.toArray
  fun i => a.getD i.val default

/-! Gaussian elimination with partial pivoting: stands for `jsl.lu_solve(jsl.lu_factor(G), c)` -/
def luSolve (n : Nat) (G : Array (Array α)) (c : Array α) : Array α := Id.run do
  let mut a := G
  let mut b := c
  for k in [0:n] do
    -- pivot
    let mut piv := k
    let mut best := Sc.absSq ((a.getD k #[]).getD k default)
    for i in [k+1:n] do
      let v := Sc.absSq ((a.getD i #[]).getD k default)
      if best < v then
        piv := i
        best := v
    if piv != k then
      let rk := a.getD k #[]
      let rp := a.getD piv #[]
      a := (a.set! k rp).set! piv rk
      let bk := b.getD k default
      let bp := b.getD piv default
      b := (b.set! k bp).set! piv bk
    let rk := a.getD k #[]
    let akk := rk.getD k default
    for i in [k+1:n] do
      let ri := a.getD i #[]
      let fct := ri.getD k default / akk
      let ri' := Array.ofFn (n := n) fun j => if j.val < k then ri.getD j.val default
                                               else ri.getD j.val default - fct * rk.getD j.val default
      a := a.set! i ri'
      b := b.set! i (b.getD i default - fct * b.getD k default)
  -- back substitution
  let mut x : Array α := Array.replicate n default
  for kk in [0:n] do
    let k := n - 1 - kk
    let rk := a.getD k #[]
    let mut s := b.getD k default
    for j in [k+1:n] do
      s := s - rk.getD j default * x.getD j default
    x := x.set! k (s / rk.getD k default)
  return x

def luSolveVec {n : Nat} (G : Mat α n n) (c : Vec α n) : Vec α n :=
  let x := luSolve n (Array.ofFn fun i => Array.ofFn fun j => G i j) (Array.ofFn c)
  fun i => x.getD i.val default

def luSolveMat {n k : Nat} (G : Mat α n n) (c : Mat α n k) : Mat α n k :=
  let cols : Array (Array α) := Array.ofFn (n := k) fun l =>
    luSolve n (Array.ofFn fun i => Array.ofFn fun j => G i j) (Array.ofFn fun i => c i l)
  fun i l => (cols.getD l.val #[]).getD i.val default

/-! ### CG -/

def stJson (s : CGState α (FVec α)) : Json :=
  jObj [("x", jV s.x.toList), ("r", jV s.r.toList), ("p", jV s.p.toList), ("num", jV [s.num]), ("ii", jN s.ii)]

def opCg (j : Json) : Option Json := do
  let n ← fNat? j "n"
  let A := rowsOf (α := α) (← vecField? j "A") n n
  let Mm ← optVec? (α := α) j "M"
  let b : FVec α := .ofList (← vecField? j "b")
  let x0 ← optVec? (α := α) j "x0"
  let isLinop ← fBool? j "linop"
  let tol ← fFloat? j "tol"
  let atol ← fFloat? j "atol"
  let maxiter ← fNat? j "maxiter"
  let Aop := FVec.matVec A
  let Mop : Option (FVec α → FVec α) := Mm.map fun l => FVec.matVec (rowsOf l n n)
  let zeroV : FVec α := ⟨Array.replicate n 0⟩
  match cgTop fops Aop isLinop zeroV Mop b (x0.map FVec.ofList) tol atol maxiter with
  | .error e => some (err e)
  | .ok (x, info) =>
    let M' : FVec α → FVec α := match Mop with | some m => m | none => fun x => x
    let start : FVec α := match x0 with | some l => .ofList l | none => zeroV
    let bn := fnorm b
    let run := cgRun fops Aop M' maxiter (cgTolSq tol atol bn) maxiter (cgInit fops Aop M' b start)
    some (ok (jObj [("x", jV x.toList), ("num_iter", jN info.numIter), ("rel_res", jF info.relRes),
      ("tolsq", jF (cgTolSq tol atol bn)), ("trace", jArr (run.map stJson))]))

/-- `_vdot_real_tree`, `.astype(dtype)`, `.real` of the jax solver -/
def jops : JaxOps α Float (FVec α) :=
  { vdotRe := fun x y => Sc.reOf (FVec.inner x y), ofReal := Sc.ofFloat, re := Sc.reOf }

def opJaxCg (j : Json) : Option Json := do
  let n ← fNat? j "n"
  let A := rowsOf (α := α) (← vecField? j "A") n n
  let Mm ← optVec? (α := α) j "M"
  let b : FVec α := .ofList (← vecField? j "b")
  let x0 ← optVec? (α := α) j "x0"
  let tol ← fFloat? j "tol"
  let atol ← fFloat? j "atol"
  let maxiter ← fNat? j "maxiter"
  let Aop := FVec.matVec A
  let Mop : Option (FVec α → FVec α) := Mm.map fun l => FVec.matVec (rowsOf l n n)
  -- `_isolve`: `x0 = zeros_like(b)` when not given
  let start : FVec α := match x0 with | some l => .ofList l | none => ⟨Array.replicate n 0⟩
  let x := jaxCg jops Aop Mop b start tol atol maxiter
  let atol2 := jaxAtol2 tol atol (jops.vdotRe b b)
  let run := jaxCgRun jops Aop (precondOf Mop) Mop.isNone maxiter atol2 maxiter (jaxCgInit jops Aop (precondOf Mop) b start)
  let rsOf := fun (s : JaxCGState α (FVec α)) => if Mop.isNone then jops.re s.gamma else jops.vdotRe s.r s.r
  let k := match run.getLast? with | some s => s.k | none => 0
  some (ok (jObj [("x", jV x.toList), ("k", jN k), ("atol2", jF atol2),
    ("trace", jArr (run.map fun s => jObj [("x", jV s.x.toList), ("p", jV s.p.toList), ("rs", jF (rsOf s)), ("k", jN s.k)]))]))

def opCgScan (j : Json) : Option Json := do
  let n ← fNat? j "n"
  let A := rowsOf (α := α) (← vecField? j "A") n n
  let b : FVec α := .ofList (← vecField? j "b")
  let x0 ← optVec? (α := α) j "x0"
  let maxiter ← fNat? j "maxiter"
  let Aop := FVec.matVec A
  let start : FVec α := match x0 with | some l => .ofList l | none => ⟨Array.replicate n 0⟩
  let s0 := scanInit fops Aop b start
  let states := (List.range (maxiter + 1)).map fun k => scanIter fops Aop k s0
  let x := cgScan fops Aop b start maxiter
  some (ok (jObj [("x", jV x.toList),
    ("trace", jArr (states.map fun s => jObj [("x", jV s.x.toList), ("p", jV s.p.toList), ("num", jV [s.num])]))]))

def opLstsq (j : Json) : Option Json := do
  let m ← fNat? j "m"
  let n ← fNat? j "n"
  let Al ← vecField? (α := α) j "A"
  let A := rowsOf Al m n
  let AH := rowsOf (matToList (conjT (matOf Al m n))) n m
  let b : FVec α := .ofList (← vecField? j "b")
  let x0 : FVec α := .ofList (← vecField? j "x0")
  let tol ← fFloat? j "tol"
  let atol ← fFloat? j "atol"
  let maxiter ← fNat? j "maxiter"
  let sys := lstsqSys (FVec.matVec A) (FVec.matVec AH) b
  let (x, info) := lstsq fops (FVec.matVec A) (FVec.matVec AH) (fun v => v) b x0 tol atol maxiter
  -- dense matrix of the system operator (columns = images of basis vectors)
  let cols := (List.range n).map fun k =>
    (sys.1 ⟨Array.ofFn (n := n) fun i => if i.val = k then 1 else 0⟩).toList
  some (ok (jObj [("x", jV x.toList), ("num_iter", jN info.numIter), ("rel_res", jF info.relRes),
    ("rhs", jV sys.2.toList), ("syscols", jArr (cols.map jV))]))

/-! ### MatrixATADSolver -/

def opAtad (j : Json) : Option Json := do
  let m ← fNat? j "m"
  let n ← fNat? j "n"
  let k ← fNat? j "k"     -- 0 = vector right-hand side
  let A := matOf (α := α) (← vecField? j "A") m n
  let W := vecOf (α := α) (← vecField? j "W") m
  let dIsDiag ← fBool? j "ddiag"
  let Dl ← vecField? (α := α) j "D"
  let D : DMat α n := if dIsDiag then .diag (vecOf Dl n) else .full (matOf Dl n n)
  let s : ATAD α m n := { A := A, D := D, W := W }
  let bl ← vecField? (α := α) j "b"
  let xl ← vecField? (α := α) j "x"      -- solution returned by the real solver
  let g := s.gOf
  let gj := jObj [("size", jN g.1), ("G", jV (matToList g.2))]
  let dvec : Vec α n := match D with | .diag d => d | .full _ => fun _ => 0
  let Gw := gWoodbury A dvec W
  let Gd := gDirect A D W
  if k = 0 then
    let b := vecOf bl n
    let x := vecOf xl n
    let xm : Vec α n := freeze (s.solve (luSolveVec Gw) (luSolveVec Gd) b)
    let lx := s.lhsApply x
    let lxm := s.lhsApply xm
    let acc := s.accuracy (fun v => lnorm (List.ofFn v)) x b
    some (ok (jObj [("woodbury", jB s.useWoodbury), ("g", gj), ("x", jV (List.ofFn xm)),
      ("lhs_at_impl_x", jV (List.ofFn lx)), ("lhs_at_model_x", jV (List.ofFn lxm)), ("accuracy", jF acc)]))
  else
    let b := matOf bl n k
    let x := matOf xl n k
    let xm := s.solveM (luSolveMat Gw) (luSolveMat Gd) b
    let lx := s.lhsApplyM x
    let lxm := s.lhsApplyM xm
    let nrm := fun (M : Mat α n k) => lnorm (matToList M)
    let acc := s.accuracyM nrm x b
    some (ok (jObj [("woodbury", jB s.useWoodbury), ("g", gj), ("x", jV (matToList xm)),
      ("lhs_at_impl_x", jV (matToList lx)), ("lhs_at_model_x", jV (matToList lxm)), ("accuracy", jF acc)]))

/-! ### ConvATADSolver (DFT domain) -/

def opConv (j : Json) : Option Json := do
  let K ← fNat? j "K"
  let N ← fNat? j "N"
  let Ahat := matOf (α := α) (← vecField? j "Ahat") K N
  let Dhat := matOf (α := α) (← vecField? j "Dhat") K N
  let bhat := matOf (α := α) (← vecField? j "bhat") K N
  let xhat := matOf (α := α) (← vecField? j "xhat") K N   -- DFT of the real solver's x
  let xm := convSolveHat Ahat Dhat bhat
  some (ok (jObj [("AHEinv", jV (matToList (convAHEinv Ahat Dhat))), ("xhat", jV (matToList xm)),
    ("lhs_at_impl_x", jV (matToList (convLhsHat Ahat Dhat xhat))),
    ("lhs_at_model_x", jV (matToList (convLhsHat Ahat Dhat xm)))]))

def opRelRes (j : Json) : Option Json := do
  let ax ← vecField? (α := α) j "ax"
  let b ← vecField? (α := α) j "b"
  let d := (ax.zip b).map fun p => p.2 - p.1
  some (ok (jF (relResOf (lnorm ax) (lnorm b) (lnorm d))))

/-! ### ADMM x-step assembly (C10): operators are dense matrices -/

def linOpOf (l : List α) (m n : Nat) : LinOp (FVec α) (FVec α) :=
  let A := rowsOf l m n
  let AH := rowsOf (matToList (conjT (matOf l m n))) n m
  { eval := FVec.matVec A, adj := FVec.matVec AH }

def parseTerm (n : Nat) (j : Json) : Option (Term α (FVec α) (FVec α)) := do
  let p ← fNat? j "p"
  let rho ← fFloat? j "rho"
  let C ← vecField? (α := α) j "C"
  let z ← vecField? (α := α) j "z"
  let u ← vecField? (α := α) j "u"
  some { rho := Sc.ofFloat rho, C := linOpOf C p n, z := .ofList z, u := .ofList u }

def parseF (n : Nat) (j : Json) : Option (Option (SqL2 α (FVec α) (FVec α))) :=
  match field? j "f" with
  | none => some none
  | some .null => some none
  | some fj => do
    let m ← fNat? fj "m"
    let scale ← fFloat? fj "scale"
    let A ← vecField? (α := α) fj "A"
    let W ← vecField? (α := α) fj "W"
    let y ← vecField? (α := α) fj "y"
    let Wv : FVec α := .ofList W
    some (some { scale := Sc.ofFloat scale, A := linOpOf A m n, W := fun v => FVec.zipWith (· * ·) Wv v, y := .ofList y })

def basis (n k : Nat) : FVec α := ⟨Array.ofFn (n := n) fun i => if i.val = k then 1 else 0⟩

def colsOf (n : Nat) (f : FVec α → FVec α) : Json :=
  jArr ((List.range n).map fun k => jV (f (basis n k)).toList)

/-- which: "linear" | "fblock" | "g0" -/
def opAdmm (j : Json) : Option Json := do
  let n ← fNat? j "n"
  let which ← fStr? j "which"
  let tl ← fList? j "terms"
  let terms ← tl.mapM (parseTerm (α := α) n)
  let f ← parseF (α := α) n j
  let zeroV : FVec α := ⟨Array.replicate n 0⟩
  match which with
  | "linear" =>
    match linearLhs f terms with
    | none => some (err "type")
    | some lhs => some (ok (jObj [("lhscols", colsOf n lhs), ("rhs", jV (linearRhs zeroV f terms).toList)]))
  | "fblock" =>
    match f with
    | none => some (err "value")
    | some f =>
      match fblockSystem zeroV f terms with
      | none => some (err "type")
      | some (lhs, rhs) => some (ok (jObj [("lhscols", colsOf n lhs), ("rhs", jV rhs.toList)]))
  | "stale" =>   -- lhs assembled at the scale of construction, rhs at the current scale `scale1`
    let s1 ← fFloat? j "scale1"
    match f with
    | none => some (err "value")
    | some f =>
      match staleScaleSystem zeroV f (Sc.ofFloat s1 : α) terms with
      | none => some (err "type")
      | some (lhs, rhs) => some (ok (jObj [("lhscols", colsOf n lhs), ("rhs", jV rhs.toList)]))
  | "fblock_stale" =>
    let s1 ← fFloat? j "scale1"
    match f with
    | none => some (err "value")
    | some f =>
      match fblockStaleSystem zeroV f (Sc.ofFloat s1 : α) terms with
      | none => some (err "type")
      | some (lhs, rhs) => some (ok (jObj [("lhscols", colsOf n lhs), ("rhs", jV rhs.toList)]))
  | "g0" =>
    let omega ← fFloat? j "omega"
    match g0System zeroV (Sc.ofFloat omega : α) terms with
    | none => some (err "type")
    | some (lhs, rhs) => some (ok (jObj [("lhscols", colsOf n lhs), ("rhs", jV rhs.toList)]))
  | _ => none

/-- `CircularConvolveSolver` per frequency -/
def opCirc (j : Json) : Option Json := do
  let N ← fNat? j "N"
  let tl ← fList? j "terms"
  let terms ← tl.mapM fun t => do
    let rho ← fFloat? t "rho"
    let g ← vecField? (α := α) t "ghat"
    some ((Sc.ofFloat rho : α), vecOf g N)
  let f : Option (α × Vec α N) ← match field? j "f" with
    | none => some none
    | some .null => some none
    | some fj => do
      let scale ← fFloat? fj "scale"
      let g ← vecField? (α := α) fj "ghat"
      some (some ((Sc.ofFloat scale : α), vecOf g N))
  let rhsHat := vecOf (α := α) (← vecField? j "rhshat") N
  match circLhsHat f terms with
  | none => some (err "type")
  | some lhs => some (ok (jObj [("lhshat", jV (List.ofFn lhs)), ("xhat", jV (List.ofFn (circSolveHat lhs rhsHat)))]))

/-- `MatrixSubproblemSolver.internal_init`: arguments of `MatrixATADSolver` -/
def opAdmmMatrix (j : Json) : Option Json := do
  let n ← fNat? j "n"
  let m ← fNat? j "m"
  let scale ← fFloat? j "scale"
  let A := matOf (α := α) (← vecField? j "A") m n
  let W := vecOf (α := α) (← vecField? j "W") m
  let tl ← fList? j "terms"
  let terms ← tl.mapM fun t => do
    let rho ← fFloat? t "rho"
    let isDiag ← fBool? t "diag"
    let C ← vecField? (α := α) t "C"
    if isDiag then some ((Sc.ofFloat rho : α), COp.diag (vecOf C n))
    else do
      let p ← fNat? t "p"
      some ((Sc.ofFloat rho : α), COp.mat p (matOf C p n))
  match matrixSubATAD (Sc.ofFloat scale : α) A W terms with
  | none => some (err "type")
  | some s =>
    let dj := match s.D with
      | .diag d => jObj [("ddiag", jB true), ("D", jV (List.ofFn d))]
      | .full D => jObj [("ddiag", jB false), ("D", jV (matToList D))]
    some (ok (jObj [("d", dj), ("W", jV (List.ofFn s.W)), ("A", jV (matToList s.A)), ("woodbury", jB s.useWoodbury)]))

/-- objective `GenericSubproblemSolver` hands to `minimize` -/
def opGenObj (j : Json) : Option Json := do
  let n ← fNat? j "n"
  let tl ← fList? j "terms"
  let terms ← tl.mapM (parseTerm (α := α) n)
  let f ← parseF (α := α) n j
  let x : FVec α := .ofList (← vecField? j "x")
  let sq : FVec α → Float := fun v => v.d.foldl (fun s z => s + Sc.absSq z) 0
  let fval : Option (FVec α → Float) := f.map fun f => fun x =>
    -- `SquaredL2Loss.__call__`: scale * sum(W * |y - A x|^2); scale and W are real
    let r := f.y - f.A.eval x
    let w := f.W ⟨Array.replicate r.d.size 1⟩
    Sc.sqrtRe (f.scale * f.scale) * (Array.zipWith (fun wi ri => Sc.sqrtRe (wi * wi) * Sc.absSq ri) w.d r.d).foldl (· + ·) 0
  let ts : List (Float × (FVec α → FVec α) × FVec α × FVec α) :=
    terms.map fun t => (Sc.sqrtRe (t.rho * t.rho), t.C.eval, t.z, t.u)
  some (ok (jF (genericObj sq fval ts x)))

end generic

/-! ### bisect / golden (real): element `i` applies the polynomial with coefficients `coef[i]` (Horner) -/

def horner (c : List Float) (x : Float) : Float := c.foldr (fun a acc => a + x * acc) 0

def polyFam (coefs : Array (List Float)) (n : Nat) : Fin n → Float → Float :=
  fun i x => horner (coefs.getD i.val []) x

def bstJson {n : Nat} (s : BisectSt Float n) : Json :=
  jObj [("a", jFs (List.ofFn s.a)), ("b", jFs (List.ofFn s.b)), ("xerr", jF s.xerr), ("ferr", jF s.ferr), ("steps", jN s.steps)]

def opBisect (j : Json) : Option Json := do
  let n ← fNat? j "n"
  let coefs ← fFloatss? j "coef"
  let a := vecOf (← fFloats? j "a") n
  let b := vecOf (← fFloats? j "b") n
  let xtol ← fFloat? j "xtol"
  let ftol ← fFloat? j "ftol"
  let maxiter ← fNat? j "maxiter"
  let rc ← fBool? j "range_check"
  if n = 0 then some (err "value") else
  let f := polyFam coefs.toArray n
  match bisect f a b xtol ftol maxiter rc with
  | .error e => some (err e)
  | .ok (x, s) =>
    let run := bisectRun f xtol ftol maxiter (bisectInit f a b)
    some (ok (jObj [("x", jFs (List.ofFn x)), ("final", bstJson s), ("trace", jArr (run.map bstJson))]))

def gstJson {n : Nat} (s : GoldSt Float n) : Json :=
  jObj [("a", jFs (List.ofFn s.a)), ("b", jFs (List.ofFn s.b)), ("c", jFs (List.ofFn s.c)), ("d", jFs (List.ofFn s.d)),
    ("xerr", jF s.xerr), ("steps", jN s.steps)]

def opGolden (j : Json) : Option Json := do
  let n ← fNat? j "n"
  let coefs ← fFloatss? j "coef"
  let a := vecOf (← fFloats? j "a") n
  let b := vecOf (← fFloats? j "b") n
  let c ← optVec? (α := Float) j "c"
  let xtol ← fFloat? j "xtol"
  let maxiter ← fNat? j "maxiter"
  if n = 0 then some (err "value") else
  let f := polyFam coefs.toArray n
  let gr : Float := goldenRatio
  -- `csort`: the ordered interior points of fixes/golden-c-beyond-d.patch (used once the finding is `fixed:`)
  let csort := (fBool? j "csort").getD false
  let cv := c.map fun l => vecOf l n
  let (x, s) := if csort then goldenSorted gr f a b cv xtol maxiter else golden gr f a b cv xtol maxiter
  let run := goldRun gr f xtol maxiter (if csort then goldInitSorted gr a b cv else goldInit gr a b cv)
  some (ok (jObj [("x", jFs (List.ofFn x)), ("gr", jF gr), ("final", gstJson s), ("trace", jArr (run.map gstJson))]))

/-- argument checks of `MatrixATADSolver.__init__`: `dkind` ∈ {"diagonal","array"}, `dndim`, `wkind` ∈ {"none","diagonal","array","other"}, `wndim` -/
def opAtadValidate (j : Json) : Option Json := do
  let dk ← fStr? j "dkind"
  let dn ← fNat? j "dndim"
  let wk ← fStr? j "wkind"
  let wn ← fNat? j "wndim"
  let d : DArg := if dk == "diagonal" then .diagonalOp dn else .array dn
  let w : WArg := if wk == "none" then .none else if wk == "diagonal" then .diagonalOp wn else if wk == "array" then .array else .other
  match atadValidate d w with
  | .ok _ => some (ok (jObj [("accepted", Json.bool true)]))
  | .error e => some (err e)

def opConvValidate (j : Json) : Option Json := do
  let a : ConvArg := { composed := ← fBool? j "composed", outerIsSum := ← fBool? j "outer_sum", innerIsConv := ← fBool? j "inner_conv",
                       axisIsInt := ← fBool? j "axis_int" }
  match convValidate a with
  | .ok _ => some (ok (jObj [("accepted", Json.bool true)]))
  | .error e => some (err e)

/-- the data of the source the model copies (`solverTables`): default arguments and default keyword dictionaries -/
def opTables (_ : Json) : Option Json :=
  let pairs := fun (l : List (String × String)) => jArr (l.map fun p => jArr [Json.str p.1, Json.str p.2])
  some (ok (jObj [
    ("defaults", jArr (solverTables.defaults.map fun e => jArr [Json.str e.1, pairs e.2])),
    ("kwdicts", jArr (solverTables.kwDicts.map fun e => jArr [Json.str e.1, Json.str e.2.1, pairs e.2.2])),
    ("checks", jArr (solverTables.checks.map fun e => jArr [Json.str e.1, jArr (e.2.map fun c =>
      jArr [Json.str c.guard, Json.str c.subject, jArr (c.classes.map Json.str), Json.str c.test, Json.str c.err])])),
    ("woodbury_bind", jArr [Json.str solverTables.woodburyBind.1, Json.str solverTables.woodburyBind.2]),
    ("woodbury", jArr (solverTables.woodbury.map fun a => jArr [Json.str a.kind, Json.str a.lhs, Json.str a.op, Json.str a.rhs]))]))

/-- class checks of an `internal_init`: `solver`, `f_none`, `isinst` = [[subject, class], …] (the true ones), `ci` = [[classes of C_i], …] -/
def opInitCheck (j : Json) : Option Json := do
  let cls ← fStr? j "solver"
  let fNone ← fBool? j "f_none"
  let isl ← fList? j "isinst"
  let pairs ← isl.mapM fun e => do
    let l ← (e.getArr?).toOption
    let a ← (l[0]?).bind fun x => (x.getStr?).toOption
    let b ← (l[1]?).bind fun x => (x.getStr?).toOption
    some (a, b)
  let cil ← fList? j "ci"
  let cis ← cil.mapM fun e => do
    let l ← (e.getArr?).toOption
    l.toList.mapM fun x => (x.getStr?).toOption
  let F : InitFacts := { fNone := fNone, isinst := fun s c => pairs.contains (s, c), ciInst := cis.map fun l => fun c => l.contains c }
  match initResult (checksOf solverTables cls) F with
  | .ok _ => some (ok (jObj [("accepted", Json.bool true)]))
  | .error e => some (err e)

def handler : Handler := fun op j =>
  let cplx := (fStr? j "dt") == some "c"
  match op with
  | "cg" => if cplx then opCg (α := Cx Float) j else opCg (α := Float) j
  | "cgscan" => if cplx then opCgScan (α := Cx Float) j else opCgScan (α := Float) j
  | "jaxcg" => if cplx then opJaxCg (α := Cx Float) j else opJaxCg (α := Float) j
  | "lstsq" => if cplx then opLstsq (α := Cx Float) j else opLstsq (α := Float) j
  | "atad" => if cplx then opAtad (α := Cx Float) j else opAtad (α := Float) j
  | "conv" => if cplx then opConv (α := Cx Float) j else opConv (α := Float) j
  | "relres" => if cplx then opRelRes (α := Cx Float) j else opRelRes (α := Float) j
  | "admm" => if cplx then opAdmm (α := Cx Float) j else opAdmm (α := Float) j
  | "circ" => if cplx then opCirc (α := Cx Float) j else opCirc (α := Float) j
  | "admm_matrix" => if cplx then opAdmmMatrix (α := Cx Float) j else opAdmmMatrix (α := Float) j
  | "genobj" => if cplx then opGenObj (α := Cx Float) j else opGenObj (α := Float) j
  | "tables" => opTables j
  | "init_check" => opInitCheck j
  | "atad_validate" => opAtadValidate j
  | "conv_validate" => opConvValidate j
  | "bisect" => opBisect j
  | "golden" => opGolden j
  | _ => none

def main : IO Unit := mainLoop handler
