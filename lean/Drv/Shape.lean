import Scico.Common.Wire
import Scico.Model.Shape
open Lean Scico.Wire Scico.Shape

def optInt? (j : Json) (k : String) : Option (Option Int) :=
  match field? j k with
  | none => none
  | some .null => some none
  | some v => (getInt? v).map some

def jOptI : Option Int → Json
  | none => Json.null
  | some v => jI v

def getIdx? (j : Json) : Option Idx := do
  match ← fStr? j "k" with
  | "int" => some (.int (← fInt? j "i"))
  | "slice" => some (.slice ⟨← optInt? j "start", ← optInt? j "stop", ← optInt? j "step"⟩)
  | "none" => some .newaxis
  | "ellipsis" => some .ellipsis
  | _ => none

def getNShape? (j : Json) : Option NShape := do
  let l ← getList? j
  match l with
  | [] => some (.plain [])
  | x :: _ =>
    match x with
    | .arr _ => do some (.nested (← l.mapM getNats?))
    | _ => do some (.plain (← l.mapM getNat?))

def handler : Handler := fun op j =>
  match op with
  | "indexed_shape" => do
    let shape ← fNats? j "shape"
    let idx ← (← fList? j "idx").mapM getIdx?
    let spec := match indexSpec shape idx with
      | some r => jNs r
      | none => Json.null
    match indexedShape shape idx with
    | some r => some (ok (jObj [("shape", jNs r), ("spec", spec)]))
    | none => some (jObj [("err", jS "value"), ("spec", spec)])
  | "collapse" => do
    let shapes ← (← fList? j "shapes").mapM getNShape?
    let allow ← fBool? j "allow"
    let sizes := jNs (shapes.map shapeToSize)
    match collapseShapes shapes allow with
    | some (.stacked d) => some (ok (jObj [("collapsed", jB true), ("shape", jNs d), ("sizes", sizes)]))
    | some (.blocked bs) => some (ok (jObj [("collapsed", jB false), ("shape", jArr (bs.map jNs)), ("sizes", sizes)]))
    | none => some (jObj [("err", jS "value"), ("sizes", sizes)])
  | "slice" => do
    let n ← fNat? j "n"
    let sl : PySlice := ⟨← optInt? j "start", ← optInt? j "stop", ← optInt? j "step"⟩
    match pyIndices n sl, sliceLen n sl, selected n sl with
    | some (a, b, s), some k, some l =>
      some (ok (jObj [("indices", jIs [a, b, s]), ("len", jI k), ("selected", jIs l)]))
    | _, _, _ => some (err "value")
  | _ => none

def main : IO Unit := mainLoop handler
