import Scico.Common.Wire
import Scico.Model.Shape
open Lean Scico.Wire Scico.Shape

def optInt? (j : Json) (k : String) : Option (Option Int) :=
  match field? j k with
  | none => none
  | some .null => some none
  | some v => (getInt? v).map some

def jOptI : Option Int → Json
  | none => Json.null
  | some v => jI v

def handler : Handler := fun op j =>
  match op with
  | "slice" => do
    let n ← fNat? j "n"
    let sl : PySlice := ⟨← optInt? j "start", ← optInt? j "stop", ← optInt? j "step"⟩
    match pyIndices n sl, sliceLen n sl, selected n sl with
    | some (a, b, s), some k, some l =>
      some (ok (jObj [("indices", jIs [a, b, s]), ("len", jI k), ("selected", jIs l)]))
    | _, _, _ => some (err "value")
  | _ => none

def main : IO Unit := mainLoop handler
