/-
  Driver of the block-array model (C13).  The model functions of `Scico.Model.Block` are
  executed with `α := Sym` (symbolic Python values) and a *table-backed* per-block function:
  the harness supplies, for every symbolic call, what jax answered (ok / NotImplemented /
  exception kind, is-array, dtype).  A first request with an empty table (every call assumed
  to succeed with one dtype) returns the calls the computation makes; the second request,
  with the complete table, is the end-to-end run that is compared with scico.

  Numeric ops (`reduce_num`) run the flattened-array layer at `Float`.
-/
import Scico.Common.Wire
import Scico.Model.Block
open Lean Scico.Wire Scico.Block

/-- symbolic Python values -/
inductive Sym where
  | atom (s : String)
  | call (fn : String) (args : List Sym) (kw : List (String × Sym))
  | blkv (l : List Sym)
  | cat (l : List Sym)
  | asarr (t : Sym)
  | shape (t : STree)
deriving Inhabited

partial def stJson : STree → Json
  | .int n => jN n
  | .tup l => jArr (l.map stJson)

partial def stOfJson? : Json → Option STree
  | .arr a => (a.toList.mapM stOfJson?).map STree.tup
  | j => (getNat? j).map STree.int

partial def Sym.toJson : Sym → Json
  | .atom s => jObj [("a", jS s)]
  | .call fn args kw => jObj [("c", jS fn), ("args", jArr (args.map Sym.toJson)),
      ("kw", jArr (kw.map (fun (k, v) => jArr [jS k, v.toJson])))]
  | .blkv l => jObj [("b", jArr (l.map Sym.toJson))]
  | .cat l => jObj [("cat", jArr (l.map Sym.toJson))]
  | .asarr t => jObj [("as", t.toJson)]
  | .shape t => jObj [("shape", stJson t)]

partial def Sym.ofJson? (j : Json) : Option Sym :=
  match field? j "a" with
  | some v => (getStr? v).map Sym.atom
  | none =>
  match field? j "c" with
  | some fnj => do
    let fn ← getStr? fnj
    let args ← (← fList? j "args").mapM Sym.ofJson?
    let kw ← (← fList? j "kw").mapM (fun e => do
      let l ← getList? e
      match l with
      | [k, v] => some (← getStr? k, ← Sym.ofJson? v)
      | _ => none)
    some (Sym.call fn args kw)
  | none =>
  match field? j "b" with
  | some v => do some (Sym.blkv (← (← getList? v).mapM Sym.ofJson?))
  | none =>
  match field? j "cat" with
  | some v => do some (Sym.cat (← (← getList? v).mapM Sym.ofJson?))
  | none =>
  match field? j "as" with
  | some v => (Sym.ofJson? v).map Sym.asarr
  | none =>
  match field? j "shape" with
  | some v => (stOfJson? v).map Sym.shape
  | none => none

/-- table key of a term = its compact JSON text -/
def Sym.key (t : Sym) : String := t.toJson.compress

partial def Sym.subterms : Sym → List Sym
  | .atom s => [.atom s]
  | .call fn args kw => Sym.call fn args kw :: (args.flatMap Sym.subterms ++ kw.flatMap (fun kv => kv.2.subterms))
  | .blkv l => Sym.blkv l :: l.flatMap Sym.subterms
  | .cat l => Sym.cat l :: l.flatMap Sym.subterms
  | .asarr t => Sym.asarr t :: t.subterms
  | .shape t => [.shape t]

/-- what jax answered for one symbolic value -/
structure Entry where
  st : String      -- "ok" | "ni" | error kind
  arr : Bool
  dt : String

abbrev Table := List (String × Entry)

def entryOfJson? (j : Json) : Option (String × Entry) := do
  some (← fStr? j "k", ⟨← fStr? j "st", ← fBool? j "arr", ← fStr? j "dt"⟩)

def errOfKind : String → Err
  | "shape" => .shape | "dtype" => .dtype | "type" => .type | "value" => .value
  | "notimpl" => .notimpl | "key" => .key | "index" => .index | _ => .other

def look (tab : Table) (t : Sym) : Entry :=
  match tab.lookup t.key with
  | some e => e
  | none => ⟨"ok", true, "?"⟩

/-- a symbolic evaluation: the value is the term itself, success/failure comes from the table -/
def evalT (tab : Table) (t : Sym) : Res Sym :=
  let e := look tab t
  if e.st == "ok" then .ok t else .error (errOfKind e.st)

def envT (tab : Table) : Env Sym String :=
  { isArr := fun t => (look tab t).arr
    asArr := fun t => evalT tab (.asarr t)
    dt := fun t => (look tab t).dt }

def valToTerm : PyVal Sym → Sym
  | .one t => t
  | .blk l => .blkv l

def fT (tab : Table) (fn : String) (args : List (PyVal Sym)) (kw : List (String × PyVal Sym)) : Res Sym :=
  evalT tab (.call fn (args.map valToTerm) (kw.map (fun (k, v) => (k, valToTerm v))))

/-- request values: {"o": term} | {"b": [terms]} -/
def valOfJson? (j : Json) : Option (PyVal Sym) :=
  match field? j "o" with
  | some v => (Sym.ofJson? v).map PyVal.one
  | none => match field? j "b" with
    | some v => do some (PyVal.blk (← (← getList? v).mapM Sym.ofJson?))
    | none => none

def kwOfJson? (j : Json) : Option (List (String × PyVal Sym)) := do
  (← getList? j).mapM (fun e => do
    match ← getList? e with
    | [k, v] => some (← getStr? k, ← valOfJson? v)
    | _ => none)

def valJson : PyVal Sym → Json
  | .one t => jObj [("one", t.toJson)]
  | .blk l => jObj [("blk", jArr (l.map Sym.toJson))]

def termsOfVal : PyVal Sym → List Sym
  | .one t => [t]
  | .blk l => l

/-- reply: result + every subterm (with its key, and the key of its `jnp.array` conversion)
    + the keys that were not in the table -/
def reply (tab : Table) (res : Json) (ts : List Sym) : Json :=
  let subs := ts.flatMap Sym.subterms
  let keys := subs.map (fun t => jObj [("k", jS t.key), ("ask", jS (Sym.asarr t).key), ("t", t.toJson)])
  let missing := (subs.filter (fun t => (tab.lookup t.key).isNone)).map (fun t => jS t.key)
  ok (jObj [("res", res), ("terms", jArr keys), ("missing", jArr missing)])

def errReply (e : Err) : Json := err e.kind

def tabOf? (j : Json) : Option Table := do (← fList? j "tab").mapM entryOfJson?

def floatNz (x : Float) : Bool := x < 0 || 0 < x || x.isNaN

def optF : Option Float → Json
  | none => Json.null
  | some x => jF x

instance : Max Float := ⟨fun a b => if a.isNaN || b.isNaN then (0.0 / 0.0) else if a < b then b else a⟩
instance : Min Float := ⟨fun a b => if a.isNaN || b.isNaN then (0.0 / 0.0) else if b < a then b else a⟩

/-- request values of `scico.random` calls: {"none": true} | {"shape": tree} | {"o": term} -/
def rvalOfJson? (j : Json) : Option (RVal Sym Sym Sym) :=
  match field? j "none" with
  | some _ => some (.oth .none)
  | none => match field? j "shape" with
    | some s => (stOfJson? s).map CVal.tree
    | none => match field? j "o" with
      | some v => (Sym.ofJson? v).map (fun t => CVal.oth (.oth t))
      | none => none

def rvalTerm : RVal Sym Sym Sym → Sym
  | .tree t => .shape t
  | .oth .none => .atom "None"
  | .oth (.key k) => k
  | .oth (.seed s) => s
  | .oth (.oth b) => b

/-- `jax.random.PRNGKey` / `jax.random.split(·, 2)[0]`, table-backed -/
def primsT (tab : Table) : RngPrims Sym Sym Sym :=
  { seed0 := .atom "int0"
    prngKey := fun v => evalT tab (.call "jr:PRNGKey" [rvalTerm v] [])
    split0 := fun v => evalT tab (.call "py:split0" [rvalTerm v] []) }

/-- tree structures: {"leaf": true} | {"tup": [...]} | {"blk": n} -/
partial def ptUnitOfJson? (j : Json) : Option (PT Unit) :=
  match field? j "tup" with
  | some v => do some (PT.tup (← (← getList? v).mapM ptUnitOfJson?))
  | none => match field? j "blk" with
    | some v =>
      match getNat? v with
      | some n => some (PT.blk (List.replicate n (PT.leaf ())))
      | none => do some (PT.blk (← (← getList? v).mapM ptUnitOfJson?))
    | none => match field? j "leaf" with
      | some _ => some (PT.leaf ())
      | none => none

partial def ptJson : PT Sym → Json
  | .leaf a => jObj [("leaf", a.toJson)]
  | .tup cs => jObj [("tup", jArr (cs.map ptJson))]
  | .blk bs => jObj [("blk", jArr (bs.map ptJson))]

def handler : Handler := fun op j =>
  match op with
  | "setslice" => do
    let self ← (← fList? j "blocks").mapM Sym.ofJson?
    let vals ← (← fList? j "values").mapM Sym.ofJson?
    let tab ← tabOf? j
    let oi := fun (k : String) => match field? j k with
      | some v => (getInt? v)
      | none => none
    match setSlice (envT tab) self (oi "start") (oi "stop") (oi "step") vals with
    | .error e => some (errReply e)
    | .ok l => some (reply tab (valJson (.blk l)) l)
  | "iter" => do            -- indices of the blocks `iter(x)` yields for a block array of n blocks
    let n ← fNat? j "n"
    some (ok (jArr ((iterBlocks (List.range n)).map (fun (i : Nat) => jN i))))
  | "getslice" => do        -- indices (into a list of n blocks) that x[start:stop:step] selects
    let n ← fNat? j "n"
    let oi := fun (k : String) => match field? j k with
      | some v => (getInt? v)
      | none => none
    match getSlice (α := Nat) (δ := Unit) ⟨fun _ => true, Except.ok, fun _ => ()⟩ (List.range n) (oi "start") (oi "stop") (oi "step") with
    | .error e => some (errReply e)
    | .ok l => some (ok (jArr (l.map (fun (i : Nat) => jN i))))
  | "tree_unflatten" => do
    let s ← ptUnitOfJson? (← field? j "struct")
    let leaves ← (← fList? j "leaves").mapM Sym.ofJson?
    let tab ← tabOf? j
    match treeUnflattenTop (envT tab) s leaves with
    | .error e => some (errReply e)
    | .ok t => some (reply tab (ptJson t) t.leaves)
  | "setitem" => do
    let self ← (← fList? j "blocks").mapM Sym.ofJson?
    let k ← fInt? j "k"
    let v ← Sym.ofJson? (← field? j "v")
    let tab ← tabOf? j
    match setItem (envT tab) self k v with
    | .error e => some (errReply e)
    | .ok l => some (reply tab (valJson (.blk l)) l)
  | "random" => do
    let fn ← fStr? j "fn"
    let params ← (← fList? j "params").mapM getStr?
    let args ← (← fList? j "args").mapM rvalOfJson?
    let kwKey ← rvalOfJson? (← field? j "kwkey")
    let kwSeed ← rvalOfJson? (← field? j "kwseed")
    let kwargs ← (← fList? j "kwargs").mapM (fun e => do
      match ← getList? e with
      | [k, v] => some (← getStr? k, ← rvalOfJson? v)
      | _ => none)
    let tab ← tabOf? j
    let g := fun (b : List (String × RVal Sym Sym Sym)) =>
      evalT tab (.call fn [] (b.map (fun (k, v) => (k, rvalTerm v))))
    match randomWrapped (envT tab) (primsT tab) params g args kwKey kwSeed kwargs with
    | .error e => some (errReply e)
    | .ok (v, k') =>
      some (reply tab (jObj [("val", valJson v), ("key", k'.toJson)]) (termsOfVal v ++ [k']))
  | "map" => do
    let fn ← fStr? j "fn"
    let args ← (← fList? j "args").mapM valOfJson?
    let kw ← kwOfJson? (← field? j "kwargs")
    let tab ← tabOf? j
    match mapFuncOverBlocks (envT tab) (fT tab fn) args kw with
    | .error e => some (errReply e)
    | .ok v => some (reply tab (valJson v) (termsOfVal v))
  | "mapvoid" => do
    let fn ← fStr? j "fn"
    let args ← (← fList? j "args").mapM valOfJson?
    let kw ← kwOfJson? (← field? j "kwargs")
    let tab ← tabOf? j
    match mapVoidFuncOverBlocks (fun a k => (fT tab fn a k).map (fun _ => ())) args kw with
    | .error e => some (errReply e)
    | .ok () => some (reply tab (jObj [("none", jB true)]) [])
  | "numblocks" => do
    let args ← (← fList? j "args").mapM valOfJson?
    let kw ← kwOfJson? (← field? j "kwargs")
    some (ok (jN (numBlocksInArgs args kw)))
  | "reduce" => do
    let fn ← fStr? j "fn"
    let bound ← kwOfJson? (← field? j "bound")
    let tab ← tabOf? j
    match addFullReduction (fun b => mapFuncOverBlocks (envT tab) (fT tab fn) [] b)
        (ravelCatVia (envT tab) (fun x => evalT tab (.call "meth:ravel" [x] [])) (fun l => evalT tab (.cat l))) bound with
    | .error e => some (errReply e)
    | .ok v => some (reply tab (valJson v) (termsOfVal v))
  | "reduce_call" => do     -- a wrapped reduction called with positional / keyword arguments: the model binds them itself
    let fn ← fStr? j "fn"
    let posParams ← (← fList? j "pos_params").mapM getStr?
    let kwOnly ← (← fList? j "kw_only").mapM getStr?
    let args ← (← fList? j "args").mapM valOfJson?
    let kw ← kwOfJson? (← field? j "kwargs")
    let tab ← tabOf? j
    match reductionCall (envT tab) posParams kwOnly (fT tab fn)
        (ravelCatVia (envT tab) (fun x => evalT tab (.call "meth:ravel" [x] [])) (fun l => evalT tab (.cat l))) args kw with
    | .error e => some (errReply e)
    | .ok v => some (reply tab (valJson v) (termsOfVal v))
  | "create" => do
    let fn ← fStr? j "fn"
    let key ← fStr? j "key"
    let tab ← tabOf? j
    let bound ← (← fList? j "bound").mapM (fun e => do
      match ← getList? e with
      | [k, v] =>
        let k ← getStr? k
        match field? v "shape" with
        | some s => some (k, CVal.tree (← stOfJson? s))
        | none => some (k, CVal.oth (← Sym.ofJson? v))
      | _ => none)
    let f := fun (b : List (String × CVal Sym)) =>
      evalT tab (.call fn [] (b.map (fun (k, v) => (k, match v with | .tree t => Sym.shape t | .oth x => x))))
    match mapTupleOfTuples (envT tab) f key bound with
    | .error e => some (errReply e)
    | .ok v => some (reply tab (valJson v) (termsOfVal v))
  | "unop" => do
    let opn ← fStr? j "name"
    let self ← (← fList? j "blocks").mapM Sym.ofJson?
    let tab ← tabOf? j
    match unop (envT tab) (fun x => evalT tab (.call opn [x] [])) self with
    | .error e => some (errReply e)
    | .ok l => some (reply tab (valJson (.blk l)) l)
  | "binop" => do
    let opn ← fStr? j "name"
    let self ← (← fList? j "blocks").mapM Sym.ofJson?
    let other ← valOfJson? (← field? j "other")
    let tab ← tabOf? j
    let opf := fun (x y : Sym) =>
      let t := Sym.call opn [x, y] []
      let e := look tab t
      if e.st == "ok" then Except.ok (some t)
      else if e.st == "ni" then Except.ok none
      else Except.error (errOfKind e.st)
    match binop (envT tab) opf self other with
    | .error e => some (errReply e)
    | .ok none =>
      -- which per-block calls were consulted: all of them (broadcast branch)
      let ts := match other with
        | .one o => self.map (fun x => Sym.call opn [x, o] [])
        | .blk _ => []
      some (reply tab (jObj [("ni", jB true)]) ts)
    | .ok (some l) => some (reply tab (valJson (.blk l)) l)
  | "method" => do
    let name ← fStr? j "name"
    let self ← (← fList? j "blocks").mapM Sym.ofJson?
    let extra ← (← fList? j "args").mapM Sym.ofJson?
    let tab ← tabOf? j
    match liftMethod (envT tab) (fun x => evalT tab (.call name (x :: extra) [])) self with
    | .error e => some (errReply e)
    | .ok (.blk l) => some (reply tab (valJson (.blk l)) l)
    | .ok (.tup l) => some (reply tab (jObj [("tup", jArr (l.map Sym.toJson))]) l)
  | "mk" => do
    let inputs ← (← fList? j "inputs").mapM Sym.ofJson?
    let tab ← tabOf? j
    match mkBlock (envT tab) inputs with
    | .error e => some (errReply e)
    | .ok l => some (reply tab (valJson (.blk l)) l)
  | "unflatten" => do
    let inputs ← (← fList? j "inputs").mapM Sym.ofJson?
    let tab ← tabOf? j
    match treeUnflatten (envT tab) () (treeFlatten inputs).1 with
    | .error e => some (errReply e)
    | .ok l => some (reply tab (valJson (.blk l)) l)
  | "getitem" => do
    let n ← fNat? j "n"
    let k ← fInt? j "k"
    match getItem (List.range n) k with
    | .error e => some (errReply e)
    | .ok i => some (ok (jN i))
  | "shape" => do
    let t ← stOfJson? (← field? j "shape")
    some (ok (jObj [("nested", jB t.isNested), ("size", jN (shapeToSize t))]))
  | "reduce_num" => do
    let kind ← fStr? j "kind"
    let bs ← fFloatss? j "blocks"
    let flat := ravelCat bs
    match kind with
    | "sum" => some (ok (jObj [("full", jF (rsum flat)), ("fold", jF (rsum (bs.map rsum)))]))
    | "sumsq" => some (ok (jObj [("full", jF (rsumsq flat)), ("fold", jF (rsum (bs.map rsumsq)))]))
    | "prod" => some (ok (jObj [("full", jF (rprod flat)), ("fold", jF (rprod (bs.map rprod)))]))
    | "max" => some (ok (jObj [("full", optF (rmax flat)), ("fold", optF (optCombine max (bs.map rmax)))]))
    | "min" => some (ok (jObj [("full", optF (rmin flat)), ("fold", optF (optCombine min (bs.map rmin)))]))
    | "count" => some (ok (jObj [("full", jN (rcount floatNz flat)), ("fold", jN ((bs.map (rcount floatNz)).sum))]))
    | "any" => some (ok (jObj [("full", jB (rany floatNz flat)), ("fold", jB ((bs.map (rany floatNz)).any id))]))
    | "all" => some (ok (jObj [("full", jB (rall floatNz flat)), ("fold", jB ((bs.map (rall floatNz)).all id))]))
    | _ => none
  | _ => none

def main : IO Unit := mainLoop handler
