/-
  Driver of the engine `ProxCalc` (properties C08, C09): exposes `Scico.Model.ProxCalc` and
  `Scico.Model.FuncEval` at `Float` over the JSON line protocol.
-/
import Scico.Common.Wire
import Scico.Model.ProxCalc
open Lean Scico Scico.Wire Scico.FuncEval Scico.ProxCalc

abbrev F := Float
def finf : Float := 1.0 / 0.0

def getArg? (j : Json) : Option (Arg F) :=
  match field? j "a" with
  | some a => (getFloats? a).map Arg.arr
  | none => (fFloatss? j "b").map Arg.blk

def fArg? (j : Json) (k : String) : Option (Arg F) := (field? j k).bind getArg?

def jArg : Arg F → Json
  | .arr v => jObj [("a", jFs v)]
  | .blk bs => jObj [("b", jArr (bs.map jFs))]

def optFloats? (j : Json) (k : String) : Option (Option (List F)) :=
  match field? j k with
  | none => some none
  | some .null => some none
  | some v => (getFloats? v).map some

def optNat? (j : Json) (k : String) : Option (Option Nat) :=
  match field? j k with
  | none => some none
  | some .null => some none
  | some v => (getNat? v).map some

def getBase? (j : Json) : Option (Base F) := do
  let k ← fStr? j "kind"
  match k with
  | "zero" => pure .zero
  | "l0" => pure .l0
  | "l1" => pure .l1
  | "sql2" => pure .sql2
  | "l2" => pure .l2
  | "l21none" => pure .l21none
  | "nonneg" => pure .nonneg
  | "l1ml2" => pure (.l1ml2 (← fFloat? j "beta"))
  | "hubers" => pure (.huberSep (← fFloat? j "delta"))
  | "hubern" => pure (.huberNonsep (← fFloat? j "delta"))
  | "l2ball" => pure (.l2ball (← fFloat? j "radius"))
  | "custom" => pure (.custom (← fBool? j "he") (← fBool? j "hp"))
  | _ => none

def getOpK? (j : Json) : Option (OpK F) := do
  let k ← fStr? j "k"
  match k with
  | "ident" => pure .ident
  | "diag" => pure (.diag (← fFloats? j "d"))
  | "lin" => pure (.lin (← fNat? j "id"))
  | "nonlin" => pure (.nonlin (← fNat? j "id"))
  | _ => none

/-- a tree description; `mul`/`div` nodes go through the smart constructors (`c * f`, `f / c`);
    a `div` that the real code rejects yields `Except.error` -/
partial def getFn? (j : Json) : Option (Except Err (Fn F)) := do
  let k ← fStr? j "k"
  match k with
  | "leaf" => pure (.ok (.leaf (← fNat? j "id")))
  | "scaled" =>
    let f ← getFn? (← field? j "f")
    let c ← fFloat? j "c"
    pure (f.map (Fn.scaled c))
  | "mul" =>
    let f ← getFn? (← field? j "f")
    let c ← fFloat? j "c"
    pure (f.map (fun t => t.mul c))
  | "div" =>
    let f ← getFn? (← field? j "f")
    let c ← fFloat? j "c"
    pure (f.bind (fun t => t.div c))
  | "setscale" =>
    let f ← getFn? (← field? j "f")
    let c ← fFloat? j "c"
    pure (f.bind (fun t => t.setScale c))
  | "sum" =>
    let f ← getFn? (← field? j "f")
    let g ← getFn? (← field? j "g")
    pure (do let a ← f; let b ← g; pure (Fn.sum a b))
  | "sep" =>
    let l ← fList? j "fs"
    let fs ← l.mapM getFn?
    pure ((fs.mapM id).map Fn.sep)
  | "loss" =>
    let y ← fArg? j "y"
    let A ← optNat? j "A"
    let s ← fFloat? j "scale"
    match field? j "f" with
    | none | some .null => pure (.ok (.lossNone y A s))
    | some fj =>
      let f ← getFn? fj
      pure (f.map (fun t => Fn.loss y A t s))
  | "sql2" =>
    let y ← fArg? j "y"
    let A ← getOpK? (← field? j "A")
    let w ← optFloats? j "w"
    let s ← fFloat? j "scale"
    pure (.ok (.sqL2 y A w s))
  | _ => none

/-- does the prox of this tree only reach runnable pieces? -/
def runnable (bases : List (Base F)) : Fn F → Bool
  | .leaf i => match bases[i]? with | some b => b.proxRunnable || !b.hasProx | none => false
  | .scaled _ f => runnable bases f
  | .sum _ _ => true
  | .snil => true
  | .scons f r => runnable bases f && runnable bases r
  | .lossNone _ _ _ => true
  | .loss _ _ f _ => runnable bases f
  | .sqL2 _ A _ _ => match A with | .lin _ => false | _ => true

def jExcept {β} (enc : β → Json) : Except Err β → Json
  | .ok v => jObj [("ok", enc v)]
  | .error e => jObj [("err", jS e.kind)]

def jCall (c : LeafCall F) : Json :=
  jObj [("leaf", jN c.leaf), ("block", match c.block with | none => Json.null | some b => jN b),
        ("arg", jArg c.arg), ("lam", jF c.lam),
        ("shift", match c.shift with | none => Json.null | some s => jArg s)]

def getMats? (j : Json) (k : String) : Option (List (List (List F))) :=
  match field? j k with
  | none => some []
  | some v => (getList? v).bind (fun l => l.mapM getFloatss?)

def handleTree (j : Json) : Option Json := do
  let cplx ← fBool? j "cplx"
  let bases ← (← fList? j "leaves").mapM getBase?
  let ops ← getMats? j "ops"
  let E := mkEnv finf cplx bases ops
  match ← getFn? (← field? j "t") with
  | .error e => some (err e.kind)
  | .ok t =>
    let flags := [("he", jB (hasEval E t)), ("hp", jB (hasProx E t)),
                  ("runnable", jB (runnable bases t))]
    let ev := match fArg? j "x" with
      | some x => [("eval", jExcept jF (eval E t x))]
      | none => []
    let pr := match fArg? j "v", fFloat? j "lam" with
      | some v, some lam =>
        [("prox", if runnable bases t then jExcept jArg (prox E t v lam) else Json.null),
         ("conj", if runnable bases t then jExcept jArg (conjProx E t v lam) else Json.null),
         ("plan", jExcept (fun l => jArr (l.map jCall)) (plan E t v lam none none)),
         -- receivers of the keyword arguments of a prox call (leaf ids / operator ids of CG-branch SquaredL2Loss nodes)
         ("kwplan", jArr ((kwPlan E t ()).map (fun c => match c.1 with
            | .inl i => jObj [("leaf", jN i)]
            | .inr i => jObj [("sql2op", jN i)])))]
      | _, _ => []
    some (ok (jObj (flags ++ ev ++ pr)))

/-- `SeparableFunctional([..])` applied to a plain array of the given shape -/
def handleSepPlain (j : Json) : Option Json := do
  let cplx ← fBool? j "cplx"
  let bases ← (← fList? j "leaves").mapM getBase?
  let ops ← getMats? j "ops"
  let E := mkEnv finf cplx bases ops
  let fsj ← fList? j "fs"
  let fsE ← fsj.mapM getFn?
  match fsE.mapM id with
  | .error e => some (err e.kind)
  | .ok fs =>
    let shape ← fNats? j "shape"
    let x ← fFloats? j "x"
    let lam ← fFloat? j "lam"
    let run := fs.all (runnable bases)
    some (ok (jObj [("eval", jExcept jF (evalSepPlain E fs shape x)),
                    ("prox", if run then jExcept jArg (proxSepPlain E fs shape x lam) else Json.null)]))

def jExt : Ext F → Json
  | .fin a => jF a
  | .top => jF finf

def handleFeval (j : Json) : Option Json := do
  let cplx ← fBool? j "cplx"
  let k ← fStr? j "fn"
  match k with
  | "l21axes" =>
    some (ok (jF (l21Axes cplx (← fNats? j "shape") (← fNats? j "axes") (← fFloats? j "x"))))
  | "l21call" =>
    -- `L21Norm(l2_axis)(x)`: `axes = null` is `l2_axis=None`; a block argument with an axis is a ValueError
    let axes ← match field? j "axes" with
      | none | some .null => some none
      | some v => (getNats? v).map some
    let shape ← match field? j "shape" with
      | none | some .null => some []
      | some v => getNats? v
    match l21Call cplx axes shape (← fArg? j "x") with
    | some r => some (ok (jF r))
    | none => some (err "value")
  | "nuclear" =>
    match nuclearCall (← fNat? j "ndim") (← fFloats? j "sv") with
    | some r => some (ok (jF r))
    | none => some (err "shape")   -- ValueError "Input array must be two dimensional." (kind `shape` in the protocol)
  | "tv" =>
    let comps ← fFloatss? j "comps"
    let shape ← fNats? j "shape"
    let axes ← fNats? j "axes"
    let circ ← fBool? j "circular"
    if ← fBool? j "iso" then some (ok (jF (tvIso circ shape axes comps)))
    else some (ok (jF (tvAniso circ shape axes comps)))
  | "diff1d" => some (ok (jFs (diffAppend (← fBool? j "circular") (← fFloats? j "x"))))
  | "fd" => some (ok (jFs (fdAxis (← fBool? j "circular") (← fNats? j "shape") (← fNat? j "ax") (← fFloats? j "x"))))
  | "setdist" => some (ok (jF (setDist cplx (← fFloats? j "x") (← fFloats? j "p"))))
  | "sqsetdist" => some (ok (jF (sqSetDist cplx (← fFloats? j "x") (← fFloats? j "p"))))
  | "proxavg" =>
    let n ← fNat? j "n"
    match proxAvgInit n.toFloat (← optFloats? j "alphas") n with
    | none => some (err "value")
    | some ws =>
      some (ok (jObj [("weights", jFs ws),
        ("value", jF (proxAvgEval Float.isInf (← fBool? j "noinf") ws (← fFloats? j "vals")))]))
  | "sql2loss" =>
    some (ok (jF (sqL2Loss cplx (← fFloat? j "scale") (← optFloats? j "w") (← fFloats? j "y") (← fFloats? j "ax"))))
  | "sql2absloss" =>
    some (ok (jF (sqL2AbsLoss cplx (← fFloat? j "scale") (← optFloats? j "w") (← fFloats? j "y") (← fFloats? j "ax"))))
  | "sql2sqabsloss" =>
    some (ok (jF (sqL2SqAbsLoss cplx (← fFloat? j "scale") (← optFloats? j "w") (← fFloats? j "y") (← fFloats? j "ax"))))
  | "poisson" =>
    some (ok (jF (poissonLoss (← fFloat? j "scale") (← fFloats? j "y") (← fFloats? j "ax") (← fFloats? j "const"))))
  | _ =>
    -- a base functional on a plain or block argument
    let b ← getBase? (jObj [("kind", jS k), ("beta", (field? j "beta").getD Json.null),
      ("delta", (field? j "delta").getD Json.null), ("radius", (field? j "radius").getD Json.null)])
    let x ← fArg? j "x"
    match b, x with
    | .nonneg, x => if cplx then some (err "value") else some (ok (jExt (nonnegInd x)))
    | b, x => some (ok (jF (b.eval finf cplx x)))

def handleMetric (j : Json) : Option Json := do
  let cplx ← fBool? j "cplx"
  let name ← fStr? j "name"
  let a ← fFloats? j "a"
  let b ← fFloats? j "b"
  match name with
  | "mae" => some (ok (jF (mae cplx a b)))
  | "mse" => some (ok (jF (mse cplx a b)))
  | "snr" => some (ok (jF (snr cplx a b)))
  | "psnr" =>
    let r := match fFloat? j "range" with | some r => some r | none => none
    some (ok (jF (psnr a b r)))
  | "isnr" => some (ok (jF (isnr cplx a b (← fFloats? j "c"))))
  | "bsnr" => some (ok (jF (bsnr cplx a b)))
  | "rel_res" => some (ok (jF (relRes cplx a b)))
  | _ => none

def handler : Handler := fun op j =>
  match op with
  | "tree" => handleTree j
  | "feval" => handleFeval j
  | "sepplain" => handleSepPlain j
  | "metric" => handleMetric j
  | "sql2diag" => do
    let cplx ← fBool? j "cplx"
    some (ok (jFs (sqL2DiagProx cplx (← fFloat? j "scale") (← fFloat? j "lam") (← optFloats? j "w")
      (← fFloats? j "a") (← fFloats? j "y") (← fFloats? j "v"))))
  | "lossflags" => do
    let c ← match ← fStr? j "cls" with
      | "generic" => some LossCls.generic | "sql2" => some .sqL2 | "sql2abs" => some .sqL2Abs
      | "sql2sqabs" => some .sqL2SqAbs | "poisson" => some .poisson | _ => none
    let A ← match ← fStr? j "A" with
      | "identity" => some OpCls.identity | "sid" => some .scaledIdentity | "diag" => some .diagonal
      | "linear" => some .linear | "nonlinear" => some .nonlinear | _ => none
    let fl := lossClsFlags c A (← fBool? j "ynonneg")
    some (ok (jObj [("he", jB fl.1), ("hp", jB fl.2)]))
  | "sql2w" => do
    -- SquaredL2Loss(y, A=Identity, W) on a plain real/complex array with a weight diagonal of any length
    let cplx ← fBool? j "cplx"
    let E := mkEnv finf cplx [] []
    let y ← fFloats? j "y"
    let x ← fFloats? j "x"
    let s ← fFloat? j "scale"
    let lam ← fFloat? j "lam"
    match wNormalize (← optFloats? j "w") (nEntries cplx y) with
    | .error e => some (err e.kind)
    | .ok w =>
      some (ok (jObj [("eval", jExcept jF (eval E (.sqL2 (.arr y) .ident w s) (.arr x))),
                      ("prox", jExcept jArg (prox E (.sqL2 (.arr y) .ident w s) (.arr x) lam))]))
  | "scalekind" => do
    let k ← match ← fStr? j "kind" with
      | "pos" => some ScaleKind.posReal | "nonpos" => some .nonposReal | "complex" => some .complex
      | "traced" => some .tracedReal | "tracedcomplex" => some .tracedComplex | _ => none
    some (ok (jB (scaledHasProxOf (← fBool? j "inner") k)))
  | "sql2res" => do
    some (ok (jFs (sqL2Residual (← fFloat? j "scale") (← fFloat? j "lam") (← fFloatss? j "A") (← fNat? j "ncols")
      (← fFloats? j "w") (← fFloats? j "y") (← fFloats? j "v") (← fFloats? j "x"))))
  | _ => none

def main : IO Unit := mainLoop handler
