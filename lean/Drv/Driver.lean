import Scico.Common.Wire
import Scico.Model.Driver
import Scico.Proofs.DriverSpec
import Scico.Proofs.DriverClockSpec
open Lean Scico.Wire Scico.Driver Scico.Driver.Spec

/-! Line-protocol driver of `Model/Driver` (property C15).  Labels are strings. -/

def getArg? (j : Json) : Option (Arg String) :=
  match j with
  | .null => some .none
  | .str s => some (.one s)
  | .arr a => (a.toList.mapM getStr?).map .many
  | _ => none

def fArg? (j : Json) (k : String) : Option (Arg String) := (field? j k).bind getArg?

def getOptStr? (j : Json) : Option (Option String) :=
  match j with
  | .null => some none
  | .str s => some (some s)
  | _ => none

/-- one timer call of a history; `elapsed` calls are queries -/
inductive TCall where
  | mut (c : Call String)
  | elapsed (t : Nat) (label : Option String) (total : Bool)
  /-- `ContextTimer(timer, label, action).__enter__()` / `.__exit__()` -/
  | ctx (t : Nat) (enter : Bool) (label : Option String) (a : CtxAction)
  /-- `str(timer)` -/
  | str (t : Nat)

def getAction? : String → Option CtxAction
  | "StartStop" => some .startStop
  | "StopStart" => some .stopStart
  | _ => none

def getTCall? (j : Json) : Option TCall := do
  let t ← fNat? j "t"
  let op ← fStr? j "op"
  match op with
  | "start" => some (.mut ⟨t, .start, ← fArg? j "arg"⟩)
  | "stop" => some (.mut ⟨t, .stop, ← fArg? j "arg"⟩)
  | "reset" => some (.mut ⟨t, .reset, ← fArg? j "arg"⟩)
  | "elapsed" => some (.elapsed t (← (field? j "arg").bind getOptStr?) (← fBool? j "total"))
  | "ctx_enter" => some (.ctx t true (← (field? j "arg").bind getOptStr?) (← getAction? (← fStr? j "action")))
  | "ctx_exit" => some (.ctx t false (← (field? j "arg").bind getOptStr?) (← getAction? (← fStr? j "action")))
  | "str" => some (.str t)
  | _ => none

def optToInt : Option Nat → Int
  | some n => n
  | none => -1

/-- the call a context-manager entry / exit amounts to (for the history-based specification) -/
def ctxCall (t : Nat) (enter : Bool) (label : Option String) (a : CtxAction) : Call String :=
  let isStart := (a == .startStop) == enter
  ⟨t, if isStart then .start else .stop, ctxArg label⟩

def jStrRow (r : StrRow String) : Json :=
  jArr [jS r.label, jN r.accum, match r.current with | some c => jN c | none => Json.null]

/-- replay a timer history on the model and, independently, on the stop-watch specification;
    per call: model result, specification result, keys, and (for `str`) the rows of the table -/
def timerSession (cfg : Cfg String) (calls : List TCall) :
    List Int × List Int × List (List String) × List Json :=
  let T0 : Timer String := Timer.init cfg.init cfg.dflt cfg.all
  let rec go (T : Timer String) (pre : List (Call String)) :
      List TCall → List Int × List Int × List (List String) × List Json
    | [] => ([], [], [], [])
    | .mut c :: rest =>
      let r := T.apply c
      let m : Int := if r.2 then 0 else -1
      let s : Int := if raisesKey cfg pre c then -1 else 0
      let (ms, ss, ks, xs) := go r.1 (pre ++ [c]) rest
      (m :: ms, s :: ss, r.1.store.keys :: ks, Json.null :: xs)
    | .ctx t enter l a :: rest =>
      let r := if enter then ctxEnter T l a t else ctxExit T l a t
      let c := ctxCall t enter l a
      let m : Int := if r.2 then 0 else -1
      let s : Int := if raisesKey cfg pre c then -1 else 0
      let (ms, ss, ks, xs) := go r.1 (pre ++ [c]) rest
      (m :: ms, s :: ss, r.1.store.keys :: ks, Json.null :: xs)
    | .elapsed t l tot :: rest =>
      let m := optToInt (T.elapsed l tot t)
      -- tick-counting specification, and the gap-summing one (integer clock) which must agree with it
      let s1 := optToInt (specElapsed cfg pre l tot t)
      let preZ : List (Clock.Call String Int) := pre.map (fun c => ⟨(c.time : Int), c.op, c.arg⟩)
      let s2 : Int := match Clock.specElapsed cfg preZ l tot (t : Int) with
        | some v => v
        | none => -1
      let s := if s1 == s2 then s1 else -7
      let (ms, ss, ks, xs) := go T pre rest
      (m :: ms, s :: ss, T.store.keys :: ks, Json.null :: xs)
    | .str t :: rest =>
      let rows := T.strRows (fun a b => decide (a < b)) t
      let pinned := (T.strRowsPinned (fun a b => decide (a < b)) t).isSome
      -- specification side: total / current of every row through the history-based stop-watch
      let okSpec := rows.all (fun r =>
        specElapsed cfg pre (some r.label) true t == some (r.accum + r.current.getD 0) &&
        specElapsed cfg pre (some r.label) false t == some (r.current.getD 0))
      let (ms, ss, ks, xs) := go T pre rest
      ((if okSpec then 0 else -2) :: ms, 0 :: ss, T.store.keys :: ks,
        jObj [("rows", jArr (rows.map jStrRow)), ("pinned_ok", jB pinned)] :: xs)
  go T0 [] calls


/-! ### timer histories on an integer-scaled real clock (`Scico.Driver.Clock` at `τ = Int`) -/

inductive ZCall where
  | mut (c : Clock.Call String Int)
  | elapsed (t : Int) (label : Option String) (total : Bool)

def getZCall? (j : Json) : Option ZCall := do
  let t ← fInt? j "t"
  let op ← fStr? j "op"
  match op with
  | "start" => some (.mut ⟨t, .start, ← fArg? j "arg"⟩)
  | "stop" => some (.mut ⟨t, .stop, ← fArg? j "arg"⟩)
  | "reset" => some (.mut ⟨t, .reset, ← fArg? j "arg"⟩)
  | "elapsed" => some (.elapsed t (← (field? j "arg").bind getOptStr?) (← fBool? j "total"))
  | "ctx_enter" => do
    let a ← getAction? (← fStr? j "action")
    some (.mut ⟨t, if a == .startStop then .start else .stop, ctxArg (← (field? j "arg").bind getOptStr?)⟩)
  | "ctx_exit" => do
    let a ← getAction? (← fStr? j "action")
    some (.mut ⟨t, if a == .startStop then .stop else .start, ctxArg (← (field? j "arg").bind getOptStr?)⟩)
  | _ => none

def jOptI : Option Int → Json
  | some v => jI v
  | none => jS "key"

/-- model and gap-summing specification, call by call -/
def timerSessionZ (cfg : Cfg String) (calls : List ZCall) : List Json × List Json :=
  let T0 : Clock.Timer String Int := Clock.Timer.init cfg.init cfg.dflt cfg.all
  let rec go (T : Clock.Timer String Int) (pre : List (Clock.Call String Int)) : List ZCall → List Json × List Json
    | [] => ([], [])
    | .mut c :: rest =>
      let r := T.apply c
      let (ms, ss) := go r.1 (pre ++ [c]) rest
      ((if r.2 then jI 0 else jS "key") :: ms, (if Clock.raisesKey cfg pre c then jS "key" else jI 0) :: ss)
    | .elapsed t l tot :: rest =>
      let (ms, ss) := go T pre rest
      (jOptI (T.elapsed l tot t) :: ms, jOptI (Clock.specElapsed cfg pre l tot t) :: ss)
  go T0 [] calls

/-! ### solve sessions -/

def getVar? (j : Json) : Option (Var Bool) :=
  match field? j "p", field? j "b" with
  | some p, none => (getListOf? getBool? p).map .plain
  | none, some b => (getListOf? (getListOf? getBool?) b).map .block
  | _, _ => none

inductive SOp where
  | solve (maxiter : Int) (cb : Bool)
  | step
  | tick (d : Nat)
  | nanstop (v : Bool)

def getSOp? (j : Json) : Option SOp := do
  match ← fStr? j "op" with
  | "solve" => some (.solve (← fInt? j "maxiter") (← fBool? j "cb"))
  | "step" => some .step
  | "tick" => some (.tick (← fNat? j "d"))
  | "nanstop" => some (.nanstop (← fBool? j "v"))
  | _ => none

/-- world of a session: (number of `step()` calls so far, number of callback calls so far) -/
abbrev W := Nat × Nat

structure Tables where
  stepTicks : Array Nat
  cbTicks : Array Nat
  vars : Array (List (Var Bool))   -- entry k-1: working variables after k steps
  /-- entry j: what callback invocation number j assigns to (`itnum`, `maxiter`), if anything -/
  ctl : Array (Option Int × Option Int) := #[]
  /-- entry j: callback invocation number j raises an exception -/
  raises : Array Bool := #[]
  /-- entry j: what callback invocation number j assigns to `nanstop`, if anything -/
  nans : Array (Option Bool) := #[]

def envOf (tb : Tables) : Env W Nat Nat Bool :=
  { step := fun w => (w.1 + 1, w.2)
    stepTicks := fun w => tb.stepTicks.getD w.1 0
    vars := fun w => tb.vars.getD (w.1 - 1) []
    fin := id
    fields := fun w => w.1
    minimizer := fun w => w.1 }

def cbOf (tb : Tables) : CallbackX W :=
  { run := fun w => (w.1, w.2 + 1), ticks := fun w => tb.cbTicks.getD w.2 0,
    ctl := fun w i m =>
      match tb.ctl[w.2]? with
      | some (a, b) => (a.getD i, b.getD m)
      | none => (i, m) }

def outcomeStr : Outcome → String
  | .ok => "ok"
  | .nan => "nan"
  | .key => "key"

def jRow (r : Row Nat) : Json := jArr [jI r.iter, jN r.time, jN r.fields]
def jCb (c : CbRec W) : Json := jArr [jI c.itnum, jN c.world.1, jN c.enter, jN c.leave]

def jEv : PrintEv → Json
  | .header => jS "header"
  | .row n nl => jArr [jN n, jB nl]
  | .newline => jS "newline"

/-- display state carried along a session (the `Drv` record itself knows nothing about printing) -/
structure DispSt where
  opts : DisplayOpts
  st : Disp

def sessionRun (tb : Tables) (pinnedItnum : Bool) (ds : DispSt) : Drv W Nat String → List SOp → List Json
  | _, [] => []
  | d, .solve m cb :: rest =>
    let d0 := d.setMaxiter m
    let cbv := if cb then some (cbOf tb) else none
    -- repaired behaviour (`late = false`); the tree as it is (`late = true`) differs in the counter only
    let (d1n, on) := solveX false (envOf tb) cbv d0
    let itLate : Int := (solveX true (envOf tb) cbv d0).1.itnum
    -- does a callback invocation of this call raise?  (first flagged invocation number reachable in the call)
    let firstRaise : Option Nat := if cb then
        (List.range m.toNat).find? (fun j => tb.raises.getD (d.world.2 + j) false) else none
    let raised : Option (Drv W Nat String) := match firstRaise with
      | none => none
      | some j =>
        let c := (cbOf tb).toCallback
        match solveRaise (envOf tb) c c.run c.ticks d0 j with
        | (dr, none) => some dr
        | _ => none   -- the call ended earlier (NaN stop): the ordinary path describes it
    -- display with period 0: the first insert of the call raises ZeroDivisionError
    let zdiv : Option (Drv W Nat String) := if insertRaises ds.opts then
        (match solveInsertRaise (envOf tb) (cbv.map (·.toCallback)) d0 with
         | (dz, none) => some dz
         | _ => none) else none
    -- sessions whose callbacks assign `nanstop` (they assign nothing else and do not raise)
    let viaN : Option (Drv W Nat String × Outcome) := if cb && tb.nans.size > 0 then
        some (solveN (envOf tb) { run := (cbOf tb).run, ticks := (cbOf tb).ticks,
                                  setNan := fun w => (tb.nans.getD w.2 none) } d0) else none
    let (d1n, on) := match viaN with
      | some r => r
      | none => (d1n, on)
    let (d1, o, oname) := match zdiv, raised with
      | some dz, _ => (dz, Outcome.nan, "zerodiv")
      | none, some dr => (dr, Outcome.nan, "cbraise")
      | none, none => (d1n, on, outcomeStr on)
    -- the pinned tree's counter defect, reported separately (classification of a known finding only)
    let itPinned : Int := if o == .ok && m ≤ 0 then solvePinnedItnum m d1.itnum else d1.itnum
    let _ := pinnedItnum
    -- printing: one `insert` per new record, then `end()` unless the NaN stop raised
    let k := d1.rows.length - d.rows.length
    let s1 := if zdiv.isSome then dispInsertRaise ds.st else dispInserts ds.opts k ds.st
    let s2 := if o == .ok then dispEnd ds.opts s1 else s1
    let printed := s2.out.drop ds.st.out.length
    let ds := { ds with st := s2 }
    let out := jObj [("outcome", jS oname), ("itnum", jI d1.itnum), ("itnum_pinned", jI itPinned),
      ("printed", jArr (printed.map jEv)),
      ("itnum_late", jI itLate), ("maxiter", jI d1.maxiter), ("nanstop", jB d1.nanstop),
      ("clock", jN d1.clock),
      ("rows", jArr ((d1.rows.drop d.rows.length).map jRow)),
      ("cbs", jArr ((d1.cblog.drop d.cblog.length).map jCb)),
      ("ret", jN ((envOf tb).minimizer d1.world)),
      ("steps", jN d1.world.1),
      ("elapsed", jN (d1.timer.elapsedDefault true d1.clock)),
      ("running", jB (match d1.timer.store.get d1.timer.dflt with
                      | some e => e.t0.isSome
                      | none => false))]
    out :: sessionRun tb pinnedItnum ds d1 rest
  | d, .step :: rest =>
    let d1 := d.userStep (envOf tb)
    jObj [("itnum", jI d1.itnum), ("clock", jN d1.clock), ("steps", jN d1.world.1),
          ("nrows", jN d1.rows.length)] :: sessionRun tb pinnedItnum ds d1 rest
  | d, .tick n :: rest =>
    let d1 := d.tick n
    jObj [("clock", jN d1.clock), ("elapsed", jN (d1.timer.elapsedDefault true d1.clock))] ::
      sessionRun tb pinnedItnum ds d1 rest
  | d, .nanstop v :: rest =>
    jObj [] :: sessionRun tb pinnedItnum ds { d with nanstop := v } rest

def maxSteps : List SOp → Nat
  | [] => 0
  | .solve m _ :: r => m.toNat + maxSteps r
  | .step :: r => 1 + maxSteps r
  | _ :: r => maxSteps r

def optClass? : String → Option OptClass
  | "admm" => some .admm | "ladmm" => some .ladmm | "padmm" => some .padmm
  | "nlpadmm" => some .nlpadmm | "pdhg" => some .pdhg | "pgm" => some .pgm | "apgm" => some .apgm
  | _ => none

def admmSolver? : String → Option AdmmSolver
  | "generic" => some .generic | "linearScicoCG" => some .linearScicoCG
  | "linearOther" => some .linearOther | "checked" => some .checked | "other" => some .other
  | _ => none

def handler : Handler := fun op j =>
  match op with
  | "timer" => do
    let cfg : Cfg String := ⟨← fArg? j "init", ← fStr? j "dflt", ← fStr? j "all"⟩
    let calls ← (← fList? j "calls").mapM getTCall?
    let (m, s, ks, xs) := timerSession cfg calls
    some (ok (jObj [("model", jIs m), ("spec", jIs s), ("keys", jArr (ks.map (fun k => jArr (k.map jS)))),
                    ("extra", jArr xs)]))
  | "timerz" => do
    let cfg : Cfg String := ⟨← fArg? j "init", ← fStr? j "dflt", ← fStr? j "all"⟩
    let calls ← (← fList? j "calls").mapM getZCall?
    let (m, sp) := timerSessionZ cfg calls
    some (ok (jObj [("model", jArr m), ("spec", jArr sp)]))
  | "session" => do
    let ops ← (← fList? j "ops").mapM getSOp?
    let st ← fNats? j "stepTicks"
    let ct ← fNats? j "cbTicks"
    let vs ← (← fList? j "vars").mapM (fun v => (getList? v).bind (fun l => l.mapM getVar?))
    let n := maxSteps ops
    -- the tables must cover every step / callback the session can reach: never default
    if st.length < n ∨ ct.length < n ∨ vs.length < n then none
    else
      let getOI (x : Json) : Option (Option Int) := match x with
        | .null => some none
        | v => (getInt? v).map some
      let ctl ← match field? j "ctl" with
        | none => some []
        | some c => (getList? c).bind (fun l => l.mapM (fun e => match e with
            | .null => some (none, none)
            | v => do
              match ← getList? v with
              | [a, b] => some (← getOI a, ← getOI b)
              | _ => none))
      let raises ← match field? j "raises" with
        | none => some []
        | some r => getListOf? getBool? r
      let nans ← match field? j "nans" with
        | none => some []
        | some r => (getList? r).bind (fun l => l.mapM (fun e => match e with
            | .null => some none
            | v => (getBool? v).map some))
      let tb : Tables := ⟨st.toArray, ct.toArray, vs.toArray, ctl.toArray, raises.toArray, nans.toArray⟩
      let o : Scico.Driver.Options := { iter0 := ← fInt? j "iter0", maxiter := 100, nanstop := ← fBool? j "nanstop" }
      let d : Drv W Nat String := Drv.init (0, 0) o "main" "all" (← fNat? j "clock")
      let dopts : DisplayOpts ← match field? j "disp" with
        | none => some {}
        | some dj => do
          some { display := ← fBool? dj "display", period := ← fNat? dj "period",
                 shiftCycles := ← fBool? dj "shift_cycles", overwrite := ← fBool? dj "overwrite" }
      some (ok (jArr (sessionRun tb false ⟨dopts, Disp.init dopts⟩ d ops)))
  | "kwargs" => do
    let kw ← (← fList? j "kw").mapM (fun p => do
      let l ← getList? p
      match l with
      | [k, v] => some (← getStr? k, ← getInt? v)
      | _ => none)
    match parseKwargs kw with
    | none => some (err "type")
    | some o => some (ok (jObj [("iter0", jI o.iter0), ("maxiter", jI o.maxiter), ("nanstop", jB o.nanstop),
                                ("itstat", jB o.itstatGiven)]))
  | "fields" => do
    let c ← (fStr? j "cls").bind optClass?
    let sv ← (fStr? j "solver").bind admmSolver?
    some (ok (jArr ((fieldNames c sv (← fBool? j "obj")).map jS)))
  | "srctables" =>
    -- the model's transcription tables (for the targeted failing-input search after a broken generated obligation)
    some (ok (jObj [
      ("skeletons", jArr (sourceSkeletons.map (fun p => jArr [jS p.1, jArr (p.2.map (fun l => jArr [jN l.1, jS l.2]))]))),
      ("signatures", jArr (sourceSignatures.map (fun p => jArr [jS p.1, jArr (p.2.map (fun q => jArr [jS q.1, jS q.2]))]))),
      ("options", jArr (optionDefaults.map (fun p => jS p.1)))]))
  | "objeval" => do
    let c ← (fStr? j "cls").bind optClass?
    let gs ← (field? j "gs").bind (getListOf? getBool?)
    some (ok (jB (objectiveEvaluable c (← fBool? j "fgiven") (← fBool? j "fhas") gs)))
  | "fieldspecs" => do
    let c ← (fStr? j "cls").bind optClass?
    let sv ← (fStr? j "solver").bind admmSolver?
    let fs := fieldSpecs c sv (← fBool? j "obj")
    some (ok (jObj [("specs", jArr (fs.map (fun f => jArr [jS f.name, jS f.fmt, jS f.attrib]))),
                    ("source", jS (itstatFuncSource (fs.map (·.attrib)))),
                    ("vars", jArr ((workingVarNames c).map jS))]))
  | "itstat_setup" => do
    -- option values travel as integer tokens; user = null | list of [key, token]
    let getPair (p : Json) : Option (String × Int) := do
      match ← getList? p with
      | [k, v] => some (← getStr? k, ← getInt? v)
      | _ => none
    let user : Option (List (String × Int)) ← match field? j "user" with
      | none => some none
      | some .null => some none
      | some u => ((getList? u).bind (fun l => l.mapM getPair)).map some
    let n ← fNat? j "n"
    let r := itstatSetups (← fInt? j "fields") (← fInt? j "func") (← fInt? j "display") n user
    let jKw (kw : List (String × Int)) : Json := jArr (kw.map (fun p => jArr [jS p.1, jI p.2]))
    some (ok (jObj [
      ("setups", jArr (r.1.map (fun s => jObj [("func", match s.func with | some f => jI f | none => Json.null),
                                               ("kwargs", jKw s.kwargs)]))),
      ("user_after", match r.2 with | some u => jKw u | none => Json.null)]))
  | "finite" => do
    let vs ← (← fList? j "vars").mapM getVar?
    some (ok (jObj [("fixed", jB (workingVarsFinite id vs)), ("pinned", jB (workingVarsFinitePinned id vs))]))
  | "transpose" => do
    let rows ← (← fList? j "rows").mapM getNats?
    some (ok (jArr ((historyTranspose rows).map (fun c => jArr (c.map (fun x => match x with
      | some v => jN v
      | none => Json.null))))))
  | _ => none

def main : IO Unit := mainLoop handler
