/-
  Driver of the estimator model (`Scico.Model.Estim`) over the JSON line protocol, at `Float`.

  ops
    power    {B, v0, maxiter}          -> {mu, v} | err value     power_iteration on the dense (real-view) matrix B
    powerc   {Bre, Bim, vre, vim, maxiter} -> {mu:[re,im], vre, vim} | err value   power_iteration on a complex matrix (complex Rayleigh quotient)
    opnorm   {A, v0, maxiter}          -> c | err value            operator_norm: power iteration on v ↦ Aᵀ(A v), sqrt
    pdhg     {c, ratio, factor|null}   -> [tau, sigma]
    padmm    {cA, cB, factor|null}     -> [mu, nu]
    diagnorm {ord, d[, square]} | {ord, re, im} -> value | err value|shape   Diagonal.norm (real / complex diagonal)
    sidnorm  {ord, ac, N}              -> value | err value        ScaledIdentity.norm
    matnorm  {ord, rows}               -> value | null             entrywise matrix norms (spec of the closed forms)
    svnorm   {ord, s}                  -> value | null             norms computed from the singular values s (ord 2, -2, nuc)
  ord is a string "none|fro|nuc|inf|-inf|other" or an integer.
-/
import Scico.Common.Wire
import Scico.Model.Estim
open Lean Scico Scico.Wire Scico.Estim

abbrev FV := Array Float

def vdot (a b : FV) : Float := ((a.zip b).map (fun p => p.1 * p.2)).foldl (· + ·) 0
def matvec (Q : Array FV) (x : FV) : FV := Q.map (fun r => vdot r x)
def transpose (Q : Array FV) (n : Nat) : Array FV :=
  (Array.range n).map (fun j => Q.map (fun r => r.getD j 0))

def opsOf (apply : FV → FV) : VOps FV Float where
  apply := apply
  inner := vdot
  norm := fun v => Float.sqrt (vdot v v)
  sdiv := fun v c => v.map (· / c)

/-! complex arithmetic at `Float` for `powerIterationC` -/
structure Cx where
  re : Float
  im : Float

instance : Zero Cx := ⟨⟨0, 0⟩⟩

abbrev CV := Array Cx

def cmul (a b : Cx) : Cx := ⟨a.re * b.re - a.im * b.im, a.re * b.im + a.im * b.re⟩
def cadd (a b : Cx) : Cx := ⟨a.re + b.re, a.im + b.im⟩
def cconj (a : Cx) : Cx := ⟨a.re, -a.im⟩
def csum (v : CV) : Cx := v.foldl cadd ⟨0, 0⟩
def cmatvec (B : Array CV) (x : CV) : CV := B.map (fun r => csum ((r.zip x).map (fun p => cmul p.1 p.2)))

def opsOfC (B : Array CV) : VOpsC CV Cx Float where
  apply := cmatvec B
  inner := fun a b => csum ((a.zip b).map (fun p => cmul (cconj p.1) p.2))
  norm := fun v => Float.sqrt ((v.map (fun z => z.re * z.re + z.im * z.im)).foldl (· + ·) 0)
  sdiv := fun v c => v.map (fun z => ⟨z.re / c, z.im / c⟩)
  cdivr := fun z r => ⟨z.re / r, z.im / r⟩

def zipC (re im : List Float) : CV := ((re.zip im).map (fun p => (⟨p.1, p.2⟩ : Cx))).toArray

def ord? (j : Json) : Option Ord :=
  match field? j "ord" with
  | some (.str "none") => some .none
  | some (.str "fro") => some .fro
  | some (.str "nuc") => some .nuc
  | some (.str "inf") => some .pinf
  | some (.str "-inf") => some .ninf
  | some (.str "other") => some .other
  | some v => (getInt? v).map Ord.int
  | none => none

def optF? (j : Json) (k : String) : Option (Option Float) :=
  match field? j k with
  | none => none
  | some .null => some none
  | some v => (getFloat? v).map some

def exceptJ (r : Except String Float) : Json :=
  match r with
  | .ok v => ok (jF v)
  | .error e => err e

def handler : Handler := fun op j =>
  match op with
  | "power" => do
    let B ← fFloatss? j "B"
    let v0 ← fFloats? j "v0"
    let maxiter ← fNat? j "maxiter"
    let Bm := (B.map List.toArray).toArray
    match powerIteration (opsOf (matvec Bm)) maxiter v0.toArray with
    | .ok (mu, v) => some (ok (jObj [("mu", jF mu), ("v", jFs v.toList)]))
    | .error e => some (err e)
  | "powerc" => do
    let Bre ← fFloatss? j "Bre"
    let Bim ← fFloatss? j "Bim"
    let vre ← fFloats? j "vre"
    let vim ← fFloats? j "vim"
    let maxiter ← fNat? j "maxiter"
    let Bm := ((Bre.zip Bim).map (fun p => zipC p.1 p.2)).toArray
    match powerIterationC (opsOfC Bm) maxiter (zipC vre vim) with
    | .ok (mu, v) => some (ok (jObj [("mu", jFs [mu.re, mu.im]), ("vre", jFs (v.toList.map (·.re))), ("vim", jFs (v.toList.map (·.im)))]))
    | .error e => some (err e)
  | "opnorm" => do
    let A ← fFloatss? j "A"
    let v0 ← fFloats? j "v0"
    let maxiter ← fNat? j "maxiter"
    let Am := (A.map List.toArray).toArray
    let At := transpose Am v0.length
    some (exceptJ (operatorNorm (opsOf (fun v => matvec At (matvec Am v))) maxiter v0.toArray))
  | "pdhg" => do
    let r := pdhgEst (← fFloat? j "c") (← fFloat? j "ratio") (← optF? j "factor")
    some (ok (jFs [r.1, r.2]))
  | "padmm" => do
    let r := padmmEst (← fFloat? j "cA") (← fFloat? j "cB") (← optF? j "factor")
    some (ok (jFs [r.1, r.2]))
  | "diagnorm" => do
    let o ← ord? j
    match fFloats? j "d" with
    | some d =>
      match fBool? j "square" with
      | some sq => some (exceptJ (diagNormShaped sq o d))
      | none => some (exceptJ (diagNorm o d))
    | none =>
      let re ← fFloats? j "re"
      let im ← fFloats? j "im"
      some (exceptJ (diagNormC o (re.zip im)))
  | "sidnorm" => do
    let o ← ord? j
    let ac ← fFloat? j "ac"
    let N ← fNat? j "N"
    some (exceptJ (scaledIdNorm o ac (Float.sqrt N.toFloat) N.toFloat))
  | "matnorm" => do
    let o ← ord? j
    let rows ← fFloatss? j "rows"
    let ar := rows.map (·.map Float.abs)
    let n := (rows.headD []).length
    let cols := (List.range n).map (fun c => ar.map (fun r => r.getD c 0))
    match matNorm o ar cols with
    | some v => some (ok (jF v))
    | none => some (ok Json.null)
  | "svnorm" => do
    let o ← ord? j
    let sv ← fFloats? j "s"
    match svNorm o sv with
    | some v => some (ok (jF v))
    | none => some (ok Json.null)
  | _ => none

def main : IO Unit := mainLoop handler
