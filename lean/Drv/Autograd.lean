import Scico.Common.Wire
import Scico.Model.Autograd
/-!
  Driver of the `Autograd` model (property C07).  Requests:

  * `fn`     {n, x, f}                       → eval / jax gradient / scico gradient of a functional tree
  * `hess`   {n, m, s, A, w, x}              → `hessianApply` at `x` and the dense `hessianMat`, `sqL2LossGradSpec`
  * `jac`    {n, m, P, Q, Fu, v, w, conjugate, include_eval}
                                            → jvp, vjp (Gmap), Jacobian operator eval/adj
  * `opjac`  {n, m, F={A,B,C,c}, u, v, w}    → `Op.eval u`, `Op.jvp u v`, `Gmap w` (both flags) of the operator family
  * `optree` {n, m, T, u, v, w}              → the same for an operator tree (`F(G)`, `F±G`, `a*F`, `-F`)
  * `linadj` {n, m, M, cprimal, cout, y}     → `linearAdjoint` applied to `y`
  * `args`   {index, args}                   → `fixArgs`, `sliceArgs`, `cvjpArgs` on labelled arguments
  * `heap`   {ops}                           → eval/grad scale of every `Loss` object after a history
-/
open Lean Scico Scico.Wire Scico.Autograd

abbrev CV (n : Nat) := CVec Float n

def cvOfLists (re im : List Float) (n : Nat) : CV n :=
  fun i => ⟨re.getD i.val 0, im.getD i.val 0⟩

def getCV? (j : Json) (n : Nat) : Option (CV n) := do
  let re ← fFloats? j "re"
  let im ← fFloats? j "im"
  if re.length = n ∧ im.length = n then some (cvOfLists re im n) else none

def getRV? (j : Json) (n : Nat) : Option (Vec Float n) := do
  let v ← getFloats? j
  if v.length = n then some (fun i => v.getD i.val 0) else none

def getMat? (j : Json) (m n : Nat) : Option (Mat Float m n) := do
  let re ← fFloatss? j "re"
  let im ← fFloatss? j "im"
  if re.length = m ∧ im.length = m ∧ re.all (·.length = n) ∧ im.all (·.length = n) then
    some (fun i k => ⟨(re.getD i.val []).getD k.val 0, (im.getD i.val []).getD k.val 0⟩)
  else none

def jCV {n : Nat} (v : CV n) : Json :=
  jObj [("re", jFs ((List.ofFn v).map (·.re))), ("im", jFs ((List.ofFn v).map (·.im)))]

def jMat {m n : Nat} (A : Mat Float m n) : Json :=
  jObj [("re", jArr ((List.ofFn A).map (fun r => jFs ((List.ofFn r).map (·.re))))),
        ("im", jArr ((List.ofFn A).map (fun r => jFs ((List.ofFn r).map (·.im)))))]

def getOp? (j : Json) (n m : Nat) : Option (Op Float n m) := do
  some ⟨← getMat? (← field? j "A") m n, ← getMat? (← field? j "B") m n, ← getMat? (← field? j "C") m n,
        ← getCV? (← field? j "c") m⟩

/-- parse an operator tree with input size `n` and output size `m` -/
partial def getOpT? (n m : Nat) (j : Json) : Option (OpT Float n m) := do
  let k ← fStr? j "k"
  match k with
  | "leaf" => some (.leaf (← getOp? (← field? j "F") n m))
  | "comp" =>
    let mid ← fNat? j "mid"
    some (.comp (← getOpT? mid m (← field? j "F")) (← getOpT? n mid (← field? j "G")))
  | "add" => some (.add (← getOpT? n m (← field? j "F")) (← getOpT? n m (← field? j "G")))
  | "sub" => some (.sub (← getOpT? n m (← field? j "F")) (← getOpT? n m (← field? j "G")))
  | "smul" => some (.smul ⟨← fFloat? j "re", ← fFloat? j "im"⟩ (← getOpT? n m (← field? j "F")))
  | "neg" => some (.neg (← getOpT? n m (← field? j "F")))
  | _ => none

/-- parse a functional tree for argument size `n` -/
partial def getFn? (n : Nat) (j : Json) : Option (Fn Float n) := do
  let k ← fStr? j "k"
  match k with
  | "zero" => some .zero
  | "sqL2" => some .sqL2
  | "l2" => some .l2
  | "l1" => some .l1
  | "huber" => some (.huber (← fFloat? j "delta") (← fBool? j "sep"))
  | "l1ml2" => some (.l1ml2 (← fFloat? j "beta"))
  | "l21" =>
    let kk ← fNat? j "groups"
    let g ← fNats? j "grp"
    if h : 0 < kk then
      if g.length = n ∧ g.all (· < kk) then
        some (.l21 kk (fun i => ⟨g.getD i.val 0 % kk, Nat.mod_lt _ h⟩))
      else none
    else none
  | "mul" => some ((← getFn? n (← field? j "f")).mulScalar (← fFloat? j "c"))
  | "div" => (← getFn? n (← field? j "f")).divScalar (← fFloat? j "c")
  | "scaled" => some (.scaled (← fFloat? j "c") (← getFn? n (← field? j "f")))
  | "add" => some (.add (← getFn? n (← field? j "f")) (← getFn? n (← field? j "g")))
  | "sep" =>
    let a ← fNat? j "n1"
    let b ← fNat? j "n2"
    if h : n = a + b then
      let f ← getFn? a (← field? j "f")
      let g ← getFn? b (← field? j "g")
      some (h ▸ Fn.sep f g)
    else none
  | "loss" =>
    let m ← fNat? j "m"
    some (.loss (← fFloat? j "s") (← getMat? (← field? j "A") m n) (← getCV? (← field? j "y") m)
      (← getFn? m (← field? j "f")))
  | "sqL2Loss" =>
    let m ← fNat? j "m"
    some (.sqL2Loss (← fFloat? j "s") (← getMat? (← field? j "A") m n) (← getCV? (← field? j "y") m)
      (← getRV? (← field? j "w") m))
  | "sqL2SqAbsLoss" =>
    let m ← fNat? j "m"
    some (.sqL2SqAbsLoss (← fFloat? j "s") (← getMat? (← field? j "A") m n) (← getRV? (← field? j "y") m)
      (← getRV? (← field? j "w") m))
  | "proxavg" =>
    -- ProximalAverage(func_list, alpha_list): weights normalised as in `__init__`, value `sum(alpha_i f_i(x))`
    let fs ← (← fList? j "fs").mapM (getFn? n)
    let al : Option (List Float) := (fFloats? j "alphas")
    if al.any (·.length != fs.length) then none else
    let w := proxAvgWeights fs.length (fun k => k.toFloat) al
    some (proxAvgFn (w.zip fs) .zero)
  | "sqL2AbsLoss" =>
    let m ← fNat? j "m"
    some (.sqL2AbsLoss (← fFloat? j "s") (← getMat? (← field? j "A") m n) (← getRV? (← field? j "y") m)
      (← getRV? (← field? j "w") m))
  | "poisson" =>
    let m ← fNat? j "m"
    some (.poisson (← fFloat? j "s") (← getMat? (← field? j "A") m n) (← getRV? (← field? j "y") m)
      (← getRV? (← field? j "cst") m))
  | "lossOp" =>
    let m ← fNat? j "m"
    some (.lossOp (← fFloat? j "s") (← getOp? (← field? j "F") n m) (← getCV? (← field? j "y") m)
      (← getFn? m (← field? j "f")))
  | "sqL2LossOp" =>
    let m ← fNat? j "m"
    some (.sqL2LossOp (← fFloat? j "s") (← getOp? (← field? j "F") n m) (← getCV? (← field? j "y") m)
      (← getRV? (← field? j "w") m))
  | _ => none

def basis (n : Nat) (j : Fin n) : CV n := fun i => if i = j then ⟨1, 0⟩ else ⟨0, 0⟩

/-- executable stand-in for `jax.linear_transpose` of a **real-linear** `f` (ℂ-linear maps included):
    the `G` with `Re Σ (G y)ⱼ dⱼ = Re Σ yᵢ (f d)ᵢ` for all `d`, read off on the real basis
    `eⱼ`, `i·eⱼ`:  `Re (G y)ⱼ = Re Σ yᵢ f(eⱼ)ᵢ`,  `Im (G y)ⱼ = −Re Σ yᵢ f(i eⱼ)ᵢ` -/
def transposeFn {n m : Nat} (f : CV n → CV m) : CV m → CV n :=
  fun y j =>
    let a := Vec.sum (fun i => y i * f (basis n j) i)
    let b := Vec.sum (fun i => y i * f (fun l => if l = j then ⟨0, 1⟩ else ⟨0, 0⟩) i)
    ⟨a.re, -b.re⟩

def jLabels (l : List Nat) : Json := jNs l

def parseOps (l : List Json) : Option (List (LossOp Float)) :=
  l.mapM (fun j => do
    let k ← fStr? j "k"
    match k with
    | "new" => some (.new (← fFloat? j "s"))
    | "mul" => some (.mul (← fNat? j "obj") (← fFloat? j "c"))
    | "div" => some (.div (← fNat? j "obj") (← fFloat? j "c"))
    | "set" => some (.setScale (← fNat? j "obj") (← fFloat? j "s"))
    | _ => none)

def jOptF : Option Float → Json
  | none => Json.null
  | some v => jF v

def handler : Handler := fun op j =>
  match op with
  | "fn" => do
    let n ← fNat? j "n"
    let x ← getCV? (← field? j "x") n
    let f ← getFn? n (← field? j "f")
    some (ok (jObj [("eval", jF (f.eval x)), ("jax", jCV (f.jaxGrad x)), ("grad", jCV (f.grad x)),
                    ("grad_real_arg", jCV (f.gradRealArg x))]))
  | "huber_old" => do
    let n ← fNat? j "n"
    let x ← getCV? (← field? j "x") n
    let δ ← fFloat? j "delta"
    some (ok (jCV (scicoGrad (huberNonsepOldJaxGrad δ x))))
  | "div_ok" => do
    let n ← fNat? j "n"
    let f ← getFn? n (← field? j "f")
    let c ← fFloat? j "c"
    match f.divScalar c with
    | some _ => some (ok (jB true))
    | none => some (err "type")
  | "hess" => do
    let n ← fNat? j "n"
    let m ← fNat? j "m"
    let s ← fFloat? j "s"
    let A ← getMat? (← field? j "A") m n
    let w ← getRV? (← field? j "w") m
    let x ← getCV? (← field? j "x") n
    let y ← getCV? (← field? j "y") m
    some (ok (jObj [("apply", jCV (hessianApply s A w x)), ("mat", jMat (hessianMat s A w)),
                    ("gradspec", jCV (sqL2LossGradSpec s A y w x))]))
  | "jac" => do
    let n ← fNat? j "n"
    let m ← fNat? j "m"
    let P ← getMat? (← field? j "P") m n
    let Q ← getMat? (← field? j "Q") m n
    let Fu ← getCV? (← field? j "Fu") m
    let v ← getCV? (← field? j "v") n
    let w ← getCV? (← field? j "w") m
    let conjugate ← fBool? j "conjugate"
    let inc ← fBool? j "include_eval"
    -- the real-linear Jacobian  d ↦ P d + Q conj d  and JAX's transpose of it  c ↦ Pᵀ c + conj(Qᵀ c)
    let J : CV n → CV m := fun d => vadd (mulVec P d) (mulVec Q (conjVec d))
    let realIn := (fBool? j "real_input").getD false
    -- for a real input array JAX returns a real cotangent: the real part
    let G : CV m → CV n := fun c =>
      let g := vadd (mulVec (transpose P) c) (conjVec (mulVec (transpose Q) c))
      if realIn then realPart g else g
    let outJ (o : JacOut Float m m) : Json :=
      match o with
      | .plain r => jObj [("blocks", jArr [jCV r])]
      | .withEval a r => jObj [("blocks", jArr [jCV a, jCV r])]
    let outA (o : JacOut Float m n) : Json :=
      match o with
      | .plain r => jObj [("blocks", jArr [jCV r])]
      | .withEval a r => jObj [("blocks", jArr [jCV a, jCV r])]
    let inC := (fBool? j "in_complex").getD true
    let outC := (fBool? j "out_complex").getD true
    let jadj : Json := match jacobianAdjChecked inc inC outC Fu G w with
      | some o => outA o
      | none => jObj [("err", jS "dtype")]
    some (ok (jObj [("jvp", jCV (J v)), ("vjp", jCV (vjpWrap conjugate G w)), ("cvjp", jCV (cvjpWrap G w)),
                    ("jeval", outJ (jacobianEval inc Fu J v)), ("jadj", jadj)]))
  | "opjac" => do
    let n ← fNat? j "n"
    let m ← fNat? j "m"
    let F ← getOp? (← field? j "F") n m
    let u ← getCV? (← field? j "u") n
    let v ← getCV? (← field? j "v") n
    let w ← getCV? (← field? j "w") m
    some (ok (jObj [("eval", jCV (F.eval u)), ("jvp", jCV (F.jvp u v)), ("vjp", jCV (vjpWrap true (F.vjpT u) w)),
                    ("vjp_noconj", jCV (vjpWrap false (F.vjpT u) w))]))
  | "optree" => do
    let n ← fNat? j "n"
    let m ← fNat? j "m"
    let T ← getOpT? n m (← field? j "T")
    let u ← getCV? (← field? j "u") n
    let v ← getCV? (← field? j "v") n
    let w ← getCV? (← field? j "w") m
    some (ok (jObj [("eval", jCV (T.eval u)), ("jvp", jCV (T.jvp u v)), ("vjp", jCV (vjpWrap true (T.vjpT u) w)),
                    ("vjp_noconj", jCV (vjpWrap false (T.vjpT u) w))]))
  | "linadj" => do
    let n ← fNat? j "n"
    let m ← fNat? j "m"
    let M ← getMat? (← field? j "M") m n
    let y ← getCV? (← field? j "y") m
    let cp ← fBool? j "cprimal"
    let co ← fBool? j "cout"
    -- `real_out`: the function is `x ↦ Re(M x)` (complex → real, real-linear only)
    let realOut := (fBool? j "real_out").getD false
    let f : CV n → CV m := if realOut then (fun x => realPart (mulVec M x)) else mulVec M
    some (ok (jCV (linearAdjoint transposeFn cp co f y)))
  | "args" => do
    let idx ← fNat? j "index"
    let args ← fNats? j "args"
    let var ← fNat? j "var"
    let fx := fixArgs idx args
    let cv : Json := match cvjpArgs idx args var with
      | none => Json.null
      | some l => jLabels l
    some (ok (jObj [("fix", jLabels fx), ("slice", jLabels (sliceArgs idx fx var)), ("cvjp", cv)]))
  | "heap" => do
    let ops ← parseOps (← fList? j "ops")
    let h := Heap.run ([] : Heap Float) ops
    let idxs := List.range h.length
    some (ok (jObj [("eval", jArr (idxs.map (fun i => jOptF (h.evalScale i)))),
                    ("grad", jArr (idxs.map (fun i => jOptF (h.gradScale i))))]))
  | _ => none

def main : IO Unit := mainLoop handler
