import Scico.Common.Wire
import Scico.Model.Flax
open Lean Scico.Wire Scico.Flax

/-- key model of the driver: a key is the number of splits performed so far; the harness supplies the
    permutation drawn in each epoch (computed with jax.random along the split chain). -/
def tableKeys (perms : List (List Nat)) : KeyOps Nat :=
  ⟨fun k => (k + 1, k), fun k _ => match perms[k]? with | some p => p | none => []⟩

def jNss (xs : List (List Nat)) : Json := jArr (xs.map jNs)

def optNats? (j : Json) (k : String) : Option (Option (List Nat)) :=
  match field? j k with
  | none => none
  | some .null => some none
  | some v => (getNats? v).map some

def jOptNs : Option (List Nat) → Json
  | none => Json.null
  | some v => jNs v

/-- run `t` next-calls, keeping what was produced before an error -/
def runCollect (K : KeyOps Nat) : Nat → Iter Nat → List (List Nat) → Iter Nat × List (List Nat) × Option Err
  | 0, it, acc => (it, acc.reverse, none)
  | t + 1, it, acc =>
    match Iter.next K it with
    | .error e => (it, acc.reverse, some e)
    | .ok (it', rows) => runCollect K t it' (rows :: acc)

def dirSteps (d : Dir Nat) : Json :=
  match d with
  | none => Json.null
  | some l => jNs (l.map (·.1))

def ckptOps (maxKeep : Nat) : List Json → Dir Nat → List Json → Option (List Json)
  | [], _, acc => some acc.reverse
  | o :: os, d, acc => do
    let kind ← fStr? o "k"
    match kind with
    | "save" =>
      let step ← fNat? o "step"
      let tag ← fNat? o "tag"
      let d' := save maxKeep d step tag
      ckptOps maxKeep os d' (jObj [("dir", dirSteps d')] :: acc)
    | "restore" =>
      let okf ← fBool? o "ok"
      let cur ← fNat? o "cur"
      let r := match restore d cur okf with
        | .ok tag => jObj [("tag", jN tag)]
        | .error e => jObj [("err", jS e.toString)]
      ckptOps maxKeep os d (r :: acc)
    | _ => none

def handler : Handler := fun op j =>
  match op with
  | "flaxmap.pre" => do
    let xs ← fNats? j "xshape"
    let (x', ax) := flaxPre (⟨xs, []⟩ : Arr Nat)
    some (ok (jObj [("shape", jNs x'.shape), ("axes", jOptNs ax)]))
  | "flaxmap" => do
    let xs ← fNats? j "xshape"
    let ys ← fNats? j "yshape"
    let n ← fNat? j "n"
    match flaxMap (fun _ => ⟨ys, List.range n⟩) (⟨xs, []⟩ : Arr Nat) with
    | .ok r => some (ok (jObj [("shape", jNs r.shape), ("data", jNs r.data)]))
    | .error e => some (err e.toString)
  | "flaxmap.block" =>
    match (flaxMapBlock : Except Err (Arr Nat)) with
    | .ok _ => none
    | .error e => some (err e.toString)
  | "vars" => do
    let keys ← (field? j "keys").bind (getListOf? getStr?)
    let v : VarTree Nat := keys.zipIdx
    match loadVars (fun b => b) (saveVars (fun v => v) v) with
    | .ok r => some (ok (jArr (r.map (fun kv => jArr [jS kv.1, jN kv.2]))))
    | .error e => some (err e.toString)
  | "iter" => do
    let n ← fNat? j "n"
    let b ← fNat? j "b"
    let train ← fBool? j "train"
    let t ← fNat? j "t"
    let perms ← (field? j "perms").bind (getListOf? getNats?)
    let K := tableKeys perms
    match Iter.init K n b train 0 with
    | .error e => some (err e.toString)
    | .ok it0 =>
      let (it, rows, e) := runCollect K t it0 []
      some (ok (jObj [("spe", jN it0.spe), ("rows", jNss rows), ("splits", jN it.key), ("ns", jN it.ns),
        ("err", match e with | none => Json.null | some e => jS e.toString)]))
  | "specbatch" => do
    let n ← fNat? j "n"
    let b ← fNat? j "b"
    let train ← fBool? j "train"
    let t ← fNat? j "t"
    let perms ← (field? j "perms").bind (getListOf? getNats?)
    some (ok (jNss ((List.range t).map (specBatch (tableKeys perms) 0 n b train))))
  | "ckpt" => do
    let keep ← fNat? j "keep"
    let ex ← fBool? j "exists"
    let ops ← fList? j "ops"
    let d0 : Dir Nat := if ex then some [] else none
    (ckptOps keep ops d0 []).map (fun rs => ok (jArr rs))
  | "train" => do
    let keep ← fNat? j "keep"
    let steps ← optNats? j "dir"
    let nsteps ← fNat? j "N"
    let spc ← fNat? j "spc"
    let d : Dir Nat := steps.map (fun l => l.map (fun s => (s, s)))
    match trainRun keep d nsteps spc with
    | .ok (ex, d') => some (ok (jObj [("executed", jNs ex), ("dir", dirSteps d'),
        ("saves", jNs (trainSaves (match restore d 0 true with | .ok s => s | .error _ => 0) nsteps spc))]))
    | .error e => some (err e.toString)
  | "session" => do
    -- constructor + train() of a BasicFlaxTrainer (+ optionally a second train() on the same object)
    let keep ← fNat? j "keep"
    let steps ← optNats? j "dir"
    let d : Dir Nat := steps.map (fun l => l.map (fun s => (s, s)))
    let optN (k : String) : Option (Option Nat) := match field? j k with
      | none => some none | some .null => some none | some v => (getNat? v).map some
    let c : TrainCfg := {
      lenTrain := ← fNat? j "len_train", lenTest := ← fNat? j "len_test", batchSize := ← fNat? j "batch_size",
      numEpochs := ← fNat? j "num_epochs", spcOpt := ← optN "spc", logOpt := ← optN "log_every", evalOpt := ← optN "steps_per_eval",
      checkpointing := ← fBool? j "checkpointing", hasVars0 := ← fBool? j "has_vars0", logflag := ← fBool? j "log" }
    let again := (fBool? j "again").getD false
    let jEv (e : StepEv) : Json := jArr [jN e.step, jN e.batch, jB e.logged, jN e.epoch, jB e.ckpt]
    let jOut (o : SessionOut) : Json := jObj [("offset", jN o.offset), ("events", jArr (o.events.map jEv)),
      ("eval_batches", jN o.evalBatches), ("dir", dirSteps o.dir),
      -- the loop run one iteration at a time: (logged step, len(train_metrics)) and what is left at the end
      ("windows", jArr ((loopRun c o.offset).windows.map (fun w => jArr [jN w.1, jN w.2]))),
      ("metrics_left", jN (loopRun c o.offset).metrics),
      ("loop_steps", jNs ((loopRun c o.offset).evs.map (·.step)))]
    match trainSession keep c d with
    | .error e => some (err e.toString)
    | .ok o =>
      if again then
        match trainAgain keep c o with
        | .error e => some (err e.toString)
        | .ok o' => some (ok (jObj [("first", jOut o), ("second", jOut o'), ("N", jN c.numSteps), ("spe", jN c.spe)]))
      else some (ok (jObj [("first", jOut o), ("N", jN c.numSteps), ("spe", jN c.spe)]))
  | _ => none

def main : IO Unit := mainLoop handler
