/-
  Driver of the `Steps` engine (properties C11, C03).

  The *model* (`Scico.Model.Steps`) is parametric in operators, proximal maps, the x-sub-problem
  solver and the step-size hook.  This driver supplies a concrete, independent environment for
  them over dense `Float` vectors so that a whole `step()` can be recomputed without scico:

  * operators: dense real matrices (complex data travels as real vectors of doubled length with the
    real 2m×2n representation of the matrix; adjoint = transpose), optionally with the
    quadratic non-linearity `C(x) = M x + q ⊙ (P x)² + b` and its analytic Jacobian products;
    `H(x,z) = A x + B z + q ⊙ (P x) ⊙ (Q z) − c` for the non-linear proximal ADMM;
  * functionals: zero, (group) soft-threshold norms (ℓ1 real/complex, ℓ2, ℓ2,1), squared ℓ2,
    non-negativity indicator, weighted squared-ℓ2 loss with a matrix forward operator
    (value, gradient, proximal map through a dense solve);
  * ADMM x-step: dense normal equations of the documented x-update, Gaussian elimination with
    partial pivoting;
  * step-size hook: an affine test policy `L' = a L + b ‖v‖² + c`, `Z = zc v + zd x` of any kind.
-/
import Scico.Common.Wire
import Scico.Model.Steps
open Lean Scico Scico.Wire Scico.Steps

/-- reciprocal used by the *spec* transcriptions (`ρ⁻¹`, `L⁻¹`) when they are executed -/
instance : Inv Float := ⟨fun a => 1.0 / a⟩

/-! ### dense vectors with numpy-style scalar broadcasting -/

structure FV where
  a : Array Float
  deriving Inhabited

namespace FV
def size (v : FV) : Nat := v.a.size
def get (v : FV) (i : Nat) : Float := if v.a.size == 1 then v.a.getD 0 0.0 else v.a.getD i 0.0
def zipB (f : Float → Float → Float) (x y : FV) : FV :=
  let n := if x.size == 1 then y.size else x.size
  ⟨Array.ofFn (n := n) (fun i => f (x.get i.val) (y.get i.val))⟩
def map (f : Float → Float) (x : FV) : FV := ⟨x.a.map f⟩
instance : Add FV := ⟨zipB (· + ·)⟩
instance : Sub FV := ⟨zipB (· - ·)⟩
instance : Neg FV := ⟨map (fun a => -a)⟩
instance : SMul Float FV := ⟨fun c v => v.map (fun a => c * a)⟩
/-- a broadcastable scalar zero (Python `0.0` / `snp.zeros` of any shape) -/
instance : Zero FV := ⟨⟨#[0.0]⟩⟩
def hadamard (x y : FV) : FV := zipB (· * ·) x y
/-- complex product / conjugate on interleaved (re, im) pairs -/
def cmul (x y : FV) : FV :=
  ⟨Array.ofFn (n := x.size) (fun i =>
    let k := i.val / 2
    let xr := x.get (2 * k)
    let xi := x.get (2 * k + 1)
    let yr := y.get (2 * k)
    let yi := y.get (2 * k + 1)
    if i.val % 2 == 0 then xr * yr - xi * yi else xr * yi + xi * yr)⟩
def cconj (x : FV) : FV := ⟨Array.ofFn (n := x.size) (fun i => if i.val % 2 == 0 then x.get i.val else -(x.get i.val))⟩
def sumSq (v : FV) : Float := v.a.foldl (fun acc a => acc + a * a) 0.0
def norm (v : FV) : Float := Float.sqrt v.sumSq
def dot (x y : FV) : Float := (hadamard x y).a.foldl (· + ·) 0.0
def zeros (n : Nat) : FV := ⟨Array.replicate n 0.0⟩
end FV

structure Mat where
  rows : Nat
  cols : Nat
  d : Array (Array Float)
  deriving Inhabited

namespace Mat
def entry (m : Mat) (i j : Nat) : Float := (m.d.getD i #[]).getD j 0.0
def mulVec (m : Mat) (v : FV) : FV :=
  ⟨Array.ofFn (n := m.rows) (fun i => (List.range m.cols).foldl (fun acc j => acc + m.entry i.val j * v.get j) 0.0)⟩
def tMulVec (m : Mat) (w : FV) : FV :=
  ⟨Array.ofFn (n := m.cols) (fun j => (List.range m.rows).foldl (fun acc i => acc + m.entry i j.val * w.get i) 0.0)⟩
/-- `Aᵀ diag(w) A` -/
def gram (m : Mat) (w : Option FV) : Mat :=
  { rows := m.cols, cols := m.cols,
    d := Array.ofFn (n := m.cols) (fun i => Array.ofFn (n := m.cols) (fun j =>
      (List.range m.rows).foldl (fun acc k =>
        acc + m.entry k i.val * (match w with | some w => w.get k | none => 1.0) * m.entry k j.val) 0.0)) }
def add (a b : Mat) : Mat :=
  { rows := a.rows, cols := a.cols,
    d := Array.ofFn (n := a.rows) (fun i => Array.ofFn (n := a.cols) (fun j => a.entry i.val j.val + b.entry i.val j.val)) }
def scale (c : Float) (a : Mat) : Mat := { a with d := a.d.map (fun r => r.map (fun x => c * x)) }
def ident (n : Nat) : Mat :=
  { rows := n, cols := n, d := Array.ofFn (n := n) (fun i => Array.ofFn (n := n) (fun j => if i.val == j.val then 1.0 else 0.0)) }
def zero (n : Nat) : Mat :=
  { rows := n, cols := n, d := Array.replicate n (Array.replicate n 0.0) }

/-- Gaussian elimination with partial pivoting on the augmented system -/
def solve (m : Mat) (b : FV) : FV := Id.run do
  let n := m.rows
  let mut a : Array (Array Float) := Array.ofFn (n := n) (fun i => (m.d.getD i.val #[]).push (b.get i.val))
  for k in [0:n] do
    -- pivot
    let mut piv := k
    let mut best := Float.abs ((a.getD k #[]).getD k 0.0)
    for i in [k+1:n] do
      let v := Float.abs ((a.getD i #[]).getD k 0.0)
      if best < v then
        piv := i
        best := v
    let rk := a.getD k #[]
    let rp := a.getD piv #[]
    a := (a.set! k rp).set! piv rk
    let rowk := a.getD k #[]
    let pk := rowk.getD k 0.0
    for i in [k+1:n] do
      let ri := a.getD i #[]
      let fct := ri.getD k 0.0 / pk
      a := a.set! i (Array.ofFn (n := n + 1) (fun j => ri.getD j.val 0.0 - fct * rowk.getD j.val 0.0))
  let mut x : Array Float := Array.replicate n 0.0
  for kk in [0:n] do
    let k := n - 1 - kk
    let rowk := a.getD k #[]
    let mut acc := rowk.getD n 0.0
    for j in [k+1:n] do
      acc := acc - rowk.getD j 0.0 * x.getD j 0.0
    x := x.set! k (acc / rowk.getD k 0.0)
  return ⟨x⟩
end Mat

/-! ### JSON decoding -/

def gFV? (j : Json) : Option FV := (getFloats? j).map (fun l => ⟨l.toArray⟩)
def fFV? (j : Json) (k : String) : Option FV := (field? j k).bind gFV?
def fFVs? (j : Json) (k : String) : Option (List FV) := (fList? j k).bind (fun l => l.mapM gFV?)
def fOptFV? (j : Json) (k : String) : Option (Option FV) :=
  match field? j k with
  | none => some none
  | some .null => some none
  | some v => (gFV? v).map some
def fOptFVs? (j : Json) (k : String) : Option (Option (List FV)) :=
  match field? j k with
  | none => some none
  | some .null => some none
  | some v => ((getList? v).bind (fun l => l.mapM gFV?)).map some

def gMat? (j : Json) : Option Mat := do
  let rows ← getFloatss? j
  let r := rows.length
  let c := match rows with
    | [] => 0
    | x :: _ => x.length
  some { rows := r, cols := c, d := (rows.map List.toArray).toArray }
/-- matrices travel as `{"r":…, "c":…, "d":[[…]]}` so that empty shapes survive -/
def gMatObj? (j : Json) : Option Mat := do
  let r ← fNat? j "r"
  let c ← fNat? j "c"
  let rows ← fFloatss? j "d"
  some { rows := r, cols := c, d := (rows.map List.toArray).toArray }
def fMat? (j : Json) (k : String) : Option Mat := (field? j k).bind gMatObj?
def fOptMat? (j : Json) (k : String) : Option (Option Mat) :=
  match field? j k with
  | none => some none
  | some .null => some none
  | some v => (gMatObj? v).map some

def jFV (v : FV) : Json := jFs v.a.toList
def jFVs (l : List FV) : Json := jArr (l.map jFV)

/-! ### operators -/

structure Op where
  app : FV → FV
  /-- `(J(x))ᵀ w` -/
  jadj : FV → FV → FV
  /-- `J(x) t` -/
  jvp : FV → FV → FV
  /-- the linear part (for dense assembly) -/
  M : Mat
  linear : Bool

def gOp? (j : Json) : Option Op := do
  let M ← fMat? j "M"
  let q ← fOptFV? j "q"
  let P ← fOptMat? j "P"
  let b ← fOptFV? j "b"
  -- complex data: element-wise products are complex products on interleaved pairs, `(J(x))ᴴ` conjugates
  let cplx := (fBool? j "cplx").getD false
  let mul : FV → FV → FV := if cplx then FV.cmul else FV.hadamard
  let conj : FV → FV := if cplx then FV.cconj else id
  match q, P with
  | some q, some P =>
    some { app := fun x =>
             let px := P.mulVec x
             let y := M.mulVec x + mul q (mul px px)
             match b with
             | some b => y + b
             | none => y,
           jadj := fun x w => M.tMulVec w + P.tMulVec (mul (conj ((2.0 : Float) • mul q (P.mulVec x))) w),
           jvp := fun x t => M.mulVec t + (2.0 : Float) • mul q (mul (P.mulVec x) (P.mulVec t)),
           M := M, linear := false }
  | _, _ =>
    some { app := fun x => match b with
             | some b => M.mulVec x + b
             | none => M.mulVec x,
           jadj := fun _ w => M.tMulVec w, jvp := fun _ t => M.mulVec t, M := M, linear := b.isNone }

/-! ### functionals -/

structure Fnl where
  eval : FV → Float
  prox : Float → FV → FV
  grad : FV → FV
  /-- quadratic data for dense assembly: `(2 s AᵀWA, 2 s AᵀWy)` -/
  quad : Option (Mat × FV)

def inf : Float := 1.0 / 0.0

def groupNorms (groups : List (List Nat)) (v : FV) : List Float :=
  groups.map (fun G => Float.sqrt (G.foldl (fun acc i => acc + v.get i * v.get i) 0.0))

def groupProx (groups : List (List Nat)) (t : Float) (v : FV) : FV := Id.run do
  let mut out := v.a
  for G in groups do
    -- singleton groups (real l1 norm): sign(v) * max(|v| - t, 0), exact in binary64 for dyadic data (exact stream)
    match G with
    | [i] =>
      let a := v.get i
      let m := Float.abs a - t
      out := out.set! i (if m > 0.0 then (if a < 0.0 then -m else m) else 0.0)
      continue
    | _ => pure ()
    let nrm := Float.sqrt (G.foldl (fun acc i => acc + v.get i * v.get i) 0.0)
    let fct := if nrm > 0.0 then (let r := 1.0 - t / nrm; if r > 0.0 then r else 0.0) else 0.0
    for i in G do
      out := out.set! i (fct * v.get i)
  return ⟨out⟩

def gNatss? (j : Json) : Option (List (List Nat)) := getListOf? getNats? j

partial def gFnl? (j : Json) : Option Fnl := do
  let k ← fStr? j "k"
  match k with
  | "zero" => some { eval := fun _ => 0.0, prox := fun _ v => v, grad := fun v => (0.0 : Float) • v, quad := none }
  | "group" =>
    let w ← fFloat? j "w"
    let groups ← (field? j "groups").bind gNatss?
    some { eval := fun v => w * (groupNorms groups v).foldl (· + ·) 0.0,
           prox := fun lam v => groupProx groups (lam * w) v,
           grad := fun v => v, quad := none }
  | "sql2" =>
    let w ← fFloat? j "w"
    some { eval := fun v => w * v.sumSq, prox := fun lam v => (1.0 / (1.0 + 2.0 * lam * w)) • v,
           grad := fun v => (2.0 * w) • v, quad := none }
  | "nonneg" =>
    some { eval := fun v => if v.a.any (fun a => a < 0.0) then inf else 0.0,
           prox := fun _ v => v.map (fun a => if a < 0.0 then 0.0 else a), grad := fun v => v, quad := none }
  | "dwell" =>
    -- smooth NON-convex double well  f(x) = Σ (a/4) x_i⁴ − (b/2) x_i² + c_i x_i  (negative curvature for |x_i| < sqrt(b/(3a)))
    let a ← fFloat? j "a"
    let b ← fFloat? j "b"
    let c ← fFV? j "c"
    some { eval := fun v => (Array.ofFn (n := v.size) (fun i =>
               let x := v.get i.val
               a / 4.0 * (x * x * x * x) - b / 2.0 * (x * x) + c.get i.val * x)).foldl (· + ·) 0.0,
           prox := fun _ v => v,
           grad := fun v => ⟨Array.ofFn (n := v.size) (fun i =>
               let x := v.get i.val
               a * (x * x * x) - b * x + c.get i.val)⟩,
           quad := none }
  | "sqloss" =>
    let s ← fFloat? j "s"
    let y ← fFV? j "y"
    let W ← fOptFV? j "W"
    let A ← fMat? j "A"
    let wy := match W with
      | some W => FV.hadamard W y
      | none => y
    let H := Mat.scale (2.0 * s) (A.gram W)
    let r := (2.0 * s) • A.tMulVec wy
    some { eval := fun v =>
             let d := A.mulVec v - y
             s * (match W with
               | some W => FV.dot W (FV.hadamard d d)
               | none => d.sumSq),
           prox := fun lam v => (Mat.add (Mat.ident A.cols) (Mat.scale lam H)).solve (v + lam • r),
           grad := fun v =>
             let d := A.mulVec v - y
             (2.0 * s) • A.tMulVec (match W with
               | some W => FV.hadamard W d
               | none => d),
           quad := some (H, r) }
  | _ => none

/-- `Functional.conj_prox` : `v − lam · prox(v / lam, 1 / lam)` -/
def conjProx (F : Fnl) (lam : Float) (v : FV) : FV := v - lam • F.prox (1.0 / lam) ((1.0 / lam) • v)

/-! ### states -/

def jADMM (s : ADMMState FV FV) : Json :=
  jObj [("x", jFV s.x), ("z", jFVs s.z), ("zold", jFVs s.zOld), ("u", jFVs s.u)]
def gADMMState? (j : Json) : Option (ADMMState FV FV) := do
  some { x := ← fFV? j "x", z := ← fFVs? j "z", zOld := ← fFVs? j "zold", u := ← fFVs? j "u" }

def jLADMM (s : LADMMState FV FV) : Json :=
  jObj [("x", jFV s.x), ("z", jFV s.z), ("zold", jFV s.zOld), ("u", jFV s.u)]
def gLADMMState? (j : Json) : Option (LADMMState FV FV) := do
  some { x := ← fFV? j "x", z := ← fFV? j "z", zOld := ← fFV? j "zold", u := ← fFV? j "u" }

def jPADMM (s : PADMMState FV FV FV) : Json :=
  jObj [("x", jFV s.x), ("z", jFV s.z), ("zold", jFV s.zOld), ("u", jFV s.u), ("uold", jFV s.uOld)]
def gPADMMState? (j : Json) : Option (PADMMState FV FV FV) := do
  some { x := ← fFV? j "x", z := ← fFV? j "z", zOld := ← fFV? j "zold", u := ← fFV? j "u", uOld := ← fFV? j "uold" }

def jPDHG (s : PDHGState FV FV) : Json :=
  jObj [("x", jFV s.x), ("xold", jFV s.xOld), ("z", jFV s.z), ("zold", jFV s.zOld)]
def gPDHGState? (j : Json) : Option (PDHGState FV FV) := do
  some { x := ← fFV? j "x", xOld := ← fFV? j "xold", z := ← fFV? j "z", zOld := ← fFV? j "zold" }

def jPGM (s : PGMState FV Float FV) : Json :=
  jObj [("x", jFV s.x), ("L", jF s.L), ("fpr", jF s.fpr), ("mem", jFV s.mem)]
def gPGMState? (j : Json) : Option (PGMState FV Float FV) := do
  some { x := ← fFV? j "x", L := ← fFloat? j "L", fpr := ← fFloat? j "fpr", mem := ← fFV? j "mem" }

def jAPGM (s : APGMState FV Float FV) : Json :=
  jObj [("x", jFV s.x), ("v", jFV s.v), ("t", jF s.t), ("L", jF s.L), ("fpr", jF s.fpr), ("mem", jFV s.mem)]
def gAPGMState? (j : Json) : Option (APGMState FV Float FV) := do
  some { x := ← fFV? j "x", v := ← fFV? j "v", t := ← fFloat? j "t", L := ← fFloat? j "L",
         fpr := ← fFloat? j "fpr", mem := ← fFV? j "mem" }

/-- memory of the real Barzilai–Borwein policies on the wire: `{"xp":…|null, "gp":…|null, "l1":…|null, "l2":…|null}` -/
def fOptF? (j : Json) (k : String) : Option (Option Float) :=
  match field? j k with
  | none => some none
  | some .null => some none
  | some v => (getFloat? v).map some
def jOptF (o : Option Float) : Json := match o with
  | some v => jF v
  | none => Json.null
def gBBMem? (j : Json) : Option (BBMem FV) := do
  match ← fOptFV? j "xp", ← fOptFV? j "gp" with
  | some a, some b => some (some (a, b))
  | _, _ => some none
def jBBMem (m : BBMem FV) : Json := match m with
  | some (a, b) => jObj [("xp", jFV a), ("gp", jFV b), ("l1", Json.null), ("l2", Json.null)]
  | none => jObj [("xp", Json.null), ("gp", Json.null), ("l1", Json.null), ("l2", Json.null)]
def gABBMem? (j : Json) : Option (ABBMem Float FV) := do
  some { prev := ← gBBMem? j, l1 := ← fOptF? j "l1", l2 := ← fOptF? j "l2" }
def jABBMem (m : ABBMem Float FV) : Json := match m.prev with
  | some (a, b) => jObj [("xp", jFV a), ("gp", jFV b), ("l1", jOptF m.l1), ("l2", jOptF m.l2)]
  | none => jObj [("xp", Json.null), ("gp", Json.null), ("l1", jOptF m.l1), ("l2", jOptF m.l2)]

def okL (l : Float) : Bool := l.isFinite && l > 0.0

def jPGMσ {σ} (enc : σ → Json) (s : PGMState σ Float FV) : Json :=
  jObj [("x", jFV s.x), ("L", jF s.L), ("fpr", jF s.fpr), ("mem", enc s.mem)]
def gPGMσ? {σ} (dec : Json → Option σ) (j : Json) : Option (PGMState σ Float FV) := do
  some { x := ← fFV? j "x", L := ← fFloat? j "L", fpr := ← fFloat? j "fpr", mem := ← (field? j "mem").bind dec }
def jAPGMσ {σ} (enc : σ → Json) (s : APGMState σ Float FV) : Json :=
  jObj [("x", jFV s.x), ("v", jFV s.v), ("t", jF s.t), ("L", jF s.L), ("fpr", jF s.fpr), ("mem", enc s.mem)]
def gAPGMσ? {σ} (dec : Json → Option σ) (j : Json) : Option (APGMState σ Float FV) := do
  some { x := ← fFV? j "x", v := ← fFV? j "v", t := ← fFloat? j "t", L := ← fFloat? j "L",
         fpr := ← fFloat? j "fpr", mem := ← (field? j "mem").bind dec }

/-- PGM parameters with the model's transcription of the real `BBStepSize` / `AdaptiveBBStepSize` -/
def gPGMParamsBB? (j : Json) : Option (PGMParams (BBMem FV) Float FV) := do
  let f ← (field? j "f").bind gFnl?
  let g ← (field? j "g").bind gFnl?
  some { f := f.eval, g := g.eval, gradf := f.grad, proxg := g.prox, pol := bbPolicy f.grad FV.dot okL (0 : FV), normX := FV.norm }
def gPGMParamsABB? (j : Json) : Option (PGMParams (ABBMem Float FV) Float FV) := do
  let f ← (field? j "f").bind gFnl?
  let g ← (field? j "g").bind gFnl?
  let kappa ← fFloat? j "kappa"
  some { f := f.eval, g := g.eval, gradf := f.grad, proxg := g.prox, pol := abbPolicy f.grad FV.dot okL kappa (0 : FV),
         normX := FV.norm }

/-! ### parameters -/

def gADMMParams? (j : Json) : Option (ADMMParams Float FV FV) := do
  let f : Option Fnl ← match field? j "f" with
    | none => some none
    | some .null => some none
    | some v => (gFnl? v).map some
  let gs ← (fList? j "g").bind (fun l => l.mapM gFnl?)
  let Cs ← (fList? j "C").bind (fun l => l.mapM gOp?)
  let rho ← fFloats? j "rho"
  let alpha ← fFloat? j "alpha"
  let n ← fNat? j "n"
  -- documented x-update for quadratic f: (2sAᵀWA + Σ ρ_i C_iᵀC_i) x = 2sAᵀWy + Σ ρ_i C_iᵀ(z_i − u_i)
  let (H0, r0) : Mat × FV := match f with
    | some F => (match F.quad with
      | some q => q
      | none => (Mat.zero n, FV.zeros n))
    | none => (Mat.zero n, FV.zeros n)
  -- optional weights of the constraint terms in the x-step (G0BlockCircularConvolveSolver docstring: rho_1 * omega)
  let xw : List Float := match fFloats? j "xw" with
    | some l => l
    | none => rho.map (fun _ => 1.0)
  let rhoX := List.zipWith (fun r w => r * w) rho xw
  let lhs := (List.zip rhoX Cs).foldl (fun acc t => Mat.add acc (Mat.scale t.1 (t.2.M.gram none))) H0
  some { f := f.map (fun F => F.eval), g := gs.map (fun G => G.eval), proxg := gs.map (fun G => G.prox),
         C := Cs.map (fun C => C.app), Cadj := Cs.map (fun C => C.jadj (FV.zeros n)), rho := rho, alpha := alpha,
         solveX := fun z u _ =>
           let rhs := (List.zip rhoX (List.zip Cs (List.zip z u))).foldl
             (fun acc t => acc + t.1 • t.2.1.M.tMulVec (t.2.2.1 - t.2.2.2)) r0
           lhs.solve rhs,
         normX := FV.norm, normZ := FV.norm }

def gLADMMParams? (j : Json) : Option (LADMMParams Float FV FV) := do
  let f ← (field? j "f").bind gFnl?
  let g ← (field? j "g").bind gFnl?
  let C ← (field? j "C").bind gOp?
  some { f := f.eval, g := g.eval, proxf := f.prox, proxg := g.prox, C := C.app, Cadj := C.jadj 0,
         mu := ← fFloat? j "mu", nu := ← fFloat? j "nu", normX := FV.norm, normZ := FV.norm }

def gPADMMParams? (j : Json) : Option (PADMMParams Float FV FV FV) := do
  let f ← (field? j "f").bind gFnl?
  let g ← (field? j "g").bind gFnl?
  let A ← (field? j "A").bind gOp?
  let B : Option Op ← match field? j "B" with
    | none => some none
    | some .null => some none
    | some v => (gOp? v).map some
  let c ← fOptFV? j "c"
  -- ProximalADMM.__init__ : B = None → −Identity ; c = None → 0.0
  let (Bf, BHf) : (FV → FV) × (FV → FV) := match B with
    | some B => (B.app, B.jadj 0)
    | none => padmmDefaultB
  some { f := f.eval, g := g.eval, proxf := f.prox, proxg := g.prox, A := A.app, AH := A.jadj 0,
         B := Bf, BH := BHf, c := padmmC c, rho := ← fFloat? j "rho", mu := ← fFloat? j "mu", nu := ← fFloat? j "nu",
         fastDual := ← fBool? j "fast", normX := FV.norm, normZ := FV.norm, normU := FV.norm }

def gNLPADMMParams? (j : Json) : Option (NLPADMMParams Float FV FV FV) := do
  let f ← (field? j "f").bind gFnl?
  let g ← (field? j "g").bind gFnl?
  let A ← fMat? j "A"
  let B ← fMat? j "B"
  let P ← fMat? j "P"
  let Q ← fMat? j "Q"
  let q ← fFV? j "q"
  let c ← fFV? j "c"
  some { f := f.eval, g := g.eval, proxf := f.prox, proxg := g.prox,
         H := fun x z => A.mulVec x + B.mulVec z + FV.hadamard q (FV.hadamard (P.mulVec x) (Q.mulVec z)) - c,
         JxH := fun _ z w => A.tMulVec w + P.tMulVec (FV.hadamard q (FV.hadamard (Q.mulVec z) w)),
         JzH := fun x _ w => B.tMulVec w + Q.tMulVec (FV.hadamard q (FV.hadamard (P.mulVec x) w)),
         Jz := fun x _ t => B.mulVec t + FV.hadamard q (FV.hadamard (P.mulVec x) (Q.mulVec t)),
         rho := ← fFloat? j "rho", mu := ← fFloat? j "mu", nu := ← fFloat? j "nu",
         fastDual := ← fBool? j "fast", normX := FV.norm, normZ := FV.norm, normU := FV.norm }

def gPDHGParams? (j : Json) : Option (PDHGParams Float FV FV) := do
  let f ← (field? j "f").bind gFnl?
  let g ← (field? j "g").bind gFnl?
  let C ← (field? j "C").bind gOp?
  some { f := f.eval, g := g.eval, proxf := f.prox, proxgConj := conjProx g, C := C.app,
         linear := ← fBool? j "linear", Cadj := C.jadj 0, JCadj := C.jadj,
         tau := ← fFloat? j "tau", sigma := ← fFloat? j "sigma", alpha := ← fFloat? j "alpha",
         normX := FV.norm, normZ := FV.norm }

def gKind? (s : String) : Option PolKind :=
  match s with
  | "base" => some .base
  | "bb" => some .bb
  | "adaptiveBB" => some .adaptiveBB
  | "lineSearch" => some .lineSearch
  | "robust" => some .robust
  | _ => none

/-- affine test hook: `L' = a L + b ‖v‖² + c`, memory/`Z` := `zc v + zd x` -/
def gPolicy? (j : Json) : Option (Policy FV Float FV) := do
  let kind ← (fStr? j "kind").bind gKind?
  let a ← fFloat? j "a"
  let b ← fFloat? j "b"
  let c ← fFloat? j "c"
  let zc ← fFloat? j "zc"
  let zd ← fFloat? j "zd"
  some { kind := kind, update := fun _ L x v => (a * L + b * v.sumSq + c, zc • v + zd • x), getZ := fun m => m }

def gPGMParams? (j : Json) : Option (PGMParams FV Float FV) := do
  let f ← (field? j "f").bind gFnl?
  let g ← (field? j "g").bind gFnl?
  let pol ← (field? j "pol").bind gPolicy?
  some { f := f.eval, g := g.eval, gradf := f.grad, proxg := g.prox, pol := pol, normX := FV.norm }

/-! ### replies -/

def errName : Err → String
  | .value => "value"
  | .type => "type"
  | .index => "index"

def jExcept (r : Except Err Float) : Json :=
  match r with
  | .ok v => ok (jObj [("v", jF v)])
  | .error e => err (errName e)

def runTrace {σ} (impl spec : σ → σ) (enc : σ → Json) (mode : String) (k : Nat) (s : σ) : Option Json :=
  match mode with
  | "impl" => some (ok (jArr ((trace impl k s).map enc)))
  | "spec" => some (ok (jArr ((trace spec k s).map enc)))
  | _ => none

def handler : Handler := fun op j =>
  match op with
  | "step" => do
    let alg ← fStr? j "alg"
    let pj ← field? j "p"
    let sj ← field? j "s"
    let k ← fNat? j "k"
    let mode ← fStr? j "mode"
    match alg with
    | "admm" =>
      let p ← gADMMParams? pj
      runTrace (admmImplStep p) (admmSpecStep p) jADMM mode k (← gADMMState? sj)
    | "ladmm" =>
      let p ← gLADMMParams? pj
      runTrace (ladmmImplStep p) (ladmmSpecStep p) jLADMM mode k (← gLADMMState? sj)
    | "padmm" =>
      let p ← gPADMMParams? pj
      runTrace (padmmImplStep p) (padmmSpecStep p) jPADMM mode k (← gPADMMState? sj)
    | "nlpadmm" =>
      let p ← gNLPADMMParams? pj
      runTrace (nlpadmmImplStep p) (nlpadmmSpecStep p) jPADMM mode k (← gPADMMState? sj)
    | "pdhg" =>
      let p ← gPDHGParams? pj
      runTrace (pdhgImplStep p) (pdhgSpecStep p) jPDHG mode k (← gPDHGState? sj)
    | "pgm" =>
      let p ← gPGMParams? pj
      runTrace (pgmImplStep p) (pgmSpecStep p) jPGM mode k (← gPGMState? sj)
    | "apgm" =>
      let p ← gPGMParams? pj
      runTrace (apgmImplStep p) (apgmSpecStep p) jAPGM mode k (← gAPGMState? sj)
    -- the real Barzilai–Borwein policies (model transcription `bbPolicy` / `abbPolicy`), memory in the state
    | "pgm-bb" =>
      let p ← gPGMParamsBB? pj
      runTrace (pgmImplStep p) (pgmSpecStep p) (jPGMσ jBBMem) mode k (← gPGMσ? gBBMem? sj)
    | "apgm-bb" =>
      let p ← gPGMParamsBB? pj
      runTrace (apgmImplStep p) (apgmSpecStep p) (jAPGMσ jBBMem) mode k (← gAPGMσ? gBBMem? sj)
    | "pgm-abb" =>
      let p ← gPGMParamsABB? pj
      runTrace (pgmImplStep p) (pgmSpecStep p) (jPGMσ jABBMem) mode k (← gPGMσ? gABBMem? sj)
    | "apgm-abb" =>
      let p ← gPGMParamsABB? pj
      runTrace (apgmImplStep p) (apgmSpecStep p) (jAPGMσ jABBMem) mode k (← gAPGMσ? gABBMem? sj)
    | _ => none
  | "init" => do
    let alg ← fStr? j "alg"
    let pj ← field? j "p"
    match alg with
    | "admm" =>
      let p ← gADMMParams? pj
      some (ok (jADMM (admmInit p (← fOptFV? j "x0"))))
    | "ladmm" =>
      let p ← gLADMMParams? pj
      some (ok (jLADMM (ladmmInit p (← fOptFV? j "x0"))))
    | "padmm" =>
      some (ok (jPADMM (padmmInit (← fOptFV? j "x0") (← fOptFV? j "z0") (← fOptFV? j "u0"))))
    | "pdhg" =>
      some (ok (jPDHG (pdhgInit (← fOptFV? j "x0") (← fOptFV? j "z0"))))
    | "pgm" =>
      some (ok (jPGM (pgmInit (← fFloat? j "L0") inf (← fFV? j "x0") (0 : FV))))
    | "apgm" =>
      some (ok (jAPGM (apgmInit (← fFloat? j "L0") inf (← fFV? j "x0") (0 : FV))))
    | _ => none
  -- constructors with their argument checks: ADMM list lengths (`ng`, `nc`, `nrho` are the lengths the caller passes;
  -- the parameter lists are truncated / padded accordingly by the harness), PGM `has_prox`
  | "init_checked" => do
    let alg ← fStr? j "alg"
    match alg with
    | "admm" =>
      let ng ← fNat? j "ng"
      let nc ← fNat? j "nc"
      let nrho ← fNat? j "nrho"
      let n ← fNat? j "n"
      let dummyG : FV → Float := fun _ => 0.0
      let dummyP : Float → FV → FV := fun _ v => v
      let p : ADMMParams Float FV FV :=
        { f := none, g := List.replicate ng dummyG, proxg := List.replicate ng dummyP,
          C := List.replicate nc (fun x => x), Cadj := List.replicate nc (fun z => z), rho := List.replicate nrho 1.0,
          alpha := 1.0, solveX := fun _ _ x => x, normX := FV.norm, normZ := FV.norm }
      let reduces := (fBool? j "reduces").getD true
      let x0none := (fBool? j "x0none").getD false
      match admmInitFull reduces p (if x0none then none else some (FV.zeros n)) with
      | .ok s => some (ok (jObj [("nz", jN s.z.length), ("nu", jN s.u.length), ("nzold", jN s.zOld.length)]))
      | .error e => some (err (errName e))
    | "pgm" =>
      match pgmInitChecked (← fBool? j "has_prox") (← fFloat? j "L0") inf (← fFV? j "x0") (0 : FV) with
      | .ok s => some (ok (jPGM s))
      | .error e => some (err (errName e))
    | "apgm" =>
      match apgmInitChecked (← fBool? j "has_prox") (← fFloat? j "L0") inf (← fFV? j "x0") (0 : FV) with
      | .ok s => some (ok (jAPGM s))
      | .error e => some (err (errName e))
    | _ => none
  | "acc" => do
    let alg ← fStr? j "alg"
    let pj ← field? j "p"
    let sj ← field? j "s"
    let name ← fStr? j "name"
    let x ← fOptFV? j "x"
    match alg with
    | "admm" =>
      let p ← gADMMParams? pj
      let s ← gADMMState? sj
      match name with
      | "objective" => some (jExcept (admmObjectiveImpl p s x (← fOptFVs? j "zl")))
      | "primal" => some (jExcept (.ok (admmNormPrimalImpl p s x)))
      | "primal_pinned" => some (jExcept (.ok (admmNormPrimalPinned p s x)))
      | "primal_spec" => some (jExcept (.ok (admmNormPrimalSpec p (x.getD s.x) s.z)))
      | "dual" => some (jExcept (.ok (admmNormDualImpl p s)))
      | "dual_spec" => some (jExcept (.ok (admmNormDualSpec p s)))
      | "objective_spec" => some (jExcept (.ok (admmObjectiveSpec p (x.getD s.x) ((← fOptFVs? j "zl").getD s.z))))
      | _ => none
    | "ladmm" =>
      let p ← gLADMMParams? pj
      let s ← gLADMMState? sj
      match name with
      | "objective" => some (jExcept (ladmmObjectiveImpl p s x (← fOptFV? j "z")))
      | "primal" => some (jExcept (.ok (ladmmNormPrimalImpl p s x)))
      | "primal_pinned" => some (jExcept (.ok (ladmmNormPrimalPinned p s x)))
      | "dual" => some (jExcept (.ok (ladmmNormDualImpl p s)))
      | "dual_doc_pinned" => some (jExcept (.ok (ladmmNormDualDocPinned p s)))
      | _ => none
    | "padmm" =>
      let p ← gPADMMParams? pj
      let s ← gPADMMState? sj
      match name with
      | "objective" => some (jExcept (padmmObjectiveImpl p.f p.g s x (← fOptFV? j "z")))
      | "primal" => some (jExcept (padmmNormPrimalImpl p s x (← fOptFV? j "z")))
      | "dual" => some (jExcept (.ok (padmmNormDualImpl p s)))
      | _ => none
    | "nlpadmm" =>
      let p ← gNLPADMMParams? pj
      let s ← gPADMMState? sj
      match name with
      | "objective" => some (jExcept (padmmObjectiveImpl p.f p.g s x (← fOptFV? j "z")))
      | "primal" => some (jExcept (nlpadmmNormPrimalImpl p s x (← fOptFV? j "z")))
      | "dual" => some (jExcept (.ok (nlpadmmNormDualImpl p s)))
      | _ => none
    | "pdhg" =>
      let p ← gPDHGParams? pj
      let s ← gPDHGState? sj
      match name with
      | "objective" => some (jExcept (.ok (pdhgObjectiveImpl p s x)))
      | "primal" => some (jExcept (.ok (pdhgNormPrimalImpl p s)))
      | "dual" => some (jExcept (.ok (pdhgNormDualImpl p s)))
      | _ => none
    | "pgm" =>
      let p ← gPGMParams? pj
      let s ← gPGMState? sj
      match name with
      | "objective" => some (jExcept (.ok (pgmObjectiveImpl p s.x x)))
      | "residual" => some (jExcept (.ok (pgmNormResidual s)))
      | "fquad" =>
        some (jExcept (.ok (pgmFQuadApproxImpl p FV.dot (← fFV? j "xq") (← fFV? j "yq") (← fFloat? j "Lq"))))
      | _ => none
    | "apgm" =>
      let p ← gPGMParams? pj
      let s ← gAPGMState? sj
      match name with
      | "objective" => some (jExcept (.ok (pgmObjectiveImpl p s.x x)))
      | "residual" => some (jExcept (.ok (apgmNormResidual s)))
      | _ => none
    | _ => none
  -- environment self-test: a functional's value / prox / gradient, an operator's value / adjoint
  | "fnl" => do
    let F ← (field? j "f").bind gFnl?
    let v ← fFV? j "v"
    let lam ← fFloat? j "lam"
    some (ok (jObj [("eval", jF (F.eval v)), ("prox", jFV (F.prox lam v)), ("grad", jFV (F.grad v)),
                    ("conj_prox", jFV (conjProx F lam v))]))
  | "op" => do
    let C ← (field? j "C").bind gOp?
    let x ← fFV? j "x"
    let w ← fFV? j "w"
    some (ok (jObj [("app", jFV (C.app x)), ("jadj", jFV (C.jadj x w))]))
  | _ => none

def main : IO Unit := mainLoop handler
