/-
  Driver of the step-size model (`Scico.Model.StepSize`) over the JSON line protocol, at `Float`.

  ops
    bb      {Lprev, xg, gg}                               -> L
    abb     {kappa, Lprev, m1, m2, xx, xg, gg}            -> {L, m1, m2}      (m = null | bits)
    search  {gu, maxiter, L, tests:[[fz,fq],..]}          -> {L, tried, Ls} | err other (maxiter = 0)
            the accept test of trial `it` is `tests[it].fz <= tests[it].fq` (values recorded from the real run);
            a trial beyond the recorded list reads NaN (never accepted), so `tried > len(tests)` shows up
    point   {policy, accel}                               -> "x" | "v"   (argument of update in the solver step)
    run     {Q, b, c, g, gw, x0, L0, policy, accel, steps[, barrier]}  -> [{L, x, res, tried, v, t, margins}] | err
            a whole PGM / AcceleratedPGM trajectory on f(x) = 1/2 x'Qx + b'x + c (real view), g by kind
-/
import Scico.Common.Wire
import Scico.Model.StepSize
open Lean Scico Scico.Wire Scico.StepSize

abbrev FV := Array Float

def vzip (f : Float → Float → Float) (a b : FV) : FV := (a.zip b).map (fun p => f p.1 p.2)
def vdot (a b : FV) : Float := (vzip (· * ·) a b).foldl (· + ·) 0
def matvec (Q : Array FV) (x : FV) : FV := Q.map (fun r => vdot r x)

def proxOf (kind : String) (w : Float) (v : FV) (lam : Float) : FV :=
  match kind with
  | "l1" => v.map (fun a =>
      let m := Float.abs a - lam * w
      -- `sign(a) * maximum(|a| - lam*w, 0)`: a NaN entry stays NaN (iterates outside the domain of a barrier loss)
      -- `sign(a) * 0` is `-0.0` for `a < 0` (the sign of the zero is visible through `w / x` of a barrier loss)
      if a.isNaN || m.isNaN then 0.0 / 0.0 else if 0 < m then (if a < 0 then -m else m) else (if a < 0 then -0.0 else 0.0))
  | "nonneg" => v.map (fun a => if a < 0 then 0 else a)
  | "sql2" => v.map (fun a => a / (1 + 2 * lam * w))
  | _ => v

/-- the problem: `f(x) = 1/2 x'Qx + b'x + c - w·Σ log xᵢ` (`w = 0`: a quadratic; `w > 0`: a loss defined on `x > 0` only,
    NaN outside — IEEE `log` of a negative number), `∇f(x) = Qx + b - w/x` -/
def quadEnv (Q : Array FV) (b : FV) (c : Float) (g : String) (gw : Float) (w : Float := 0.0) : Env FV Float where
  f := fun x =>
    let q := 0.5 * vdot x (matvec Q x) + vdot b x + c
    if w == 0.0 then q else q - w * (x.map Float.log).foldl (· + ·) 0
  grad := fun x =>
    let gq := vzip (· + ·) (matvec Q x) b
    if w == 0.0 then gq else vzip (· - ·) gq (x.map (w / ·))
  prox := proxOf g gw
  add := vzip (· + ·)
  sub := vzip (· - ·)
  smul := fun a v => v.map (a * ·)
  sdiv := fun v c => v.map (· / c)
  reInner := vdot
  norm := fun v => Float.sqrt (vdot v v)

def optF? (j : Json) (k : String) : Option (Option Float) :=
  match field? j k with
  | none => none
  | some .null => some none
  | some v => (getFloat? v).map some

def jOptF : Option Float → Json
  | none => Json.null
  | some v => jF v

def policy? (j : Json) : Option (Policy Float) := do
  let k ← fStr? j "kind"
  match k with
  | "base" => some .base
  | "bb" => some .bb
  | "abb" => some (.abb (← fFloat? j "kappa"))
  | "ls" => some (.ls (← fFloat? j "gu") (← fNat? j "maxiter"))
  | "rls" => some (.rls (← fFloat? j "gd") (← fFloat? j "gu") (← fNat? j "maxiter"))
  | _ => none

def jState (s : PGMState FV Float) : Json :=
  jObj [("L", jF s.L), ("x", jFs s.x.toList), ("res", jF s.res), ("tried", jN s.ps.tried),
        ("v", jFs s.v.toList), ("t", jF s.t), ("Tk", jF s.ps.Tk),
        ("l1", jOptF s.ps.l1), ("l2", jOptF s.ps.l2)]

def runTraj (step : PGMState FV Float → Option (PGMState FV Float)) :
    Nat → PGMState FV Float → List Json → List Json × Bool
  | 0, _, acc => (acc.reverse, true)
  | k + 1, s, acc =>
    match step s with
    | none => (acc.reverse, false)
    | some s' => runTraj step k s' (jState s' :: acc)

def handler : Handler := fun op j =>
  match op with
  | "bb" => do
    let L := bbRule (← fFloat? j "Lprev") (← fFloat? j "xg") (← fFloat? j "gg")
    some (ok (jF L))
  | "abb" => do
    let r := abbRule (← fFloat? j "kappa") (← fFloat? j "Lprev") (← optF? j "m1") (← optF? j "m2")
      (← fFloat? j "xx") (← fFloat? j "xg") (← fFloat? j "gg")
    some (ok (jObj [("L", jF r.1), ("m1", jOptF r.2.1), ("m2", jOptF r.2.2)]))
  | "search" => do
    let gu ← fFloat? j "gu"
    let maxiter ← fNat? j "maxiter"
    let L ← fFloat? j "L"
    let tests ← fFloatss? j "tests"
    let nanv : Float := 0.0 / 0.0
    let trial := fun (it : Nat) (L : Float) =>
      match tests[it]? with
      | some [fz, fq] => (L, fz, fq)
      | _ => (L, nanv, nanv)
    let okf := fun (_ : Float) (b : Float × Float × Float) => decide (b.2.1 ≤ b.2.2)
    match searchLoop gu trial okf maxiter 0 L with
    | none => some (err "other")
    | some (L', _, n) => some (ok (jObj [("L", jF L'), ("tried", jN n)]))
  | "point" => do
    let pol ← policy? (← field? j "policy")
    let accel ← fBool? j "accel"
    -- the model's own choice (`apgmPoint` / `pgmStep`), evaluated on a state whose `x` and `v` are distinguishable
    let probe : PGMState FV Float := { PGMState.init #[0.0] 1.0 0.0 with v := #[1.0] }
    let pt := if accel then apgmPoint pol probe else probe.x
    some (ok (jS (if pt[0]! < 0.5 then "x" else "v")))
  | "run" => do
    let Q ← fFloatss? j "Q"
    let b ← fFloats? j "b"
    let c ← fFloat? j "c"
    let g ← fStr? j "g"
    let gw ← fFloat? j "gw"
    let x0 ← fFloats? j "x0"
    let L0 ← fFloat? j "L0"
    let pol ← policy? (← field? j "policy")
    let accel ← fBool? j "accel"
    let steps ← fNat? j "steps"
    let w := (fFloat? j "barrier").getD 0.0
    let env := quadEnv (Q.map List.toArray).toArray b.toArray c g gw w
    let s0 : PGMState FV Float := PGMState.init x0.toArray L0 (1.0 / 0.0)
    let step := if accel then apgmStep env pol else pgmStep env pol
    let (out, fine) := runTraj step steps s0 []
    some (ok (jObj [("states", jArr out), ("raised", jB (!fine))]))
  | _ => none

def main : IO Unit := mainLoop handler
