/-
  Driver of the `solver.minimize` plumbing model (C18).  Containers travel as
  {"cplx": bool, "isblk": bool, "blocks": [{"shape": [...], "re": [bits...], "im": [bits...]}]}
  (an array is a single entry in "blocks"); floats as IEEE-754 bit patterns.
-/
import Scico.Common.Wire
import Scico.Model.Wrap
open Lean Scico.Wire Scico.Wrap

def arrOfJson? (j : Json) : Option (Arr Float) := do
  some ⟨← fNats? j "shape", ← fFloats? j "re"⟩

def carrOfJson? (j : Json) : Option (Arr (Cx Float)) := do
  let re ← fFloats? j "re"
  let im ← fFloats? j "im"
  if re.length ≠ im.length then none
  else some ⟨← fNats? j "shape", List.zipWith Cx.mk re im⟩

def containerOfJson? (j : Json) : Option (Container Float) := do
  let cplx ← fBool? j "cplx"
  let isblk ← fBool? j "isblk"
  let bl ← fList? j "blocks"
  if cplx then
    let bs ← bl.mapM carrOfJson?
    if isblk then some (.cplx (.blk bs))
    else match bs with
      | [a] => some (.cplx (.arr a))
      | _ => none
  else
    let bs ← bl.mapM arrOfJson?
    if isblk then some (.real (.blk bs))
    else match bs with
      | [a] => some (.real (.arr a))
      | _ => none

def arrJson (a : Arr Float) : Json := jObj [("shape", jNs a.shape), ("re", jFs a.data)]
def carrJson (a : Arr (Cx Float)) : Json :=
  jObj [("shape", jNs a.shape), ("re", jFs (a.data.map Cx.re)), ("im", jFs (a.data.map Cx.im))]

def valJson : Val Float → Json
  | .arr a => jObj [("cplx", jB false), ("isblk", jB false), ("blocks", jArr [arrJson a])]
  | .blk bs => jObj [("cplx", jB false), ("isblk", jB true), ("blocks", jArr (bs.map arrJson))]

def cvalJson : Val (Cx Float) → Json
  | .arr a => jObj [("cplx", jB true), ("isblk", jB false), ("blocks", jArr [carrJson a])]
  | .blk bs => jObj [("cplx", jB true), ("isblk", jB true), ("blocks", jArr (bs.map carrJson))]

def containerJson : Container Float → Json
  | .real x => valJson x
  | .cplx x => cvalJson x

def shapeJson : Shape → Json
  | .flat s => jObj [("flat", jNs s)]
  | .nested ss => jObj [("nested", jArr (ss.map jNs))]

def shapeOfJson? (j : Json) : Option Shape :=
  match field? j "flat" with
  | some v => (getNats? v).map Shape.flat
  | none => match field? j "nested" with
    | some v => (getListOf? getNats? v).map Shape.nested
    | none => none

def dtOfStr? : String → Option DT
  | "float32" => some .f32 | "float64" => some .f64
  | "complex64" => some .c64 | "complex128" => some .c128
  | "int32" => some .i32 | "int64" => some .i64 | "bool" => some .bool
  | _ => none

def dtStr : DT → String
  | .f32 => "float32" | .f64 => "float64" | .c64 => "complex64" | .c128 => "complex128"
  | .i32 => "int32" | .i64 => "int64" | .bool => "bool"

def handler : Handler := fun op j =>
  match op with
  | "flatten" => do        -- x0 -> (work shape, flat vector handed to scipy)
    let c ← containerOfJson? (← field? j "x0")
    some (ok (jObj [("shape", shapeJson (workShape c)), ("v", jFs (x0flat c))]))
  | "result" => do         -- scipy's vector -> returned container
    let c0 ← containerOfJson? (← field? j "x0")
    let v ← fFloats? j "v"
    match result c0 v with
    | none => some (err "type")
    | some c => some (ok (containerJson c))
  | "ravel" => do
    match ← containerOfJson? (← field? j "x") with
    | .real x => some (ok (jFs (ravel x)))
    | .cplx _ => none
  | "unravel" => do
    let v ← fFloats? j "v"
    let sh ← shapeOfJson? (← field? j "shape")
    match unravel v sh with
    | none => some (err "type")
    | some x => some (ok (valJson x))
  | "split" => do
    match ← containerOfJson? (← field? j "x") with
    | .cplx x => some (ok (valJson (splitVal x)))
    | .real _ => none
  | "join" => do
    match ← containerOfJson? (← field? j "x") with
    | .real x =>
      match joinVal x with
      | none => some (err "index")
      | some z => some (ok (cvalJson z))
    | .cplx _ => none
  | "scalar" => do         -- what `minimize_scalar`'s wrapper returns for a result `y` of `func`
    let y ← arrOfJson? (← field? j "y")
    match scalarOf y with
    | none => some (err (if y.shape.head? == some 0 then "index" else "shape"))  -- `y[0]` / `.item()` raise
    | some a => some (ok (jF a))
  | "call_keywords" => do   -- keywords of the inner scipy calls (source order)
    some (ok (jObj [("minimize", jArr (minimizeCallKeywords.map jS)), ("minimize_scalar", jArr (minimizeScalarCallKeywords.map jS))]))
  | "routing" => do
    match field? j "callable" with
    | some _ => some (ok (jB (usesGradM String.toLower .callable)))
    | none =>
      let m ← fStr? j "method"
      some (ok (jB (usesGradM String.toLower (.name m))))
  | "dtype" => do
    let d ← dtOfStr? (← fStr? j "dtype")
    some (ok (jObj [("work", jS (dtStr d.work)), ("result", jS (dtStr (resultDType d))), ("accepted", jB d.isInexact)]))
  | _ => none

def main : IO Unit := mainLoop handler
